(* Base/Heap.v — object graphs: identity is a location, sharing and cycles are ordinary graphs.
   Used by the wildcard model (C14) and the mutation models (C11, C12). *)
From Coq Require Import String Ascii ZArith Bool List Lia.
From Glom Require Import Base.PyVal.
Import ListNotations.
Local Open Scope list_scope.

Inductive atom := ANone | ABool (b : bool) | AInt (z : Z) | AStr (s : string).
Inductive gval := GA (a : atom) | GR (l : nat).

Inductive gnode :=
| NDict (od : bool) (kvs : list (atom * gval))
| NList (xs : list gval)
| NTuple (xs : list gval)
| NObj (cls : nat) (attrs : list (string * gval)).
Definition heap := list gnode.

Definition atom_num (a : atom) : option Z :=
  match a with AInt z => Some z | ABool b => Some (if b then 1 else 0)%Z | _ => None end.
(* Python == on atoms (1 == True) *)
Definition atom_eqb (a b : atom) : bool :=
  match a, b with
  | ANone, ANone => true
  | AStr x, AStr y => String.eqb x y
  | _, _ => match atom_num a, atom_num b with Some x, Some y => Z.eqb x y | _, _ => false end end.
(* identity-level equality of atoms: same type and value *)
Definition atom_same (a b : atom) : bool :=
  match a, b with
  | ANone, ANone => true | ABool x, ABool y => Bool.eqb x y | AInt x, AInt y => Z.eqb x y
  | AStr x, AStr y => String.eqb x y | _, _ => false end.
Definition gval_eqb (a b : gval) : bool :=
  match a, b with GA x, GA y => atom_same x y | GR x, GR y => Nat.eqb x y | _, _ => false end.

Fixpoint akv_lookup {B} (k : atom) (l : list (atom * B)) : option B :=
  match l with [] => None | (k', v) :: r => if atom_eqb k k' then Some v else akv_lookup k r end.

Definition atom_val (a : atom) : val :=
  match a with ANone => VNone | ABool b => VBool b | AInt z => VInt z | AStr s => VStr s end.
Definition atom_int (a : atom) : coerced := py_int (atom_val a).

Definition node_at (h : heap) (l : nat) : option gnode := nth_error h l.

(* the default 'get' handlers on a graph: dict -> key, list/tuple -> int-coerced index, otherwise attribute *)
Definition hget (h : heap) (cur : gval) (seg : atom) : res gval :=
  match cur with
  | GA _ => match seg with
            | AStr s => if safe_attr s then Raise (simple_exn "AttributeError") else Unmodelled "getattr-name"
            | _ => Raise (simple_exn "TypeError") end
  | GR l =>
      match node_at h l with
      | None => Unmodelled "dangling"
      | Some (NDict _ kvs) => match akv_lookup seg kvs with Some v => Ok v | None => Raise (simple_exn "KeyError") end
      | Some (NList xs) | Some (NTuple xs) =>
          match atom_int seg with
          | CInt z => match seq_index xs z with Some v => Ok v | None => Raise (simple_exn "IndexError") end
          | CErr c => Raise (simple_exn c) end
      | Some (NObj _ attrs) =>
          match seg with
          | AStr s => match str_assoc s attrs with
                      | Some v => Ok v
                      | None => if safe_attr s then Raise (simple_exn "AttributeError") else Unmodelled "getattr-name" end
          | _ => Raise (simple_exn "TypeError") end
      end
  end.

(* children in natural order: mapping values, sequence items, attribute values; atoms (strings included) have none *)
Definition children (h : heap) (v : gval) : list gval :=
  match v with
  | GA _ => []
  | GR l => match node_at h l with
            | Some (NDict _ kvs) => map snd kvs
            | Some (NList xs) | Some (NTuple xs) => xs
            | Some (NObj _ attrs) => map snd attrs
            | None => [] end
  end.

Definition set_nth {A} (i : nat) (x : A) (l : list A) : list A :=
  (fix go (i : nat) (l : list A) : list A :=
     match l, i with [], _ => [] | _ :: r, O => x :: r | y :: r, S i => y :: go i r end) i l.
