(* Base/PySlice.v — Python's extended slicing  xs[start:stop:step]  (PySlice_AdjustIndices). *)
From Coq Require Import ZArith Bool List Lia.
Import ListNotations.
Local Open Scope Z_scope.

Definition clamp_idx (len lower upper : Z) (x : Z) : Z :=
  if x <? 0 then Z.max (x + len) lower else Z.min x upper.

(* normalised (start, stop, step); None when step = 0 (ValueError) *)
Definition slice_indices (len : Z) (start stop step : option Z) : option (Z * Z * Z) :=
  let st := match step with Some s => s | None => 1 end in
  if st =? 0 then None else
  let lower := if st <? 0 then -1 else 0 in
  let upper := if st <? 0 then len - 1 else len in
  let a := match start with None => if st <? 0 then upper else lower | Some x => clamp_idx len lower upper x end in
  let b := match stop with None => if st <? 0 then lower else upper | Some x => clamp_idx len lower upper x end in
  Some (a, b, st).

Fixpoint slice_walk {A} (fuel : nat) (xs : list A) (i stop step : Z) : list A :=
  match fuel with O => [] | S fuel =>
  if (if step >? 0 then i <? stop else i >? stop) then
    match nth_error xs (Z.to_nat i) with
    | Some x => x :: slice_walk fuel xs (i + step) stop step
    | None => [] end
  else [] end.

Definition py_slice {A} (xs : list A) (start stop step : option Z) : option (list A) :=
  match slice_indices (Z.of_nat (length xs)) start stop step with
  | None => None
  | Some (a, b, st) => Some (slice_walk (S (length xs)) xs a b st) end.

(* the common cases used by Path's own code: xs[k:], xs[:k], xs[a::2] *)
Definition drop_from {A} (xs : list A) (k : Z) : list A :=
  match py_slice xs (Some k) None None with Some l => l | None => [] end.
Definition take_upto {A} (xs : list A) (k : Z) : list A :=
  match py_slice xs None (Some k) None with Some l => l | None => [] end.
Definition every_other {A} (xs : list A) (a : Z) : list A :=
  match py_slice xs (Some a) None (Some 2) with Some l => l | None => [] end.
