(* Base/PyVal.v — Python values as labelled trees, Python equality, truthiness,
   exceptions and results.  Shared by all tree-shaped models (C01-C03, C07-C10,
   C14-C16).  Graph-shaped models (cycles, mutation) use Base/Heap.v instead. *)
From Coq Require Import String Ascii ZArith Bool List Lia.
Import ListNotations.
Local Open Scope list_scope.

(* ---------- catalogue callables (each has a Python twin in harness/catalogue.py) ---------- *)
Inductive fn :=
| FId            (* lambda x: x *)
| FLen           (* len *)
| FInc           (* lambda x: x + 1 *)
| FDbl           (* lambda x: x * 2 *)
| FEven          (* lambda x: x % 2 == 0 *)
| FConst (z : Z) (* lambda x: z *)
| FRaise (cls : string)   (* raises cls('boom') *)
| FSkipIfOdd     (* lambda x: SKIP if x odd int else x *)
| FStopIfNeg     (* lambda x: STOP if x < 0 else x *)
| FProbe (n : nat)  (* logging identity *)
| FIsNone        (* lambda x: x is None *)
| FAddArgs       (* lambda *a: sum(a)  (ints) *)
| FList | FTuple (* list / tuple constructors *)
| FInt | FStr    (* int / str *)
| FGt (z : Z)    (* functools.partial(operator.lt, z): x > z, no __name__ *)
| FSum | FMax
| FRec.          (* lambda *a, **kw: (a, kw): records how it was called *)

(* ---------- Python types appearing as values ---------- *)
Inductive pytype :=
| TyNone | TyBool | TyInt | TyFloat | TyStr | TyList | TyTuple | TyDict | TyODict
| TySet | TyFrozenset | TyObject | TyCls (n : nat) | TyFunction.

Inductive val :=
| VNone
| VBool (b : bool)
| VInt (z : Z)
| VStr (s : string)
| VList (id : nat) (xs : list val)
| VTuple (id : nat) (xs : list val)
| VDict (id : nat) (od : bool) (kvs : list (val * val))
| VSet (id : nat) (fz : bool) (xs : list val)
| VObj (id : nat) (cls : nat) (attrs : list (string * val))
| VSkip | VStop
| VType (t : pytype)
| VFun (f : fn).
(* [id] is the label of an input object (> 0); objects allocated by glom carry 0.
   Sharing in the input is the same label occurring twice. *)

Definition ident (v : val) : nat :=
  match v with
  | VList i _ | VTuple i _ | VDict i _ _ | VSet i _ _ | VObj i _ _ => i
  | _ => 0 end.

(* ---------- decidable equality helpers ---------- *)
Definition fn_eqb (a b : fn) : bool :=
  match a, b with
  | FId, FId | FLen, FLen | FInc, FInc | FDbl, FDbl | FEven, FEven | FSkipIfOdd, FSkipIfOdd
  | FStopIfNeg, FStopIfNeg | FIsNone, FIsNone | FAddArgs, FAddArgs | FList, FList | FTuple, FTuple
  | FInt, FInt | FStr, FStr | FSum, FSum | FMax, FMax | FRec, FRec => true
  | FConst x, FConst y => Z.eqb x y
  | FGt x, FGt y => Z.eqb x y
  | FRaise x, FRaise y => String.eqb x y
  | FProbe x, FProbe y => Nat.eqb x y
  | _, _ => false end.

Definition pytype_eqb (a b : pytype) : bool :=
  match a, b with
  | TyNone, TyNone | TyBool, TyBool | TyInt, TyInt | TyFloat, TyFloat | TyStr, TyStr | TyList, TyList
  | TyTuple, TyTuple | TyDict, TyDict | TyODict, TyODict | TySet, TySet | TyFrozenset, TyFrozenset
  | TyObject, TyObject | TyFunction, TyFunction => true
  | TyCls x, TyCls y => Nat.eqb x y
  | _, _ => false end.

Definition type_of (v : val) : pytype :=
  match v with
  | VNone => TyNone | VBool _ => TyBool | VInt _ => TyInt | VStr _ => TyStr
  | VList _ _ => TyList | VTuple _ _ => TyTuple
  | VDict _ od _ => if od then TyODict else TyDict
  | VSet _ fz _ => if fz then TyFrozenset else TySet
  | VObj _ c _ => TyCls c
  | VSkip | VStop => TyObject          (* sentinels: only their identity matters *)
  | VType _ => TyObject | VFun _ => TyFunction end.

(* issubclass over the fixed builtin lattice; user classes derive from object only *)
Definition subtype (a b : pytype) : bool :=
  pytype_eqb a b || match a, b with
  | _, TyObject => true
  | TyBool, TyInt => true
  | TyODict, TyDict => true
  | _, _ => false end.
Definition isinstance (v : val) (t : pytype) : bool := subtype (type_of v) t.

(* ---------- Python == ---------- *)
Definition as_num (v : val) : option Z :=
  match v with VInt z => Some z | VBool b => Some (if b then 1 else 0)%Z | _ => None end.

Section Eq.
Variable eqb : val -> val -> bool.
Fixpoint list_eqb (a b : list val) : bool :=
  match a, b with [], [] => true | x :: a, y :: b => eqb x y && list_eqb a b | _, _ => false end.
Fixpoint kv_lookup (k : val) (l : list (val * val)) : option val :=
  match l with [] => None | (k', v) :: r => if eqb k k' then Some v else kv_lookup k r end.
Fixpoint kvs_sub (a b : list (val * val)) : bool :=
  match a with [] => true
  | (k, v) :: r => match kv_lookup k b with Some v' => eqb v v' && kvs_sub r b | None => false end end.
Fixpoint mem (x : val) (l : list val) : bool :=
  match l with [] => false | y :: r => eqb x y || mem x r end.
Fixpoint all_mem (a b : list val) : bool :=
  match a with [] => true | x :: r => mem x b && all_mem r b end.
End Eq.

Fixpoint str_assoc {B} (k : string) (l : list (string * B)) : option B :=
  match l with [] => None | (k', v) :: r => if String.eqb k k' then Some v else str_assoc k r end.

Fixpoint attrs_eqb (eqb : val -> val -> bool) (a b : list (string * val)) : bool :=
  match a, b with
  | [], [] => true
  | (k, x) :: a, (k', y) :: b => String.eqb k k' && eqb x y && attrs_eqb eqb a b
  | _, _ => false end.

(* fuel = nesting depth; [val_eqb] below supplies ample fuel from the size of its arguments *)
Fixpoint py_eqb_f (fuel : nat) (a b : val) {struct fuel} : bool :=
  match fuel with O => false | S fuel =>
  let eqb := py_eqb_f fuel in
  match a, b with
  | VNone, VNone => true
  | VStr x, VStr y => String.eqb x y
  | VList _ x, VList _ y => list_eqb eqb x y
  | VTuple _ x, VTuple _ y => list_eqb eqb x y
  | VDict _ _ x, VDict _ _ y => Nat.eqb (length x) (length y) && kvs_sub eqb x y
  | VSet _ _ x, VSet _ _ y => Nat.eqb (length x) (length y) && all_mem eqb x y
  | VObj i _ _, VObj j _ _ => Nat.eqb i j && negb (Nat.eqb i 0)    (* default object ==: identity *)
  | VSkip, VSkip | VStop, VStop => true
  | VType x, VType y => pytype_eqb x y
  | VFun x, VFun y => fn_eqb x y
  | _, _ => match as_num a, as_num b with Some x, Some y => Z.eqb x y | _, _ => false end
  end end.

Fixpoint depth (v : val) : nat :=
  let fix ld (l : list val) := match l with [] => 0 | x :: r => Nat.max (depth x) (ld r) end in
  match v with
  | VList _ xs | VTuple _ xs | VSet _ _ xs => S (ld xs)
  | VDict _ _ kvs =>
      S ((fix kd (l : list (val * val)) := match l with [] => 0 | (k, x) :: r => Nat.max (Nat.max (depth k) (depth x)) (kd r) end) kvs)
  | VObj _ _ attrs =>
      S ((fix ad (l : list (string * val)) := match l with [] => 0 | (_, x) :: r => Nat.max (depth x) (ad r) end) attrs)
  | _ => 1 end.

Definition py_eqb (a b : val) : bool := py_eqb_f (S (depth a)) a b.

(* identity: same label for containers, same type and value for atoms *)
Definition same_obj (a b : val) : bool :=
  match a, b with
  | VNone, VNone => true
  | VBool x, VBool y => Bool.eqb x y
  | VInt x, VInt y => Z.eqb x y
  | VStr x, VStr y => String.eqb x y
  | VSkip, VSkip | VStop, VStop => true
  | VType x, VType y => pytype_eqb x y
  | VFun x, VFun y => fn_eqb x y
  | _, _ => negb (Nat.eqb (ident a) 0) && Nat.eqb (ident a) (ident b) && pytype_eqb (type_of a) (type_of b)
  end.

(* structural equality including labels: what the correspondence compares *)
Fixpoint val_eqb_f (fuel : nat) (a b : val) {struct fuel} : bool :=
  match fuel with O => false | S fuel =>
  let eqb := val_eqb_f fuel in
  let fix kvl (x y : list (val * val)) := match x, y with
      | [], [] => true | (k, v) :: x, (k', v') :: y => eqb k k' && eqb v v' && kvl x y | _, _ => false end in
  match a, b with
  | VNone, VNone => true
  | VBool x, VBool y => Bool.eqb x y
  | VInt x, VInt y => Z.eqb x y
  | VStr x, VStr y => String.eqb x y
  | VList i x, VList j y => Nat.eqb i j && list_eqb eqb x y
  | VTuple i x, VTuple j y => Nat.eqb i j && list_eqb eqb x y
  | VDict i o x, VDict j p y => Nat.eqb i j && Bool.eqb o p && kvl x y
  | VSet i o x, VSet j p y => Nat.eqb i j && Bool.eqb o p && list_eqb eqb x y
  | VObj i c x, VObj j d y => Nat.eqb i j && Nat.eqb c d && attrs_eqb eqb x y
  | VSkip, VSkip | VStop, VStop => true
  | VType x, VType y => pytype_eqb x y
  | VFun x, VFun y => fn_eqb x y
  | _, _ => false end end.
Definition val_eqb (a b : val) : bool := val_eqb_f (S (depth a)) a b.

Definition truthy (v : val) : bool :=
  match v with
  | VNone => false | VBool b => b | VInt z => negb (Z.eqb z 0) | VStr s => negb (String.eqb s "")
  | VList _ xs | VTuple _ xs | VSet _ _ xs => match xs with [] => false | _ => true end
  | VDict _ _ kvs => match kvs with [] => false | _ => true end
  | VSkip | VStop => false          (* boltons sentinels define __bool__ as False *)
  | _ => true end.

(* forget identity labels: value-level comparison *)
Fixpoint strip_ids (v : val) : val :=
  match v with
  | VList _ xs => VList 0 (map strip_ids xs)
  | VTuple _ xs => VTuple 0 (map strip_ids xs)
  | VSet _ fz xs => VSet 0 fz (map strip_ids xs)
  | VDict _ od kvs => VDict 0 od ((fix go (l : list (val * val)) := match l with [] => [] | (k, x) :: r => (strip_ids k, strip_ids x) :: go r end) kvs)
  | VObj _ c attrs => VObj 0 c ((fix go (l : list (string * val)) := match l with [] => [] | (k, x) :: r => (k, strip_ids x) :: go r end) attrs)
  | _ => v end.
Definition val_eqb_noid (a b : val) : bool := val_eqb (strip_ids a) (strip_ids b).

(* ---------- exceptions and results ---------- *)
Record exn := mkExn { ecls : string; eidx : nat; einner : string; emsg : string }.
(* ecls: class name; eidx: part_idx (PathAccessError) ; einner: class of the wrapped lookup error *)
Definition exn_eqb (a b : exn) : bool :=
  String.eqb (ecls a) (ecls b) && Nat.eqb (eidx a) (eidx b) && String.eqb (einner a) (einner b).
Definition simple_exn (c : string) : exn := mkExn c 0 "" "".
Definition pae (inner : string) (k : nat) : exn := mkExn "PathAccessError" k inner "".

Inductive res (A : Type) :=
| Ok (a : A)
| Raise (e : exn)
| Unmodelled (tag : string)   (* Python would do something this model does not represent *)
| OutOfFuel.
Arguments Ok {A}. Arguments Raise {A}. Arguments Unmodelled {A}. Arguments OutOfFuel {A}.

Definition bind {A B} (r : res A) (f : A -> res B) : res B :=
  match r with Ok a => f a | Raise e => Raise e | Unmodelled t => Unmodelled t | OutOfFuel => OutOfFuel end.
Notation "'do' x <- r ; k" := (bind r (fun x => k)) (at level 200, x pattern, r at level 100, k at level 200).

Definition res_eqb {A} (eqb : A -> A -> bool) (a b : res A) : bool :=
  match a, b with
  | Ok x, Ok y => eqb x y
  | Raise x, Raise y => exn_eqb x y
  | Unmodelled _, Unmodelled _ => true
  | OutOfFuel, OutOfFuel => true
  | _, _ => false end.

(* generic helper for the correspondence: indexes of cases on which [chk] is false *)
Fixpoint mismatches_from {C} (chk : C -> bool) (i : nat) (cs : list C) : list nat :=
  match cs with [] => [] | c :: r => if chk c then mismatches_from chk (S i) r else i :: mismatches_from chk (S i) r end.
Definition mismatches {C} (chk : C -> bool) (cs : list C) : list nat := mismatches_from chk 0 cs.
Fixpoint count_if {C} (p : C -> bool) (cs : list C) : nat :=
  match cs with [] => 0 | c :: r => (if p c then 1 else 0) + count_if p r end.

(* ---------- integer coercion of a path segment: int(x) ---------- *)
Definition digit_of (c : ascii) : option Z :=
  let n := nat_of_ascii c in
  if (48 <=? n)%nat && (n <=? 57)%nat then Some (Z.of_nat (n - 48)) else None.
Fixpoint parse_digits (s : string) (acc : Z) : option Z :=
  match s with
  | EmptyString => Some acc
  | String c r => match digit_of c with Some d => parse_digits r (acc * 10 + d)%Z | None => None end end.
(* plain decimal, optional leading '-'; anything fancier (spaces, '_', '+') is generated out *)
Definition parse_int (s : string) : option Z :=
  match s with
  | EmptyString => None
  | String "-"%char r => match r with EmptyString => None | _ => option_map Z.opp (parse_digits r 0) end
  | _ => parse_digits s 0 end.

Definition is_lower (c : ascii) : bool := let n := nat_of_ascii c in (97 <=? n)%nat && (n <=? 122)%nat.
Definition is_ident_char (c : ascii) : bool :=
  let n := nat_of_ascii c in
  ((97 <=? n)%nat && (n <=? 122)%nat) || ((65 <=? n)%nat && (n <=? 90)%nat) || ((48 <=? n)%nat && (n <=? 57)%nat) || (n =? 95)%nat.
Definition safe_attr (s : string) : bool :=
  (* names that cannot be attributes of builtin values: at most two characters, k<digit>..., or not an identifier *)
  match s with
  | EmptyString | String _ EmptyString | String _ (String _ EmptyString) => negb (String.eqb s "__")
  | String "k"%char (String d _) => match digit_of d with Some _ => true | None => negb (forallb is_ident_char (list_ascii_of_string s)) end
  | _ => negb (forallb is_ident_char (list_ascii_of_string s)) end.

Inductive coerced := CInt (z : Z) | CErr (cls : string).
Definition py_int (v : val) : coerced :=
  match v with
  | VInt z => CInt z
  | VBool b => CInt (if b then 1 else 0)
  | VStr s => match parse_int s with Some z => CInt z | None => CErr "ValueError" end
  | _ => CErr "TypeError" end.

(* sequence indexing with Python's negative indexes *)
Definition seq_index {A} (xs : list A) (i : Z) : option A :=
  let n := Z.of_nat (length xs) in
  if (0 <=? i)%Z && (i <? n)%Z then nth_error xs (Z.to_nat i)
  else if (i <? 0)%Z && (- n <=? i)%Z then nth_error xs (Z.to_nat (n + i))
  else None.

(* hashability of a dict key *)
Fixpoint hashable (v : val) : bool :=
  match v with
  | VList _ _ | VDict _ _ _ => false
  | VSet _ fz _ => fz
  | VTuple _ xs => forallb hashable xs
  | _ => true end.
