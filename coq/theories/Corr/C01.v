(* Corr/C01.v — what the correspondence for C01 compares *)
From Coq Require Import String ZArith Bool List.
From Glom Require Import Base.PyVal Model.TEval Model.Exc Spec.PathSpec.
Import ListNotations.
Local Open Scope string_scope.

Inductive c01_spec := SText (star : bool) (t : string) | SParts (ps : list part).
Record c01_case := mkC01 { c_target : val; c_spec : c01_spec; c_impl : res val; c_isa : list string }.

Definition c01_catalogue : list string :=
  ["GlomError"; "PathAccessError"; "KeyError"; "IndexError"; "AttributeError"; "TypeError"; "ValueError"; "ZeroDivisionError"; "LookupError"].

Definition c01_model (c : c01_case) : res val :=
  match c_spec c with
  | SText st t => t_eval default_fuel (c_target c) (from_text st t)
  | SParts ps => glom_path_parts (c_target c) ps end.

(* the Spec-layer reference, where it applies (plain segments only) *)
Definition c01_spec_outcome (c : c01_case) : option (res val) :=
  match c_spec c with
  | SText st t => option_map (fun segs => access segs 0 (c_target c)) (text_segments st t)
  | SParts ps => option_map (fun segs => access segs 0 (c_target c)) (plain_segments ps) end.

Definition c01_check (c : c01_case) : bool :=
  let m := c01_model c in
  match c01_spec_outcome c with
  | Some (Unmodelled _) | None => true
  | Some s => res_eqb val_eqb s (c_impl c) end &&
  match m with
  | Unmodelled _ => true          (* outside the modelled domain: not counted, reported by c01_unmodelled *)
  | _ =>
    res_eqb val_eqb m (c_impl c) &&
    match m with
    | Raise e => strs_eqb (isa_among (ecls e) c01_catalogue) (c_isa c)
    | _ => true end
  end.
Definition c01_unmodelled (c : c01_case) : bool := match c01_model c with Unmodelled _ => true | _ => false end.
