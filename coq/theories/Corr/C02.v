(* Corr/C02.v — what the correspondence for C02 compares *)
From Coq Require Import String ZArith Bool List.
From Glom Require Import Base.PyVal Model.TEval Spec.TSpec.
Import ListNotations.
Local Open Scope string_scope.

Record c02_case := mkC02 { c2_target : val; c2_ops : list (string * arg); c2_impl : res val }.

Definition c02_model (c : c02_case) : res val := glom_t (c2_target c) (c2_ops c).
Definition c02_spec (c : c02_case) : res val := t_spec (pred default_fuel) (c2_target c) (c2_ops c).

Definition c02_check (c : c02_case) : bool :=
  match c02_model c with
  | Unmodelled _ => true
  | m => res_eqb val_eqb_noid m (c2_impl c) end
  && match c02_spec c with
     | Unmodelled _ => true
     | s => res_eqb val_eqb_noid s (c2_impl c) end.
Definition c02_unmodelled (c : c02_case) : bool :=
  match c02_model c, c02_spec c with Unmodelled _, Unmodelled _ => true | _, _ => false end.
