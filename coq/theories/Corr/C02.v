(* Corr/C02.v — what the correspondence for C02 compares *)
From Coq Require Import String ZArith Bool List.
From Glom Require Import Base.PyVal Model.TEval Spec.TSpec.
Import ListNotations.
Local Open Scope string_scope.

Record c02_case := mkC02 { c2_target : val; c2_ops : list (string * arg); c2_impl : res val }.

Definition c02_model (c : c02_case) : res val := glom_t (c2_target c) (c2_ops c).
Definition c02_spec (c : c02_case) : res val := t_spec (pred default_fuel) (c2_target c) (c2_ops c).

(* identity is compared on dicts (tuples are excluded: CPython may return an operand itself for t + () and t * 1) *)
Fixpoint dict_ids_f (fuel : nat) (v : val) : list nat :=
  match fuel with O => [] | S fuel =>
  match v with
  | VList _ xs | VTuple _ xs | VSet _ _ xs => flat_map (dict_ids_f fuel) xs
  | VDict i _ kvs => i :: flat_map (fun kv => dict_ids_f fuel (snd kv)) kvs
  | _ => [] end end.
Definition dict_ids (v : val) : list nat := dict_ids_f (S (depth v)) v.
Fixpoint nats_eqb (a b : list nat) : bool :=
  match a, b with [], [] => true | x :: a, y :: b => Nat.eqb x y && nats_eqb a b | _, _ => false end.
Definition eqb_c02 (a b : val) : bool := val_eqb_noid a b && nats_eqb (dict_ids a) (dict_ids b).

Definition c02_check (c : c02_case) : bool :=
  match c02_model c with
  | Unmodelled _ => true
  | m => res_eqb eqb_c02 m (c2_impl c) end
  && match c02_spec c with
     | Unmodelled _ => true
     | s => res_eqb eqb_c02 s (c2_impl c) end.
Definition c02_unmodelled (c : c02_case) : bool :=
  match c02_model c, c02_spec c with Unmodelled _, Unmodelled _ => true | _, _ => false end.
