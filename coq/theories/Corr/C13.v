(* Corr/C13.v — what the correspondence for C13 compares: a history of register / lookup events replayed on the
   model registry, starting from the observed initial registry state; plus boolean checks of the hypotheses the
   theorems make about the class universe and the initial trees. *)
From Coq Require Import String Bool List Arith.
From Glom Require Import Model.Registry.
Import ListNotations.

Record universe := mkU {
  u_sub : list (list bool);          (* issubclass matrix *)
  u_inst : list (list bool);         (* isinstance(obj of type row, col) *)
  u_mro : list (list nat);
  u_auto : list (string * list handler) }.   (* per op: handler the auto function returns for each class *)

Definition tbl (m : list (list bool)) (a b : nat) : bool := nth b (nth a m []) false.
Definition sub_of (u : universe) := tbl (u_sub u).
Definition inst_of (u : universe) := tbl (u_inst u).
Definition mro_of (u : universe) (t : nat) : list nat := nth t (u_mro u) [].
Definition auto_of (u : universe) (op : string) (c : nat) : handler :=
  match sassoc op (u_auto u) with Some l => nth c l HFalse | None => HFalse end.

Inductive event :=
| ERegister (target : nat) (kw : list (string * handler)) (exact : bool)
| ELookup (op : string) (t : nat) (impl : option handler).

Record c13_case := mkC13 { c_u : universe; c_init : registry; c_events : list event }.

Definition oh_eqb (a b : option handler) : bool :=
  match a, b with Some x, Some y => handler_eqb x y | None, None => true | _, _ => false end.

Fixpoint replay (u : universe) (r : registry) (es : list event) : bool :=
  match es with
  | [] => true
  | ERegister tg kw ex :: rest => replay u (register (sub_of u) (auto_of u) r tg kw ex) rest
  | ELookup op t impl :: rest =>
      let '(h, r') := get_handler (inst_of u) (mro_of u) r op t in
      oh_eqb h impl && replay u r' rest
  end.

(* hypotheses of the theorems, checked on the concrete universe: real bases match (mro -> inst);
   inst is upward closed along sub edges; a class precedes its bases in the MRO (C3); initial trees well formed *)
Definition classes (u : universe) : list nat := seq 0 (length (u_sub u)).
(* classes that have instances (the duck types themselves are never looked up) *)
Definition lookup_classes (u : universe) : list nat := filter (fun t => inst_of u t t) (classes u).
Definition hyp_ok (u : universe) (r : registry) : bool :=
  forallb (fun t => forallb (fun c => inst_of u t c) (mro_of u t)) (lookup_classes u)
  && forallb (fun t => forallb (fun d => forallb (fun c =>
        implb (inst_of u t d && sub_of u d c) (inst_of u t c)) (classes u)) (classes u)) (lookup_classes u)
  && forallb (fun t => forallb (fun d => forallb (fun c =>
        implb (sub_of u d c)
              (match idx (mro_of u) t d, idx (mro_of u) t c with Some i, Some j => Nat.leb i j | _, _ => false end))
        (mro_of u t)) (mro_of u t)) (lookup_classes u)
  && forallb (fun o => wffb (sub_of u) (ttree (snd o))) (ops r).

Definition c13_check (c : c13_case) : bool := replay (c_u c) (c_init c) (c_events c).
Definition c13_hyp (c : c13_case) : bool := hyp_ok (c_u c) (c_init c).
