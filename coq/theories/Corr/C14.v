(* Corr/C14.v — what the correspondence for C14 compares *)
From Coq Require Import String ZArith Bool List.
From Glom Require Import Base.PyVal Base.Heap Model.Wild.
Import ListNotations.

Record c14_case := mkC14 { w_heap : heap; w_target : gval; w_steps : list wstep; w_impl : res wres }.
Definition c14_model (c : c14_case) : res wres := weval (w_heap c) (w_steps c) 0 (w_target c).
Definition c14_check (c : c14_case) : bool :=
  match c14_model c with
  | Unmodelled _ => true
  | m => res_eqb wres_eqb m (w_impl c) end.
Definition c14_unmodelled (c : c14_case) : bool := match c14_model c with Unmodelled _ => true | _ => false end.
