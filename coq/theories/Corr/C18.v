(* Corr/C18.v — what the correspondence for C18 compares *)
From Coq Require Import String ZArith Bool List.
From Glom Require Import Base.PyVal Base.PySlice Generated.PathOps Model.TEval Model.PathSeq Model.TRepr.
Import ListNotations.
Local Open Scope string_scope.

Inductive seq_op :=
| OLen | OValues | OItems | OGetInt (i : Z) | OGetSlice (a b c : option Z) | OStartswith (o : list string)
| OEq (o : list string) | OConcat (o : list string) | OStars.
Inductive seq_out := RZ (z : Z) | RList (l : list string) | RPairs (l : list (string * string)) | RBool (b : bool) | RErr (cls : string).

Inductive c18_case :=
| CRepr (is_path : bool) (e : texpr) (impl_toks : list tok) (evald : option texpr)
| CSeq (ops : list string) (o : seq_op) (impl : seq_out).

Fixpoint strs_eq (a b : list string) : bool :=
  match a, b with [], [] => true | x :: a, y :: b => String.eqb x y && strs_eq a b | _, _ => false end.
Fixpoint pairs_eq (a b : list (string * string)) : bool :=
  match a, b with [], [] => true | (x, y) :: a, (u, v) :: b => String.eqb x u && String.eqb y v && pairs_eq a b | _, _ => false end.

Definition seq_model (ops : list string) (o : seq_op) : seq_out :=
  match o with
  | OLen => RZ (path_len ops)
  | OValues => RList (path_values ops)
  | OItems => RPairs (path_items ops)
  | OGetInt i => match path_getitem_int ops i with Some l => RList l | None => RErr "IndexError" end
  | OGetSlice a b c => match path_getitem_slice ops a b c with Some l => RList l | None => RErr "ValueError" end
  | OStartswith p => RBool (path_startswith String.eqb ops p)
  | OEq p => RBool (path_eq String.eqb ops p)
  | OConcat p => RList (path_concat ops p)
  | OStars => RZ (Z.of_nat (stars_count ops)) end.

Definition seq_out_eqb (a b : seq_out) : bool :=
  match a, b with
  | RZ x, RZ y => Z.eqb x y | RList x, RList y => strs_eq x y | RPairs x, RPairs y => pairs_eq x y
  | RBool x, RBool y => Bool.eqb x y | RErr x, RErr y => String.eqb x y | _, _ => false end.

Definition repr_model (is_path : bool) (e : texpr) : list tok :=
  if is_path then fmt_path true e else fmt_t true e.

Definition c18_check (c : c18_case) : bool :=
  match c with
  | CRepr is_path e toks evald =>
      toks_eqb (repr_model is_path e) toks
      && match parse_top 40 toks with Some e' => texpr_eqb e' e | None => false end
      && match evald with Some e' => texpr_eqb e' e | None => false end
  | CSeq ops o impl => seq_out_eqb (seq_model ops o) impl end.
