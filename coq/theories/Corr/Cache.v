(* Corr/Cache.v — C06: histories of Path.from_text calls (texts, PATH_STAR settings, a small _MAX_CACHE set on the class)
   against Model/Cache.v instantiated with the model's path construction. *)
From Coq Require Import String ZArith Bool List.
From Glom Require Import Base.PyVal Model.TEval Model.Cache.
Import ListNotations.
Local Open Scope string_scope.

(* what is observed of a Path: its operation codes and the literal segments *)
Fixpoint codes_of (cs : list cell) : string :=
  match cs with
  | [] => ""
  | CCode c :: r => c ++ codes_of r
  | _ :: r => codes_of r end.
Fixpoint segs_of (cs : list cell) : list string :=
  match cs with
  | [] => []
  | CArg (ALit (VStr s)) :: r => s :: segs_of r
  | _ :: r => segs_of r end.

Record hop := mkH { h_star : bool; h_text : string; h_codes : string; h_segs : list string; h_cached_after : bool }.
Record ccase := mkCC { cc_max : Z; cc_ops : list hop; cc_keys_star : list string; cc_keys_plain : list string }.

Fixpoint strs_eqb (a b : list string) : bool :=
  match a, b with [], [] => true | x :: a, y :: b => String.eqb x y && strs_eqb a b | _, _ => false end.

Fixpoint replay (maxc : Z) (c : @caches (list cell)) (ops : list hop) : bool * caches :=
  match ops with
  | [] => (true, c)
  | o :: r =>
      let '(p, c') := Cache.from_text TEval.from_text maxc (h_star o) c (h_text o) in
      let ok := String.eqb (codes_of p) (h_codes o) && strs_eqb (segs_of p) (h_segs o) &&
                Bool.eqb (match str_assoc (h_text o) (sel (h_star o) c') with Some _ => true | None => false end) (h_cached_after o) in
      let '(ok', c'') := replay maxc c' r in (ok && ok', c'') end.

Definition cc_check (c : ccase) : bool :=
  let '(ok, fin) := replay (cc_max c) empty (cc_ops c) in
  ok && strs_eqb (map fst (c_star fin)) (cc_keys_star c) && strs_eqb (map fst (c_plain fin)) (cc_keys_plain c).

Definition cc_model (c : ccase) : list string * list string :=
  let '(_, fin) := replay (cc_max c) empty (cc_ops c) in (map fst (c_star fin), map fst (c_plain fin)).
