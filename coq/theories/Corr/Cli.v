(* Corr/Cli.v — C19: what `glom` printed and returned against Model/Cli.v *)
From Coq Require Import String ZArith Bool List.
From Glom Require Import Base.PyVal Model.TEval Model.Interp Model.Cli.
Import ListNotations.
Local Open Scope string_scope.

(* the implementation's run: standard output, and how it ended *)
Inductive ended := EStatus (n : Z) | EUsageError | EException (cls : string).
Record clicase := mkCli { k_world : world; k_flags : flags; k_posargs : list string; k_stdout : string; k_ended : ended }.

Definition cli_model (c : clicase) : outcome := cli (k_world c) (k_flags c) (k_posargs c).

Fixpoint prefix (p s : string) : bool :=
  match p, s with
  | EmptyString, _ => true
  | String a p', String b s' => Ascii.eqb a b && prefix p' s'
  | _, _ => false end.

Definition cli_check (c : clicase) : bool :=
  match cli_model c, k_ended c with
  | CUnm _, _ => true
  | COut text, EStatus 0 => String.eqb text (k_stdout c)
  | CGlomError cls, EStatus 1 => prefix (cls ++ ": ") (k_stdout c)
  | CUsage, EUsageError => String.eqb (k_stdout c) ""
  | CCrash cls, EException cls' => String.eqb cls cls'
  | _, _ => false end.

Definition cli_unmodelled (c : clicase) : bool := match cli_model c with CUnm _ => true | _ => false end.
