(* Corr/Exit.v — C04 correspondence: a spec with a planted fault evaluated by the interpreter model, the exit logic of
   Model/Exit.v applied to the outcome, compared with what left the real glom(). *)
From Coq Require Import String ZArith Bool List.
From Glom Require Import Base.PyVal Model.Exc Model.TEval Model.Interp Model.Exit.
Import ListNotations.
Local Open Scope string_scope.

(* what the harness observed *)
Inductive seen :=
| OValue (v : res val)                 (* returned normally: the value (Unmodelled when not representable) *)
| ODefault                             (* returned the effective default object *)
| OSame (cls : string)                 (* the very object that was raised *)
| ONew (wrapped : bool) (cls : string) (args_same attrs_kept : bool) (isa : list string)
| OOther (cls : string) (isa : list string).       (* an exception glom raised itself *)

Record xcase := mkXC { xc_target : val; xc_spec : spec; xc_scope : list (string * val);
                       xc_planted : excobj; xc_opts : opts; xc_cat : list string; xc_seen : seen }.

Definition planted_hit (c : xcase) (e : exn) : bool := String.eqb (ecls e) (x_cls (xc_planted c)).

Definition isa_list (f : string -> bool) (cat : list string) : list string := filter f cat.

Definition is_none_default (o : opts) : bool := match eff_default o with Some VNone => true | _ => false end.

Definition x_model (c : xcase) : res val := fst (glom_top true (xc_scope c) (xc_target c) (xc_spec c)).

Definition x_check (c : xcase) : bool :=
  match x_model c with
  | Unmodelled _ | OutOfFuel => true
  | Ok v => match xc_seen c with
            | OValue iv => res_eqb val_eqb (Ok v) iv || match iv with Unmodelled _ => true | _ => false end
            | ODefault => is_none_default (xc_opts c) && val_eqb v VNone
            | _ => false end
  | Raise e =>
      (* the exception object: the planted one, or — for the generator's own plain raisers and for errors glom
         detects itself — a plain re-creatable object of the class the interpreter model reports *)
      let p := if planted_hit c e then xc_planted c else mkX (ecls e) [] [] (Some []) in
      let f := exit (xc_opts c) p in
      match f, xc_seen c with
      | FDefault, ODefault => true
      | FDefault, OValue iv => is_none_default (xc_opts c) && res_eqb val_eqb (Ok VNone) iv
      | FSame, OSame cls => String.eqb cls (x_cls p)
      | FSame, OOther cls' isa => String.eqb (x_cls p) cls' && strs_eqb isa (isa_list (final_isa p f) (xc_cat c))
      | FNew w cls _ _, ONew w' cls' args_same attrs_kept isa =>
          Bool.eqb w w' && String.eqb cls cls' && args_same && attrs_kept && strs_eqb isa (isa_list (final_isa p f) (xc_cat c))
      | FNew w cls _ _, OOther cls' isa => String.eqb cls cls' && strs_eqb isa (isa_list (final_isa p f) (xc_cat c))
      | _, _ => false end
  end.

Definition x_unmodelled (c : xcase) : bool := match x_model c with Unmodelled _ | OutOfFuel => true | _ => false end.
