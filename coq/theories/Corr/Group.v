From Coq Require Import String ZArith Bool List.
From Glom Require Import Base.PyVal Model.TEval Model.Reduce Model.Group Spec.GroupSpec.
Import ListNotations.

Record gcase := mkG { g_target : val; g_spec : gspec; g_impl : res val }.
Definition g_model (c : gcase) : res val := group (g_spec c) (g_target c).
(* the reference: for the family covered by the bucketing theorem, the closed form [ref_of] the theorem is stated for;
   otherwise the generic loop [group_ref] *)
Definition g_ref (c : gcase) : res val :=
  match target_items (g_target c) with
  | Ok items =>
      match of_g (g_spec c), items, group_ref (g_spec c) items with
      | Some b, _ :: _, Ok _ => Ok (ref_of b items)          (* no function of the spec fails on these items *)
      | Some b, [], Ok _ => Ok (group_init (g_spec c))
      | _, _, r => r end
  | _ => Unmodelled "target" end.
Definition g_check (c : gcase) : bool :=
  match g_model c with Unmodelled _ => true | m => res_eqb val_eqb_noid m (g_impl c) end.
(* does the implementation agree with the reference loop? (used to classify known findings) *)
Definition g_ref_agrees (c : gcase) : bool :=
  match g_ref c with Unmodelled _ => true | m => res_eqb val_eqb_noid m (g_impl c) end.
Definition g_unmodelled (c : gcase) : bool := match g_model c with Unmodelled _ => true | _ => false end.

Definition g_check_both (c : gcase) : bool := g_check c && g_ref_agrees c.
