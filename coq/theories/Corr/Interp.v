(* Corr/Interp.v — what the correspondence for the interpreter properties (C03, C07, C08, C09, C10) compares:
   the value or exception of glom(target, spec, scope=...) and the log of probe calls, in order. *)
From Coq Require Import String ZArith Bool List.
From Glom Require Import Base.PyVal Model.TEval Model.Interp.
Import ListNotations.

Record icase := mkI { i_target : val; i_spec : spec; i_scope : list (string * val); i_impl : res val; i_log : list (nat * val) }.

Definition i_model (c : icase) : res val * state := glom_top true (i_scope c) (i_target c) (i_spec c).

Fixpoint log_eqb (a b : list (nat * val)) : bool :=
  match a, b with
  | [], [] => true
  | (n, x) :: a, (m, y) :: b => Nat.eqb n m && val_eqb x y && log_eqb a b
  | _, _ => false end.

Definition i_check (c : icase) : bool :=
  match i_model c with
  | (Unmodelled _, _) => true
  | (m, st) => res_eqb val_eqb m (i_impl c) && log_eqb (log st) (i_log c) end.
(* Match fills in the defaults of absent Optional keys in the iteration order of a Python set: the ORDER of those entries in
   the result dict is unspecified (hash order), so for match results dicts are compared as unordered collections of entries *)
Fixpoint val_peqb_f (fuel : nat) (a b : val) {struct fuel} : bool :=
  match fuel with O => false | S fuel =>
  let eqb := val_peqb_f fuel in
  let fix has (k v : val) (y : list (val * val)) := match y with
      | [] => false | (k', v') :: r => (eqb k k' && eqb v v') || has k v r end in
  let fix sub (x y : list (val * val)) := match x with [] => true | (k, v) :: r => has k v y && sub r y end in
  match a, b with
  | VList i x, VList j y => Nat.eqb i j && list_eqb eqb x y
  | VTuple i x, VTuple j y => Nat.eqb i j && list_eqb eqb x y
  | VDict i o x, VDict j p y => Nat.eqb i j && Bool.eqb o p && Nat.eqb (length x) (length y) && sub x y && sub y x
  | _, _ => val_eqb a b end end.
Definition val_peqb (a b : val) : bool := val_peqb_f (S (depth a)) a b.

Definition i_check_perm (c : icase) : bool :=
  match i_model c with
  | (Unmodelled _, _) => true
  | (m, st) => res_eqb val_peqb m (i_impl c) && log_eqb (log st) (i_log c) end.

Definition i_unmodelled (c : icase) : bool := match i_model c with (Unmodelled _, _) => true | _ => false end.
