(* Corr/Interp.v — what the correspondence for the interpreter properties (C03, C07, C08, C09, C10) compares:
   the value or exception of glom(target, spec, scope=...) and the log of probe calls, in order. *)
From Coq Require Import String ZArith Bool List.
From Glom Require Import Base.PyVal Model.TEval Model.Interp.
Import ListNotations.

Record icase := mkI { i_target : val; i_spec : spec; i_scope : list (string * val); i_impl : res val; i_log : list (nat * val) }.

Definition i_model (c : icase) : res val * state := glom_top true (i_scope c) (i_target c) (i_spec c).

Fixpoint log_eqb (a b : list (nat * val)) : bool :=
  match a, b with
  | [], [] => true
  | (n, x) :: a, (m, y) :: b => Nat.eqb n m && val_eqb x y && log_eqb a b
  | _, _ => false end.

Definition i_check (c : icase) : bool :=
  match i_model c with
  | (Unmodelled _, _) => true
  | (m, st) => res_eqb val_eqb m (i_impl c) && log_eqb (log st) (i_log c) end.
Definition i_unmodelled (c : icase) : bool := match i_model c with (Unmodelled _, _) => true | _ => false end.
