(* Corr/Iter.v — correspondence cases for C17: the implementation's observations against Model/Iter.v *)
From Coq Require Import String ZArith Bool List.
From Glom Require Import Base.PyVal Model.TEval Model.Reduce Model.Iter.
Import ListNotations.

Definition obs : Type := list val * ending * nat.

Inductive bop := BNew (sub : cb) (sentinel : val) | BDerive (i : nat) (st : stage).

Inductive icase :=
| ITake (stages : list stage) (src : source) (k : option nat) (impl : obs)
| IFirst (stages : list stage) (key : cb) (default : val) (src : source) (impl : res val * nat)
| IAll (stages : list stage) (src : source) (impl : res val)
| IBuilder (ops : list bop) (src : source) (impl : list obs).

Definition fuel0 : nat := 200.

Definition ending_eqb (a b : ending) : bool :=
  match a, b with
  | EGotK, EGotK | EExhausted, EExhausted | EFuel, EFuel => true
  | ERaised x, ERaised y => exn_eqb x y
  | _, _ => false end.

Definition obs_eqb (m i : obs) : bool :=
  let '(mo, me, mp) := m in let '(io, ie, ip) := i in
  match me with
  | EUnm _ => true
  | EFuel => ending_eqb me ie
  | _ => list_eqb val_eqb mo io && ending_eqb me ie && Nat.eqb mp ip end.

Definition obs_unm (m : obs) : bool := match m with (_, EUnm _, _) => true | _ => false end.

(* builder sequences: the pool of specs in creation order *)
Fixpoint build (ops : list bop) (h : sheap) (pool : list nat) : option (sheap * list nat) :=
  match ops with
  | [] => Some (h, pool)
  | BNew sub sentinel :: r => let '(h', i) := new_iter h sub sentinel in build r h' (pool ++ [i])
  | BDerive j st :: r =>
      match nth_error pool j with
      | Some self => match add_op h self st with
                     | Some (h', i) => build r h' (pool ++ [i])
                     | None => None end
      | None => None end
  end.

Definition builder_model (ops : list bop) (src : source) : option (list obs) :=
  match build ops [] [] with
  | Some (h, pool) =>
      Some (map (fun i => match stages_of h i with
                          | Some stages => run fuel0 stages src None
                          | None => ([], EUnm "spec", 0) end) pool)
  | None => None end.

Fixpoint all2 {A B} (f : A -> B -> bool) (a : list A) (b : list B) : bool :=
  match a, b with [], [] => true | x :: a, y :: b => f x y && all2 f a b | _, _ => false end.

Definition it_model_obs (c : icase) : list obs :=
  match c with
  | ITake stages src k _ => [run fuel0 stages src k]
  | IBuilder ops src _ => match builder_model ops src with Some l => l | None => [] end
  | _ => [] end.

Definition it_check (c : icase) : bool :=
  match c with
  | ITake stages src k impl => obs_eqb (run fuel0 stages src k) impl
  | IFirst stages key default src (iv, ip) =>
      match run_first fuel0 stages key default src with
      | (Unmodelled _, _) => true
      | (OutOfFuel, _) => match iv with OutOfFuel => true | _ => false end
      | (mv, mp) => res_eqb val_eqb mv iv && Nat.eqb mp ip end
  | IAll stages src iv =>
      match run_all fuel0 stages src with
      | Unmodelled _ => true
      | mv => res_eqb val_eqb mv iv end
  | IBuilder ops src impl =>
      match builder_model ops src with
      | Some l => all2 obs_eqb l impl
      | None => false end
  end.

Definition it_unmodelled (c : icase) : bool :=
  match c with
  | ITake stages src k _ => obs_unm (run fuel0 stages src k)
  | IFirst stages key default src _ => match run_first fuel0 stages key default src with (Unmodelled _, _) => true | _ => false end
  | IAll stages src _ => match run_all fuel0 stages src with Unmodelled _ => true | _ => false end
  | IBuilder ops src _ => match builder_model ops src with Some l => existsb obs_unm l | None => false end
  end.
