(* Corr/Mutate.v — what the correspondence for C11 / C12 compares: the outcome class and the final state of every original
   cell, objects created during the run inlined structurally. *)
From Coq Require Import String ZArith Bool List.
From Glom Require Import Base.PyVal Base.Heap Model.Wild Model.Mutate.
Import ListNotations.

Inductive nval := NA (a : atom) | NR (l : nat) | NNew (n : nnode)
with nnode :=
| XDict (od : bool) (kvs : list (atom * nval))
| XList (xs : list nval)
| XTuple (xs : list nval)
| XObj (cls : nat) (attrs : list (string * nval)).

Definition norm_node_with (f : gval -> nval) (n : gnode) : nnode :=
  match n with
  | NDict od kvs => XDict od (map (fun kv => (fst kv, f (snd kv))) kvs)
  | NList xs => XList (map f xs)
  | NTuple xs => XTuple (map f xs)
  | NObj c attrs => XObj c (map (fun kv => (fst kv, f (snd kv))) attrs) end.

Fixpoint norm_val (fuel : nat) (n0 : nat) (h : heap) (v : gval) : nval :=
  match v with
  | GA a => NA a
  | GR l =>
      if Nat.ltb l n0 then NR l else
      match fuel with O => NR l | S fuel =>
      match node_at h l with
      | Some n => NNew (norm_node_with (norm_val fuel n0 h) n)
      | None => NR l end end
  end.
Definition norm_node (fuel : nat) (n0 : nat) (h : heap) (n : gnode) : nnode := norm_node_with (norm_val fuel n0 h) n.

Definition norm_heap (n0 : nat) (h : heap) : list nnode := map (norm_node 6 n0 h) (firstn n0 h).

Fixpoint nval_eqb (fuel : nat) (a b : nval) : bool :=
  match fuel with O => false | S fuel =>
  match a, b with
  | NA x, NA y => atom_same x y
  | NR x, NR y => Nat.eqb x y
  | NNew x, NNew y => nnode_eqb fuel x y
  | _, _ => false end end
with nnode_eqb (fuel : nat) (a b : nnode) : bool :=
  match fuel with O => false | S fuel =>
  let leq := fix leq (x y : list nval) := match x, y with [], [] => true | p :: x, q :: y => nval_eqb fuel p q && leq x y | _, _ => false end in
  match a, b with
  | XDict o x, XDict p y =>
      Bool.eqb o p && (fix go (x y : list (atom * nval)) := match x, y with
                         | [], [] => true | (k, v) :: x, (k', v') :: y => atom_same k k' && nval_eqb fuel v v' && go x y | _, _ => false end) x y
  | XList x, XList y => leq x y
  | XTuple x, XTuple y => leq x y
  | XObj c x, XObj d y =>
      Nat.eqb c d && (fix go (x y : list (string * nval)) := match x, y with
                        | [], [] => true | (k, v) :: x, (k', v') :: y => String.eqb k k' && nval_eqb fuel v v' && go x y | _, _ => false end) x y
  | _, _ => false end end.
Fixpoint nheap_eqb (a b : list nnode) : bool :=
  match a, b with [], [] => true | x :: a, y :: b => nnode_eqb 12 x y && nheap_eqb a b | _, _ => false end.

Inductive mval := MVLit (v : gval) | MVPath (segs : list mseg).      (* the assigned value: literal / object, or a T-expression on the target *)
Inductive mop :=
| OpAssign (path : list mseg) (v : mval) (missing : option factory)
| OpDelete (path : list mseg) (ignore_missing : bool).
Inductive mout := MOk (h : list nnode) (calls : nat) | MRaise (cls : string).
Record mcase := mkM { m_heap : heap; m_target : gval; m_op : mop; m_impl : mout }.

Definition m_model (c : mcase) : res (heap * nat) :=
  let h := m_heap c in
  match m_op c with
  | OpAssign path v missing =>
      match (match v with MVLit x => Ok x | MVPath segs => mpath h segs 0 (m_target c) end) with
      | Ok x => assign h (m_target c) path x missing
      | Raise e => Raise e | Unmodelled t => Unmodelled t | OutOfFuel => OutOfFuel end
  | OpDelete path ign =>
      match delete h (m_target c) path ign with
      | Ok h' => Ok (h', 0) | Raise e => Raise e | Unmodelled t => Unmodelled t | OutOfFuel => OutOfFuel end
  end.

Definition m_check (c : mcase) : bool :=
  match m_model c, m_impl c with
  | Unmodelled _, _ => true
  | Ok (h', n), MOk snap calls => nheap_eqb (norm_heap (length (m_heap c)) h') snap && Nat.eqb n calls
  | Raise e, MRaise cls => String.eqb (ecls e) cls
  | _, _ => false end.
Definition m_unmodelled (c : mcase) : bool := match m_model c with Unmodelled _ => true | _ => false end.
