From Coq Require Import String ZArith Bool List.
From Glom Require Import Base.PyVal Model.TEval Model.Reduce.
Import ListNotations.

Inductive rop := RFold (k : initk) (o : foldop) | RFlattenLazy | RFlattenLevels (n : nat) (k : initk).
Record rcase := mkR { r_target : val; r_op : rop; r_impl : res val }.
Definition r_model (c : rcase) : res val :=
  match r_op c with
  | RFold k o => fold k o (r_target c)
  | RFlattenLazy => match flatten_lazy (r_target c) with Ok l => Ok (VList 0 l) | Raise e => Raise e | Unmodelled u => Unmodelled u | OutOfFuel => OutOfFuel end
  | RFlattenLevels n k => flatten_levels n k (r_target c) end.
Definition r_check (c : rcase) : bool :=
  match r_model c with Unmodelled _ => true | m => res_eqb val_eqb m (r_impl c) end.
Definition r_unmodelled (c : rcase) : bool := match r_model c with Unmodelled _ => true | _ => false end.
