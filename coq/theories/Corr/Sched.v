(* Corr/Sched.v — C20: threads calling Path.from_text under a controlled scheduler that switches between the dict operations,
   against Model/Sched.v run with the same schedule. *)
From Coq Require Import String ZArith Bool List.
From Glom Require Import Base.PyVal Model.TEval Model.Cache Model.Sched Corr.Cache.
Import ListNotations.
Local Open Scope string_scope.

Definition V := list cell.
Definition A := list V.

Fixpoint texts_prog (texts : list string) (acc : list V) : @prog V A :=
  match texts with
  | [] => Ret (rev acc)
  | t :: r => Ask t (fun v => texts_prog r (v :: acc)) end.

(* a thread that has nothing left to do is done (the implementation needs no dict operation for that) *)
Definition norm (ts : @tstate V A) : @tstate V A := match ts with TRun (Ret a) => TDone a | _ => ts end.

Definition cstep (maxc : Z) (star : bool) (cfg : list (@tstate V A) * caches) (i : nat) : list (@tstate V A) * caches :=
  let '(ths, c) := sched_step TEval.from_text maxc star true (fun _ => true) cfg i in
  (match nth_error ths i with Some ts => set_nth i (norm ts) ths | None => ths end, c).

Fixpoint cfinish (fuel : nat) (maxc : Z) (star : bool) (cfg : list (@tstate V A) * caches) (i : nat) : list (@tstate V A) * caches :=
  match fuel with
  | O => cfg
  | S fuel => match nth_error (fst cfg) i with
              | Some (TDone _) | Some TKeyError | None => cfg
              | Some _ => cfinish fuel maxc star (cstep maxc star cfg i) i end end.

Record scase := mkSC { sc_max : Z; sc_star : bool; sc_threads : list (list string); sc_schedule : list nat;
                       sc_seen : list (list (string * list string)); sc_keys : list string }.

Definition sc_run (c : scase) : list (@tstate V A) * caches :=
  let ths := map (fun texts => norm (TRun (texts_prog texts []))) (sc_threads c) in
  let cfg := fold_left (cstep (sc_max c) (sc_star c)) (sc_schedule c) (ths, empty) in
  fold_left (cfinish 400 (sc_max c) (sc_star c)) (seq 0 (List.length ths)) cfg.

Definition obs_of (ts : @tstate V A) : option (list (string * list string)) :=
  match ts with TDone paths => Some (map (fun p => (codes_of p, segs_of p)) paths) | _ => None end.

Fixpoint obs_eqb (a b : list (string * list string)) : bool :=
  match a, b with
  | [], [] => true
  | (c1, s1) :: a, (c2, s2) :: b => String.eqb c1 c2 && Corr.Cache.strs_eqb s1 s2 && obs_eqb a b
  | _, _ => false end.

Fixpoint all_obs (ths : list (@tstate V A)) (seen : list (list (string * list string))) : bool :=
  match ths, seen with
  | [], [] => true
  | ts :: r, o :: r' => match obs_of ts with Some m => obs_eqb m o | None => false end && all_obs r r'
  | _, _ => false end.

Definition sc_check (c : scase) : bool :=
  let '(ths, fin) := sc_run c in
  all_obs ths (sc_seen c) && Corr.Cache.strs_eqb (map fst (sel (sc_star c) fin)) (sc_keys c).

Definition sc_model (c : scase) : list (option (list (string * list string))) * list string :=
  let '(ths, fin) := sc_run c in (map obs_of ths, map fst (sel (sc_star c) fin)).

(* ---------- the registry memo: get_handler(op, obj) under the same scheduler ---------- *)
Definition RV := option string.        (* the handler's tag, None: UnregisteredTarget *)
Definition RA := list RV.
Fixpoint keys_prog (keys : list string) (acc : list RV) : @prog RV RA :=
  match keys with [] => Ret (rev acc) | k :: r => Ask k (fun v => keys_prog r (v :: acc)) end.
Definition rnorm (ts : @tstate RV RA) : @tstate RV RA := match ts with TRun (Ret a) => TDone a | _ => ts end.
Definition rstorable (v : RV) : bool := match v with Some _ => true | None => false end.

Record rcase := mkRC { rc_answers : list (string * RV);                 (* what a registry that was never looked at answers *)
                       rc_threads : list (list string); rc_schedule : list nat;
                       rc_seen : list (list RV); rc_keys : list string }.

Definition rcreate (answers : list (string * RV)) (_ : bool) (k : string) : RV :=
  match str_assoc k answers with Some v => v | None => None end.

Definition rstep (answers : list (string * RV)) (cfg : list (@tstate RV RA) * caches) (i : nat) : list (@tstate RV RA) * caches :=
  let '(ths, c) := sched_step (rcreate answers) 0 true false rstorable cfg i in
  (match nth_error ths i with Some ts => set_nth i (rnorm ts) ths | None => ths end, c).
Fixpoint rfinish (fuel : nat) (answers : list (string * RV)) (cfg : list (@tstate RV RA) * caches) (i : nat) : list (@tstate RV RA) * caches :=
  match fuel with
  | O => cfg
  | S fuel => match nth_error (fst cfg) i with
              | Some (TDone _) | Some TKeyError | None => cfg
              | Some _ => rfinish fuel answers (rstep answers cfg i) i end end.

Definition rc_run (c : rcase) : list (@tstate RV RA) * caches :=
  let ths := map (fun keys => rnorm (TRun (keys_prog keys []))) (rc_threads c) in
  let cfg := fold_left (rstep (rc_answers c)) (rc_schedule c) (ths, empty) in
  fold_left (rfinish 400 (rc_answers c)) (seq 0 (List.length ths)) cfg.

Definition rv_eqb (a b : RV) : bool := match a, b with Some x, Some y => String.eqb x y | None, None => true | _, _ => false end.
Fixpoint rvs_eqb (a b : list RV) : bool := match a, b with [], [] => true | x :: a, y :: b => rv_eqb x y && rvs_eqb a b | _, _ => false end.
Fixpoint all_rv (ths : list (@tstate RV RA)) (seen : list (list RV)) : bool :=
  match ths, seen with
  | [], [] => true
  | TDone a :: r, o :: r' => rvs_eqb a o && all_rv r r'
  | _, _ => false end.

Definition rc_check (c : rcase) : bool :=
  let '(ths, fin) := rc_run c in all_rv ths (rc_seen c) && Corr.Cache.strs_eqb (map fst (c_star fin)) (rc_keys c).

(* one entry point for the generated case files *)
Inductive anycase := APath (c : scase) | AReg (c : rcase).
Definition any_check (c : anycase) : bool := match c with APath x => sc_check x | AReg x => rc_check x end.
Definition any_model (c : anycase) : list string :=
  match c with APath x => snd (sc_model x) | AReg x => map fst (c_star (snd (rc_run x))) end.
