(* Corr/Trace.v — C05 correspondence: _unpack_stack's structure and the parsed line skeleton of str(e) against Model/Trace.v;
   _format_trace_value against format_trace_value. *)
From Coq Require Import Bool List Arith String Ascii DecimalString.
From Glom Require Import Model.Trace Spec.TraceSpec.
Import ListNotations.
Local Open Scope list_scope.

(* what the harness could identify of a line's value: Some id, or None when it is a container built during evaluation *)
Record seen_line := mkSL { s_prefix : string; s_kind : lkind; s_id : option nat }.

Inductive tcase :=
| TTrace (s : tspec) (ok : bool) (tree : list tr) (lines : list seen_line)
| TValue (s : string) (vlen : option nat) (maxlen : nat) (result : string).

Definition kind_eqb (a b : lkind) : bool :=
  match a, b with KTarget, KTarget | KSpec, KSpec | KErr, KErr => true | _, _ => false end.

(* model ids 1000.. are containers built by dict specs: the implementation shows them as values the harness cannot name *)
Definition id_matches (model : nat) (seen : option nat) : bool :=
  match seen with
  | Some n => Nat.eqb n model
  | None => true end.        (* a container the text does not name uniquely; the tree comparison names it *)

Fixpoint lines_eqb (m : list line) (i : list seen_line) : bool :=
  match m, i with
  | [], [] => true
  | a :: m, b :: i => String.eqb (l_prefix a) (s_prefix b) && kind_eqb (l_kind a) (s_kind b) &&
                      (match l_kind a with KErr => true | _ => id_matches (l_id a) (s_id b) end) && lines_eqb m i
  | _, _ => false end.

(* trees: targets of the implementation are masked the same way (target 0 = unnamed) ; errors compared as present / absent *)
Fixpoint tr_eqb (fuel : nat) (a b : tr) : bool :=
  match fuel with O => false | S fuel =>
  match a, b with
  | TR s1 t1 e1 b1, TR s2 t2 e2 b2 =>
      Nat.eqb s1 s2 && (Nat.eqb t1 t2 || (Nat.eqb t2 0 && Nat.leb 1000 t1 && Nat.ltb t1 2000)) &&
      (match e1, e2 with Some _, Some _ | None, None => true | _, _ => false end) &&
      (fix bl (x y : list (list tr)) : bool :=
         match x, y with
         | [], [] => true
         | p :: x, q :: y => (fix tl (u v : list tr) : bool :=
                                match u, v with [], [] => true | c :: u, d :: v => tr_eqb fuel c d && tl u v | _, _ => false end) p q
                             && bl x y
         | _, _ => false end) b1 b2
  end end.
Fixpoint trs_eqb (a b : list tr) : bool :=
  match a, b with [], [] => true | x :: a, y :: b => tr_eqb 40 x y && trs_eqb a b | _, _ => false end.

Definition show_nat (n : nat) : string := NilZero.string_of_uint (Nat.to_uint n).
Definition suffix_of (vlen : option nat) : string :=
  match vlen with Some n => String.append "... (len="%string (String.append (show_nat n) ")"%string) | None => "..."%string end.

Definition t_check (c : tcase) : bool :=
  match c with
  | TTrace s ok tree lines =>
      match run s with
      | (Ret _, _) => ok
      | (Exc _, trs) =>
          (* the implementation against the breadcrumb model AND against the structural reading of the property *)
          negb ok && trs_eqb trs tree && lines_eqb (skeleton s) lines &&
          match expected s with (Exc _, ex) => trs_eqb ex tree | _ => false end end
  | TValue s vlen maxlen result => String.eqb (format_trace_value s (suffix_of vlen) maxlen) result end.

Definition t_model (c : tcase) : (out * list tr) * list line :=
  match c with
  | TTrace s _ _ _ => (run s, skeleton s)
  | TValue s vlen maxlen _ => ((Ret 0, []), [mkL (format_trace_value s (suffix_of vlen) maxlen) KSpec 0]) end.
