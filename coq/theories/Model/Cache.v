(* Model/Cache.v — the state glom keeps between calls that could make an outcome depend on history (C06, C20):
   Path._CACHE (text -> Path memo, one table per PATH_STAR setting, bounded by _MAX_CACHE with the fullness test the code
   uses — constant and comparison regenerated from Path.from_text on every run).  A glom call is a program that may ask for
   the path of a text any number of times; everything else it computes from its own arguments. *)
From Coq Require Import String ZArith Bool List Lia.
From Glom Require Import Base.PyVal Generated.CacheOps.
Import ListNotations.
Local Open Scope string_scope.
Local Open Scope list_scope.

Section Memo.
  Context {V : Type}.
  Variable create : bool -> string -> V.     (* what create() builds for a text under a PATH_STAR setting *)
  Variable maxc : Z.                         (* cls._MAX_CACHE: path_cache_max in the code; small values in correspondence runs *)

  Definition table : Type := list (string * V).
  Record caches := mkC { c_star : table; c_plain : table }.
  Definition sel (star : bool) (c : caches) : table := if star then c_star c else c_plain c.
  Definition upd (star : bool) (c : caches) (t : table) : caches :=
    if star then mkC t (c_plain c) else mkC (c_star c) t.

  (* Path.from_text:
       cache = cls._CACHE[PATH_STAR]
       if text not in cache:
           if len(cache) > cls._MAX_CACHE: return create()
           cache[text] = create()
       return cache[text] *)
  Definition from_text (star : bool) (c : caches) (text : string) : V * caches :=
    let cache := sel star c in
    match str_assoc text cache with
    | Some p => (p, c)
    | None =>
        if path_cache_full (Z.of_nat (List.length cache)) maxc then (create star text, c)
        else (create star text, upd star c (cache ++ [(text, create star text)])) end.

  Definition empty : caches := mkC [] [].

  (* a glom call, as far as the shared state is concerned *)
  Inductive prog (A : Type) :=
  | Ret (a : A)
  | Ask (text : string) (k : V -> prog A).
  Arguments Ret {A}. Arguments Ask {A}.

  Fixpoint run {A} (star : bool) (c : caches) (p : prog A) : A * caches :=
    match p with
    | Ret a => (a, c)
    | Ask text k => let '(v, c') := from_text star c text in run star c' (k v) end.

  (* the same call with no cache at all *)
  Fixpoint run_pure {A} (star : bool) (p : prog A) : A :=
    match p with
    | Ret a => a
    | Ask text k => run_pure star (k (create star text)) end.

  (* a history: calls made one after another under whatever PATH_STAR setting is current *)
  Fixpoint run_history {A} (c : caches) (h : list (bool * prog A)) : list A * caches :=
    match h with
    | [] => ([], c)
    | (star, p) :: r => let '(a, c') := run star c p in
                        let '(l, c'') := run_history c' r in (a :: l, c'') end.
End Memo.
Arguments Ret {V A}. Arguments Ask {V A}.
