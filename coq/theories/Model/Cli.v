(* Model/Cli.v — the glom command (C19): glom/cli.py.
   mw_get_target (where spec and target text come from: arguments, files, standard input; which parser reads them),
   mw_handle_target (per-format loaders, failures become usage errors), glom_cli (GlomError -> message and status 1,
   json.dumps(sort_keys=True, indent), --scalar).  The parsers themselves (ast.literal_eval, json.loads, yaml, toml) are
   outside the model: what they return for a text is an oracle table that is part of the case.  The JSON printer is
   modelled character by character. *)
From Coq Require Import String Ascii ZArith Bool List DecimalString.
From Glom Require Import Base.PyVal Model.Exc Model.TEval Model.Interp.
Import ListNotations.
Local Open Scope list_scope.
Local Open Scope string_scope.

(* ---------- json.dumps(value, indent=indent, sort_keys=True) ---------- *)
Definition hex_digit (n : nat) : ascii :=
  match n with
  | 0 => "0" | 1 => "1" | 2 => "2" | 3 => "3" | 4 => "4" | 5 => "5" | 6 => "6" | 7 => "7" | 8 => "8" | 9 => "9"
  | 10 => "a" | 11 => "b" | 12 => "c" | 13 => "d" | 14 => "e" | _ => "f" end%char.

Definition esc_char (c : ascii) : string :=
  let n := nat_of_ascii c in
  if Nat.eqb n 34 then "\"""                      (* the double quote *)
  else if Nat.eqb n 92 then "\\"                  (* the backslash *)
  else if Nat.eqb n 10 then "\n"
  else if Nat.eqb n 13 then "\r"
  else if Nat.eqb n 9 then "\t"
  else if Nat.eqb n 8 then "\b"
  else if Nat.eqb n 12 then "\f"
  else if Nat.ltb n 32 then "\u00" ++ String (hex_digit (n / 16)) (String (hex_digit (n mod 16)) "")
  else String c "".

Fixpoint esc_string (s : string) : string :=
  match s with EmptyString => "" | String c r => esc_char c ++ esc_string r end.
Definition json_string (s : string) : string := """" ++ esc_string s ++ """".

Definition show_Z (z : Z) : string := NilZero.string_of_int (Z.to_int z).

(* code-point order of str, which is what sorted() uses on the keys *)
Fixpoint str_ltb (a b : string) : bool :=
  match a, b with
  | EmptyString, EmptyString => false
  | EmptyString, _ => true
  | _, EmptyString => false
  | String x a', String y b' =>
      let nx := nat_of_ascii x in let ny := nat_of_ascii y in
      if Nat.ltb nx ny then true else if Nat.ltb ny nx then false else str_ltb a' b' end.

Fixpoint insert_key (k : string) (v : val) (l : list (string * val)) : list (string * val) :=
  match l with
  | [] => [(k, v)]
  | (k', v') :: r => if str_ltb k' k then (k', v') :: insert_key k v r
                     else if str_ltb k k' then (k, v) :: l
                     else (k, v) :: r end.     (* equal keys cannot occur in a dict *)
Definition sort_keys (l : list (string * val)) : list (string * val) :=
  fold_left (fun acc kv => insert_key (fst kv) (snd kv) acc) l [].

Fixpoint spaces (n : nat) : string := match n with O => "" | S n => " " ++ spaces n end.

Fixpoint join (sep : string) (l : list string) : string :=
  match l with [] => "" | [x] => x | x :: r => x ++ sep ++ join sep r end.

Definition newline : string := String (ascii_of_nat 10) "".

(* indent: None -> one line with ', ' and ': '; Some n -> one item per line, n * level spaces (none when n <= 0) *)
Definition nl_indent (indent : option Z) (level : nat) : string :=
  match indent with
  | None => ""
  | Some n => newline ++ spaces (Z.to_nat (n * Z.of_nat level)) end.
Definition item_sep (indent : option Z) (level : nat) : string :=
  match indent with None => ", " | Some _ => "," ++ nl_indent indent level end.

Fixpoint all_str_keys (kvs : list (val * val)) : option (list (string * val)) :=
  match kvs with
  | [] => Some []
  | (VStr k, v) :: r => match all_str_keys r with Some l => Some ((k, v) :: l) | None => None end
  | _ => None end.

Fixpoint dumps (fuel : nat) (indent : option Z) (level : nat) (v : val) : option string :=
  match fuel with O => None | S fuel =>
  let items (l : list val) := (fix go (l : list val) : option (list string) :=
      match l with [] => Some [] | x :: r => match dumps fuel indent (S level) x, go r with
                                            | Some s, Some ss => Some (s :: ss) | _, _ => None end end) l in
  match v with
  | VNone => Some "null"
  | VBool true => Some "true"
  | VBool false => Some "false"
  | VInt z => Some (show_Z z)
  | VStr s => Some (json_string s)
  | VList _ [] | VTuple _ [] => Some "[]"
  | VList _ l | VTuple _ l =>
      match items l with
      | Some ss => Some ("[" ++ nl_indent indent (S level) ++ join (item_sep indent (S level)) ss ++ nl_indent indent level ++ "]")
      | None => None end
  | VDict _ _ [] => Some "{}"
  | VDict _ _ kvs =>
      match all_str_keys kvs with
      | Some skvs =>
          let sorted := sort_keys skvs in
          match items (map snd sorted) with
          | Some ss => Some ("{" ++ nl_indent indent (S level) ++
                             join (item_sep indent (S level)) (map (fun ks => json_string (fst ks) ++ ": " ++ snd ks) (combine (map fst sorted) ss))
                             ++ nl_indent indent level ++ "}")
          | None => None end
      | None => None end            (* non-string keys: json converts some and rejects others; not modelled *)
  | _ => None end end.

Definition json_dumps (indent : option Z) (v : val) : option string := dumps 40 indent 0 v.

(* print(result, end='') for scalars *)
Definition py_str (v : val) : option string :=
  match v with
  | VNone => Some "None" | VBool true => Some "True" | VBool false => Some "False"
  | VInt z => Some (show_Z z) | VStr s => Some s | _ => None end.
Definition is_scalar (v : val) : bool :=
  match v with VNone | VBool _ | VInt _ | VStr _ => true | _ => false end.

(* ---------- the command ---------- *)
Record flags := mkFlags {
  f_target_file : option string; f_target_format : string;
  f_spec_file : option string; f_spec_format : string;
  f_indent : Z; f_scalar : bool }.

(* the world the command runs in *)
Inductive parsed (A : Type) := PGood (a : A) | PBad (cls : string).     (* PBad: the parser raised cls *)
Arguments PGood {A}. Arguments PBad {A}.
Record world := mkWorld {
  w_files : list (string * string);                      (* readable files: path -> text; anything else fails with OSError *)
  w_stdin : option string;                               (* None: a terminal *)
  w_spec_parse : list ((string * string) * parsed spec);   (* (spec format, text) -> what literal_eval / json.loads give, as a spec *)
  w_target_parse : list ((string * string) * parsed val) }.

Inductive outcome :=
| COut (text : string)            (* printed text, status 0 *)
| CGlomError (cls : string)       (* "Cls: message" printed, status 1 *)
| CUsage                          (* face usage error: nothing computed, status 1 *)
| CCrash (cls : string)           (* an uncaught exception *)
| CUnm (tag : string).

Fixpoint lookup2 {B} (k1 k2 : string) (l : list ((string * string) * B)) : option B :=
  match l with
  | [] => None
  | ((a, b), v) :: r => if String.eqb a k1 && String.eqb b k2 then Some v else lookup2 k1 k2 r end.

Definition nonempty (s : option string) : bool := match s with Some (String _ _) => true | _ => false end.
Definition is_dash (s : option string) : bool := match s with Some "-" => true | _ => false end.

Definition literal_start (s : string) : bool :=
  match s with
  | String c _ => let n := nat_of_ascii c in
                  Nat.eqb n 34 || Nat.eqb n 39 || Nat.eqb n 91 || Nat.eqb n 123 || Nat.eqb n 40    (* quote, apostrophe, [, {, ( *)
  | EmptyString => false end.

Inductive stage (A : Type) := Go (a : A) | Halt (o : outcome).
Arguments Go {A}. Arguments Halt {A}.

(* mw_get_target, first half: the spec *)
Definition get_spec (w : world) (f : flags) (posargs : list string) : stage spec :=
  let spec_text := match posargs with s :: _ => Some s | [] => None end in
  if nonempty spec_text && match f_spec_file f with Some (String _ _) => true | _ => false end then Halt CUsage
  else
  let text := match f_spec_file f with
              | Some (String c r) => match str_assoc (String c r) (w_files w) with Some t => Go (Some t) | None => Halt CUsage end
              | _ => Go spec_text end in
  match text with
  | Halt o => Halt o
  | Go text =>
      if negb (nonempty text) then Go (ST RT [])            (* Path() *)
      else let text := match text with Some t => t | None => "" end in
      if String.eqb (f_spec_format f) "python" then
        if negb (literal_start text) then Go (SStr text)    (* a bare word is a path string: repr() then literal_eval *)
        else match lookup2 "python" text (w_spec_parse w) with
             | Some (PGood s) => Go s
             | Some (PBad cls) => Halt (CCrash cls)
             | None => Halt (CUnm "spec-parse") end
      else if String.eqb (f_spec_format f) "json" then
        match lookup2 "json" text (w_spec_parse w) with
        | Some (PGood s) => Go s
        | Some (PBad cls) => Halt (CCrash cls)
        | None => Halt (CUnm "spec-parse") end
      else if String.eqb (f_spec_format f) "python-full" then Halt (CUnm "python-full executes the spec text")
      else Halt CUsage
  end.

Definition known_format (fmt : string) : bool :=
  String.eqb fmt "json" || String.eqb fmt "yaml" || String.eqb fmt "yml" || String.eqb fmt "toml" || String.eqb fmt "python".

(* mw_handle_target *)
Definition handle_target (w : world) (text : option string) (fmt : string) : stage val :=
  if negb (nonempty text) then Go (VDict 0 false [])
  else if negb (known_format fmt) then Halt CUsage
  else let text := match text with Some t => t | None => "" end in
       let fmt' := if String.eqb fmt "yml" then "yaml" else fmt in
       match lookup2 fmt' text (w_target_parse w) with
       | Some (PGood v) => Go v
       | Some (PBad _) => Halt CUsage
       | None => Halt (CUnm "target-parse") end.

(* mw_get_target, second half: the target *)
Definition get_target (w : world) (f : flags) (posargs : list string) : stage val :=
  let target_text := match posargs with [_; t] => Some t | _ => None end in
  let has_file := match f_target_file f with Some (String _ _) => true | _ => false end in
  if nonempty target_text && has_file then Halt CUsage
  else
  let text :=
    if is_dash target_text || is_dash (f_target_file f) then
      match w_stdin w with Some t => Go (Some t) | None => Halt (CUnm "reads a terminal") end
    else if has_file then
      match f_target_file f with
      | Some p => match str_assoc p (w_files w) with Some t => Go (Some t) | None => Halt CUsage end
      | None => Go None end
    else if negb (nonempty target_text) then
      match w_stdin w with Some t => Go (Some t) | None => Go target_text end
    else Go target_text in
  match text with
  | Halt o => Halt o
  | Go text => handle_target w text (f_target_format f) end.

(* glom_cli *)
Definition render (f : flags) (result : val) : outcome :=
  let indent := if Z.eqb (f_indent f) 0 then None else Some (f_indent f) in
  if f_scalar f && is_scalar result then
    match py_str result with Some s => COut s | None => CUnm "str()" end
  else match json_dumps indent result with
       | Some s => COut (s ++ newline)
       | None => CUnm "json" end.

Definition cli (w : world) (f : flags) (posargs : list string) : outcome :=
  if Nat.ltb 2 (List.length posargs) then CUsage else
  match get_spec w f posargs with
  | Halt o => o
  | Go spec =>
      match get_target w f posargs with
      | Halt o => o
      | Go target =>
          match fst (glom_top true [] target spec) with
          | Ok v => render f v
          | Raise e =>
              (* glom() re-creates any other Exception as GlomError.wrap(cls) (Model/Exit.v), which the except clause catches too *)
              if is_glom_error e then CGlomError (ecls e)
              else if exc_isa (ecls e) "Exception" then CGlomError ("GlomError.wrap(" ++ ecls e ++ ")")
              else CCrash (ecls e)
          | Unmodelled t => CUnm t
          | OutOfFuel => CUnm "fuel" end
      end
  end.
