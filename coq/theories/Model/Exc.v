(* Model/Exc.v — exception class lattice: builtin part by hand, glom's part from Generated/ExcTable.v *)
From Coq Require Import String Bool List.
From Glom Require Import Base.PyVal Generated.ExcTable.
Import ListNotations.
Local Open Scope string_scope.

Definition builtin_exc_bases : list (string * list string) :=
  [("BaseException", []); ("Exception", ["BaseException"]);
   ("LookupError", ["Exception"]); ("KeyError", ["LookupError"]); ("IndexError", ["LookupError"]);
   ("AttributeError", ["Exception"]); ("TypeError", ["Exception"]); ("ValueError", ["Exception"]);
   ("ArithmeticError", ["Exception"]); ("ZeroDivisionError", ["ArithmeticError"]); ("OverflowError", ["ArithmeticError"]);
   ("RuntimeError", ["Exception"]); ("RecursionError", ["RuntimeError"]); ("StopIteration", ["Exception"]);
   ("KeyboardInterrupt", ["BaseException"]); ("SystemExit", ["BaseException"]);
   ("UnicodeError", ["ValueError"]); ("OSError", ["Exception"]); ("AssertionError", ["Exception"]);
   ("GeneratorExit", ["BaseException"]);
   (* the user-defined classes of the C04 fault catalogue (harness/exccat.py) *)
   ("UPlain", ["Exception"]); ("UAttr", ["Exception"]); ("UInitAttr", ["Exception"]); ("UKwOnly", ["Exception"]);
   ("UArity", ["Exception"]); ("UPrefix", ["Exception"]); ("UKeySub", ["KeyError"]); ("UMulti", ["ValueError"; "KeyError"]);
   ("UTypeSub", ["TypeError"]); ("UBase", ["BaseException"]);
   ("GPlain", ["GlomError"]); ("GAttr", ["GlomError"]); ("GArity", ["GlomError"]); ("GPrefix", ["GlomError"]); ("GKwOnly", ["GlomError"]);
   ("GPathSub", ["PathAccessError"]); ("GMatchSub", ["MatchError"]);
   (* three distinct classes sharing one __name__: the model identifies a class by its catalogue name, i.e. by the class object *)
   ("UTwinA", ["Exception"]); ("UTwinB", ["Exception"]); ("UTwinK", ["KeyError"]);
   (* UFlakyBad is not a class of its own: it names the instances of UFlaky that cannot be rebuilt from their args *)
   ("UFlaky", ["Exception"]); ("UFlakyBad", ["UFlaky"]);
   (* falsy exception objects (F31) and a user subclass of TypeMatchError (F32) *)
   ("UFalsy", ["Exception"]); ("GFalsy", ["GlomError"]); ("GTypeMatchSub", ["TypeMatchError"])].

Definition exc_bases : list (string * list string) := glom_exc_bases ++ builtin_exc_bases.

Fixpoint exc_sub (fuel : nat) (a b : string) : bool :=
  String.eqb a b ||
  match fuel with O => false | S fuel =>
  match str_assoc a exc_bases with
  | Some bs => existsb (fun x => exc_sub fuel x b) bs
  | None => false end end.
Definition exc_isa (a b : string) : bool := exc_sub 8 a b.

Definition isa_among (cls : string) (cat : list string) : list string := filter (exc_isa cls) cat.

Fixpoint strs_eqb (a b : list string) : bool :=
  match a, b with [] , [] => true | x :: a, y :: b => String.eqb x y && strs_eqb a b | _, _ => false end.
