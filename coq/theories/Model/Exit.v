(* Model/Exit.v — how an exception leaves glom() (C04): glom/core.py glom(): the defaults of default / skip_exc, the inner
   `except skip_exc`, the outer `except Exception` with glom_debug, copy.copy of GlomErrors, GlomError.wrap (a dynamic
   subclass of (type(e), GlomError) re-created from e.args and given e's args and attributes), and the fall-backs to the
   original object when re-creation fails.  Classes are names in the lattice of Model/Exc.v; what calling the class on the
   exception's args does (succeeds with which attributes / raises) is measured on the real class and is part of the case. *)
From Coq Require Import String ZArith Bool List.
From Glom Require Import Base.PyVal Model.Exc.
Import ListNotations.
Local Open Scope string_scope.
Local Open Scope list_scope.

Record excobj := mkX {
  x_cls : string;
  x_args : list val;
  x_attrs : list (string * val);                   (* instance attributes (__dict__) *)
  x_rebuild : option (list (string * val)) }.      (* type(e)( *e.args ): its attributes; None when the call raises *)

Record opts := mkO { o_default : option val; o_skip : option (list string); o_debug : bool }.

Inductive final :=
| FValue (v : val)                                  (* the computed value *)
| FDefault                                          (* the default object itself *)
| FSame                                             (* the original exception object *)
| FNew (wrapped : bool) (cls : string) (args : list val) (attrs : list (string * val)).
        (* a new exception object: a copy (same class) or an instance of GlomError.wrap(cls) with bases (cls, GlomError) *)

(* default = kwargs.pop('default', None if 'skip_exc' in kwargs else _MISSING) *)
Definition eff_default (o : opts) : option val :=
  match o_default o with
  | Some d => Some d
  | None => match o_skip o with Some _ => Some VNone | None => None end end.
(* skip_exc = kwargs.pop('skip_exc', () if default is _MISSING else GlomError) *)
Definition eff_skip (o : opts) : list string :=
  match o_skip o with
  | Some l => l
  | None => match eff_default o with Some _ => ["GlomError"] | None => [] end end.

Definition matches_skip (o : opts) (e : excobj) : bool := existsb (exc_isa (x_cls e)) (eff_skip o).

Fixpoint set_attr (k : string) (v : val) (l : list (string * val)) : list (string * val) :=
  match l with
  | [] => [(k, v)]
  | (k', v') :: r => if String.eqb k k' then (k, v) :: r else (k', v') :: set_attr k v r end.
(* __dict__.update *)
Fixpoint update_attrs (base : list (string * val)) (upd : list (string * val)) : list (string * val) :=
  match upd with [] => base | (k, v) :: r => update_attrs (set_attr k v base) r end.

Definition exit (o : opts) (e : excobj) : final :=
  if matches_skip o e && match eff_default o with Some _ => true | None => false end then FDefault
  else if negb (exc_isa (x_cls e) "Exception") then FSame        (* not caught by `except Exception` *)
  else if o_debug o then FSame
  else match x_rebuild e with
       | Some attrs => FNew (negb (exc_isa (x_cls e) "GlomError")) (x_cls e) (x_args e) (update_attrs attrs (x_attrs e))
       | None => FSame end.

(* isinstance(final exception, c) *)
Definition final_isa (e : excobj) (f : final) (c : string) : bool :=
  match f with
  | FSame => exc_isa (x_cls e) c
  | FNew wrapped cls _ _ => exc_isa cls c || (wrapped && exc_isa "GlomError" c)
  | _ => false end.
