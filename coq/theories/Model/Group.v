(* Model/Group.v — Group mode (C16): Group.glomit feeding items one by one through the GROUP dispatcher, the accumulator
   tree (ACC_TREE) keyed as in the code — accumulator of a spec node, STOP marker of a key spec, sub-tree per bucket key
   (re-created whenever the key is not in the accumulator), aggregator state, Limit counter — with single-key dict levels. *)
From Coq Require Import String ZArith Bool List Lia.
From Glom Require Import Base.PyVal Model.TEval Model.Reduce.
Import ListNotations.
Local Open Scope list_scope.

Inductive keyfn :=
| KParity            (* lambda x: x % 2 *)
| KDiv (d : Z)       (* lambda x: x // d *)
| KSelf              (* T *)
| KSkipOdd           (* lambda x: SKIP if x odd else x *)
| KStopNeg           (* lambda x: STOP if x < 0 else x % 3 *)
| KConst (z : Z).

Inductive agg := AFirst | AMax | AMin | ASum | ACount | AAvg | AFlatten | AMerge | ASumFrom (z : Z).   (* Sum(init=lambda: z) *)

Inductive gspec :=
| GDict (k : keyfn) (v : gspec)
| GList (v : gspec)
| GAgg (a : agg)
| GFn (f : fn)
| GLimit (n : nat) (v : gspec).

(* state of an aggregator *)
Inductive aggst := SSeen | SVal (v : val) | SAvg (sum : Z) (count : Z).

Inductive gtree :=
| TDict (acc : list (val * val)) (stopped : bool) (subs : list (val * gtree))
| TList (acc : list val) (sub : gtree)
| TAgg (st : option aggst)
| TFn
| TLimit (count : nat) (sub : gtree).

Fixpoint empty_tree (s : gspec) : gtree :=
  match s with
  | GDict _ _ => TDict [] false []
  | GList v => TList [] (empty_tree v)
  | GAgg _ => TAgg None
  | GFn _ => TFn
  | GLimit _ v => TLimit 0 (empty_tree v) end.

Definition apply_key (k : keyfn) (x : val) : res val :=
  match k, x with
  | KSelf, _ => Ok x
  | KConst z, _ => Ok (VInt z)
  | KParity, VInt a => Ok (VInt (a mod 2))
  | KDiv d, VInt a => if Z.eqb d 0 then Raise (simple_exn "ZeroDivisionError") else Ok (VInt (a / d))
  | KSkipOdd, VInt a => if Z.eqb (a mod 2) 1 then Ok VSkip else Ok x
  | KStopNeg, VInt a => if (a <? 0)%Z then Ok VStop else Ok (VInt (a mod 3))
  | _, _ => Unmodelled "keyfn" end.

Definition py_lt_num (a b : val) : option bool :=
  match as_num a, as_num b with Some x, Some y => Some (Z.ltb x y) | _, _ => None end.

Definition agg_step (a : agg) (st : option aggst) (x : val) : res (val * option aggst) :=
  match a with
  | AFirst => match st with None => Ok (x, Some SSeen) | Some _ => Ok (VStop, st) end
  | AMax => match st with
            | Some (SVal m) => match py_lt_num m x with
                               | Some true => Ok (x, Some (SVal x)) | Some false => Ok (m, st) | None => Unmodelled "max" end
            | _ => Ok (x, Some (SVal x)) end
  | AMin => match st with
            | Some (SVal m) => match py_lt_num x m with
                               | Some true => Ok (x, Some (SVal x)) | Some false => Ok (m, st) | None => Unmodelled "min" end
            | _ => Ok (x, Some (SVal x)) end
  | ASum => let cur := match st with Some (SVal m) => m | _ => VInt 0 end in
            match iadd cur x with Ok r => Ok (r, Some (SVal r)) | Raise e => Raise e | Unmodelled u => Unmodelled u | OutOfFuel => OutOfFuel end
  | ASumFrom z0 => let cur := match st with Some (SVal m) => m | _ => VInt z0 end in     (* the state is there or it is not: a total of 0 is a state *)
            match iadd cur x with Ok r => Ok (r, Some (SVal r)) | Raise e => Raise e | Unmodelled u => Unmodelled u | OutOfFuel => OutOfFuel end
  | ACount => let cur := match st with Some (SVal (VInt m)) => m | _ => 0%Z end in
              Ok (VInt (cur + 1), Some (SVal (VInt (cur + 1))))
  | AAvg => match as_num x with
            | Some z => let '(s, c) := match st with Some (SAvg s c) => (s, c) | _ => (0%Z, 0%Z) end in
                        let s' := (s + z)%Z in let c' := (c + 1)%Z in
                        let g := Z.gcd s' c' in
                        (* the float quotient is compared as the exact reduced fraction [num; den] *)
                        Ok (VTuple 0 [VInt (s' / g); VInt (c' / g)], Some (SAvg s' c'))
            | None => Unmodelled "avg" end
  | AFlatten => let cur := match st with Some (SVal m) => m | _ => VList 0 [] end in
                match iadd cur x with Ok r => Ok (r, Some (SVal r)) | Raise e => Raise e | Unmodelled u => Unmodelled u | OutOfFuel => OutOfFuel end
  | AMerge => let cur := match st with Some (SVal m) => m | _ => VDict 0 false [] end in
              match apply_op OUpdate cur x with Ok r => Ok (r, Some (SVal r)) | Raise e => Raise e | Unmodelled u => Unmodelled u | OutOfFuel => OutOfFuel end
  end.

Fixpoint sub_lookup (k : val) (l : list (val * gtree)) : option gtree :=
  match l with [] => None | (k', t) :: r => if py_eqb k k' then Some t else sub_lookup k r end.
Fixpoint sub_set (k : val) (t : gtree) (l : list (val * gtree)) : list (val * gtree) :=
  match l with [] => [(k, t)] | (k', t') :: r => if py_eqb k k' then (k', t) :: r else (k', t') :: sub_set k t r end.

(* one item through the dispatcher: the result (a value, SKIP or STOP as values) and the new tree *)
Fixpoint gstep (s : gspec) (t : gtree) (x : val) : res (val * gtree) :=
  match s, t with
  | GDict k v, TDict acc stopped subs =>
      if stopped then Ok (VStop, t)                       (* tree[keyspec] is STOP: nothing left to do -> done *)
      else
      match apply_key k x with
      | Ok VSkip => Ok (VDict 0 false acc, t)             (* SKIP: still interested in more values *)
      | Ok VStop => Ok (VStop, TDict acc true subs)
      | Ok key =>
          if negb (hashable key) then Raise (simple_exn "TypeError") else
          let sub := match kv_lookup py_eqb key acc, sub_lookup key subs with
                     | Some _, Some st => st
                     | _, _ => empty_tree v end in            (* key not in acc: tree[key] = {} *)
          match gstep v sub x with
          | Ok (VStop, sub') => Ok (VStop, TDict acc true (sub_set key sub' subs))
          | Ok (VSkip, sub') => Ok (VDict 0 false acc, TDict acc false (sub_set key sub' subs))
          | Ok (r, sub') => let acc' := set1 key r acc in Ok (VDict 0 false acc', TDict acc' false (sub_set key sub' subs))
          | Raise e => Raise e | Unmodelled u => Unmodelled u | OutOfFuel => OutOfFuel end
      | Raise e => Raise e | Unmodelled u => Unmodelled u | OutOfFuel => OutOfFuel end
  | GList v, TList acc sub =>
      match gstep v sub x with
      | Ok (VStop, sub') => Ok (VStop, TList acc sub')
      | Ok (VSkip, sub') => Ok (VList 0 acc, TList acc sub')
      | Ok (r, sub') => Ok (VList 0 (acc ++ [r]), TList (acc ++ [r]) sub')
      | Raise e => Raise e | Unmodelled u => Unmodelled u | OutOfFuel => OutOfFuel end
  | GAgg a, TAgg st =>
      match agg_step a st x with
      | Ok (r, st') => Ok (r, TAgg st')
      | Raise e => Raise e | Unmodelled u => Unmodelled u | OutOfFuel => OutOfFuel end
  | GFn f, TFn => match apply_fn1 f x with
                  | Ok r => Ok (r, TFn) | Raise e => Raise e | Unmodelled u => Unmodelled u | OutOfFuel => OutOfFuel end
  | GLimit n v, TLimit c sub =>
      if Nat.ltb n (S c) then Ok (VStop, TLimit (S c) sub)
      else match gstep v sub x with
           | Ok (r, sub') => Ok (r, TLimit (S c) sub')
           | Raise e => Raise e | Unmodelled u => Unmodelled u | OutOfFuel => OutOfFuel end
  | _, _ => Unmodelled "tree-shape" end.

(* Group.glomit: ret starts as an empty container for dict / list specs, else None; STOP returns the previous ret *)
Fixpoint group_loop (s : gspec) (t : gtree) (items : list val) (ret : val) : res val :=
  match items with
  | [] => Ok ret
  | x :: r => match gstep s t x with
              | Ok (VStop, _) => Ok ret
              | Ok (v, t') => group_loop s t' r v
              | Raise e => Raise e | Unmodelled u => Unmodelled u | OutOfFuel => OutOfFuel end
  end.

Definition group_init (s : gspec) : val :=
  match s with GDict _ _ => VDict 0 false [] | GList _ => VList 0 [] | _ => VNone end.

Definition group (s : gspec) (target : val) : res val :=
  match target_items target with
  | Ok items => group_loop s (empty_tree s) items (group_init s)
  | Raise e => Raise (simple_exn "UnregisteredTarget")
  | Unmodelled u => Unmodelled u | OutOfFuel => OutOfFuel end.
