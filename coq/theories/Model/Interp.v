(* Model/Interp.v — glom's interpreter core: glom(), _glom, AUTO, FILL, argument mode, _handle_dict/list/tuple,
   chain_child, T/S/A expressions, Val/Spec/Pipe/Coalesce/Call/Invoke/Ref/Let/Vars/Fill/Auto, and match mode
   (Match, _glom_match, match _handle_dict, And/Or/Not/M/Switch/Check/Optional/Required/Regex).
   Scope frames mirror the code's data flow: _glom builds the child frame with MODE/MIN_MODE copied from the
   parent's own map; a handler returns its final own frame; chain_child hands the previous step's frame chain to
   the next step.  Every handler loop is a top-level Fixpoint taking the recursive evaluator as a parameter. *)
From Coq Require Import String Ascii ZArith Bool List Lia.
From Glom Require Import Base.PyVal Base.PySlice Model.TEval Model.Exc.
Import ListNotations.
Local Open Scope string_scope.
Local Open Scope list_scope.

Inductive mode := AUTO | FILL | MATCH | GROUP.
Definition mode_eqb (a b : mode) : bool :=
  match a, b with AUTO, AUTO | FILL, FILL | MATCH, MATCH | GROUP, GROUP => true | _, _ => false end.

Inductive spec :=
| SStr (s : string)
| ST (r : root) (ops : list (string * spec))      (* codes "." "[" "P" "(" ; '(' carries STuple of positional args *)
| SBind (bs : list (string * spec))               (* S(k=spec, ...) *)
| SAssignScope (globals : bool) (name : string)   (* A.name / A.globals.name *)
| SDict (od : bool) (es : list (spec * spec))
| SList (ss : list spec)
| STuple (ss : list spec)
| SSetLit (fz : bool) (ss : list spec)
| SFn (f : fn)
| SLit (v : val)
| SType (t : pytype)
| SVal (v : val)
| SSpec (s : spec) (sc : list (string * val))
| SPipe (ss : list spec)
| SCoalesce (ss : list spec) (default : option spec) (factory : option fn) (skip : option val) (skip_exc : option (list string))
| SCall (f : spec) (args : list spec) (kw : list (string * spec))
| SInvoke (f : spec) (parts : list (nat * list spec * list (string * spec)))
      (* per part, in the order given: (0, constants, keyword constants) as SLit / SStr | (1, specs, keyword specs) |
         (2, [args spec]?, [("", kwargs spec)]?) for .star(args=, kwargs=) *)
| SRef (name : string) (sub : option spec)
| SFill (s : spec) | SAuto (s : spec)
| SMatch (s : spec) (default : option spec)
| SLet (bs : list (string * spec))
| SVars (defaults : list (string * val))
| SAnd (ss : list spec) (default : option spec)
| SOr (ss : list spec) (default : option spec)
| SNot (s : spec)
| SM
| SMSub (s : spec)
| SMExpr (lhs : spec) (op : string) (rhs : spec)      (* sides: SM | SLit v | SMSub s *)
| SSwitch (cases : list (spec * spec)) (default : option spec)
| SCheck (s : option spec) (types : list pytype) (vals : list val) (validators : list fn) (inst_of : list pytype) (default : option spec)
| SOptional (key : val) (default : option spec)
| SRequired (s : spec)
| SRegex (id : nat).

Record frame := mkFrame { binds : list (string * val); fmode : mode; farg : bool; frefs : list (string * spec) }.
Definition scope := list frame.

Record state := mkState { log : list (nat * val); store : list (list (string * val)) }.
(* store: ScopeVars objects; object 0 is S.globals; a ScopeVars reference is the value VObj i vars_cls [] *)
Definition vars_cls : nat := 999.
Definition init_state : state := mkState [] [[]].

Definition M (A : Type) := state -> res A * state.
Definition ret {A} (a : A) : M A := fun st => (Ok a, st).
Definition fail {A} (e : exn) : M A := fun st => (Raise e, st).
Definition unmodelled {A} (t : string) : M A := fun st => (Unmodelled t, st).
Definition bindM {A B} (m : M A) (f : A -> M B) : M B :=
  fun st => match m st with
            | (Ok a, st') => f a st'
            | (Raise e, st') => (Raise e, st')
            | (Unmodelled t, st') => (Unmodelled t, st')
            | (OutOfFuel, st') => (OutOfFuel, st') end.
Notation "'let!' x ':=' m 'in' k" := (bindM m (fun x => k)) (at level 200, x pattern, m at level 100, k at level 200).
Definition lift {A} (r : res A) : M A := fun st => (r, st).
(* try: m except <classes>: handler *)
Definition catch {A} (m : M A) (catches : exn -> bool) (h : exn -> M A) : M A :=
  fun st => match m st with
            | (Raise e, st') => if catches e then h e st' else (Raise e, st')
            | r => r end.

Definition is_glom_error (e : exn) : bool := exc_isa (ecls e) "GlomError".
Definition exn_among (classes : list string) (e : exn) : bool := existsb (exc_isa (ecls e)) classes.

Definition recfn := scope -> val -> spec -> M (val * frame).

(* ---------- scopes ---------- *)
Definition head_mode (sc : scope) : mode := match sc with f :: _ => fmode f | [] => AUTO end.
Definition head_arg (sc : scope) : bool := match sc with f :: _ => farg f | [] => false end.
Fixpoint lookup (k : string) (sc : scope) : option val :=
  match sc with [] => None | f :: r => match str_assoc k (binds f) with Some v => Some v | None => lookup k r end end.
Definition set_mode (m : mode) (f : frame) : frame := mkFrame (binds f) m (farg f) (frefs f).
Definition set_arg (b : bool) (f : frame) : frame := mkFrame (binds f) (fmode f) b (frefs f).
Fixpoint lookup_ref (k : string) (sc : scope) : option spec :=
  match sc with [] => None | f :: r => match str_assoc k (frefs f) with Some v => Some v | None => lookup_ref k r end end.
Fixpoint str_set {B} (k : string) (v : B) (l : list (string * B)) : list (string * B) :=
  match l with [] => [(k, v)] | (k', v') :: r => if String.eqb k k' then (k', v) :: r else (k', v') :: str_set k v r end.
Definition add_bind (k : string) (v : val) (f : frame) : frame := mkFrame (str_set k v (binds f)) (fmode f) (farg f) (frefs f).
Definition add_ref (k : string) (s : spec) (f : frame) : frame := mkFrame (binds f) (fmode f) (farg f) (str_set k s (frefs f)).
Definition set_head_mode (m : mode) (sc : scope) : scope := match sc with f :: r => set_mode m f :: r | [] => [] end.

(* ---------- small helpers on values ---------- *)
Definition type_err {A} : M A := fail (simple_exn "TypeError").
Definition lit_of_key (s : spec) : option val :=
  match s with SStr k => Some (VStr k) | SLit v => Some v | SType t => Some (VType t) | SFn f => Some (VFun f) | _ => None end.

Fixpoint kv_set (k v : val) (l : list (val * val)) : list (val * val) :=
  match l with [] => [(k, v)] | (k', v') :: r => if py_eqb k k' then (k', v) :: r else (k', v') :: kv_set k v r end.

(* the 'iterate' handlers of the default registry *)
Definition iterate (v : val) : res (list val) :=
  match v with
  | VList _ xs | VTuple _ xs => Ok xs
  | VDict _ _ kvs => Ok (map fst kvs)
  | VSet _ _ _ => Unmodelled "set-order"
  | VNone | VBool _ | VInt _ | VStr _ | VObj _ _ _ | VFun _ => Raise (simple_exn "UnregisteredTarget")
  | _ => Unmodelled "iterate" end.

(* calls of catalogue callables are logged (FProbe only, to keep logs small) *)
Definition call_logged (f : val) (args : list val) : M val :=
  fun st =>
    let st' := match f, args with
               | VFun (FProbe n), [x] => mkState (log st ++ [(n, x)]) (store st)
               | _, _ => st end in
    (call_val f args, st').

Definition call_logged_kw (f : val) (args : list val) (kw : list (string * val)) : M val :=
  match kw with [] => call_logged f args | _ => fun st => (call_kw f args kw, st) end.
(* dict.update on keyword names: a name already present keeps its position *)
Fixpoint kw_set (k : string) (v : val) (l : list (string * val)) : list (string * val) :=
  match l with
  | [] => [(k, v)]
  | (k', v') :: r => if String.eqb k k' then (k, v) :: r else (k', v') :: kw_set k v r end.
Definition kw_update (l new : list (string * val)) : list (string * val) := fold_left (fun acc kv => kw_set (fst kv) (snd kv) acc) new l.
(* the keyword arguments a ** dict contributes: every key must be a str (checked by the call itself) *)
Fixpoint kw_of_dict (kvs : list (val * val)) : option (list (string * val)) :=
  match kvs with
  | [] => Some []
  | (VStr k, v) :: r => match kw_of_dict r with Some l => Some ((k, v) :: l) | None => None end
  | _ => None end.
Definition const_of (s : spec) : list val := match s with SLit v => [v] | SStr k => [VStr k] | _ => [] end.

Definition truthy_res (v : val) : bool := truthy v.

(* comparison of M expressions *)
Definition is_cmp_plain (v : val) : bool :=
  match v with VNone | VBool _ | VInt _ | VStr _ | VDict _ _ _ | VObj _ _ _ => true | _ => false end.
(* sets are ordered by inclusion — a PARTIAL order: neither a <= b nor a >= b need hold, so <= is its own relation, not "not >" *)
Definition set_subset (a b : list val) : bool := forallb (fun x => mem py_eqb x b) a.
Definition py_lt (a b : val) : res bool :=
  match as_num a, as_num b with
  | Some x, Some y => Ok (Z.ltb x y)
  | _, _ => match a, b with
            | VStr x, VStr y => Ok (match String.compare x y with Lt => true | _ => false end)
            | VSet _ _ x, VSet _ _ y => Ok (set_subset x y && negb (set_subset y x))
            | _, _ => if is_cmp_plain a && is_cmp_plain b then Raise (simple_exn "TypeError") else Unmodelled "compare" end end.
Definition py_le (a b : val) : res bool :=
  match as_num a, as_num b with
  | Some x, Some y => Ok (Z.leb x y)
  | _, _ => match a, b with
            | VStr x, VStr y => Ok (match String.compare x y with Gt => false | _ => true end)
            | VSet _ _ x, VSet _ _ y => Ok (set_subset x y)
            | _, _ => if is_cmp_plain a && is_cmp_plain b then Raise (simple_exn "TypeError") else Unmodelled "compare" end end.
Definition m_compare (op : string) (l r : val) : res bool :=
  if String.eqb op "=" then Ok (py_eqb l r)
  else if String.eqb op "!" then Ok (negb (py_eqb l r))
  else if String.eqb op "<" then py_lt l r
  else if String.eqb op ">" then py_lt r l
  else if String.eqb op "l" then py_le l r
  else if String.eqb op "g" then py_le r l
  else Unmodelled "m-op".

(* ---------- handler loops (open recursion) ---------- *)
Section Loops.
Variable fixed_chain : bool.     (* true = chain_child resets MODE to the chain owner's (the repaired tree) *)
Variable rec : recfn.

(* arg_val: MIN_MODE := argument mode for the evaluation, restored afterwards (not on raise) *)
Definition arg_val_i (own : frame) (sc : scope) (t : val) (a : spec) : M val :=
  let! (v, _) := rec (set_arg true own :: sc) t a in ret v.

Fixpoint dict_loop (sc : scope) (t : val) (es : list (spec * spec)) (acc : list (val * val)) : M (list (val * val)) :=
  match es with
  | [] => ret acc
  | (k, s) :: r =>
      let! (v, _) := rec sc t s in
      match v with
      | VSkip => dict_loop sc t r acc
      | _ =>
          let! key := (match k with
                       | ST _ _ | SSpec _ _ => let! (kv, _) := rec sc t k in ret kv
                       | _ => match lit_of_key k with Some kv => ret kv | None => unmodelled "dict-key" end end) in
          if hashable key then dict_loop sc t r (kv_set key v acc) else type_err
      end
  end.

Fixpoint list_loop (sc : scope) (sub : spec) (items : list val) (acc : list val) : M (list val) :=
  match items with
  | [] => ret (rev acc)
  | x :: r =>
      let! (v, _) := rec sc x sub in
      match v with
      | VSkip => list_loop sc sub r acc
      | VStop => ret (rev acc)
      | _ => list_loop sc sub r (v :: acc) end
  end.

(* _handle_tuple: [cur] is the scope chain_child hands to the next step *)
Fixpoint chain_loop (own_mode : mode) (ss : list spec) (cur : scope) (res : val) : M val :=
  match ss with
  | [] => ret res
  | s :: r =>
      let cur' := if fixed_chain then set_head_mode own_mode cur else cur in
      let! (v, child) := rec cur' res s in
      match v with
      | VSkip => chain_loop own_mode r (child :: cur') res
      | VStop => ret res
      | _ => chain_loop own_mode r (child :: cur') v end
  end.

Fixpoint each_loop (sc : scope) (t : val) (ss : list spec) : M (list val) :=
  match ss with
  | [] => ret []
  | s :: r => let! (v, _) := rec sc t s in let! vs := each_loop sc t r in ret (v :: vs) end.

Fixpoint fill_dict_loop (sc : scope) (t : val) (es : list (spec * spec)) (acc : list (val * val)) : M (list (val * val)) :=
  match es with
  | [] => ret acc
  | (k, s) :: r =>
      let! (kv, _) := rec sc t k in
      let! (v, _) := rec sc t s in
      if hashable kv then fill_dict_loop sc t r (kv_set kv v acc) else type_err
  end.

(* Coalesce *)
Definition skip_fn (skip : option val) (v : val) : bool :=
  match skip with
  | None => false
  | Some (VTuple _ xs) => mem py_eqb v xs
  | Some (VFun FIsNone) => match v with VNone => true | _ => false end
  | Some x => py_eqb v x end.

Fixpoint coalesce_loop (sc : scope) (t : val) (ss : list spec) (skip : option val) (skip_exc : list string) : M (option val) :=
  match ss with
  | [] => ret None
  | s :: r =>
      fun st =>
        match rec sc t s st with
        | (Ok (v, _), st') => if skip_fn skip v then coalesce_loop sc t r skip skip_exc st' else (Ok (Some v), st')
        | (Raise e, st') => if exn_among skip_exc e then coalesce_loop sc t r skip skip_exc st' else (Raise e, st')
        | (Unmodelled u, st') => (Unmodelled u, st')
        | (OutOfFuel, st') => (OutOfFuel, st') end
  end.

(* And / Or *)
Fixpoint and_loop (sc : scope) (t : val) (ss : list spec) (result : val) : M val :=
  match ss with [] => ret result | s :: r => let! (v, _) := rec sc t s in and_loop sc t r v end.
Fixpoint or_loop (sc : scope) (t : val) (ss : list spec) : M val :=
  match ss with
  | [] => unmodelled "empty-or"
  | [s] => let! (v, _) := rec sc t s in ret v
  | s :: r => catch (let! (v, _) := rec sc t s in ret v) is_glom_error (fun _ => or_loop sc t r) end.

(* Switch: the value spec of the first passing key is chained after the key (chain_child) *)
Fixpoint switch_loop (own : frame) (sc : scope) (t : val) (cases : list (spec * spec)) : M (option val) :=
  match cases with
  | [] => ret None
  | (k, v) :: r =>
      fun st =>
        match rec (own :: sc) t k st with
        | (Ok (_, child), st') =>
            let cur := child :: own :: sc in
            let cur' := if fixed_chain then set_head_mode (fmode own) cur else cur in
            (let! (res, _) := rec cur' t v in ret (Some res)) st'
        | (Raise e, st') => if is_glom_error e then switch_loop own sc t r st' else (Raise e, st')
        | (Unmodelled u, st') => (Unmodelled u, st')
        | (OutOfFuel, st') => (OutOfFuel, st') end
  end.

(* match mode: list / set patterns — each item against the first alternative that accepts it *)
Fixpoint match_alts (sc : scope) (item : val) (alts : list spec) (last : option exn) : M val :=
  match alts with
  | [] => match last with Some e => fail e | None => fail (simple_exn "MatchError") end
  | a :: r => fun st =>
      match rec sc item a st with
      | (Ok (v, _), st') => (Ok v, st')
      | (Raise e, st') => if is_glom_error e then match_alts sc item r (Some e) st' else (Raise e, st')
      | (Unmodelled u, st') => (Unmodelled u, st')
      | (OutOfFuel, st') => (OutOfFuel, st') end
  end.
Fixpoint match_items (sc : scope) (items : list val) (alts : list spec) : M (list val) :=
  match items with
  | [] => ret []
  | x :: r => let! v := match_alts sc x alts None in let! vs := match_items sc r alts in ret (v :: vs) end.
Fixpoint match_tuple (sc : scope) (items : list val) (ss : list spec) : M (list val) :=
  match items, ss with
  | [], [] => ret []
  | x :: r, s :: rs => let! (v, _) := rec sc x s in let! vs := match_tuple sc r rs in ret (v :: vs)
  | _, _ => fail (simple_exn "MatchError") end.

(* match _handle_dict *)
Fixpoint precedence (k : spec) : nat :=
  match k with
  | SRequired s => precedence s
  | SOptional _ _ => 0
  | SType _ => 2
  | STuple ss | SSetLit true ss => fold_right (fun s acc => Nat.max (precedence s) acc) 0 ss
  | SStr _ | SLit _ | SFn _ => 0
  | SDict _ _ | SList _ | SSetLit false _ => 0    (* unhashable as keys; never generated *)
  | _ => 1 end.
Definition is_required (k : spec) : bool :=
  match k with SRequired _ => true | SOptional _ _ => false | _ => Nat.eqb (precedence k) 0 end.
Definition spec_key (k : spec) : spec := match k with SRequired s => s | _ => k end.

(* try the spec keys in order on one target key; returns the index of the matching spec key, the matched key and the value *)
Fixpoint match_key_loop (own : frame) (sc : scope) (key value : val) (es : list (spec * spec)) (i : nat)
  : M (option (nat * val * val)) :=
  match es with
  | [] => ret None
  | (k, vs) :: r => fun st =>
      match rec (own :: sc) key (spec_key k) st with
      | (Ok (key', child), st') =>
          let cur := child :: own :: sc in
          let cur' := if fixed_chain then set_head_mode (fmode own) cur else cur in
          (let! (v, _) := rec cur' value vs in ret (Some (i, key', v))) st'
      | (Raise e, st') => if is_glom_error e then match_key_loop own sc key value r (S i) st' else (Raise e, st')
      | (Unmodelled u, st') => (Unmodelled u, st')
      | (OutOfFuel, st') => (OutOfFuel, st') end
  end.

Fixpoint match_dict_items (own : frame) (sc : scope) (items : list (val * val)) (es : list (spec * spec))
         (result : list (val * val)) (hit : list nat) : M (list (val * val) * list nat) :=
  match items with
  | [] => ret (result, hit)
  | (k, v) :: r =>
      let! m := match_key_loop own sc k v es 0 in
      match m with
      | Some (i, k', v') => if hashable k' then match_dict_items own sc r es (kv_set k' v' result) (i :: hit) else type_err
      | None => fail (simple_exn "MatchError") end
  end.

(* S(k=spec, ...): every value through arg_val *)
Fixpoint bind_loop (own : frame) (sc : scope) (t : val) (bs : list (string * spec)) : M (list (string * val)) :=
  match bs with
  | [] => ret []
  | (k, a) :: r => let! v := arg_val_i own sc t a in let! vs := bind_loop own sc t r in ret ((k, v) :: vs) end.
(* Let(k=spec, ...) *)
Fixpoint let_loop (sc : scope) (t : val) (bs : list (string * spec)) : M (list (string * val)) :=
  match bs with
  | [] => ret []
  | (k, a) :: r => let! (v, _) := rec sc t a in let! vs := let_loop sc t r in ret ((k, v) :: vs) end.
(* Invoke: the parts in the order given; constants as they are, specs evaluated (positional ones first, then the keyword ones);
   a keyword name given again by a LATER constants() / specs() call is not evaluated at the earlier position at all
   (_cur_kwargs[k] is kwargs); star parts are evaluated and spliced in where they stand *)
Fixpoint kw_loop (sc : scope) (t : val) (kw : list (string * spec)) : M (list (string * val)) :=
  match kw with
  | [] => ret []
  | (k, s) :: r => let! (v, _) := rec sc t s in let! vs := kw_loop sc t r in ret ((k, v) :: vs) end.
Definition later_names (parts : list (nat * list spec * list (string * spec))) : list string :=
  flat_map (fun p => match p with (tag, _, kw) => if Nat.ltb tag 2 then map fst kw else [] end) parts.
Definition live_kw {B} (later : list string) (kw : list (string * B)) : list (string * B) :=
  filter (fun kv => negb (existsb (String.eqb (fst kv)) later)) kw.
Fixpoint invoke_loop (sc : scope) (t : val) (parts : list (nat * list spec * list (string * spec)))
                     (accA : list val) (accK : list (string * val)) : M (list val * list (string * val)) :=
  match parts with
  | [] => ret (accA, accK)
  | (0, ss, kw) :: r =>
      let live := live_kw (later_names r) kw in
      invoke_loop sc t r (accA ++ flat_map const_of ss)
                  (kw_update accK (flat_map (fun kv => map (fun v => (fst kv, v)) (const_of (snd kv))) live))
  | (1, ss, kw) :: r =>
      let! xs := each_loop sc t ss in
      let! ks := kw_loop sc t (live_kw (later_names r) kw) in
      invoke_loop sc t r (accA ++ xs) (kw_update accK ks)
  | (_, ss, kw) :: r =>
      let! xs := (match ss with
                  | [] => ret []
                  | a :: _ => let! (v, _) := rec sc t a in
                              match v with
                              | VList _ l | VTuple _ l => ret l
                              | VDict _ _ kvs => ret (map fst kvs)
                              | VNone | VBool _ | VInt _ | VObj _ _ _ | VFun _ => type_err
                              | _ => unmodelled "star-args" end end) in
      let! ks := (match kw with
                  | [] => ret []
                  | (_, a) :: _ => let! (v, _) := rec sc t a in
                                   match v with
                                   | VDict _ _ kvs => match kw_of_dict kvs with Some l => ret l | None => unmodelled "star-kwargs-key" end
                                   | VNone | VBool _ | VInt _ | VObj _ _ _ | VFun _ => type_err
                                   | _ => unmodelled "star-kwargs" end end) in
      invoke_loop sc t r (accA ++ xs) (kw_update accK ks)
  end.
(* Optional(key, default=...) entries of a match-dict spec whose key is absent from the result *)
Fixpoint optional_defaults (own : frame) (sc : scope) (t : val) (es : list (spec * spec)) (res : list (val * val))
  : M (list (val * val)) :=
  match es with
  | [] => ret res
  | (SOptional k (Some d), _) :: r =>
      match kv_lookup py_eqb k res with
      | Some _ => optional_defaults own sc t r res
      | None => let! v := arg_val_i own sc t d in optional_defaults own sc t r (kv_set k v res) end
  | _ :: r => optional_defaults own sc t r res end.
End Loops.

(* Check(validate=[...]): Some true = a validator returned False or raised and a default is set (the default is the
   result, evaluated as an argument); Some false = an error was recorded; None = all passed *)
Fixpoint validators_loop (has_default : bool) (fs : list fn) (tv : val) : M (option bool) :=
  match fs with
  | [] => ret None
  | f :: r => fun st =>
      match call_logged (VFun f) [tv] st with
      | (Ok (VBool false), st') =>
          if has_default then (Ok (Some true), st') else (let! x := validators_loop has_default r tv in ret (Some false)) st'
      | (Ok _, st') => validators_loop has_default r tv st'
      | (Raise _, st') =>
          (* a validator that raises fails the check like one that answers False: the default, when there is one *)
          if has_default then (Ok (Some true), st')
          else (let! x := validators_loop has_default r tv in ret (Some false)) st'
      | (Unmodelled u, st') => (Unmodelled u, st')
      | (OutOfFuel, st') => (OutOfFuel, st') end
  end.

(* ---------- T / S / A expressions inside the interpreter ---------- *)
Section TExpr.
Variable rec : recfn.

Definition pae_of (k : nat) (r : res val) (catches : list string) : res val :=
  match r with
  | Raise e => if exc_caught catches (ecls e) then Raise (pae (ecls e) k) else Raise e
  | _ => r end.

(* the op loop; [k] is the part index of the next op *)
Fixpoint t_ops (own : frame) (sc : scope) (target : val) (ops : list (string * spec)) (k : nat) (cur : val) : M val :=
  match ops with
  | [] => ret cur
  | (code, a) :: r =>
      let! av := arg_val_i rec own sc target a in
      if String.eqb code "." then
        let! v := lift (pae_of k (getattr_val cur av) ["AttributeError"]) in t_ops own sc target r (S k) v
      else if String.eqb code "[" then
        let! v := lift (pae_of k (getitem_val cur (EVal av)) ["KeyError"; "IndexError"; "TypeError"; "ValueError"]) in
        t_ops own sc target r (S k) v
      else if String.eqb code "P" then
        let! v := lift (pae_of k (get_handler_get cur (EVal av)) ["Exception"]) in t_ops own sc target r (S k) v
      else if String.eqb code "(" then
        match av with
        | VTuple _ args => let! v := call_logged cur args in t_ops own sc target r (S k) v
        | _ => unmodelled "call-args" end
      else unmodelled "t-op"
  end.

Definition vars_ref (v : val) : option nat :=
  match v with VObj i c [] => if Nat.eqb c vars_cls then Some i else None | _ => None end.
Definition vars_get (i : nat) (k : string) : M val :=
  fun st => match nth_error (store st) i with
            | Some attrs => match str_assoc k attrs with
                            | Some v => (Ok v, st)
                            | None => (Raise (simple_exn "AttributeError"), st) end
            | None => (Unmodelled "vars", st) end.
Definition vars_set (i : nat) (k : string) (v : val) : M unit :=
  fun st => match nth_error (store st) i with
            | Some attrs => (Ok tt, mkState (log st) (firstn i (store st) ++ [str_set k v attrs] ++ skipn (S i) (store st)))
            | None => (Unmodelled "vars", st) end.

(* S-rooted read: the first step is a scope lookup (_s_first_magic / ChainMap item access) *)
Definition s_first (own : frame) (sc : scope) (name : string) : M val :=
  if String.eqb name "globals" then ret (VObj 0 vars_cls [])
  else match lookup name (own :: sc) with
       | Some v => ret v
       | None => fail (pae "KeyError" 0) end.

(* attribute access on a ScopeVars object *)
Definition t_ops_scope (own : frame) (sc : scope) (target : val) (ops : list (string * spec)) (k : nat) (cur : val) : M val :=
  match vars_ref cur, ops with
  | Some i, (code, SStr name) :: r =>
      if String.eqb code "." || String.eqb code "P" then
        fun st => match vars_get i name st with
                  | (Ok v, st') => t_ops own sc target r (S k) v st'
                  | (Raise e, st') => (Raise (pae (ecls e) k), st')
                  | (Unmodelled u, st') => (Unmodelled u, st')
                  | (OutOfFuel, st') => (OutOfFuel, st') end
      else unmodelled "vars-op"
  | Some _, [] => ret cur
  | Some _, _ => unmodelled "vars-op"
  | None, _ => t_ops own sc target ops k cur end.
End TExpr.

(* ---------- the interpreter ---------- *)
Section Interp.
Variable fixed_chain : bool.

Definition regex_accepts (id : nat) (s : string) : option (list (string * val)) :=
  (* catalogue: 0 = "a+" fullmatch; 1 = "(?P<n>[0-9]+)" fullmatch, binds n; 2 = ".*"; 3, 4: the other two matching functions *)
  match id with
  | 0 => if negb (String.eqb s "") && forallb (Ascii.eqb "a"%char) (list_ascii_of_string s) then Some [] else None
  | 1 => if negb (String.eqb s "") && forallb (fun c => match digit_of c with Some _ => true | None => false end) (list_ascii_of_string s)
         then Some [("n", VStr s)] else None
  | 2 => if existsb (Ascii.eqb "010"%char) (list_ascii_of_string s) then None else Some []
  (* 3 = Regex("a+", func=re.match): a prefix; 4 = Regex("a+", func=re.search): anywhere *)
  | 3 => match s with String "a"%char _ => Some [] | _ => None end
  | 4 => if existsb (Ascii.eqb "a"%char) (list_ascii_of_string s) then Some [] else None
  | _ => None end.

Definition construct (t : pytype) (v : val) : res val :=       (* a type used as a callable spec in AUTO / FILL *)
  match t with
  | TyInt => apply_fn1 FInt v
  | TyList => apply_fn1 FList v
  | TyTuple => apply_fn1 FTuple v
  | TyStr => apply_fn1 FStr v
  | TyBool => Ok (VBool (truthy v))
  | _ => Unmodelled "constructor" end.

Definition glom_body (rec : recfn) (sc : scope) (t : val) (s : spec) : M (val * frame) :=
  let own0 := mkFrame [] (head_mode sc) (head_arg sc) [] in
  (* T and glomit objects tombstone MIN_MODE *)
  let glomit := fun (body : frame -> M (val * frame)) => body (set_arg false own0) in
  let with_default := fun (own : frame) (default : option spec) (m : M (val * frame)) =>
      catch m is_glom_error (fun e => match default with
                                      | Some d => let! v := arg_val_i rec own sc t d in ret (v, own)
                                      | None => fail e end) in
  match s with
  (* --- T expressions and glomit objects --- *)
  | ST RT ops => glomit (fun own => let! v := t_ops rec own sc t ops 0 t in ret (v, own))
  | ST RS ops =>
      glomit (fun own =>
        match ops with
        | [] => unmodelled "bare-S"
        | (code, SStr name) :: r =>
            if String.eqb code "." || String.eqb code "P" || String.eqb code "[" then
              let! first := s_first own sc name in
              let! v := t_ops_scope rec own sc t r 1 first in ret (v, own)
            else unmodelled "S-op"
        | _ => unmodelled "S-op" end)
  | ST RA ops =>
      (* A.v.k with v bound to a Vars object: the target is stored in that object (A.k and A.globals.k are SAssignScope) *)
      glomit (fun own =>
        match ops with
        | [(c1, SStr v); (c2, SStr k)] =>
            if (String.eqb c1 "." || String.eqb c1 "P") && (String.eqb c2 "." || String.eqb c2 "P") then
              let! first := s_first own sc v in
              match vars_ref first with
              | Some i => let! _ := vars_set i k t in ret (t, own)
              | None => unmodelled "A-into-value" end
            else unmodelled "A-general"
        | _ => unmodelled "A-general" end)
  | SBind bs =>
      glomit (fun own =>
        let! vs := bind_loop rec own sc t bs in
        ret (t, fold_left (fun f kv => add_bind (fst kv) (snd kv) f) vs own))
  | SAssignScope false name => glomit (fun own => ret (t, add_bind name t own))
  | SAssignScope true name => glomit (fun own => let! _ := vars_set 0 name t in ret (t, own))
  | SVal v => glomit (fun own => ret (v, own))
  | SSpec s' scv =>
      glomit (fun own =>
        let own' := fold_left (fun f kv => add_bind (fst kv) (snd kv) f) scv own in
        let! (v, _) := rec (own' :: sc) t s' in ret (v, own'))
  | SPipe ss => glomit (fun own => let! v := chain_loop fixed_chain rec (fmode own) ss (own :: sc) t in ret (v, own))
  | SCoalesce ss default factory skip skip_exc =>
      glomit (fun own =>
        let! r := coalesce_loop rec (own :: sc) t ss skip (match skip_exc with Some l => l | None => ["GlomError"] end) in
        match r with
        | Some v => ret (v, own)
        | None =>
            match default, factory with
            | Some d, _ => let! v := arg_val_i rec own sc t d in ret (v, own)
            | None, Some f => let! v := call_logged (VFun f) [] in ret (v, own)
            | None, None => fail (simple_exn "CoalesceError") end
        end)
  | SCall f args kw =>
      glomit (fun own =>
        let! fv := arg_val_i rec own sc t f in
        let! av := arg_val_i rec own sc t (STuple args) in
        let! kv := (match kw with
                    | [] => ret []
                    | _ => let! d := arg_val_i rec own sc t (SDict false (map (fun kv => (SStr (fst kv), snd kv)) kw)) in
                           match d with
                           | VDict _ _ kvs => match kw_of_dict kvs with Some l => ret l | None => unmodelled "call-kwargs" end
                           | _ => unmodelled "call-kwargs" end end) in
        match av with
        | VTuple _ vs => let! v := call_logged_kw fv vs kv in ret (v, own)
        | _ => unmodelled "call-args" end)
  | SInvoke f parts =>
      glomit (fun own =>
        let! fv := (match f with
                    | ST _ _ | SSpec _ _ => let! (v, _) := rec (own :: sc) t f in ret v
                    | SFn g => ret (VFun g)
                    | _ => unmodelled "invoke-func" end) in
        let! (vs, ks) := invoke_loop rec (own :: sc) t parts [] [] in
        let! v := call_logged_kw fv vs ks in ret (v, own))
  | SRef name sub =>
      glomit (fun own =>
        match sub with
        | Some s' => let own' := add_ref name s' own in let! (v, _) := rec (own' :: sc) t s' in ret (v, own')
        | None => match lookup_ref name (own :: sc) with
                  | Some s' => let! (v, _) := rec (own :: sc) t s' in ret (v, own)
                  | None => fun st => (Raise (simple_exn "KeyError"), st) end
        end)
  | SFill s' => glomit (fun own => let own' := set_mode FILL own in let! (v, _) := rec (own' :: sc) t s' in ret (v, own'))
  | SAuto s' => glomit (fun own => let own' := set_mode AUTO own in let! (v, _) := rec (own' :: sc) t s' in ret (v, own'))
  | SMatch s' default =>
      glomit (fun own =>
        let own' := set_mode MATCH own in
        with_default own' default (let! (v, _) := rec (own' :: sc) t s' in ret (v, own')))
  | SLet bs =>
      glomit (fun own =>
        let! vs := let_loop rec (own :: sc) t bs in
        ret (t, fold_left (fun f kv => add_bind (fst kv) (snd kv) f) vs own))
  | SVars defaults =>
      glomit (fun own => fun st =>
        let i := length (store st) in
        (Ok (VObj i vars_cls [], own), mkState (log st) (store st ++ [defaults])))
  | SAnd ss default =>
      glomit (fun own => with_default own default (let! v := and_loop rec (own :: sc) t ss t in ret (v, own)))
  | SOr ss default =>
      glomit (fun own => with_default own default (let! v := or_loop rec (own :: sc) t ss in ret (v, own)))
  | SNot s' =>
      glomit (fun own => fun st =>
        match rec (own :: sc) t s' st with
        | (Ok _, st') => (Raise (simple_exn "MatchError"), st')
        | (Raise e, st') => if is_glom_error e then (Ok (t, own), st') else (Raise e, st')
        | (Unmodelled u, st') => (Unmodelled u, st')
        | (OutOfFuel, st') => (OutOfFuel, st') end)
  | SM => glomit (fun own => if truthy t then ret (t, own) else fail (simple_exn "MatchError"))
  | SMSub s' =>
      glomit (fun own => let! (v, _) := rec (own :: sc) t s' in
                         if truthy v then ret (t, own) else fail (simple_exn "MatchError"))
  | SMExpr lhs op rhs =>
      glomit (fun own =>
        let side := fun (x : spec) => match x with
                                      | SM => ret t
                                      | SLit v => ret v
                                      | SStr k => ret (VStr k)
                                      | SMSub s' => let! (v, _) := rec (own :: sc) t s' in ret v
                                      | _ => unmodelled "m-side" end in
        let! l := side lhs in
        let! r := side rhs in
        (* values that cannot be ordered (the comparison raises TypeError) do not match *)
        match m_compare op l r with
        | Ok true => ret (t, own)
        | Ok false => fail (simple_exn "MatchError")
        | Raise e => if String.eqb (ecls e) "TypeError" then fail (simple_exn "MatchError") else fail e
        | Unmodelled u => unmodelled u
        | OutOfFuel => fun st => (OutOfFuel, st) end)
  | SSwitch cases default =>
      glomit (fun own =>
        let! r := switch_loop fixed_chain rec own sc t cases in
        match r with
        | Some v => ret (v, own)
        | None => match default with
                  | Some d => let! v := arg_val_i rec own sc t d in ret (v, own)
                  | None => fail (simple_exn "MatchError") end
        end)
  | SCheck sub types vals validators inst_of default =>
      glomit (fun own =>
        let! tv := (match sub with Some s' => let! (v, _) := rec (own :: sc) t s' in ret v | None => ret t end) in
        let dflt := fun (k : M (val * frame)) =>
          match default with Some d => let! v := arg_val_i rec own sc tv d in ret (v, own) | None => k end in
        let bad_type := match types with [] => false | _ => negb (existsb (pytype_eqb (type_of tv)) types) end in
        let bad_val := match vals with [] => false | _ => negb (mem py_eqb tv vals) end in
        let bad_inst := match inst_of with [] => false | _ => negb (existsb (isinstance tv) inst_of) end in
        if bad_type && match default with Some _ => true | None => false end then dflt (ret (t, own))
        else if bad_val && match default with Some _ => true | None => false end then dflt (ret (t, own))
        else
          (* validators: a False result or a raising validator, with a default set, returns the default evaluated as an argument (F36, F48) *)
          (* with no condition at all Check validates truthiness *)
          let implicit := match types, vals, validators, inst_of with [], [], [], [] => true | _, _, _, _ => false end in
          let! verr := (if implicit
                        then (if truthy tv then ret None
                              else ret (Some (match default with Some _ => true | None => false end)))
                        else validators_loop (match default with Some _ => true | None => false end) validators tv) in
          match verr with
          | Some true => dflt (ret (t, own))      (* like every other refusal: arg_val(target, default, scope) *)
          | _ =>
              if bad_inst && match default with Some _ => true | None => false end then dflt (ret (t, own))
              else if bad_type || bad_val || bad_inst || match verr with Some false => true | _ => false end
                   then fail (simple_exn "CheckError") else ret (t, own)
          end)
  | SOptional key _ => glomit (fun own => if py_eqb t key then ret (t, own) else fail (simple_exn "MatchError"))
  | SRequired _ => unmodelled "required-standalone"
  | SRegex id =>
      glomit (fun own =>
        match t with
        | VStr str => match regex_accepts id str with
                      | Some groups => ret (t, fold_left (fun f kv => add_bind (fst kv) (snd kv) f) groups own)
                      | None => fail (simple_exn "MatchError") end
        | _ => fail (simple_exn "MatchError") end)
  (* --- plain Python objects: MIN_MODE (argument mode) or MODE decides --- *)
  | _ =>
      let own := own0 in
      if farg own then
        (* _ArgValuator.mode: list / dict (exact) / tuple / set rebuilt, everything else literal *)
        match s with
        | SList ss => let! vs := each_loop rec (own :: sc) t ss in ret (VList 0 vs, own)
        | STuple ss => let! vs := each_loop rec (own :: sc) t ss in ret (VTuple 0 vs, own)
        | SSetLit fz ss => let! vs := each_loop rec (own :: sc) t ss in ret (VSet 0 fz vs, own)
        | SDict false es => let! kvs := fill_dict_loop rec (own :: sc) t es [] in ret (VDict 0 false kvs, own)
        | SDict true _ => unmodelled "odict-literal"
        | SStr k => ret (VStr k, own)
        | SLit v => ret (v, own)
        | SFn f => ret (VFun f, own)
        | SType ty => ret (VType ty, own)
        | _ => unmodelled "arg-mode" end
      else match fmode own with
      | AUTO =>
          match s with
          | SStr text =>
              (* Path.from_text(text): 'P' steps (wildcards are C14's) *)
              let segs := split_dots text in
              if existsb (fun x => String.eqb x "*" || String.eqb x "**") segs then unmodelled "wildcard"
              else let! v := t_ops rec own sc t (map (fun x => ("P", SStr x)) segs) 0 t in ret (v, own)
          | SDict od es => let! kvs := dict_loop rec (own :: sc) t es [] in ret (VDict 0 od kvs, own)
          | SList [sub] =>
              let! items := lift (iterate t) in
              let! vs := list_loop rec (own :: sc) sub items [] in ret (VList 0 vs, own)
          | SList _ => unmodelled "list-spec-arity"
          | STuple ss => let! v := chain_loop fixed_chain rec (fmode own) ss (own :: sc) t in ret (v, own)
          | SFn f => let! v := call_logged (VFun f) [t] in ret (v, own)
          | SType ty => let! v := lift (construct ty t) in ret (v, own)
          | SLit _ | SSetLit _ _ => type_err
          | _ => unmodelled "auto" end
      | FILL =>
          match s with
          | SDict false es => let! kvs := fill_dict_loop rec (own :: sc) t es [] in ret (VDict 0 false kvs, own)
          | SDict true _ => unmodelled "odict-literal"
          | SList ss => let! vs := each_loop rec (own :: sc) t ss in ret (VList 0 vs, own)
          | STuple ss => let! vs := each_loop rec (own :: sc) t ss in ret (VTuple 0 vs, own)
          | SSetLit fz ss => let! vs := each_loop rec (own :: sc) t ss in ret (VSet 0 fz vs, own)
          | SFn f => let! v := call_logged (VFun f) [t] in ret (v, own)
          | SType ty => let! v := lift (construct ty t) in ret (v, own)
          | SStr k => ret (VStr k, own)
          | SLit v => ret (v, own)
          | _ => unmodelled "fill" end
      | MATCH =>
          match s with
          | SType ty => if isinstance t ty then ret (t, own) else fail (simple_exn "TypeMatchError")
          | SDict _ es =>
              match t with
              | VDict _ _ items =>
                  let! (result, hit) := match_dict_items fixed_chain rec own sc items es [] [] in
                  (* Optional defaults for keys not present in the result *)
                  let! result' := optional_defaults rec own sc t es result in
                  let missing := existsb (fun ik => is_required (fst (snd ik)) && negb (existsb (Nat.eqb (fst ik)) hit))
                                         (combine (seq 0 (length es)) es) in
                  if missing then fail (simple_exn "MatchError") else ret (VDict 0 false result', own)
              | _ => fail (simple_exn "TypeMatchError") end
          | SList alts =>
              match t with
              | VList _ items => let! vs := match_items rec (own :: sc) items alts in ret (VList 0 vs, own)
              | _ => fail (simple_exn "TypeMatchError") end
          | SSetLit fz alts =>
              match t with
              | VSet _ fz' items =>
                  if Bool.eqb fz fz' || (fz' && negb fz && false) then
                    let! vs := match_items rec (own :: sc) items alts in ret (VSet 0 fz vs, own)
                  else fail (simple_exn "TypeMatchError")
              | _ => fail (simple_exn "TypeMatchError") end
          | STuple ss =>
              match t with
              | VTuple _ items =>
                  if Nat.eqb (length items) (length ss) then
                    let! vs := match_tuple rec (own :: sc) items ss in ret (VTuple 0 vs, own)
                  else fail (simple_exn "MatchError")
              | _ => fail (simple_exn "TypeMatchError") end
          | SFn f => fun st =>
              match call_logged (VFun f) [t] st with
              | (Ok v, st') => if truthy v then (Ok (t, own), st') else (Raise (simple_exn "MatchError"), st')
              | (Raise _, st') => (Raise (simple_exn "MatchError"), st')
              | (Unmodelled u, st') => (Unmodelled u, st')
              | (OutOfFuel, st') => (OutOfFuel, st') end
          | SStr k => if py_eqb t (VStr k) then ret (t, own) else fail (simple_exn "MatchError")
          | SLit v => if py_eqb t v then ret (t, own) else fail (simple_exn "MatchError")
          | _ => unmodelled "match" end
      | GROUP => unmodelled "group-mode"
      end
  end.

Fixpoint glom_ (fuel : nat) (sc : scope) (t : val) (s : spec) {struct fuel} : M (val * frame) :=
  match fuel with O => fun st => (OutOfFuel, st) | S fuel => glom_body (glom_ fuel) sc t s end.
End Interp.

Definition default_fuel_i : nat := 60.

(* glom(target, spec, scope={...}): a fresh root frame per call, the caller's bindings copied into it *)
Definition root_frame (user : list (string * val)) : frame := mkFrame user AUTO false [].
Definition glom_top (fixed_chain : bool) (user : list (string * val)) (t : val) (s : spec) : res val * state :=
  match glom_ fixed_chain default_fuel_i [root_frame user] t s init_state with
  | (Ok (v, _), st) => (Ok v, st)
  | (Raise e, st) => (Raise e, st)
  | (Unmodelled u, st) => (Unmodelled u, st)
  | (OutOfFuel, st) => (OutOfFuel, st) end.
