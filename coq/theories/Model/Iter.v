(* Model/Iter.v — Iter pipelines (C17): glom/streaming.py.
   An Iter spec is (subspec, sentinel, _iter_stack); Iter.glomit starts from the generator Iter._iterate and wraps it with
   the callbacks of the stack in REVERSE stack order (the stack is newest first), so the stages run in chaining order.
   Every stage is an incremental transducer: [feed] consumes one upstream item and emits the outputs it determines
   (promptly: as soon as they are determined, which is when the lazy itertools / boltons iterator would yield them),
   [flush1] emits what is left when the upstream ends.  A pipeline pushes each source item depth-first through the stages:
   an output of stage i travels through all later stages before stage i produces its next output, which is the order in
   which the nested Python iterators run.  The number of source items fed when the k-th output appears is the number of
   items pulled from the source, so laziness is a statement about this machine.  Builders ([_add_op]) are modelled over a
   heap of spec objects so that "never alters the spec it was called on" is a frame statement. *)
From Coq Require Import String ZArith Bool List Lia.
From Glom Require Import Base.PyVal Model.TEval Model.Reduce.
Import ListNotations.
Local Open Scope string_scope.
Local Open Scope list_scope.

(* ---------- callbacks: what scope[glom](t, subspec, scope) does for the subspecs used ---------- *)
Inductive cb :=
| CT                       (* T *)
| CFn (f : fn)             (* a catalogue callable *)
| CRaiseAt (z : Z)         (* lambda x: 1/0-style failure when x == z, else x  (ValueError) *)
| CMod (m : Z)             (* lambda x: x % m *)
| CLt (z : Z)              (* lambda x: x < z *)
| CSkipAt (z : Z)          (* lambda x: SKIP if x == z else x *)
| CStopAt (z : Z)          (* lambda x: STOP if x == z else x *)
| CNoneAt (z : Z).         (* lambda x: None if x == z else x *)

Definition eq_int (x : val) (z : Z) : bool := match as_num x with Some a => Z.eqb a z | None => false end.

Definition apply_cb (c : cb) (x : val) : res val :=
  match c with
  | CT => Ok x
  | CFn f => apply_fn1 f x
  | CRaiseAt z => if is_plain x then (if eq_int x z then Raise (simple_exn "ValueError") else Ok x) else Unmodelled "cb"
  | CSkipAt z => if is_plain x then (if eq_int x z then Ok VSkip else Ok x) else Unmodelled "cb"
  | CStopAt z => if is_plain x then (if eq_int x z then Ok VStop else Ok x) else Unmodelled "cb"
  | CNoneAt z => if is_plain x then (if eq_int x z then Ok VNone else Ok x) else Unmodelled "cb"
  | CMod m => match as_num x with
              | Some a => if Z.eqb m 0 then Raise (simple_exn "ZeroDivisionError") else Ok (VInt (a mod m))
              | None => match x with VNone | VList _ _ | VTuple _ _ | VDict _ _ _ => type_error | _ => Unmodelled "cb" end end
  | CLt z => match as_num x with
             | Some a => Ok (VBool (a <? z)%Z)
             | None => match x with VNone | VList _ _ | VTuple _ _ | VDict _ _ _ | VStr _ => type_error | _ => Unmodelled "cb" end end
  end.

(* ---------- stages ---------- *)
Inductive stage :=
| SBase (sub : cb) (sentinel : val)                 (* Iter._iterate *)
| SMap (c : cb)
| SFilter (c : cb)                                  (* through Check(key, default=SKIP) *)
| SFilterPlain (c : cb)                             (* builtin filter(key, it), as used by First *)
| SSlice (start : nat) (stop : option nat) (step : nat)
| STakeWhile (c : cb)
| SDropWhile (c : cb)
| SChunked (n : nat) (fill : option val)
| SWindowed (n : nat)
| SSplit (sep : val) (maxsplit : option nat)
| SUnique (c : cb)
| SFlatten.

Inductive sstate :=
| XNone
| XSlice (cnt next : nat)
| XFlag (b : bool)
| XBuf (l : list val)
| XSplit (cur : list val) (count : nat).

Inductive status := Cont | Stop | Err (e : exn) | Unm (tag : string).

Definition fout : Type := list val * status * sstate.

Definition init_state (st : stage) : sstate :=
  match st with
  | SSlice start _ _ => XSlice 0 start
  | SDropWhile _ => XFlag false
  | SChunked _ _ | SWindowed _ | SUnique _ => XBuf []
  | SSplit _ _ => XSplit [] 0
  | _ => XNone end.

Definition slice_done (cnt next : nat) (stop : option nat) : bool :=
  match stop with Some s => Nat.leb next cnt && Nat.leb s cnt | None => false end.

(* a stage that is exhausted before it pulls anything *)
Definition stopped0 (st : stage) : bool :=
  match st with SSlice start stop _ => slice_done 0 start stop | _ => false end.

(* `x is y` for the objects that can be sentinels *)
Definition is_same (a b : val) : bool :=
  match a, b with
  | VNone, VNone | VSkip, VSkip | VStop, VStop => true
  | VBool x, VBool y => Bool.eqb x y
  | _, _ => false end.

Definition is_skip (v : val) : bool := match v with VSkip => true | _ => false end.

Definition with_cb (c : cb) (x : val) (s : sstate) (k : val -> fout) : fout :=
  match apply_cb c x with
  | Ok y => k y
  | Raise e => ([], Err e, s)
  | Unmodelled t => ([], Unm t, s)
  | OutOfFuel => ([], Unm "fuel", s) end.

Fixpoint pad (n : nat) (v : val) : list val := match n with O => [] | S n => v :: pad n v end.

Definition feed (st : stage) (s : sstate) (x : val) : fout :=
  match st, s with
  | SBase sub sentinel, _ =>
      with_cb sub x s (fun y =>
        if is_skip y then ([], Cont, s)
        else if is_same y sentinel || is_same y VStop then ([], Stop, s)
        else ([y], Cont, s))
  | SMap c, _ => with_cb c x s (fun y => ([y], Cont, s))
  | SFilter c, _ => with_cb c x s (fun y => if truthy y && negb (is_skip x) then ([x], Cont, s) else ([], Cont, s))
  | SFilterPlain c, _ => with_cb c x s (fun y => if truthy y then ([x], Cont, s) else ([], Cont, s))
  | SSlice _ stop step, XSlice cnt next =>
      if Nat.ltb cnt next then
        ([], (if slice_done (S cnt) next stop then Stop else Cont), XSlice (S cnt) next)
      else
        let next' := match stop with
                     | Some sp => if Nat.ltb sp (next + step) then sp else next + step
                     | None => next + step end in
        ([x], (if slice_done (S cnt) next' stop then Stop else Cont), XSlice (S cnt) next')
  | STakeWhile c, _ => with_cb c x s (fun y => if truthy y then ([x], Cont, s) else ([], Stop, s))
  | SDropWhile c, XFlag started =>
      if started then ([x], Cont, s)
      else with_cb c x s (fun y => if truthy y then ([], Cont, s) else ([x], Cont, XFlag true))
  | SChunked n _, XBuf buf =>
      match n with O => ([], Unm "chunk-size", s) | _ =>
      let buf' := buf ++ [x] in
      if Nat.eqb (List.length buf') n then ([VList 0 buf'], Cont, XBuf []) else ([], Cont, XBuf buf') end
  | SWindowed n, XBuf buf =>
      match n with O => ([], Unm "window-size", s) | _ =>
      let buf' := buf ++ [x] in
      if Nat.eqb (List.length buf') n then ([VTuple 0 buf'], Cont, XBuf (tl buf')) else ([], Cont, XBuf buf') end
  | SSplit sep maxsplit, XSplit cur count =>
      match maxsplit with Some O => ([], Unm "maxsplit-0", s) | _ =>
      let active := match maxsplit with Some m => Nat.ltb count m | None => true end in
      if active && py_eqb x sep then
        (if is_same sep VNone && match cur with [] => true | _ => false end then ([], Cont, s)
         else ([VList 0 cur], Cont, XSplit [] (S count)))
      else ([], Cont, XSplit (cur ++ [x]) count) end
  | SUnique c, XBuf seen =>
      with_cb c x s (fun k =>
        if negb (hashable k) then ([], Err (simple_exn "TypeError"), s)
        else if mem py_eqb k seen then ([], Cont, s) else ([x], Cont, XBuf (seen ++ [k])))
  | SFlatten, _ =>
      match iter_items x with
      | Ok items => (items, Cont, s)
      | Raise e => ([], Err e, s)
      | Unmodelled t => ([], Unm t, s)
      | OutOfFuel => ([], Unm "fuel", s) end
  | _, _ => ([], Unm "stage-state", s)
  end.

(* what a stage still emits when its upstream ends *)
Definition flush1 (st : stage) (s : sstate) : list val :=
  match st, s with
  | SChunked n fill, XBuf buf =>
      match buf with
      | [] => []
      | _ => [VList 0 (buf ++ match fill with Some v => pad (n - List.length buf) v | None => [] end)] end
  | SSplit sep _, XSplit cur _ =>
      if negb (is_same sep VNone) || match cur with [] => false | _ => true end then [VList 0 cur] else []
  | _, _ => [] end.

(* ---------- pipelines ---------- *)
Definition pres : Type := list val * status * list sstate.

Section PushList.
  Variable p : list sstate -> val -> pres.
  (* the outputs of one stage go downstream one at a time; the first Stop / error ends it *)
  Fixpoint push_list (ss : list sstate) (outs : list val) : pres :=
    match outs with
    | [] => ([], Cont, ss)
    | y :: r => let '(f1, e1, ss1) := p ss y in
                match e1 with
                | Cont => let '(f2, e2, ss2) := push_list ss1 r in (f1 ++ f2, e2, ss2)
                | _ => (f1, e1, ss1) end
    end.
End PushList.

(* push: one item depth-first through the stages.  flush: the upstream of [stages] has ended — flush them in order, each
   flush output travelling downstream first. *)
Fixpoint push (stages : list stage) (sts : list sstate) (x : val) {struct stages} : pres :=
  match stages, sts with
  | [], _ => ([x], Cont, [])
  | st :: rest, s :: ss =>
      let '(outs, e, s') := feed st s x in
      let '(f1, e1, ss1) := push_list (push rest) ss outs in
      match e1 with
      | Cont =>
          match e with
          | Cont => (f1, Cont, s' :: ss1)
          | Stop => let '(f2, e2, ss2) := flush rest ss1 in (f1 ++ f2, e2, s' :: ss2)
          | _ => (f1, e, s' :: ss1) end
      | _ => (f1, e1, s' :: ss1) end
  | _ :: _, [] => ([], Unm "state", [])
  end
with flush (stages : list stage) (sts : list sstate) {struct stages} : pres :=
  match stages, sts with
  | [], _ => ([], Stop, [])
  | st :: rest, s :: ss =>
      let '(f1, e1, ss1) := push_list (push rest) ss (flush1 st s) in
      match e1 with
      | Cont => let '(f2, e2, ss2) := flush rest ss1 in (f1 ++ f2, e2, s :: ss2)
      | _ => (f1, e1, s :: ss1) end
  | _ :: _, [] => ([], Unm "state", [])
  end.

(* ---------- running a pipeline over a source ---------- *)
Inductive ending := EGotK | EExhausted | ERaised (e : exn) | EUnm (tag : string) | EFuel.

Definition reached (k : option nat) (acc : list val) : bool :=
  match k with Some n => Nat.leb n (List.length acc) | None => false end.
Definition cut (k : option nat) (acc : list val) : list val :=
  match k with Some n => firstn n acc | None => acc end.

(* [items]: the source items available; [finite]: whether the source ends after them (otherwise they are the first
   [fuel] items of an infinite source).  Returns the outputs, how it ended, and how many source items were pulled. *)
Fixpoint drive (stages : list stage) (sts : list sstate) (items : list val) (finite : bool) (k : option nat)
               (acc : list val) (pulls : nat) : list val * ending * nat :=
  if reached k acc then (cut k acc, EGotK, pulls) else
  match items with
  | [] => if finite then
            let '(f, e, _) := flush stages sts in
            let acc' := acc ++ f in
            if reached k acc' then (cut k acc', EGotK, pulls)
            else match e with
                 | Err x => (acc', ERaised x, pulls) | Unm t => (acc', EUnm t, pulls) | _ => (acc', EExhausted, pulls) end
          else (acc, EFuel, pulls)
  | x :: r =>
      let '(f, e, sts') := push stages sts x in
      let acc' := acc ++ f in
      if reached k acc' then (cut k acc', EGotK, S pulls)
      else match e with
           | Cont => drive stages sts' r finite k acc' (S pulls)
           | Stop => (acc', EExhausted, S pulls)
           | Err x => (acc', ERaised x, S pulls)
           | Unm t => (acc', EUnm t, S pulls) end
  end.

(* index of the first stage that is exhausted before pulling anything *)
Fixpoint first_stopped0 (stages : list stage) : option nat :=
  match stages with
  | [] => None
  | st :: r => if stopped0 st then Some 0 else option_map S (first_stopped0 r) end.

Definition has_windowed (stages : list stage) : bool :=
  existsb (fun st => match st with SWindowed _ => true | _ => false end) stages.

(* sources *)
Inductive source := SrcList (l : list val) | SrcCount (start step : Z) | SrcCycle (l : list val).

Fixpoint count_items (n : nat) (start step : Z) : list val :=
  match n with O => [] | S n => VInt start :: count_items n (start + step)%Z step end.
Fixpoint cycle_items (n : nat) (l cur : list val) : list val :=
  match n with O => [] | S n =>
    match cur with
    | x :: r => x :: cycle_items n l r
    | [] => match l with x :: r => x :: cycle_items n l r | [] => [] end end end.

Definition src_items (fuel : nat) (s : source) : list val * bool :=
  match s with
  | SrcList l => (l, true)
  | SrcCount a d => (count_items fuel a d, false)
  | SrcCycle l => match l with [] => ([], true) | _ => (cycle_items fuel l l, false) end end.

(* glom(source, Iter-spec) observed by taking k items (k = None: draining) *)
Definition run (fuel : nat) (stages : list stage) (src : source) (k : option nat) : list val * ending * nat :=
  let '(items, finite) := src_items fuel src in
  match first_stopped0 stages with
  | Some j =>
      (* nothing upstream of stage j is ever pulled by it; windowed_iter primes itself eagerly, which is not modelled here *)
      if has_windowed (firstn j stages) then ([], EUnm "windowed-before-stopped", 0)
      else let rest := skipn (S j) stages in
           let '(f, e, _) := flush rest (map init_state rest) in
           if reached k f then (cut k f, EGotK, 0)
           else match e with Err x => (f, ERaised x, 0) | Unm t => (f, EUnm t, 0) | _ => (f, EExhausted, 0) end
  | None =>
      match k with
      | Some O => if has_windowed stages then ([], EUnm "windowed-priming", 0) else ([], EGotK, 0)
      | _ => drive stages (map init_state stages) items finite k [] 0 end
  end.

(* ---------- Iter specs as heap objects: the builders ---------- *)
Record iter_obj := mkIter { io_sub : cb; io_sentinel : val; io_stack : nat }.   (* io_stack: address of the list object *)
Inductive hcell := HStack (l : list stage) | HIter (o : iter_obj).
Definition sheap := list hcell.

Definition new_iter (h : sheap) (sub : cb) (sentinel : val) : sheap * nat :=
  (h ++ [HStack []; HIter (mkIter sub sentinel (List.length h))], S (List.length h)).

(* Iter._add_op: type(self)(subspec=self.subspec, sentinel=self.sentinel, _iter_stack=[entry] + self._iter_stack) *)
Definition add_op (h : sheap) (self : nat) (entry : stage) : option (sheap * nat) :=
  match nth_error h self with
  | Some (HIter o) =>
      match nth_error h (io_stack o) with
      | Some (HStack l) =>
          Some (h ++ [HStack (entry :: l); HIter (mkIter (io_sub o) (io_sentinel o) (List.length h))], S (List.length h))
      | _ => None end
  | _ => None end.

(* the stages of a spec in the order glomit applies them: the base generator, then reversed(_iter_stack) *)
Definition stages_of (h : sheap) (i : nat) : option (list stage) :=
  match nth_error h i with
  | Some (HIter o) =>
      match nth_error h (io_stack o) with
      | Some (HStack l) => Some (SBase (io_sub o) (io_sentinel o) :: rev l)
      | _ => None end
  | _ => None end.

(* terminal methods *)
Definition run_all (fuel : nat) (stages : list stage) (src : source) : res val :=
  match run fuel stages src None with
  | (outs, EExhausted, _) => Ok (VList 0 outs)
  | (_, ERaised e, _) => Raise e
  | (_, EUnm t, _) => Unmodelled t
  | (_, _, _) => OutOfFuel end.

Definition run_first (fuel : nat) (stages : list stage) (key : cb) (default : val) (src : source) : res val * nat :=
  match run fuel (stages ++ [SFilterPlain key]) src (Some 1) with
  | (x :: _, EGotK, n) => (Ok x, n)
  | (_, EExhausted, n) => (Ok default, n)
  | (_, ERaised e, n) => (Raise e, n)
  | (_, EUnm t, n) => (Unmodelled t, n)
  | (_, _, n) => (OutOfFuel, n) end.
