(* Model/Mutate.v — Assign / assign() and Delete / delete() over object graphs (C11, C12): path split into parent path
   and final (op, arg); parent fetch; on PathAccessError with missing= the absent tail is built first and attached at
   the break point; _assign_op / _del_one per addressing style; the 'assign' / 'delete' handlers of the default
   registry; _apply_for_each over wildcard results. *)
From Coq Require Import String ZArith Bool List Lia.
From Glom Require Import Base.PyVal Base.Heap Model.Wild.
Import ListNotations.
Local Open Scope string_scope.
Local Open Scope list_scope.

Inductive mseg :=
| MP (a : atom)          (* plain segment: registry handler by type *)
| MIdx (a : atom)        (* T[...] *)
| MAttr (n : string)     (* T.attr *)
| MStar | MStarStar.

(* classes with assignment / deletion faults: 0, 1 plain; 2 raising __setattr__; 3 raising __delattr__ *)
Definition setattr_raises (cls : nat) : bool := Nat.eqb cls 2.
Definition delattr_raises (cls : nat) : bool := Nat.eqb cls 3.

Fixpoint akv_set {B} (k : atom) (v : B) (l : list (atom * B)) : list (atom * B) :=
  match l with [] => [(k, v)] | (k', v') :: r => if atom_eqb k k' then (k', v) :: r else (k', v') :: akv_set k v r end.
Fixpoint akv_remove {B} (k : atom) (l : list (atom * B)) : list (atom * B) :=
  match l with [] => [] | (k', v') :: r => if atom_eqb k k' then r else (k', v') :: akv_remove k r end.
Fixpoint sattr_set {B} (k : string) (v : B) (l : list (string * B)) : list (string * B) :=
  match l with [] => [(k, v)] | (k', v') :: r => if String.eqb k k' then (k', v) :: r else (k', v') :: sattr_set k v r end.
Fixpoint sattr_remove {B} (k : string) (l : list (string * B)) : list (string * B) :=
  match l with [] => [] | (k', v') :: r => if String.eqb k k' then r else (k', v') :: sattr_remove k r end.
Fixpoint remove_nth {A} (i : nat) (l : list A) : list A :=
  match l, i with [], _ => [] | _ :: r, O => r | x :: r, S i => x :: remove_nth i r end.

Definition norm_index (len : nat) (z : Z) : option nat :=
  let n := Z.of_nat len in
  if (0 <=? z)%Z && (z <? n)%Z then Some (Z.to_nat z)
  else if (z <? 0)%Z && (- n <=? z)%Z then Some (Z.to_nat (n + z)) else None.

Definition put (h : heap) (l : nat) (n : gnode) : heap := set_nth l n h.

(* ---------- the parent path ---------- *)
(* one non-wildcard step; the class of error decides whether it becomes a PathAccessError *)
Definition mstep (h : heap) (cur : gval) (s : mseg) : res gval :=
  match s with
  | MP a => hget h cur a
  | MIdx a =>
      match cur with
      | GA (AStr str) =>
          match a with
          | AInt _ | ABool _ => match atom_int a with
                                | CInt z => match seq_index (list_ascii_of_string str) z with
                                            | Some c => Ok (GA (AStr (String c EmptyString)))
                                            | None => Raise (simple_exn "IndexError") end
                                | CErr c => Raise (simple_exn c) end
          | _ => Raise (simple_exn "TypeError") end
      | GA _ => Raise (simple_exn "TypeError")
      | GR l =>
          match node_at h l with
          | Some (NDict _ kvs) => match akv_lookup a kvs with Some v => Ok v | None => Raise (simple_exn "KeyError") end
          | Some (NList xs) | Some (NTuple xs) =>
              match a with
              | AInt _ | ABool _ => match atom_int a with
                                    | CInt z => match seq_index xs z with Some v => Ok v | None => Raise (simple_exn "IndexError") end
                                    | CErr c => Raise (simple_exn c) end
              | _ => Raise (simple_exn "TypeError") end
          | Some (NObj _ _) => Raise (simple_exn "TypeError")
          | None => Unmodelled "dangling" end
      end
  | MAttr n =>
      if negb (safe_attr n) then Unmodelled "getattr-name" else
      match cur with
      | GR l => match node_at h l with
                | Some (NObj _ attrs) => match str_assoc n attrs with Some v => Ok v | None => Raise (simple_exn "AttributeError") end
                | Some _ => Raise (simple_exn "AttributeError")
                | None => Unmodelled "dangling" end
      | GA _ => Raise (simple_exn "AttributeError") end
  | MStar | MStarStar => Unmodelled "wildcard-step" end.

(* wildcard-free parent path: PathAccessError(.., k) for the first failing segment *)
Fixpoint mpath (h : heap) (segs : list mseg) (k : nat) (cur : gval) : res gval :=
  match segs with
  | [] => Ok cur
  | s :: r => match mstep h cur s with
              | Ok v => mpath h r (S k) v
              | Raise e => Raise (pae (ecls e) k)
              | Unmodelled t => Unmodelled t
              | OutOfFuel => OutOfFuel end
  end.

Definition has_wild (segs : list mseg) : bool := existsb (fun s => match s with MStar | MStarStar => true | _ => false end) segs.

(* parent path with wildcards: only plain segments and wildcards (as Model/Wild) *)
Fixpoint to_wsteps (segs : list mseg) : option (list wstep) :=
  match segs with
  | [] => Some []
  | MP a :: r => option_map (cons (WP a)) (to_wsteps r)
  | MStar :: r => option_map (cons WStar) (to_wsteps r)
  | MStarStar :: r => option_map (cons WStarStar) (to_wsteps r)
  | _ => None end.
Fixpoint wflatten (fuel : nat) (layers : nat) (r : wres) : list gval :=
  (* _apply_for_each: flatten (layers - 1) levels, then one function call per inner entry *)
  match fuel with O => [] | S fuel =>
  match layers, r with
  | O, WVal v => [v]
  | S n, WList xs => flat_map (wflatten fuel n) xs
  | _, _ => [] end end.
Definition wcount (ws : list wstep) : nat :=
  length (filter (fun s => match s with WP _ => false | _ => true end) ws).
Definition dests (h : heap) (segs : list mseg) (target : gval) : res (list gval) :=
  if has_wild segs then
    match to_wsteps segs with
    | Some ws => match weval h ws 0 target with
                 | Ok r => Ok (wflatten 8 (wcount ws) r)
                 | Raise e => Raise e | Unmodelled t => Unmodelled t | OutOfFuel => OutOfFuel end
    | None => Unmodelled "mixed-wildcard-path" end
  else match mpath h segs 0 target with
       | Ok d => Ok [d] | Raise e => Raise e | Unmodelled t => Unmodelled t | OutOfFuel => OutOfFuel end.

(* ---------- _assign_op ---------- *)
Definition path_assign_error : exn := simple_exn "PathAssignError".
Definition path_delete_error : exn := simple_exn "PathDeleteError".

(* dest[arg] = val *)
Definition setitem (h : heap) (dest : gval) (a : atom) (v : gval) : res heap :=
  match dest with
  | GA _ => Raise (simple_exn "TypeError")
  | GR l =>
      match node_at h l with
      | Some (NDict od kvs) => Ok (put h l (NDict od (akv_set a v kvs)))
      | Some (NList xs) =>
          match a with
          | AInt _ | ABool _ =>
              match atom_int a with
              | CInt z => match norm_index (length xs) z with
                          | Some i => Ok (put h l (NList (set_nth i v xs)))
                          | None => Raise (simple_exn "IndexError") end
              | CErr c => Raise (simple_exn c) end
          | _ => Raise (simple_exn "TypeError") end
      | Some (NTuple _) | Some (NObj _ _) => Raise (simple_exn "TypeError")
      | None => Unmodelled "dangling" end
  end.

(* setattr(dest, name, val) *)
Definition setattr (h : heap) (dest : gval) (n : string) (v : gval) : res heap :=
  match dest with
  | GA _ => Raise (simple_exn "AttributeError")
  | GR l =>
      match node_at h l with
      | Some (NObj cls attrs) =>
          if setattr_raises cls then Raise (simple_exn "RuntimeError") else Ok (put h l (NObj cls (sattr_set n v attrs)))
      | Some (NDict true _) => Unmodelled "setattr-on-OrderedDict"     (* OrderedDict instances have a __dict__ *)
      | Some _ => Raise (simple_exn "AttributeError")
      | None => Unmodelled "dangling" end
  end.

(* the 'assign' handlers of the default registry: dict -> setitem, list -> target[int(idx)] = val, object -> setattr,
   tuple and the builtin scalars -> no handler (UnregisteredTarget) *)
Definition assign_handler (h : heap) (dest : gval) (a : atom) (v : gval) : res heap :=
  match dest with
  | GA _ => Raise path_assign_error        (* nearest registered type is object: setattr on a scalar fails *)
  | GR l =>
      match node_at h l with
      | Some (NDict _ _) => match setitem h dest a v with Raise _ => Raise path_assign_error | r => r end
      | Some (NList xs) =>
          match atom_int a with
          | CInt z => match norm_index (length xs) z with
                      | Some i => Ok (put h l (NList (set_nth i v xs)))
                      | None => Raise path_assign_error end
          | CErr _ => Raise path_assign_error end
      | Some (NTuple _) => Raise (simple_exn "UnregisteredTarget")
      | Some (NObj _ _) =>
          match a with
          | AStr n => match setattr h dest n v with Raise _ => Raise path_assign_error | r => r end
          | _ => Raise path_assign_error end
      | None => Unmodelled "dangling" end
  end.

Definition assign_op (h : heap) (dest : gval) (final : mseg) (v : gval) : res heap :=
  match final with
  | MIdx a => setitem h dest a v
  | MAttr n => setattr h dest n v
  | MP a => assign_handler h dest a v
  | _ => Unmodelled "final-op" end.

Fixpoint assign_each (h : heap) (ds : list gval) (final : mseg) (v : gval) : res heap :=
  match ds with
  | [] => Ok h
  | d :: r => match assign_op h d final v with
              | Ok h' => assign_each h' r final v
              | Raise e => Raise e | Unmodelled t => Unmodelled t | OutOfFuel => OutOfFuel end
  end.

(* ---------- missing= ---------- *)
Inductive factory := FacDict | FacList | FacObj (cls : nat) | FacRaise.
Definition make (f : factory) (h : heap) : res (heap * gval) :=
  match f with
  | FacDict => Ok (h ++ [NDict false []], GR (length h))
  | FacList => Ok (h ++ [NList []], GR (length h))
  | FacObj c => Ok (h ++ [NObj c []], GR (length h))
  | FacRaise => Raise (simple_exn "ValueError") end.

Definition split_last {A} (l : list A) : option (list A * A) :=
  match rev l with [] => None | x :: r => Some (rev r, x) end.

(* Assign.glomit; returns the new heap and the number of factory calls *)
Fixpoint assign_ (fuel : nat) (h : heap) (target : gval) (path : list mseg) (v : gval) (missing : option factory)
  : res (heap * nat) :=
  match fuel with O => OutOfFuel | S fuel =>
  match split_last path with
  | None => Raise (simple_exn "ValueError")
  | Some (parent, final) =>
      match dests h parent target with
      | Ok ds => match assign_each h ds final v with
                 | Ok h' => Ok (h', 0)
                 | Raise e => Raise e | Unmodelled t => Unmodelled t | OutOfFuel => OutOfFuel end
      | Raise e =>
          if String.eqb (ecls e) "PathAccessError" then
            match missing with
            | None => Raise e
            | Some f =>
                let k := eidx e in
                (* build the absent tail first: missing() then Assign(remaining_path, Val(val)) inside it *)
                match make f h with
                | Ok (h1, fresh) =>
                    match assign_ fuel h1 fresh (skipn (S k) path) v missing with
                    | Ok (h2, n) =>
                        (* then attach it at the break point: op, arg = items()[k]; path = orig_path[:k] *)
                        match nth_error path k with
                        | Some seg =>
                            match dests h2 (firstn k path) target with
                            | Ok ds => match assign_each h2 ds seg fresh with
                                       | Ok h3 => Ok (h3, S n)
                                       | Raise e' => Raise e' | Unmodelled t => Unmodelled t | OutOfFuel => OutOfFuel end
                            | Raise e' => Raise e' | Unmodelled t => Unmodelled t | OutOfFuel => OutOfFuel end
                        | None => Unmodelled "break-point" end
                    | Raise e' => Raise e' | Unmodelled t => Unmodelled t | OutOfFuel => OutOfFuel end
                | Raise e' => Raise e' | Unmodelled t => Unmodelled t | OutOfFuel => OutOfFuel end
            end
          else Raise e
      | Unmodelled t => Unmodelled t | OutOfFuel => OutOfFuel end
  end end.

Definition assign (h : heap) (target : gval) (path : list mseg) (v : gval) (missing : option factory) : res (heap * nat) :=
  assign_ (S (length path)) h target path v missing.

(* ---------- Delete ---------- *)
Definition delitem (h : heap) (dest : gval) (a : atom) : res heap :=
  match dest with
  | GA _ => Raise (simple_exn "TypeError")
  | GR l =>
      match node_at h l with
      | Some (NDict od kvs) =>
          match akv_lookup a kvs with
          | Some _ => Ok (put h l (NDict od (akv_remove a kvs)))
          | None => Raise (simple_exn "KeyError") end
      | Some (NList xs) =>
          match a with
          | AInt _ | ABool _ =>
              match atom_int a with
              | CInt z => match norm_index (length xs) z with
                          | Some i => Ok (put h l (NList (remove_nth i xs)))
                          | None => Raise (simple_exn "IndexError") end
              | CErr c => Raise (simple_exn c) end
          | _ => Raise (simple_exn "TypeError") end
      | Some (NTuple _) | Some (NObj _ _) => Raise (simple_exn "TypeError")
      | None => Unmodelled "dangling" end
  end.

Definition delattr_ (h : heap) (dest : gval) (n : string) : res heap :=
  match dest with
  | GA _ => Raise (simple_exn "AttributeError")
  | GR l =>
      match node_at h l with
      | Some (NObj cls attrs) =>
          if delattr_raises cls then Raise (simple_exn "RuntimeError")
          else match str_assoc n attrs with
               | Some _ => Ok (put h l (NObj cls (sattr_remove n attrs)))
               | None => Raise (simple_exn "AttributeError") end
      | Some _ => Raise (simple_exn "AttributeError")
      | None => Unmodelled "dangling" end
  end.

(* Delete._del_one: which failures become PathDeleteError, which are swallowed by ignore_missing, which escape *)
Definition del_one (h : heap) (dest : gval) (final : mseg) (ignore_missing : bool) : res heap :=
  let handle := fun (r : res heap) (caught : list string) =>
    match r with
    | Raise e => if existsb (String.eqb "Exception") caught || existsb (String.eqb (ecls e)) caught
                 then (if ignore_missing then Ok h else Raise path_delete_error)
                 else Raise e
    | _ => r end in
  match final with
  | MIdx a => handle (delitem h dest a) ["KeyError"; "IndexError"]
  | MAttr n => handle (delattr_ h dest n) ["AttributeError"]
  | MP a =>
      match dest with
      | GA _ => handle (Raise (simple_exn "AttributeError")) ["Exception"]   (* object's handler: delattr on a scalar fails *)
      | GR l =>
          match node_at h l with
          | Some (NDict _ _) => handle (delitem h dest a) ["Exception"]
          | Some (NList xs) =>
              handle (match atom_int a with
                      | CInt z => match norm_index (length xs) z with
                                  | Some i => Ok (put h l (NList (remove_nth i xs)))
                                  | None => Raise (simple_exn "IndexError") end
                      | CErr c => Raise (simple_exn c) end) ["Exception"]
          | Some (NTuple _) => Raise (simple_exn "UnregisteredTarget")
          | Some (NObj _ _) =>
              handle (match a with AStr n => delattr_ h dest n | _ => Raise (simple_exn "TypeError") end) ["Exception"]
          | None => Unmodelled "dangling" end
      end
  | _ => Unmodelled "final-op" end.

Fixpoint del_each (h : heap) (ds : list gval) (final : mseg) (ign : bool) : res heap :=
  match ds with
  | [] => Ok h
  | d :: r => match del_one h d final ign with
              | Ok h' => del_each h' r final ign
              | Raise e => Raise e | Unmodelled t => Unmodelled t | OutOfFuel => OutOfFuel end
  end.

Definition delete (h : heap) (target : gval) (path : list mseg) (ign : bool) : res heap :=
  match split_last path with
  | None => Raise (simple_exn "ValueError")
  | Some (parent, final) =>
      match dests h parent target with
      | Ok ds => del_each h ds final ign
      | Raise e => if String.eqb (ecls e) "PathAccessError" && ign then Ok h else Raise e
      | Unmodelled t => Unmodelled t | OutOfFuel => OutOfFuel end
  end.
