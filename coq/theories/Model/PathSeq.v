(* Model/PathSeq.v — Path as a sequence of steps: the methods of glom.Path over the flat ops tuple,
   using the slice / zip expressions regenerated from the source (Generated/PathOps.v).  Generic in the
   element type, so the theorems hold for any representation of roots, opcodes and arguments. *)
From Coq Require Import String ZArith Bool List.
From Glom Require Import Base.PyVal Base.PySlice Generated.PathOps.
Import ListNotations.
Local Open Scope list_scope.

Section PathSeq.
Context {A : Type}.
Variable eqb : A -> A -> bool.

Fixpoint interleave (steps : list (A * A)) : list A :=
  match steps with [] => [] | (c, a) :: r => c :: a :: interleave r end.
Definition mk_ops (root : A) (steps : list (A * A)) : list A := root :: interleave steps.

Fixpoint seq_eqb (a b : list A) : bool :=
  match a, b with [], [] => true | x :: a, y :: b => eqb x y && seq_eqb a b | _, _ => false end.

(* Path.__getitem__(int): None = IndexError *)
Definition path_getitem_int (ops : list A) (i : Z) : option (list A) :=
  match ops with
  | [] => None
  | root :: _ => match seq_index (path_getitem_steps ops) i with
                 | Some (c, a) => Some [root; c; a]
                 | None => None end
  end.
(* Path.__getitem__(slice): None = ValueError (zero step) *)
Definition path_getitem_slice (ops : list A) (a b c : option Z) : option (list A) :=
  match ops with
  | [] => None
  | root :: _ => match py_slice (path_getitem_steps ops) a b c with
                 | Some st => Some (root :: interleave st)
                 | None => None end
  end.
Definition path_eq (o1 o2 : list A) : bool := seq_eqb o1 o2.
Definition path_startswith (ops o_path : list A) : bool :=
  seq_eqb (path_startswith_lhs ops o_path) (path_startswith_rhs ops o_path).
(* Path(p, q) for a T-rooted q: q's steps are appended one by one *)
Definition path_concat (o1 o2 : list A) : list A := o1 ++ tl o2.
End PathSeq.

(* TType.__stars__ on the opcode strings of the flat tuple (arguments represented by any placeholder string) *)
Definition stars_count (ops : list string) : nat :=
  List.length (filter (fun c => existsb (String.eqb c) stars_codes) (stars_ops ops)).
