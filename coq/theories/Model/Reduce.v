(* Model/Reduce.v — Fold / Sum / Count / Flatten (eager and lazy) / Merge, flatten(levels=n), merge() (C15).
   Values are labelled trees: a result allocated by init() carries label 0, inputs keep their labels, so aliasing an
   input into the result is visible. *)
From Coq Require Import String Ascii ZArith Bool List Lia.
From Glom Require Import Base.PyVal Model.TEval.
Import ListNotations.
Local Open Scope string_scope.
Local Open Scope list_scope.

(* IStrOf s: an init callable returning a NON-EMPTY string (the accumulator is a start value, never a separator) *)
Inductive initk := IInt | IList | ITuple | IStr | IDict (od : bool) | IStrOf (s : string).
Definition init_val (k : initk) : val :=
  match k with
  | IInt => VInt 0 | IList => VList 0 [] | ITuple => VTuple 0 [] | IStr => VStr "" | IDict od => VDict 0 od [] | IStrOf s => VStr s end.

Inductive foldop := OIadd | OAdd | OMul | OCount | OUpdate | OLast.

(* iteration of a value as Python's iter() does it *)
Definition iter_items (v : val) : res (list val) :=
  match v with
  | VList _ xs | VTuple _ xs => Ok xs
  | VDict _ _ kvs => Ok (map fst kvs)
  | VStr s => Ok (map (fun c => VStr (String c EmptyString)) (list_ascii_of_string s))
  | VNone | VBool _ | VInt _ | VObj _ _ _ | VFun _ => Raise (simple_exn "TypeError")
  | _ => Unmodelled "iter" end.

(* operator.iadd(ret, v): numbers add; a list is extended IN PLACE with any iterable (it stays the same object);
   tuples and strings concatenate into new objects *)
Definition iadd (ret v : val) : res val :=
  match ret, v with
  | VList i a, _ => match iter_items v with
                    | Ok items => Ok (VList i (a ++ items))
                    | Raise e => Raise e | Unmodelled t => Unmodelled t | OutOfFuel => OutOfFuel end
  | VTuple _ a, VTuple _ b =>
      (* CPython returns the other operand itself when one side is empty *)
      match a, b with [], _ => Ok v | _, [] => Ok ret | _, _ => Ok (VTuple 0 (a ++ b)) end
  | VStr a, VStr b => Ok (VStr (a ++ b))
  | VDict _ _ _, _ => Raise (simple_exn "TypeError")
  | _, _ => match as_num ret, as_num v with
            | Some a, Some b => Ok (VInt (a + b))
            | _, _ => if is_plain ret && is_plain v then Raise (simple_exn "TypeError") else Unmodelled "iadd" end
  end.

Fixpoint set1 (k v : val) (l : list (val * val)) : list (val * val) :=
  match l with [] => [(k, v)] | (k', v') :: t => if py_eqb k k' then (k', v) :: t else (k', v') :: set1 k v t end.
Fixpoint kv_update (acc : list (val * val)) (kvs : list (val * val)) : list (val * val) :=
  match kvs with [] => acc | (k, v) :: r => kv_update (set1 k v acc) r end.

Definition apply_op (o : foldop) (ret v : val) : res val :=
  match o with
  | OIadd => iadd ret v
  | OAdd => match ret, v with
            | VList _ a, VList _ b => Ok (VList 0 (a ++ b))
            | VList _ _, _ => Raise (simple_exn "TypeError")
            | _, _ => iadd ret v end
  | OMul => match as_num ret, as_num v with Some a, Some b => Ok (VInt (a * b)) | _, _ => Unmodelled "mul" end
  | OCount => match as_num ret with Some a => Ok (VInt (a + 1)) | None => Unmodelled "count" end
  | OUpdate => match ret, v with
               | VDict i od acc, VDict _ _ kvs => Ok (VDict i od (kv_update acc kvs))
               | VDict _ _ _, (VNone | VBool _ | VInt _) => Raise (simple_exn "TypeError")
               | _, _ => Unmodelled "update" end
  | OLast => Ok v                 (* a user op, lambda acc, v: v — whose result may be None like any other value *)
  end.

(* Fold._fold / Merge._fold: ret = init(); for v in iterator: ret = op(ret, v) *)
Fixpoint fold_loop (o : foldop) (ret : val) (items : list val) : res val :=
  match items with
  | [] => Ok ret
  | v :: r => match apply_op o ret v with
              | Ok ret' => fold_loop o ret' r
              | Raise e => Raise e | Unmodelled t => Unmodelled t | OutOfFuel => OutOfFuel end
  end.

(* target_iter through the registry: strings and scalars are not iterable targets -> FoldError *)
Definition target_items (t : val) : res (list val) :=
  match t with
  | VList _ xs | VTuple _ xs => Ok xs
  | VDict _ _ kvs => Ok (map fst kvs)
  | VSet _ _ _ => Unmodelled "set-order"
  | VNone | VBool _ | VInt _ | VStr _ | VObj _ _ _ | VFun _ => Raise (simple_exn "FoldError")
  | _ => Unmodelled "iterate" end.

Definition fold (k : initk) (o : foldop) (t : val) : res val :=
  match target_items t with
  | Ok items => fold_loop o (init_val k) items
  | Raise e => Raise e | Unmodelled u => Unmodelled u | OutOfFuel => OutOfFuel end.

(* Flatten(init='lazy'): itertools.chain.from_iterable — observed by listing it *)
Fixpoint chain_items (items : list val) : res (list val) :=
  match items with
  | [] => Ok []
  | x :: r => match iter_items x with
              | Ok xs => match chain_items r with Ok ys => Ok (xs ++ ys) | e => e end
              | Raise e => Raise e | Unmodelled u => Unmodelled u | OutOfFuel => OutOfFuel end
  end.
Definition flatten_lazy (t : val) : res (list val) :=
  match target_items t with
  | Ok items => chain_items items
  | Raise e => Raise e | Unmodelled u => Unmodelled u | OutOfFuel => OutOfFuel end.

(* flatten(target, levels=n, init=k): (T, Flatten(lazy) x (n-1), Flatten(init)) *)
Fixpoint flatten_levels (n : nat) (k : initk) (t : val) : res val :=
  match n with
  | O => Ok t
  | 1 => fold k OIadd t
  | S n' => match flatten_lazy t with
            | Ok items => flatten_levels n' k (VList 0 items)      (* the lazy chain is consumed by the next level *)
            | Raise e => Raise e | Unmodelled u => Unmodelled u | OutOfFuel => OutOfFuel end
  end.
