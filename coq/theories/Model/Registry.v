(* Model/Registry.v — TargetRegistry: exact table, ordered subtype tree (_register_fuzzy_type as the fold over
   the snapshot with pops and in-place updates that the code performs), repaired _get_closest_type, the lookup
   memo.  The class universe (issubclass, isinstance, MRO) is a Section parameter, instantiated per case. *)
From Coq Require Import String Bool List Arith Lia.
Import ListNotations.
Local Open Scope list_scope.

Inductive tree := Node (c : nat) (kids : list tree).
Definition root_of (t : tree) : nat := match t with Node c _ => c end.
Definition kids_of (t : tree) : list tree := match t with Node _ k => k end.
Definition forest := list tree.       (* an OrderedDict: type -> subtree *)

Inductive handler := HFalse | HTag (n : nat).
Definition handler_eqb (a b : handler) : bool :=
  match a, b with HFalse, HFalse => true | HTag x, HTag y => Nat.eqb x y | _, _ => false end.

Section Universe.
Variable sub : nat -> nat -> bool.     (* issubclass(a, b) *)
Variable inst : nat -> nat -> bool.    (* isinstance(obj, c) for an object whose exact type is t *)
Variable mro : nat -> list nat.        (* type(obj).__mro__ restricted to the universe *)

(* ---------- OrderedDict operations on a forest ---------- *)
Fixpoint find (c : nat) (f : forest) : option tree :=
  match f with [] => None | t :: r => if Nat.eqb (root_of t) c then Some t else find c r end.
Fixpoint remove (c : nat) (f : forest) : forest :=
  match f with [] => [] | t :: r => if Nat.eqb (root_of t) c then r else t :: remove c r end.
(* d[key] = subtree : in place when the key exists, appended otherwise *)
Fixpoint od_set (t : tree) (f : forest) : forest :=
  match f with
  | [] => [t]
  | u :: r => if Nat.eqb (root_of u) (root_of t) then t :: r else u :: od_set t r end.
Fixpoint update (c : nat) (g : tree -> tree) (f : forest) : forest :=
  match f with [] => [] | t :: r => if Nat.eqb (root_of t) c then g t :: r else t :: update c g r end.

(* ---------- _register_fuzzy_type ---------- *)
(* one pass over the snapshot of the level's keys; [recd] holds, per key of the level, the result of the recursive
   call on its subtree (the subtree of a key is untouched until its own turn, so it can be computed up front) *)
Fixpoint rassoc (k : nat) (l : list (nat * tree)) : option tree :=
  match l with [] => None | (k', v) :: r => if Nat.eqb k k' then Some v else rassoc k r end.
Definition ins_sub_of (recd : list (nat * tree)) (cur : nat) (t : tree) : tree :=
  match rassoc cur recd with Some t' => t' | None => t end.

Fixpoint fuzzy_loop (recd : list (nat * tree)) (new : nat) (snap : list nat) (f : forest) (registered : bool)
  : forest * bool :=
  match snap with
  | [] => (f, registered)
  | cur :: rest =>
      if sub cur new then
        match find cur f with
        | Some (Node _ skids) =>
            let f1 := remove cur f in
            let f2 := match find new f1 with
                      | Some (Node _ nk) => update new (fun _ => Node new (od_set (Node cur skids) nk)) f1
                      | None => f1 ++ [Node new [Node cur skids]] end in
            fuzzy_loop recd new rest f2 true
        | None => fuzzy_loop recd new rest f registered end
      else if sub new cur then
        fuzzy_loop recd new rest (update cur (ins_sub_of recd cur) f) true
      else fuzzy_loop recd new rest f registered
  end.

Definition fuzzy_level (recd : list (nat * tree)) (new : nat) (f : forest) : forest :=
  let '(f', registered) := fuzzy_loop recd new (map root_of f) f false in
  if registered then f' else od_set (Node new []) f'.

Fixpoint ins_node (new : nat) (t : tree) : tree :=
  match t with Node c kids => Node c (fuzzy_level (map (fun k => (root_of k, ins_node new k)) kids) new kids) end.
Definition insert (new : nat) (f : forest) : forest := fuzzy_level (map (fun k => (root_of k, ins_node new k)) f) new f.

(* ---------- _get_closest_type (repaired) ---------- *)
Fixpoint index_of (x : nat) (l : list nat) : option nat :=
  match l with [] => None | y :: r => if Nat.eqb x y then Some 0 else option_map S (index_of x r) end.
Definition idx (t c : nat) : option nat := index_of c (mro t).
(* ret in mro and (default not in mro or mro.index(ret) < mro.index(default)) *)
Definition better (t cand best : nat) : bool :=
  match idx t cand, idx t best with
  | Some i, Some j => Nat.ltb i j | Some _, None => true | None, _ => false end.
Definition pick (t : nat) (best cand : option nat) : option nat :=
  match best, cand with
  | None, c => c
  | b, None => b
  | Some b, Some c => if better t c b then Some c else Some b end.

Fixpoint closest_t (t : nat) (tr : tree) : option nat :=
  match tr with Node c kids =>
    if inst t c then
      Some (match fold_left (fun best k => pick t best (closest_t t k)) kids None with Some d => d | None => c end)
    else None end.
Definition closest (t : nat) (f : forest) : option nat :=
  fold_left (fun best k => pick t best (closest_t t k)) f None.

(* ---------- the registry ---------- *)
Record opstate := mkOp { tmap : list (nat * handler); ttree : forest }.
Record registry := mkReg {
  ops : list (string * opstate);
  auto_ops : list string;                       (* keys of _op_auto_map *)
  cache : list ((nat * string) * handler) }.

Variable auto : string -> nat -> handler.       (* _op_auto_map[op](type), measured per case *)

Fixpoint sassoc {B} (k : string) (l : list (string * B)) : option B :=
  match l with [] => None | (k', v) :: r => if String.eqb k k' then Some v else sassoc k r end.
Fixpoint sset {B} (k : string) (v : B) (l : list (string * B)) : list (string * B) :=
  match l with [] => [(k, v)] | (k', v') :: r => if String.eqb k k' then (k', v) :: r else (k', v') :: sset k v r end.
Fixpoint nassoc {B} (k : nat) (l : list (nat * B)) : option B :=
  match l with [] => None | (k', v) :: r => if Nat.eqb k k' then Some v else nassoc k r end.
Fixpoint nset {B} (k : nat) (v : B) (l : list (nat * B)) : list (nat * B) :=
  match l with [] => [(k, v)] | (k', v') :: r => if Nat.eqb k k' then (k', v) :: r else (k', v') :: nset k v r end.

Definition op_of (r : registry) (op : string) : opstate :=
  match sassoc op (ops r) with Some o => o | None => mkOp [] [] end.

(* get_handler without the memo; None = UnregisteredTarget *)
Definition lookup (r : registry) (op : string) (t : nat) : option handler :=
  let o := op_of r op in
  match tmap o with
  | [] => None                                   (* no types registered for this operation *)
  | _ =>
      let ret := match nassoc t (tmap o) with
                 | Some h => h                                   (* exact hit *)
                 | None => match closest t (ttree o) with
                           | Some c => match nassoc c (tmap o) with Some h => h | None => HFalse end
                           | None => HFalse end
                 end in
      match ret with HFalse => None | h => Some h end
  end.

Fixpoint cassoc (t : nat) (op : string) (l : list ((nat * string) * handler)) : option handler :=
  match l with
  | [] => None
  | ((t', op'), h) :: r => if Nat.eqb t t' && String.eqb op op' then Some h else cassoc t op r end.

(* get_handler(op, obj): memoised on (type, op); a failing lookup raises and is not memoised *)
Definition get_handler (r : registry) (op : string) (t : nat) : option handler * registry :=
  match cassoc t op (cache r) with
  | Some h => (Some h, r)
  | None =>
      match lookup r op t with
      | Some h => (Some h, mkReg (ops r) (auto_ops r) (((t, op), h) :: cache r))
      | None => (None, r) end
  end.

(* register(target_type, **kwargs): handlers from kwargs, else the existing entry, else the auto function;
   every operation touched gets the type in its tree unless exact; the memo is reset *)
Definition op_names (r : registry) (kw : list (string * handler)) : list string :=
  auto_ops r ++ filter (fun k => negb (existsb (String.eqb k) (auto_ops r))) (map fst kw).

Definition register (r : registry) (target : nat) (kw : list (string * handler)) (exact : bool) : registry :=
  let names := op_names r kw in
  let ops' :=
    fold_left (fun acc name =>
      let o := match sassoc name acc with Some o => o | None => mkOp [] [] end in
      let h := match sassoc name kw with
               | Some h => h
               | None => match nassoc target (tmap o) with Some h => h | None => auto name target end end in
      let tm := nset target h (tmap o) in
      let tt := if exact then ttree o else insert target (ttree o) in
      sset name (mkOp tm tt) acc) names (ops r) in
  mkReg ops' (auto_ops r) [].

(* ---------- invariants, as boolean checkers the correspondence runs on every observed initial state ---------- *)
Fixpoint wfb (t : tree) : bool :=
  match t with Node c kids => forallb (fun k => sub (root_of k) c && wfb k) kids end.
Definition wffb (f : forest) : bool := forallb wfb f.
Fixpoint labels (t : tree) : list nat := match t with Node c kids => c :: flat_map labels kids end.
Definition flabels (f : forest) : list nat := flat_map labels f.
End Universe.
