(* Model/Sched.v — concurrent glom calls (C20).  What calls share is the path memo (Model/Cache.v); every other piece of a
   call's state (target, scope chain, mode, accumulators, error bookkeeping) lives in the call's own closure.  A call is a
   program that asks the memo any number of times; Path.from_text is NOT atomic: it is four separate dict operations
   (`text not in cache`, `len(cache)`, `cache[text] = create()`, `cache[text]`) and a thread switch can happen between any
   two of them.  A schedule is an arbitrary list of thread numbers. *)
From Coq Require Import String ZArith Bool List Lia.
From Glom Require Import Base.PyVal Generated.CacheOps Model.Cache.
Import ListNotations.
Local Open Scope string_scope.
Local Open Scope list_scope.

Section Sched.
  Context {V A : Type}.
  Variable create : bool -> string -> V.
  Variable maxc : Z.
  Variable star : bool.            (* PATH_STAR is configuration: fixed while calls are running *)
  (* the two memos of glom follow the same protocol up to two details:
       Path.from_text          tests len(cache) before storing, stores every created value;
       registry.get_handler    has no length test, and does not store a failed lookup (it raises instead) *)
  Variable lencheck : bool.
  Variable storable : V -> bool.

  Inductive tstate :=
  | TRun (p : @prog V A)                       (* about to run p *)
  | TMiss (text : string) (k : V -> @prog V A)  (* saw `text not in cache`; next: the len(cache) test *)
  | TStore (text : string) (k : V -> @prog V A) (* next: cache[text] = create() *)
  | TRead (text : string) (k : V -> @prog V A)  (* next: return cache[text] *)
  | TDone (a : A)
  | TKeyError.                                  (* cache[text] failed: cannot happen, see the theorem *)

  (* dict assignment: a present key keeps its position and gets the new value *)
  Fixpoint tset (k : string) (v : V) (t : @table V) : table :=
    match t with
    | [] => [(k, v)]
    | (k', v') :: r => if String.eqb k k' then (k', v) :: r else (k', v') :: tset k v r end.

  Definition step (c : @caches V) (ts : tstate) : tstate * caches :=
    match ts with
    | TRun (Ret a) => (TDone a, c)
    | TRun (Ask text k) =>
        match str_assoc text (sel star c) with
        | Some _ => (TRead text k, c)
        | None => if storable (create star text)
                  then (if lencheck then TMiss text k else TStore text k, c)
                  else (TRun (k (create star text)), c) end
    | TMiss text k =>
        if path_cache_full (Z.of_nat (List.length (sel star c))) maxc then (TRun (k (create star text)), c)
        else (TStore text k, c)
    | TStore text k => (TRead text k, upd star c (tset text (create star text) (sel star c)))
    | TRead text k =>
        match str_assoc text (sel star c) with Some v => (TRun (k v), c) | None => (TKeyError, c) end
    | TDone a => (TDone a, c)
    | TKeyError => (TKeyError, c) end.

  Fixpoint set_nth {B} (n : nat) (x : B) (l : list B) : list B :=
    match l, n with
    | [], _ => []
    | _ :: r, O => x :: r
    | y :: r, S n => y :: set_nth n x r end.

  (* one scheduled step of thread i (nothing happens if there is no such thread) *)
  Definition sched_step (cfg : list tstate * caches) (i : nat) : list tstate * caches :=
    let '(ths, c) := cfg in
    match nth_error ths i with
    | Some ts => let '(ts', c') := step c ts in (set_nth i ts' ths, c')
    | None => cfg end.

  Definition run_schedule (cfg : list tstate * caches) (schedule : list nat) : list tstate * caches :=
    fold_left sched_step schedule cfg.

  (* a thread run alone to completion (fuel: steps) *)
  Fixpoint finish (fuel : nat) (c : caches) (ts : tstate) : tstate * caches :=
    match fuel with
    | O => (ts, c)
    | S fuel => match ts with
                | TDone _ | TKeyError => (ts, c)
                | _ => let '(ts', c') := step c ts in finish fuel c' ts' end end.

  (* after the schedule, the threads that are not done yet run to completion one after the other *)
  Fixpoint finish_all (fuel : nat) (c : caches) (ths : list tstate) : list tstate * caches :=
    match ths with
    | [] => ([], c)
    | ts :: r => let '(ts', c') := finish fuel c ts in
                 let '(r', c'') := finish_all fuel c' r in (ts' :: r', c'') end.
End Sched.
