(* Model/TEval.v — TType recording (_t_child) and _t_eval for T-rooted expressions.
   Code-shaped: the flat tuple (root, op, arg, op, arg, ...) is walked by an index that starts
   at [loop_start] and advances by [loop_step]; the failing position is [part_idx_* i]; the
   opcode tables come from Generated/TOpTable.v (regenerated from /repo on every run). *)
From Coq Require Import String Ascii ZArith Bool List Lia.
From Glom Require Import Base.PyVal Base.PySlice Generated.TOpTable.
Import ListNotations.
Local Open Scope list_scope.
Local Open Scope string_scope.

Inductive root := RT | RS | RA.

Inductive arg :=
| ALit (v : val)                        (* literal (containers are rebuilt by arg_val) *)
| AT (ops : list (string * arg))        (* nested T-expression as written (dunder, arg), evaluated against the original target *)
| ASlice (a b c : option Z)
| ACall (args : list arg) (kw : list (string * arg))   (* positional, then keyword arguments of a call, as written *)
| ANoArg.                               (* unary operators and wildcards record None *)

Inductive cell := CRoot (r : root) | CCode (c : string) | CArg (a : arg).

Fixpoint flatten_steps (steps : list (string * arg)) : list cell :=
  match steps with [] => [] | (c, a) :: r => CCode c :: CArg a :: flatten_steps r end.
Definition flat (r : root) (steps : list (string * arg)) : list cell := CRoot r :: flatten_steps steps.

(* _t_child: base + (operation, arg) *)
Definition t_child (base : list cell) (code : string) (a : arg) : list cell := base ++ [CCode code; CArg a].

(* what the user writes: a dunder name (or "call", "__star__", ...) and its argument *)
Definition code_of_dunder (d : string) : option string :=
  if String.eqb d "call" then Some "("
  else match str_assoc d binary_overloads with
       | Some c => Some c
       | None => str_assoc d unary_overloads end.

Fixpoint record_from (base : list cell) (ops : list (string * arg)) : option (list cell) :=
  match ops with
  | [] => Some base
  | (d, a) :: r => match code_of_dunder d with
                   | Some c => record_from (t_child base c a) r
                   | None => None end end.
Definition record (ops : list (string * arg)) : option (list cell) := record_from [CRoot RT] ops.

(* ---------- evaluated arguments ---------- *)
Inductive earg := EVal (v : val) | ESlice (a b c : option Z) | ECall (vs : list val) (kw : list (string * val)) | ENone.

(* arg_val on a literal: list / dict / tuple / set literals are rebuilt (fresh objects), OrderedDict and
   everything else is passed as is *)
Fixpoint rebuild (v : val) : val :=
  match v with
  | VList _ xs => VList 0 (map rebuild xs)
  | VTuple _ xs => VTuple 0 (map rebuild xs)
  | VSet _ fz xs => VSet 0 fz (map rebuild xs)
  | VDict i od kvs =>
      if od then v else
      VDict 0 false ((fix go (l : list (val * val)) := match l with [] => [] | (k, x) :: r => (rebuild k, rebuild x) :: go r end) kvs)
  | _ => v end.

(* ---------- primitive operations on values ---------- *)
Definition getattr_val (cur : val) (name : val) : res val :=
  match name with
  | VStr s =>
      if negb (safe_attr s) then Unmodelled "getattr-name" else
      match cur with
      | VObj _ _ attrs => match str_assoc s attrs with Some v => Ok v | None => Raise (simple_exn "AttributeError") end
      | VType _ | VSkip | VStop => Unmodelled "getattr-on-type"
      | _ => Raise (simple_exn "AttributeError") end
  | _ => Raise (simple_exn "TypeError") end.

Definition str_index (s : string) (i : Z) : option val :=
  match seq_index (list_ascii_of_string s) i with
  | Some c => Some (VStr (String c EmptyString)) | None => None end.

Definition getitem_val (cur : val) (a : earg) : res val :=
  match cur, a with
  | VDict _ _ kvs, EVal k =>
      if hashable k then
        match kv_lookup py_eqb k kvs with Some v => Ok v | None => Raise (simple_exn "KeyError") end
      else Raise (simple_exn "TypeError")
  | VDict _ _ _, ESlice _ _ _ => Raise (simple_exn "KeyError")   (* slices are hashable since 3.12 *)
  | VList _ xs, EVal k =>
      match k with
      | VInt _ | VBool _ => match py_int k with
                            | CInt z => match seq_index xs z with Some v => Ok v | None => Raise (simple_exn "IndexError") end
                            | CErr c => Raise (simple_exn c) end
      | _ => Raise (simple_exn "TypeError") end
  | VTuple _ xs, EVal k =>
      match k with
      | VInt _ | VBool _ => match py_int k with
                            | CInt z => match seq_index xs z with Some v => Ok v | None => Raise (simple_exn "IndexError") end
                            | CErr c => Raise (simple_exn c) end
      | _ => Raise (simple_exn "TypeError") end
  | VList _ xs, ESlice x y z => match py_slice xs x y z with Some l => Ok (VList 0 l) | None => Raise (simple_exn "ValueError") end
  | VTuple _ xs, ESlice x y z => match py_slice xs x y z with Some l => Ok (VTuple 0 l) | None => Raise (simple_exn "ValueError") end
  | VStr s, EVal k =>
      match k with
      | VInt _ | VBool _ => match py_int k with
                            | CInt z => match str_index s z with Some v => Ok v | None => Raise (simple_exn "IndexError") end
                            | CErr c => Raise (simple_exn c) end
      | _ => Raise (simple_exn "TypeError") end
  | VStr s, ESlice x y z =>
      match py_slice (list_ascii_of_string s) x y z with
      | Some l => Ok (VStr (string_of_list_ascii l)) | None => Raise (simple_exn "ValueError") end
  | (VNone | VBool _ | VInt _ | VSet _ _ _ | VObj _ _ _ | VFun _), (EVal _ | ESlice _ _ _) => Raise (simple_exn "TypeError")
  | _, _ => Unmodelled "getitem" end.

(* the default 'get' handlers: dict -> operator.getitem, list/tuple -> target[int(index)], else getattr *)
Definition get_handler_get (cur : val) (a : earg) : res val :=
  match cur, a with
  | VDict _ _ _, EVal _ => getitem_val cur a
  | (VList _ xs | VTuple _ xs), EVal k =>
      match py_int k with
      | CInt z => match seq_index xs z with Some v => Ok v | None => Raise (simple_exn "IndexError") end
      | CErr c => Raise (simple_exn c) end
  | _, EVal k => getattr_val cur k
  | _, _ => Unmodelled "P-arg" end.

(* ---------- arithmetic ---------- *)
Inductive binop := BAdd | BSub | BMult | BFloorDiv | BDiv | BMod | BPow | BAnd | BOr | BXor.
Inductive unop := UInvert | UNeg.
Definition binop_of_name (n : string) : option binop :=
  if String.eqb n "Add" then Some BAdd else if String.eqb n "Sub" then Some BSub else
  if String.eqb n "Mult" then Some BMult else if String.eqb n "FloorDiv" then Some BFloorDiv else
  if String.eqb n "Div" then Some BDiv else if String.eqb n "Mod" then Some BMod else
  if String.eqb n "Pow" then Some BPow else if String.eqb n "BitAnd" then Some BAnd else
  if String.eqb n "BitOr" then Some BOr else if String.eqb n "BitXor" then Some BXor else None.
Definition unop_of_name (n : string) : option unop :=
  if String.eqb n "Invert" then Some UInvert else if String.eqb n "USub" then Some UNeg else None.

(* the operator each dunder denotes in Python (the Spec side of C02) *)
Definition binop_of_dunder (d : string) : option binop :=
  if String.eqb d "__add__" then Some BAdd else if String.eqb d "__sub__" then Some BSub else
  if String.eqb d "__mul__" then Some BMult else if String.eqb d "__floordiv__" then Some BFloorDiv else
  if String.eqb d "__truediv__" then Some BDiv else if String.eqb d "__mod__" then Some BMod else
  if String.eqb d "__pow__" then Some BPow else if String.eqb d "__and__" then Some BAnd else
  if String.eqb d "__or__" then Some BOr else if String.eqb d "__xor__" then Some BXor else None.
Definition unop_of_dunder (d : string) : option unop :=
  if String.eqb d "__invert__" then Some UInvert else if String.eqb d "__neg__" then Some UNeg else None.

Definition is_numlike (v : val) : bool := match v with VInt _ | VBool _ => true | _ => false end.
Definition is_plain (v : val) : bool :=
  match v with VNone | VBool _ | VInt _ | VStr _ | VList _ _ | VTuple _ _ | VDict _ _ _ | VObj _ _ _ => true | _ => false end.

Fixpoint repeat_list {A} (n : nat) (l : list A) : list A := match n with O => [] | S n => l ++ repeat_list n l end.
Fixpoint repeat_str (n : nat) (s : string) : string := match n with O => "" | S n => s ++ repeat_str n s end.

Definition type_error : res val := Raise (simple_exn "TypeError").

Definition apply_binop (o : binop) (x y : val) : res val :=
  match as_num x, as_num y with
  | Some a, Some b =>
      match o with
      | BAdd => Ok (VInt (a + b)) | BSub => Ok (VInt (a - b)) | BMult => Ok (VInt (a * b))
      | BFloorDiv => if Z.eqb b 0 then Raise (simple_exn "ZeroDivisionError") else Ok (VInt (a / b))
      | BMod => if Z.eqb b 0 then Raise (simple_exn "ZeroDivisionError") else Ok (VInt (a mod b))
      | BDiv => if Z.eqb b 0 then Raise (simple_exn "ZeroDivisionError")
                else if Z.eqb (a mod b) 0 then Unmodelled "float" else Unmodelled "float"
      | BPow => if (b <? 0)%Z then Unmodelled "float" else if (64 <? b)%Z then Unmodelled "bigpow" else Ok (VInt (a ^ b))
      | BAnd => match x, y with VBool p, VBool q => Ok (VBool (p && q)) | _, _ => Ok (VInt (Z.land a b)) end
      | BOr => match x, y with VBool p, VBool q => Ok (VBool (p || q)) | _, _ => Ok (VInt (Z.lor a b)) end
      | BXor => match x, y with VBool p, VBool q => Ok (VBool (xorb p q)) | _, _ => Ok (VInt (Z.lxor a b)) end
      end
  | _, _ =>
      match o, x, y with
      | BAdd, VStr a, VStr b => Ok (VStr (a ++ b))
      | BAdd, VList _ a, VList _ b => Ok (VList 0 (a ++ b))
      | BAdd, VTuple _ a, VTuple _ b => Ok (VTuple 0 (a ++ b))
      | BMult, VStr a, (VInt _ | VBool _) =>
          match as_num y with Some n => if (50 <? n)%Z then Unmodelled "bigrep" else Ok (VStr (repeat_str (Z.to_nat n) a)) | None => type_error end
      | BMult, VList _ a, (VInt _ | VBool _) =>
          match as_num y with Some n => if (50 <? n)%Z then Unmodelled "bigrep" else Ok (VList 0 (repeat_list (Z.to_nat n) a)) | None => type_error end
      | BMult, VTuple _ a, (VInt _ | VBool _) =>
          match as_num y with Some n => if (50 <? n)%Z then Unmodelled "bigrep" else Ok (VTuple 0 (repeat_list (Z.to_nat n) a)) | None => type_error end
      | BMult, (VInt _ | VBool _), (VStr _ | VList _ _ | VTuple _ _) => Unmodelled "rmul"
      | BMod, VStr _, _ => Unmodelled "str-format"
      | (BOr | BAnd | BXor | BSub), VSet _ _ _, _ => Unmodelled "set-op"
      | BOr, VDict _ _ _, VDict _ _ _ => Unmodelled "dict-or"
      | _, _, _ => if is_plain x && is_plain y then type_error else Unmodelled "arith-operand" end
  end.

Definition apply_unop (o : unop) (x : val) : res val :=
  match as_num x with
  | Some a => match o with UInvert => Ok (VInt (- a - 1)) | UNeg => Ok (VInt (- a)) end
  | None => if is_plain x then type_error else Unmodelled "arith-operand" end.

(* ---------- catalogue callables ---------- *)
Fixpoint sum_ints (vs : list val) : option Z :=
  match vs with [] => Some 0%Z | v :: r => match as_num v, sum_ints r with Some a, Some b => Some (a + b)%Z | _, _ => None end end.

Definition len_val (v : val) : res val :=
  match v with
  | VStr s => Ok (VInt (Z.of_nat (String.length s)))
  | VList _ xs | VTuple _ xs | VSet _ _ xs => Ok (VInt (Z.of_nat (List.length xs)))
  | VDict _ _ kvs => Ok (VInt (Z.of_nat (List.length kvs)))
  | VNone | VBool _ | VInt _ | VObj _ _ _ | VFun _ => type_error
  | _ => Unmodelled "len" end.

Definition apply_fn1 (f : fn) (x : val) : res val :=
  match f with
  | FId | FProbe _ => Ok x
  | FLen => len_val x
  | FInc => match as_num x with Some a => Ok (VInt (a + 1)) | None =>
              match x with VNone | VStr _ | VList _ _ | VTuple _ _ | VDict _ _ _ | VObj _ _ _ => type_error | _ => Unmodelled "inc" end end
  | FDbl => match as_num x with Some a => Ok (VInt (a * 2)) | None =>
              match x with
              | VStr s => Ok (VStr (s ++ s)) | VList _ l => Ok (VList 0 (l ++ l)) | VTuple _ l => Ok (VTuple 0 (l ++ l))
              | VNone | VDict _ _ _ | VObj _ _ _ => type_error | _ => Unmodelled "dbl" end end
  | FEven => match as_num x with Some a => Ok (VBool (Z.eqb (a mod 2) 0)) | None =>
              match x with
              | VNone | VList _ _ | VTuple _ _ | VDict _ _ _ | VObj _ _ _ | VSet _ _ _ | VFun _ => type_error
              | VStr s =>
                  (* str % int is printf-style formatting: without a conversion in the text the argument is left over -> TypeError *)
                  if existsb (Ascii.eqb "%"%char) (list_ascii_of_string s) then Unmodelled "even" else type_error
              | _ => Unmodelled "even" end end
  | FConst z => Ok (VInt z)
  | FRaise c => Raise (simple_exn c)
  | FSkipIfOdd => match x with VInt a => if Z.eqb (a mod 2) 1 then Ok VSkip else Ok x | _ => Ok x end
  | FStopIfNeg => match x with VInt a => if (a <? 0)%Z then Ok VStop else Ok x | _ => Ok x end
  | FIsNone => Ok (VBool match x with VNone => true | _ => false end)
  | FGt z => match x with VInt a => Ok (VBool (z <? a)%Z) | VBool b => Ok (VBool (z <? (if b then 1 else 0))%Z)
             | VNone | VStr _ | VList _ _ | VTuple _ _ | VDict _ _ _ | VObj _ _ _ => type_error | _ => Unmodelled "gt" end
  | FList => match x with
             | VList _ l | VTuple _ l => Ok (VList 0 l)
             | VDict _ _ kvs => Ok (VList 0 (map fst kvs))
             | VNone | VBool _ | VInt _ | VObj _ _ _ => type_error | _ => Unmodelled "list()" end
  | FTuple => match x with
             | VList _ l | VTuple _ l => Ok (VTuple 0 l)
             | VDict _ _ kvs => Ok (VTuple 0 (map fst kvs))
             | VNone | VBool _ | VInt _ | VObj _ _ _ => type_error | _ => Unmodelled "tuple()" end
  | FInt => match x with
            | VInt _ | VBool _ | VStr _ => match py_int x with CInt z => Ok (VInt z) | CErr c => Raise (simple_exn c) end
            | VNone | VList _ _ | VTuple _ _ | VDict _ _ _ | VObj _ _ _ => type_error | _ => Unmodelled "int()" end
  | FStr => match x with VStr _ => Ok x | _ => Unmodelled "str()" end
  | FSum => match x with
            | VList _ l | VTuple _ l => match sum_ints l with Some z => Ok (VInt z) | None => Unmodelled "sum" end
            | VNone | VBool _ | VInt _ | VObj _ _ _ => type_error | _ => Unmodelled "sum" end
  | FMax => Unmodelled "max"
  | FAddArgs => match as_num x with Some a => Ok (VInt a) | None => Unmodelled "addargs" end
  | FRec => Ok (VTuple 0 [VTuple 0 [x]; VDict 0 false []])
  end.

Definition apply_fn (f : fn) (args : list val) : res val :=
  match f, args with
  | FAddArgs, _ => match sum_ints args with Some z => Ok (VInt z) | None => Unmodelled "addargs" end
  | FRec, _ => Ok (VTuple 0 [VTuple 0 args; VDict 0 false []])
  | _, [x] => apply_fn1 f x
  | _, _ => type_error end.     (* catalogue callables other than FAddArgs take exactly one argument *)

Definition call_val (f : val) (args : list val) : res val :=
  match f with
  | VFun g => apply_fn g args
  | VNone | VBool _ | VInt _ | VStr _ | VList _ _ | VTuple _ _ | VDict _ _ _ | VSet _ _ _ | VObj _ _ _ => type_error
  | _ => Unmodelled "call-type" end.

(* a call with keyword arguments: only the recording callable of the catalogue takes them *)
Definition call_kw (f : val) (args : list val) (kw : list (string * val)) : res val :=
  match kw with
  | [] => call_val f args
  | _ => match f with
         | VFun FRec => Ok (VTuple 0 [VTuple 0 args; VDict 0 false (map (fun kv => (VStr (fst kv), snd kv)) kw)])
         | VFun _ => Unmodelled "kwargs"
         | _ => call_val f args end end.

(* ---------- children for the wildcards ---------- *)
Definition children (v : val) : res (list val) :=
  match v with
  | VDict _ _ kvs => Ok (map snd kvs)
  | VList _ xs | VTuple _ xs => Ok xs
  | VObj _ _ attrs => Ok (map snd attrs)
  | VNone | VBool _ | VInt _ | VStr _ | VFun _ => Ok []
  | _ => Unmodelled "children" end.

Fixpoint bfs (fuel : nat) (queue : list val) (sofar : list nat) (acc : list val) : res (list val) :=
  match fuel with O => OutOfFuel | S fuel =>
  match queue with
  | [] => Ok (rev acc)
  | item :: rest =>
      let i := ident item in
      if Nat.eqb i 0 then
        (* atom, or a fresh container: only atoms occur in targets; they have no children *)
        match children item with
        | Ok [] => bfs fuel rest sofar (item :: acc)
        | Ok _ => Unmodelled "unlabelled-container"
        | Raise e => Raise e | Unmodelled t => Unmodelled t | OutOfFuel => OutOfFuel end
      else if existsb (Nat.eqb i) sofar then bfs fuel rest sofar (item :: acc)
      else match children item with
           | Ok cs => bfs fuel (rest ++ cs) (i :: sofar) (item :: acc)
           | Raise e => Raise e | Unmodelled t => Unmodelled t | OutOfFuel => OutOfFuel end
  end end.

Fixpoint size (v : val) : nat :=
  let fix ls (l : list val) := match l with [] => 0 | x :: r => size x + ls r end in
  match v with
  | VList _ xs | VTuple _ xs | VSet _ _ xs => S (ls xs)
  | VDict _ _ kvs => S ((fix ks (l : list (val * val)) := match l with [] => 0 | (k, x) :: r => size k + size x + ks r end) kvs)
  | VObj _ _ attrs => S ((fix ks (l : list (string * val)) := match l with [] => 0 | (_, x) :: r => size x + ks r end) attrs)
  | _ => 1 end.

(* ---------- the evaluator ---------- *)
Definition evalfn := val -> list cell -> res val.

Fixpoint map_res {A B} (f : A -> res B) (l : list A) : res (list B) :=
  match l with [] => Ok [] | x :: r => do y <- f x; do ys <- map_res f r; Ok (y :: ys) end.

(* arg_val: nested T evaluated against the ORIGINAL target; literals rebuilt *)
Fixpoint arg_val (rec : evalfn) (target : val) (a : arg) : res earg :=
  match a with
  | ALit v => Ok (EVal (rebuild v))
  | AT ops => match record ops with
              | Some cells => do v <- rec target cells; Ok (EVal v)
              | None => Unmodelled "record" end
  | ASlice x y z => Ok (ESlice x y z)
  | ACall args kw =>
      (* Python's order: the positional arguments left to right, then the keyword arguments in the order written *)
      do vs <- (fix go (l : list arg) : res (list val) :=
                  match l with [] => Ok []
                  | x :: r => do e <- arg_val rec target x;
                              match e with EVal v => do vs <- go r; Ok (v :: vs) | _ => Unmodelled "call-arg" end end) args;
      do kvs <- (fix gok (l : list (string * arg)) : res (list (string * val)) :=
                  match l with [] => Ok []
                  | (k, x) :: r => do e <- arg_val rec target x;
                                   match e with EVal v => do kvs <- gok r; Ok ((k, v) :: kvs) | _ => Unmodelled "call-arg" end end) kw;
      Ok (ECall vs kvs)
  | ANoArg => Ok ENone end.

Definition zidx (i : Z) : nat := Z.to_nat i.

(* turn an access failure into PathAccessError(e, path, idx) when its class is caught by the arm *)
Definition exc_caught (catches : list string) (cls : string) : bool :=
  existsb (String.eqb "Exception") catches || existsb (String.eqb cls) catches.

Definition catches_of (code : string) : list string :=
  match str_assoc code access_catches with Some l => l | None => [] end.

Definition wrap_pae (code : string) (idx : Z) (r : res val) : res val :=
  match r with
  | Raise e =>
      if exc_caught (catches_of code) (ecls e) then Raise (pae (ecls e) (zidx idx)) else Raise e
  | _ => r end.
Definition wrap_pae_arith (idx : Z) (r : res val) : res val :=
  match r with
  | Raise e => if exc_caught arith_catches (ecls e) then Raise (pae (ecls e) (zidx idx)) else Raise e
  | _ => r end.

Definition is_pae (e : exn) : bool := String.eqb (ecls e) "PathAccessError".

(* evaluate the rest of the path on each child, dropping PathAccessErrors *)
Fixpoint star_rest (rec : evalfn) (todo : list cell) (kids : list val) : res (list val) :=
  match kids with
  | [] => Ok []
  | k :: r =>
      match rec k todo with
      | Ok v => do vs <- star_rest rec todo r; Ok (v :: vs)
      | Raise e => if is_pae e then star_rest rec todo r else Raise e
      | Unmodelled t => Unmodelled t
      | OutOfFuel => OutOfFuel end end.

(* one dispatch of the if/elif chain; returns the new cur, or [inr] for the wildcard arms that finish the loop *)
Definition step_op (rec : evalfn) (target : val) (cells : list cell) (i : Z) (code : string) (a : earg) (cur : val)
  : res (val + val) :=
  if String.eqb code "." then
    match a with EVal (VStr n) => do v <- wrap_pae "." (part_idx_dot i) (getattr_val cur (VStr n)); Ok (inl v) | _ => Unmodelled "arg-shape" end
  else if String.eqb code "[" then
    do v <- wrap_pae "[" (part_idx_idx i) (getitem_val cur a); Ok (inl v)
  else if String.eqb code "P" then
    do v <- wrap_pae "P" (part_idx_p i) (get_handler_get cur a); Ok (inl v)
  else if String.eqb code "x" || String.eqb code "X" then
    let todo := CRoot RT :: skipn (zidx (i + 2)) cells in
    do nxt <- (if String.eqb code "x" then children cur
               else match ident cur, children cur with
                    | O, Ok [] => Ok [cur]
                    | O, Ok _ => Unmodelled "unlabelled-container"
                    | _, Ok cs => do l <- bfs (S (size cur) * 2) cs [ident cur] []; Ok (cur :: l)
                    | _, Raise e => Raise e | _, Unmodelled t => Unmodelled t | _, OutOfFuel => OutOfFuel end);
    do vs <- star_rest rec todo nxt;
    Ok (inr (VList 0 vs))
  else if String.eqb code "(" then
    match a with
    | ECall vs kw =>
        (* the call arm wraps cur and the arguments in Call, which runs arg_val over them itself; when _t_eval has already run
           arg_val over them (generated flag), their VALUES go through it a second time: list / dict / tuple / set values rebuilt *)
        do v <- call_kw cur (if call_args_reevaluated then map rebuild vs else vs)
                          (if call_args_reevaluated then map (fun kv => (fst kv, rebuild (snd kv))) kw else kw); Ok (inl v)
    | _ => Unmodelled "arg-shape" end
  else
    (* arithmetic: the generated arm table decides; an opcode without an arm falls through the
       if-chain and leaves cur unchanged — exactly what the Python code does *)
    match str_assoc code arith_arms with
    | None => Ok (inl cur)
    | Some name =>
        match binop_of_name name, unop_of_name name, a with
        | Some o, _, EVal y => do v <- wrap_pae_arith (part_idx_arith i) (apply_binop o cur y); Ok (inl v)
        | None, Some o, _ => do v <- wrap_pae_arith (part_idx_arith i) (apply_unop o cur); Ok (inl v)
        | _, _, _ => Unmodelled "arg-shape" end
    end.

Fixpoint loop (n : nat) (rec : evalfn) (target : val) (cells : list cell) (i : Z) (cur : val) : res val :=
  match n with O => OutOfFuel | S n =>
  if (i <? Z.of_nat (length cells))%Z then
    match nth_error cells (zidx i), nth_error cells (zidx (i + 1)) with
    | Some (CCode code), Some (CArg a) =>
        do ea <- arg_val rec target a;
        do r <- step_op rec target cells i code ea cur;
        match r with
        | inl cur' => loop n rec target cells (i + loop_step) cur'
        | inr fin => Ok fin end
    | _, _ => Unmodelled "malformed-ops" end
  else Ok cur end.

Fixpoint t_eval (fuel : nat) (target : val) (cells : list cell) : res val :=
  match fuel with O => OutOfFuel | S fuel =>
  match cells with
  | CRoot RT :: _ => loop (S (length cells)) (t_eval fuel) target cells loop_start target
  | _ => Unmodelled "root" end end.

(* ---------- Path(...) construction and Path.from_text ---------- *)
Inductive part := PVal (v : val) | PT (steps : list (string * arg)).

Fixpoint path_init (acc : list cell) (parts : list part) : list cell :=
  match parts with
  | [] => acc
  | PVal v :: r => path_init (t_child acc "P" (ALit v)) r
  | PT steps :: r => path_init (acc ++ flatten_steps steps) r end.
Definition path_of_parts (parts : list part) : list cell := path_init [CRoot RT] parts.

Fixpoint split_on (sep : ascii) (s : string) (cur : string) : list string :=
  match s with
  | EmptyString => [cur]
  | String c r => if Ascii.eqb c sep then cur :: split_on sep r "" else split_on sep r (cur ++ String c EmptyString) end.
Definition split_dots (s : string) : list string := split_on "."%char s "".

Definition seg_part (path_star : bool) (seg : string) : part :=
  if path_star && String.eqb seg "*" then PT [("x", ANoArg)]
  else if path_star && String.eqb seg "**" then PT [("X", ANoArg)]
  else PVal (VStr seg).
Definition from_text (path_star : bool) (text : string) : list cell :=
  path_of_parts (map (seg_part path_star) (split_dots text)).

Definition default_fuel : nat := 12.
Definition glom_path_text (target : val) (text : string) : res val := t_eval default_fuel target (from_text true text).
Definition glom_path_parts (target : val) (parts : list part) : res val := t_eval default_fuel target (path_of_parts parts).
Definition glom_t (target : val) (ops : list (string * arg)) : res val :=
  match record ops with Some cells => t_eval default_fuel target cells | None => Unmodelled "record" end.
