(* Model/TRepr.v — repr of T expressions and Paths as token lists (_format_t, _format_path,
   _format_slice, format_invocation) and the reading of such token lists back into expressions
   (what Python's eval does with the overloads of TType and Path.__init__), plus __getstate__ / __setstate__. *)
From Coq Require Import String Ascii ZArith Bool List.
From Glom Require Import Base.PyVal Model.TEval.
Import ListNotations.
Local Open Scope string_scope.
Local Open Scope list_scope.

Inductive lit := LNone | LBool (b : bool) | LInt (z : Z) | LStr (s : string) | LFloat (s : string) | LName (s : string).

Inductive targ :=
| GLit (l : lit)
| GTup (xs : list targ)
| GSlice (a b c : option targ)
| GT (r : root) (steps : list (string * targ))
| GCall (args : list targ) (kw : list (string * targ))
| GNoArg.

Definition texpr := (root * list (string * targ))%type.

Inductive tok :=
| KRoot (r : root) | KDot | KName (s : string) | KLB | KRB | KLP | KRP | KComma | KColon | KEq | KLit (l : lit) | KPath.

Definition lit_eqb (a b : lit) : bool :=
  match a, b with
  | LNone, LNone => true | LBool x, LBool y => Bool.eqb x y | LInt x, LInt y => Z.eqb x y
  | LStr x, LStr y | LFloat x, LFloat y | LName x, LName y => String.eqb x y | _, _ => false end.
Definition root_eqb (a b : root) : bool := match a, b with RT, RT | RS, RS | RA, RA => true | _, _ => false end.
Definition tok_eqb (a b : tok) : bool :=
  match a, b with
  | KRoot x, KRoot y => root_eqb x y
  | KDot, KDot | KLB, KLB | KRB, KRB | KLP, KLP | KRP, KRP | KComma, KComma | KColon, KColon | KEq, KEq | KPath, KPath => true
  | KName x, KName y => String.eqb x y
  | KLit x, KLit y => lit_eqb x y
  | _, _ => false end.
Fixpoint toks_eqb (a b : list tok) : bool :=
  match a, b with [], [] => true | x :: a, y :: b => tok_eqb x y && toks_eqb a b | _, _ => false end.

(* ---------- formatting ---------- *)
Fixpoint join_comma (xs : list (list tok)) : list tok :=
  match xs with [] => [] | [x] => x | x :: r => x ++ KComma :: join_comma r end.

Definition is_slice (a : targ) : bool := match a with GSlice _ _ _ => true | _ => false end.
Definition has_p (steps : list (string * targ)) : bool := existsb (fun s => String.eqb (fst s) "P") steps.

Section Fmt.
(* [fmt_path] is tied in below: _format_t delegates the whole expression to _format_path when it meets a 'P' step *)
Variable fmt_path : root -> list (string * targ) -> list tok.

Section With.
Variable f : targ -> list tok.           (* bbrepr of an argument *)
Definition fmt_slice_with (a : targ) : list tok :=         (* _format_slice *)
  match a with
  | GSlice x y z =>
      let g := fun o => match o with Some v => f v | None => [] end in
      match z with
      | None => g x ++ KColon :: g y
      | Some s => g x ++ KColon :: g y ++ KColon :: f s end
  | _ => f a end.
Definition fmt_index_with (a : targ) : list tok :=
  match a with
  | GTup xs =>
      match xs with
      | _ :: _ :: _ => join_comma (map fmt_slice_with xs)
      | [x] => if is_slice x then fmt_slice_with x ++ [KComma] else f a
      | [] => f a end
  | _ => fmt_slice_with a end.
Definition fmt_call_with (args : list targ) (kw : list (string * targ)) : list tok :=   (* format_invocation *)
  KLP :: join_comma (map f args ++ map (fun kv => KName (fst kv) :: KEq :: f (snd kv)) kw) ++ [KRP].
Definition fmt_step_with (code : string) (a : targ) : list tok :=
  if String.eqb code "." then match a with GLit (LStr n) => [KDot; KName n] | _ => [KDot] end
  else if String.eqb code "[" then KLB :: fmt_index_with a ++ [KRB]
  else if String.eqb code "(" then match a with GCall args kw => fmt_call_with args kw | _ => [KLP] end
  else if String.eqb code "x" then [KDot; KName "__star__"; KLP; KRP]
  else if String.eqb code "X" then [KDot; KName "__starstar__"; KLP; KRP]
  else [].
End With.

Fixpoint fmt_arg (a : targ) : list tok :=       (* bbrepr(a) *)
  match a with
  | GLit l => [KLit l]
  | GTup xs =>
      match xs with
      | [] => [KLP; KRP]
      | [x] => KLP :: fmt_arg x ++ [KComma; KRP]
      | _ => KLP :: join_comma (map fmt_arg xs) ++ [KRP] end
  | GSlice a b c =>
      (* repr(slice(a, b, c)): only reachable for slices outside an index, which the grammar excludes *)
      KName "slice" :: KLP :: join_comma (map (fun o => match o with Some x => fmt_arg x | None => [KLit LNone] end) [a; b; c]) ++ [KRP]
  | GT r steps =>
      if has_p steps then fmt_path r steps
      else KRoot r :: concat (map (fun cx => fmt_step_with fmt_arg (fst cx) (snd cx)) steps)
  | GCall args kw => fmt_call_with fmt_arg args kw
  | GNoArg => [KLit LNone] end.
End Fmt.

(* _format_path: 'P' arguments as values, maximal runs of other steps as T chunks.  [first_root] is the root
   printed on the first chunk. *)
Fixpoint split_chunks (steps : list (string * targ)) (cur : list (string * targ))
  : list (list (string * targ) + targ) :=
  match steps with
  | [] => match cur with [] => [] | _ => [inl (rev cur)] end
  | (c, a) :: r =>
      if String.eqb c "P" then
        match cur with [] => inr a :: split_chunks r [] | _ => inl (rev cur) :: inr a :: split_chunks r [] end
      else split_chunks r ((c, a) :: cur) end.

(* tie the knot with fuel = nesting depth of Path-formatted arguments (none in the grammar: P steps occur at top level only) *)
Fixpoint fmt_path_f (fuel : nat) (keep_root : bool) (r : root) (steps : list (string * targ)) : list tok :=
  match fuel with O => [] | S fuel =>
  let fa := fmt_arg (fmt_path_f fuel keep_root) in
  let chunk := fun (rt : root) (ch : list (string * targ)) => fa (GT rt ch) in
  let parts := split_chunks steps [] in
  let root_of_first := if keep_root then r else RT in
  let fmt_parts :=
    (fix go (first : bool) (l : list (list (string * targ) + targ)) : list (list tok) :=
       match l with
       | [] => []
       | inl ch :: rest => chunk (if first then root_of_first else RT) ch :: go false rest
       | inr a :: rest => fa a :: go false rest end) in
  let parts' :=
    (* a non-T root has to be carried by a leading (possibly empty) chunk *)
    match keep_root, r, parts with
    | true, RT, _ => parts
    | true, _, inl _ :: _ => parts
    | true, _, _ => inl [] :: parts
    | false, _, _ => parts end in
  if has_p steps || match steps with [] => true | _ => false end then
    match keep_root, r, steps with
    | true, RT, [] | false, _, [] => [KPath; KLP; KRP]
    | _, _, _ => KPath :: KLP :: join_comma (fmt_parts true parts') ++ [KRP] end
  else chunk root_of_first steps
  end.

(* keep_root = false is the pinned behaviour of Path.__repr__ (root dropped); true is the repaired one *)
Definition fmt_t (keep_root : bool) (e : texpr) : list tok := fmt_arg (fmt_path_f 3 keep_root) (GT (fst e) (snd e)).
Definition fmt_path (keep_root : bool) (e : texpr) : list tok := fmt_path_f 4 keep_root (fst e) (snd e).

(* ---------- reading (eval) ---------- *)
Definition starts_dunder (s : string) : bool :=
  match s with String "_"%char (String "_"%char _) => true | _ => false end.

Section Parse.
Fixpoint parse_expr (fuel : nat) (ts : list tok) : option (targ * list tok) :=
  match fuel with O => None | S fuel =>
  match ts with
  | KLit l :: rest => Some (GLit l, rest)
  | KRoot r :: rest =>
      match parse_steps fuel rest with
      | Some (steps, rest') => Some (GT r steps, rest')
      | None => None end
  | KLP :: KRP :: rest => Some (GTup [], rest)
  | KLP :: rest =>
      match parse_expr fuel rest with
      | Some (x, KComma :: KRP :: rest') => Some (GTup [x], rest')
      | Some (x, KComma :: rest') =>
          match parse_exprs fuel rest' with
          | Some (xs, KRP :: rest'') => Some (GTup (x :: xs), rest'')
          | _ => None end
      | _ => None end
  | _ => None end end
with parse_exprs (fuel : nat) (ts : list tok) : option (list targ * list tok) :=   (* e1, e2, ..., en  (n >= 1) *)
  match fuel with O => None | S fuel =>
  match parse_expr fuel ts with
  | Some (x, KComma :: rest) =>
      match parse_exprs fuel rest with
      | Some (xs, rest') => Some (x :: xs, rest')
      | None => None end
  | Some (x, rest) => Some ([x], rest)
  | None => None end end
with parse_steps (fuel : nat) (ts : list tok) : option (list (string * targ) * list tok) :=
  match fuel with O => None | S fuel =>
  match ts with
  | KDot :: KName n :: rest =>
      if String.eqb n "__star__" then
        match rest with KLP :: KRP :: rest' =>
          match parse_steps fuel rest' with Some (st, r2) => Some (("x", GNoArg) :: st, r2) | None => None end
        | _ => None end
      else if String.eqb n "__starstar__" then
        match rest with KLP :: KRP :: rest' =>
          match parse_steps fuel rest' with Some (st, r2) => Some (("X", GNoArg) :: st, r2) | None => None end
        | _ => None end
      else if starts_dunder n then None
      else match parse_steps fuel rest with Some (st, r2) => Some ((".", GLit (LStr n)) :: st, r2) | None => None end
  | KLB :: rest =>
      match parse_index fuel rest with
      | Some (a, KRB :: rest') =>
          match parse_steps fuel rest' with Some (st, r2) => Some (("[", a) :: st, r2) | None => None end
      | _ => None end
  | KLP :: rest =>
      match parse_callargs fuel rest with
      | Some (args, kw, rest') =>
          match parse_steps fuel rest' with Some (st, r2) => Some (("(", GCall args kw) :: st, r2) | None => None end
      | None => None end
  | _ => Some ([], ts) end end
with parse_item (fuel : nat) (ts : list tok) : option (targ * list tok) :=      (* expr | [expr]:[expr][:[expr]] *)
  match fuel with O => None | S fuel =>
  let opt := fun (ts : list tok) =>
    match ts with
    | (KColon | KRB | KComma) :: _ => Some (None, ts)
    | _ => match parse_expr fuel ts with Some (x, r) => Some (Some x, r) | None => None end end in
  match opt ts with
  | Some (a, KColon :: r1) =>
      match opt r1 with
      | Some (b, KColon :: r2) =>
          match opt r2 with
          | Some (Some c, r3) => Some (GSlice a b (Some c), r3)
          | Some (None, r3) => Some (GSlice a b None, r3)
          | None => None end
      | Some (b, r2) => Some (GSlice a b None, r2)
      | None => None end
  | Some (Some x, r) => Some (x, r)
  | _ => None end end
with parse_index (fuel : nat) (ts : list tok) : option (targ * list tok) :=
  match fuel with O => None | S fuel =>
  match parse_item fuel ts with
  | Some (x, KComma :: KRB :: rest) => Some (GTup [x], KRB :: rest)
  | Some (x, KComma :: rest) =>
      match parse_items fuel rest with
      | Some (xs, rest') => Some (GTup (x :: xs), rest')
      | None => None end
  | Some (x, rest) => Some (x, rest)
  | None => None end end
with parse_items (fuel : nat) (ts : list tok) : option (list targ * list tok) :=
  match fuel with O => None | S fuel =>
  match parse_item fuel ts with
  | Some (x, KComma :: KRB :: rest) => Some ([x], KRB :: rest)
  | Some (x, KComma :: rest) =>
      match parse_items fuel rest with
      | Some (xs, rest') => Some (x :: xs, rest')
      | None => None end
  | Some (x, rest) => Some ([x], rest)
  | None => None end end
with parse_callargs (fuel : nat) (ts : list tok) : option (list targ * list (string * targ) * list tok) :=
  (* after '(' : positional expressions, then name=expr pairs, then ')' *)
  match fuel with O => None | S fuel =>
  match ts with
  | KRP :: rest => Some ([], [], rest)
  | KName k :: KEq :: rest =>
      match parse_expr fuel rest with
      | Some (v, KComma :: rest') =>
          match parse_callargs fuel rest' with
          | Some ([], kw, r2) => Some ([], (k, v) :: kw, r2)
          | _ => None end
      | Some (v, KRP :: rest') => Some ([], [(k, v)], rest')
      | _ => None end
  | _ =>
      match parse_expr fuel ts with
      | Some (x, KComma :: rest') =>
          match parse_callargs fuel rest' with
          | Some (args, kw, r2) => Some (x :: args, kw, r2)
          | None => None end
      | Some (x, KRP :: rest') => Some ([x], [], rest')
      | _ => None end
  end end.
End Parse.

(* Path(part, ...): Path.__init__ — the first part, when it is a T expression, is the base (root kept);
   later T parts must be rooted at T and contribute their steps; other parts become 'P' steps *)
Fixpoint path_init_parts (acc : list (string * targ)) (parts : list targ) : option (list (string * targ)) :=
  match parts with
  | [] => Some acc
  | GT RT steps :: r => path_init_parts (acc ++ steps) r
  | GT _ _ :: _ => None                      (* ValueError: path segment must be path from T *)
  | p :: r => path_init_parts (acc ++ [("P", p)]) r end.

Definition eval_path_call (parts : list targ) : option texpr :=
  match parts with
  | GT r steps :: rest => option_map (fun s => (r, s)) (path_init_parts steps rest)
  | _ => option_map (fun s => (RT, s)) (path_init_parts [] parts) end.

Definition parse_top (fuel : nat) (ts : list tok) : option texpr :=
  match ts with
  | KPath :: KLP :: KRP :: [] => Some (RT, [])
  | KPath :: KLP :: rest =>
      match parse_exprs fuel rest with
      | Some (parts, [KRP]) => eval_path_call parts
      | _ => None end
  | _ => match parse_expr fuel ts with
         | Some (GT r steps, []) => Some (r, steps)
         | _ => None end
  end.

(* ---------- equality of expressions (kwargs compared as given: generators keep them sorted) ---------- *)
Fixpoint targ_eqb_f (fuel : nat) (a b : targ) {struct fuel} : bool :=
  match fuel with O => false | S fuel =>
  let eqb := targ_eqb_f fuel in
  let fix leq (x y : list targ) := match x, y with [], [] => true | p :: x, q :: y => eqb p q && leq x y | _, _ => false end in
  let fix seq (x y : list (string * targ)) :=
      match x, y with [], [] => true | (c, p) :: x, (d, q) :: y => String.eqb c d && eqb p q && seq x y | _, _ => false end in
  let oeq := fun (x y : option targ) => match x, y with None, None => true | Some p, Some q => eqb p q | _, _ => false end in
  match a, b with
  | GLit x, GLit y => lit_eqb x y
  | GTup x, GTup y => leq x y
  | GSlice a1 b1 c1, GSlice a2 b2 c2 => oeq a1 a2 && oeq b1 b2 && oeq c1 c2
  | GT r x, GT s y => root_eqb r s && seq x y
  | GCall a1 k1, GCall a2 k2 => leq a1 a2 && seq k1 k2
  | GNoArg, GNoArg => true
  | _, _ => false end end.
Definition texpr_eqb (a b : texpr) : bool := targ_eqb_f 12 (GT (fst a) (snd a)) (GT (fst b) (snd b)).

(* ---------- pickling ---------- *)
Inductive statehd := HName (s : string) | HRoot (r : root).
Definition root_name (r : root) : string := match r with RT => "T" | RS => "S" | RA => "A" end.
Definition root_of_name (s : string) : option root :=
  if String.eqb s "T" then Some RT else if String.eqb s "S" then Some RS else if String.eqb s "A" then Some RA else None.
Definition getstate (e : texpr) : string * list (string * targ) := (root_name (fst e), snd e).
Definition setstate (st : string * list (string * targ)) : option texpr :=
  option_map (fun r => (r, snd st)) (root_of_name (fst st)).
