(* Model/Trace.v — the target-spec trace of an error (C05): glom/core.py _glom's breadcrumbs (LAST_CHILD_SCOPE, CHILD_ERRORS,
   CUR_ERROR, NO_PYFRAME), chain_child (re-wires chained steps under each other and forgives earlier branches), the
   NO_PYFRAME walk of the except arm, _unpack_stack (linear descent, branch detection, push-errors-down, trim), the line
   skeleton of format_target_spec_trace and the truncation of _format_trace_value.
   Specs are abstract shapes; [sid] names the spec occurrence; targets and errors are numbers. *)
From Coq Require Import Bool Lia List Arith String Ascii.
Import ListNotations.
Local Open Scope list_scope.

Inductive tspec :=
| Leaf (sid : nat) (ok : bool)                      (* succeeds with a fresh value / raises its own error *)
| SkipLeaf (sid : nat)                              (* succeeds with the value every Coalesce is told to skip (value 0) *)
| Nest (sid : nat) (kids : list tspec)              (* dict spec: every value spec on the same target *)
| Chain (sid : nat) (steps : list tspec)            (* tuple *)
| Alt (sid : nat) (branches : list tspec)           (* Coalesce: all fail -> its own CoalesceError *)
| OrS (sid : nat) (branches : list tspec)           (* Or: the last branch's error propagates *)
| Switch (sid : nat) (cases : list (tspec * tspec))
| Guard (sid : nat) (ok : bool) (kid : tspec)
| AltD (sid : nat) (branches : list tspec)
| NotS (sid : nat) (kid : tspec)
| AndS (sid : nat) (kids : list tspec).                  (* Not(kid): a failure of the sub-spec is recovered from (the target passes), a success is refused with the Not's OWN error *)      (* Guard: Check(kid, ...): the sub-spec runs in a scope of its own, then the guard passes
                                                        the target on or raises its OWN error — a spec that fails after its children succeeded *)

(* AndS: And(a, b, ...): every child on the same target in a scope of its own, the first failure propagates, the value is the last
   child's (the target when there is none) *)
(* AltD: Coalesce(..., default_factory=f) — when every alternative fails or is skipped the factory's value is the result, and nothing
   is evaluated after the last (failed) alternative: a spec that recovers *)
Definition sid_of s := match s with Leaf n _ | SkipLeaf n | Nest n _ | Chain n _ | Alt n _ | OrS n _ | Switch n _ | Guard n _ _ | AltD n _ | NotS n _ | AndS n _ => n end.

Record frame := mkF { f_spec : nat; f_target : nat; f_up : nat; f_last : option nat;
                      f_cerrs : list nat; f_err : option nat; f_nopy : bool }.
Definition store := list frame.
Definition dummy := mkF 0 0 0 None [] None false.
Definition get (st : store) (i : nat) := nth i st dummy.
Fixpoint upd (st : store) (i : nat) (g : frame -> frame) : store :=
  match st, i with [], _ => [] | f :: r, O => g f :: r | f :: r, S i => f :: upd r i g end.
Definition set_last n f := mkF (f_spec f) (f_target f) (f_up f) (Some n) (f_cerrs f) (f_err f) (f_nopy f).
Definition add_cerr n f := mkF (f_spec f) (f_target f) (f_up f) (f_last f) (f_cerrs f ++ [n]) (f_err f) (f_nopy f).
Definition set_err e f := mkF (f_spec f) (f_target f) (f_up f) (f_last f) (f_cerrs f) (Some e) (f_nopy f).
Definition mark_chain f := mkF (f_spec f) (f_target f) (f_up f) (f_last f) [] (f_err f) true.

Definition chain_child (st : store) (cur : nat) : store * nat :=
  match f_last (get st cur) with None => (st, cur) | Some n => (upd st n mark_chain, n) end.

(* the NO_PYFRAME walk in _glom's except arm *)
Fixpoint nopy_walk (fuel : nat) (st : store) (cur : nat) (e : nat) : store :=
  match fuel with O => st | S fuel =>
  if f_nopy (get st cur) then
    let st := upd st (f_up (get st cur)) (add_cerr cur) in
    let st := upd st cur (set_err e) in
    nopy_walk fuel st (f_up (get st cur)) e
  else st end.

Inductive out := Ret (target : nat) | Exc (e : nat).
Definition recfn := store -> nat -> nat -> tspec -> store * out.
(* does the frame already carry this very error? *)
Definition same_err (o : option nat) (e : nat) : bool := match o with Some x => Nat.eqb x e | None => false end.   (* store, parent frame, target, spec *)

(* a dict spec builds a new container: named after the spec occurrence that built it *)
Fixpoint nest_loop (rec : recfn) (sid : nat) (st : store) (f t : nat) (kids : list tspec) : store * out :=
  match kids with [] => (st, Ret (1000 + sid))
  | k :: r => match rec st f t k with (st, Ret _) => nest_loop rec sid st f t r | (st, Exc e) => (st, Exc e) end end.
Fixpoint and_loop (rec : recfn) (st : store) (f t : nat) (kids : list tspec) (last : nat) : store * out :=
  match kids with [] => (st, Ret last)
  | k :: r => match rec st f t k with (st, Ret v) => and_loop rec st f t r v | (st, Exc e) => (st, Exc e) end end.
Fixpoint chain_loop (rec : recfn) (st : store) (cur res : nat) (steps : list tspec) : store * out :=
  match steps with [] => (st, Ret res)
  | s :: r => let '(st, cur') := chain_child st cur in
              match rec st cur' res s with (st, Ret v) => chain_loop rec st cur' v r | (st, Exc e) => (st, Exc e) end end.
(* Coalesce(skip=0): a branch that succeeds with the skipped value is passed over like a failing one, but leaves no error *)
Fixpoint alt_loop (rec : recfn) (own_err : nat) (st : store) (f t : nat) (bs : list tspec) : store * out :=
  match bs with [] => (st, Exc own_err)
  | b :: r => match rec st f t b with
              | (st, Ret v) => if Nat.eqb v 0 then alt_loop rec own_err st f t r else (st, Ret v)
              | (st, Exc _) => alt_loop rec own_err st f t r end end.
Fixpoint or_loop (rec : recfn) (st : store) (f t : nat) (bs : list tspec) : store * out :=
  match bs with [] => (st, Ret t)
  | [b] => rec st f t b
  | b :: r => match rec st f t b with (st, Ret v) => (st, Ret v) | (st, Exc _) => or_loop rec st f t r end end.
Fixpoint switch_loop (rec : recfn) (own_err : nat) (st : store) (f t : nat) (cs : list (tspec * tspec)) : store * out :=
  match cs with [] => (st, Exc own_err)
  | (k, v) :: r => match rec st f t k with
                   | (st, Ret _) => let '(st, cur') := chain_child st f in rec st cur' t v
                   | (st, Exc _) => switch_loop rec own_err st f t r end end.

Definition new_frame (s : tspec) (t parent : nat) : frame := mkF (sid_of s) t parent None [] None false.

Fixpoint glom_ (fuel : nat) (st : store) (parent t : nat) (s : tspec) {struct fuel} : store * out :=
  match fuel with O => (st, Exc 0) | S fuel =>
  let f := List.length st in
  let st := st ++ [new_frame s t parent] in
  let st := upd st parent (set_last f) in
  let '(st, r) :=
    match s with
    | Leaf n ok => if ok then (st, Ret (2000 + n)) else (st, Exc n)
    | SkipLeaf _ => (st, Ret 0)
    | Nest n kids => nest_loop (glom_ fuel) n st f t kids
    | Chain _ steps => chain_loop (glom_ fuel) st f t steps
    | Alt n bs => alt_loop (glom_ fuel) (5000 + n) st f t bs
    | OrS _ bs => or_loop (glom_ fuel) st f t bs
    | Switch n cs => switch_loop (glom_ fuel) (5000 + n) st f t cs
    | Guard n ok kid => match glom_ fuel st f t kid with
                        | (st, Ret _) => if ok then (st, Ret t) else (st, Exc (6000 + n))
                        | (st, Exc e) => (st, Exc e) end
    | AltD n bs => match alt_loop (glom_ fuel) 0 st f t bs with
                   | (st, Exc _) => (st, Ret (3000 + n))
                   | (st, Ret v) => (st, Ret v) end
    | NotS n kid => match glom_ fuel st f t kid with
                    | (st, Ret _) => (st, Exc (6000 + n))
                    | (st, Exc _) => (st, Ret t) end
    | AndS _ kids => and_loop (glom_ fuel) st f t kids t
    end in
  match r with
  | Ret v => (st, Ret v)
  | Exc e =>
      (* a spec that fails with the very error its parent already carries (raised by a child of the parent that was evaluated
         while this spec ran: an item of a lazy stream) is not another failure — never the case in this eager model, where the
         parent of a running spec carries no error (Proofs/TraceFull.v keeps that as a precondition of every evaluation) *)
      if same_err (f_err (get st parent)) e then (upd st f (set_err e), Exc e) else
      let st := upd st parent (add_cerr f) in
      let st := upd st f (set_err e) in
      let st := if f_nopy (get st parent) then nopy_walk (List.length st) st parent e else st in
      (st, Exc e)
  end end.

(* _unpack_stack: entries (frame, spec, target, error, branches) *)
Record entry := mkE { e_frame : nat; e_spec : nat; e_target : nat; e_err : option nat; e_branches : list nat }.
Fixpoint descend (fuel : nat) (st : store) (cur : nat) : list entry :=
  match fuel with O => [] | S fuel =>
  let fr := get st cur in
  match f_last fr with
  | None => [mkE cur (f_spec fr) (f_target fr) (f_err fr) []]
  | Some child =>
      let branches := match f_cerrs fr with [c] => if Nat.eqb c child then [] else [c] | l => l end in
      let en := mkE cur (f_spec fr) (f_target fr) (f_err fr) branches in
      if existsb (Nat.eqb child) branches then [en]
      else match f_err (get st child) with
           | None => [en]                 (* the last child did not fail: whatever failed below it was recovered from *)
           | Some _ => en :: descend fuel st child end
  end end.
Definition oeq (a b : option nat) := match a, b with Some x, Some y => Nat.eqb x y | None, None => true | _, _ => false end.
Fixpoint push_down (l : list entry) : list entry :=
  match l with
  | a :: ((b :: _) as r) => (if oeq (e_err a) (e_err b) then mkE (e_frame a) (e_spec a) (e_target a) None (e_branches a) else a) :: push_down r
  | _ => l end.
Fixpoint trim_rev (l : list entry) : list entry :=   (* on the reversed list *)
  match l with
  | a :: ((_ :: _) as r) => match e_err a with None => trim_rev r | Some _ => l end
  | _ => l end.
Definition unpack (st : store) (f : nat) : list entry := rev (trim_rev (rev (push_down (descend (List.length st) st f)))).

(* recursive rendering: tree of (spec, target, err, branch sub-stacks) *)
Inductive tr := TR (spec target : nat) (err : option nat) (branches : list (list tr)).
Fixpoint render (fuel : nat) (st : store) (f : nat) : list tr :=
  match fuel with O => [] | S fuel =>
  map (fun en => TR (e_spec en) (e_target en) (e_err en) (map (render fuel st) (e_branches en))) (unpack st f) end.

(* nesting depth of a spec: the fuel an evaluation needs *)
Fixpoint tdepth (s : tspec) : nat :=
  match s with
  | Leaf _ _ | SkipLeaf _ => 0
  | Nest _ l | Chain _ l | Alt _ l | OrS _ l => S (fold_right (fun x acc => Nat.max (tdepth x) acc) 0 l)
  | Switch _ cs => S (fold_right (fun kv acc => let '(k, v) := kv in Nat.max (Nat.max (tdepth k) (tdepth v)) acc) 0 cs)
  | Guard _ _ k => S (tdepth k)
  | AltD _ l => S (fold_right (fun x acc => Nat.max (tdepth x) acc) 0 l)
  | NotS _ k => S (tdepth k)
  | AndS _ l => S (fold_right (fun x acc => Nat.max (tdepth x) acc) 0 l) end.

Definition root_store : store := [dummy].
Definition root_target : nat := 7.
(* fuel: one unit per nesting level for the evaluation; the rendering follows frame indices upwards, so the number of frames bounds it *)
Definition run (s : tspec) : out * list tr :=
  let '(st, r) := glom_ (S (tdepth s)) root_store 0 root_target s in
  (r, match f_last (get st 0) with Some f => render (List.length st) st f | None => [] end).

(* ---------- the line skeleton of format_target_spec_trace ---------- *)
Inductive lkind := KTarget | KSpec | KErr.
(* a line: the characters in front of the label (leading space, one bar per nesting level, the two-character tick) and
   what the line shows *)
Record line := mkL { l_prefix : string; l_kind : lkind; l_id : nat }.

Fixpoint bars (n : nat) : string := match n with O => EmptyString | S n => String "|"%char (bars n) end.
Definition prefix_of (depth : nat) (tick : string) : string := String.append " "%string (String.append (bars depth) tick).
Definition std_tick (depth : nat) : string := if Nat.eqb depth 0 then "- "%string else "| "%string.

Fixpoint set_char (n : nat) (m : ascii) (s : string) : string :=
  match s, n with
  | EmptyString, _ => EmptyString
  | String _ r, O => String m r
  | String c r, S n => String c (set_char n m r) end.

(* remark = lambda s, m: s[:depth + 1] + m + s[depth + 2:] — applied to a SEGMENT, i.e. to the first line of a block *)
Definition remark_seg (depth : nat) (m : ascii) (seg : list line) : list line :=
  match seg with [] => [] | l :: r => mkL (set_char (S depth) m (l_prefix l)) (l_kind l) (l_id l) :: r end.
Definition remark_first (depth : nat) (m : ascii) (segs : list (list line)) : list (list line) :=
  match segs with [] => [] | s :: r => remark_seg depth m s :: r end.
Definition remark_last (depth : nat) (m : ascii) (segs : list (list line)) : list (list line) :=
  match rev segs with [] => [] | s :: r => rev (remark_seg depth m s :: r) end.

(* the segments of one (sub-)trace; prev: the target shown last; root_err: the error whose message ends the whole text and is
   therefore not repeated inside *)
Fixpoint segments_of (fuel : nat) (depth : nat) (root_err : option nat) (last_branch : bool) (prev : option nat) (trs : list tr)
  : list (list line) :=
  match fuel with O => [] | S fuel =>
  let go := fix go (trs : list tr) (prev : option nat) (last_err : bool) : list (list line) * bool :=
      match trs with
      | [] => ([], last_err)
      | TR spec target err branches :: r =>
          let tl := if oeq (Some target) prev then [] else [[mkL (prefix_of depth (std_tick depth)) KTarget target]] in
          let prev' := Some target in
          let sl :=
            match branches with
            | [] => [[mkL (prefix_of depth (std_tick depth)) KSpec spec]]
            | _ => [mkL (prefix_of depth "+ "%string) KSpec spec] ::
                   (fix subs (bs : list (list tr)) : list (list line) :=
                      match bs with
                      | [] => []
                      | [b] => [List.concat (segments_of fuel (S depth) root_err last_branch prev' b)]
                      | b :: bs' => List.concat (segments_of fuel (S depth) root_err false prev' b) :: subs bs' end) branches end in
          let '(el, le) := match err with
                           | Some e => if oeq (Some e) root_err then ([], false)
                                       else ([[mkL (prefix_of depth (std_tick depth)) KErr e]], true)
                           | None => ([], false) end in
          let '(rest, le') := go r prev' le in
          (tl ++ sl ++ el ++ rest, match r with [] => le | _ => le' end) end in
  let '(segs, last_line_error) := go trs prev false in
  if Nat.eqb depth 0 then segs
  else let segs := remark_first depth "\"%char segs in
       if negb last_branch || last_line_error then remark_last depth "X"%char segs else segs
  end.

Definition skeleton (s : tspec) : list line :=
  match run s with
  | (Exc e, trs) => List.concat (segments_of 30 0 (Some e) true None trs)
  | (Ret _, _) => [] end.

(* ---------- _format_trace_value ---------- *)
Fixpoint take (n : nat) (s : string) : string :=
  match n, s with O, _ => EmptyString | S n, String c r => String c (take n r) | _, EmptyString => EmptyString end.

(* s = bbrepr(value) with \' replaced; suffix = '... (len=N)' when len(value) works, else '...' *)
Definition format_trace_value (s suffix : string) (maxlen : nat) : string :=
  if Nat.ltb maxlen (String.length s) then
    let ls := String.length suffix in
    (* s[:maxlen - len(suffix)]: a negative bound counts from the end *)
    let keep := if Nat.ltb maxlen ls then String.length s - (ls - maxlen) else maxlen - ls in
    String.append (take keep s) suffix
  else s.
