(* Model/Wild.v — the 'x' / 'X' arms of _t_eval over object graphs (C14): _extend_children, the
   id()-guarded work list of '**', recursive evaluation of the remaining steps per entry with
   PathAccessError swallowed. *)
From Coq Require Import String ZArith Bool List Lia.
From Glom Require Import Base.PyVal Base.Heap.
Import ListNotations.
Local Open Scope list_scope.

Inductive wstep := WP (seg : atom) | WStar | WStarStar.
Inductive wres := WVal (v : gval) | WList (xs : list wres).

Definition seen (sofar : list nat) (v : gval) : bool :=
  match v with GA _ => false | GR l => existsb (Nat.eqb l) sofar end.
Definition mark (sofar : list nat) (v : gval) : list nat :=
  match v with GA _ => sofar | GR l => l :: sofar end.

(* for item in nxt: if id(item) not in sofar: sofar.add(id(item)); _extend_children(nxt, item)
   [todo] is the unread part of nxt, [acc] the part already read (reversed) *)
Fixpoint bfs (fuel : nat) (h : heap) (todo : list gval) (sofar : list nat) (acc : list gval) : option (list gval) :=
  match fuel with O => None | S fuel =>
  match todo with
  | [] => Some (rev acc)
  | item :: rest =>
      if seen sofar item then bfs fuel h rest sofar (item :: acc)
      else bfs fuel h (rest ++ children h item) (mark sofar item) (item :: acc)
  end end.

(* enough fuel for any heap: every location is expanded at most once *)
Definition edges (h : heap) : nat := fold_right (fun n acc => length (children [n] (GR 0)) + acc) 0 h.
Definition bfs_fuel (h : heap) : nat := S (S (length h) + edges h + edges h).

Definition starstar (h : heap) (cur : gval) : option (list gval) :=
  option_map (cons cur) (bfs (bfs_fuel h) h (children h cur) (mark [] cur) []).

Definition is_pae (e : exn) : bool := String.eqb (ecls e) "PathAccessError".

(* evaluate the remaining steps on each entry; entries that fail with PathAccessError are dropped *)
Fixpoint each (rec : gval -> res wres) (kids : list gval) : res (list wres) :=
  match kids with
  | [] => Ok []
  | k :: r =>
      match rec k with
      | Ok v => do vs <- each rec r; Ok (v :: vs)
      | Raise e => if is_pae e then each rec r else Raise e
      | Unmodelled t => Unmodelled t
      | OutOfFuel => OutOfFuel end end.

(* steps are consumed structurally; [k] is the index of the first step (for part_idx).  After a wildcard the
   remaining steps are evaluated by a recursive _t_eval whose own indexes start again at 0. *)
Fixpoint weval (h : heap) (steps : list wstep) (k : nat) (cur : gval) : res wres :=
  match steps with
  | [] => Ok (WVal cur)
  | WP seg :: rest =>
      match hget h cur seg with
      | Ok v => weval h rest (S k) v
      | Raise e => Raise (pae (ecls e) k)
      | Unmodelled t => Unmodelled t
      | OutOfFuel => OutOfFuel end
  | WStar :: rest => do vs <- each (weval h rest 0) (children h cur); Ok (WList vs)
  | WStarStar :: rest =>
      match starstar h cur with
      | Some nxt => do vs <- each (weval h rest 0) nxt; Ok (WList vs)
      | None => OutOfFuel end
  end.

Fixpoint wres_eqb_f (fuel : nat) (a b : wres) : bool :=
  match fuel with O => false | S fuel =>
  match a, b with
  | WVal x, WVal y => gval_eqb x y
  | WList x, WList y =>
      (fix go (x y : list wres) := match x, y with [] , [] => true | p :: x, q :: y => wres_eqb_f fuel p q && go x y | _, _ => false end) x y
  | _, _ => false end end.
Definition wres_eqb := wres_eqb_f 10.
