(* Proofs/CacheProofs.v — C06: the path memo never changes an answer; outcomes are independent of history *)
From Coq Require Import String ZArith Bool List Lia.
From Glom Require Import Base.PyVal Generated.CacheOps Model.Cache.
Import ListNotations.
Local Open Scope string_scope.
Local Open Scope list_scope.

Section MemoProofs.
  Context {V : Type}.
  Variable create : bool -> string -> V.
  Variable maxc : Z.
  Implicit Types c : @caches V.

  Definition Inv (c : @caches V) : Prop :=
    forall star text p, str_assoc text (sel star c) = Some p -> p = create star text.

  Lemma str_assoc_app {B} k (l : list (string * B)) k' v :
    str_assoc k (l ++ [(k', v)]) = match str_assoc k l with Some x => Some x | None => if String.eqb k k' then Some v else None end.
  Proof.
    induction l as [|[k1 v1] r IH]; cbn; [reflexivity|].
    destruct (String.eqb k k1); [reflexivity|exact IH].
  Qed.

  Lemma sel_upd_same star c t : sel star (upd star c t) = t.
  Proof. destruct star; reflexivity. Qed.
  Lemma sel_upd_other star c t : sel (negb star) (upd star c t) = sel (negb star) c.
  Proof. destruct star; reflexivity. Qed.

  Lemma empty_inv : Inv (@empty V).
  Proof. intros [] text p H; cbn in H; discriminate. Qed.

  Lemma from_text_pure star c text : Inv c -> fst (from_text create maxc star c text) = create star text.
  Proof.
    intros HI. unfold from_text. destruct (str_assoc text (sel star c)) as [p|] eqn:E.
    - cbn. apply HI. exact E.
    - destruct (path_cache_full _ _); reflexivity.
  Qed.

  Lemma from_text_inv star c text : Inv c -> Inv (snd (from_text create maxc star c text)).
  Proof.
    intros HI. unfold from_text. destruct (str_assoc text (sel star c)) as [p|] eqn:E; [exact HI|].
    destruct (path_cache_full _ _); [exact HI|].
    cbn [snd]. intros star' text' p' H.
    destruct (Bool.eqb star' star) eqn:Es.
    - apply Bool.eqb_prop in Es. subst star'. rewrite sel_upd_same, str_assoc_app in H.
      destruct (str_assoc text' (sel star c)) as [q|] eqn:E'.
      + inversion H; subst. apply HI. exact E'.
      + destruct (String.eqb text' text) eqn:Et; [|discriminate].
        apply String.eqb_eq in Et. subst. inversion H. reflexivity.
    - assert (star' = negb star) as -> by (destruct star, star'; cbn in Es; try discriminate; reflexivity).
      rewrite sel_upd_other in H. apply HI. exact H.
  Qed.

  (* a stored entry is never replaced or removed: what a text maps to is decided at its first store *)
  Lemma from_text_monotone star c text star' text' p :
    str_assoc text' (sel star' c) = Some p -> str_assoc text' (sel star' (snd (from_text create maxc star c text))) = Some p.
  Proof.
    intros H. unfold from_text. destruct (str_assoc text (sel star c)) as [q|] eqn:E; [exact H|].
    destruct (path_cache_full _ _); [exact H|].
    cbn [snd]. destruct (Bool.eqb star' star) eqn:Es.
    - apply Bool.eqb_prop in Es. subst star'. rewrite sel_upd_same, str_assoc_app, H. reflexivity.
    - assert (star' = negb star) as -> by (destruct star, star'; cbn in Es; try discriminate; reflexivity).
      rewrite sel_upd_other. exact H.
  Qed.

  (* the table stops growing one past the limit the code tests against *)
  Lemma from_text_bounded star c text star' :
    (Z.of_nat (List.length (sel star' c)) <= maxc + 1)%Z ->
    (Z.of_nat (List.length (sel star' (snd (from_text create maxc star c text)))) <= maxc + 1)%Z.
  Proof.
    intros H. unfold from_text. destruct (str_assoc text (sel star c)) as [q|] eqn:E; [exact H|].
    destruct (path_cache_full (Z.of_nat (List.length (sel star c))) maxc) eqn:Ef; [exact H|].
    cbn [snd]. destruct (Bool.eqb star' star) eqn:Es.
    - apply Bool.eqb_prop in Es. subst star'.
      assert (Hle : (Z.of_nat (List.length (sel star c)) <= maxc)%Z).
      { unfold path_cache_full in Ef.
        destruct (Z.gtb_spec (Z.of_nat (List.length (sel star c))) maxc); [discriminate|assumption]. }
      rewrite sel_upd_same, app_length, Nat2Z.inj_add. cbn [List.length]. lia.
    - assert (star' = negb star) as -> by (destruct star, star'; cbn in Es; try discriminate; reflexivity).
      rewrite sel_upd_other. exact H.
  Qed.

  Lemma run_pure_eq {A} star : forall (p : prog A) c, Inv c ->
    fst (run create maxc star c p) = run_pure create star p /\ Inv (snd (run create maxc star c p)).
  Proof.
    induction p as [a|text k IH]; intros c HI; cbn [run run_pure].
    - split; [reflexivity|exact HI].
    - pose proof (from_text_pure star c text HI) as Hp. pose proof (from_text_inv star c text HI) as Hi.
      destruct (from_text create maxc star c text) as [v c']. cbn in Hp, Hi. subst v. apply IH. exact Hi.
  Qed.

  (* history independence: in any history started from any cache satisfying the invariant (in particular the empty one of
     a fresh interpreter), every call returns what it returns with no cache at all *)
  Lemma history_independence_lemma {A} : forall (h : list (bool * prog A)) c, Inv c ->
    fst (run_history create maxc c h) = map (fun sp => run_pure create (fst sp) (snd sp)) h /\ Inv (snd (run_history create maxc c h)).
  Proof.
    induction h as [|[star p] r IH]; intros c HI; cbn [run_history map].
    - split; [reflexivity|exact HI].
    - destruct (run_pure_eq star p c HI) as [H1 H2].
      destruct (run create maxc star c p) as [a c']. cbn in H1, H2. subst a.
      destruct (IH c' H2) as [H3 H4]. destruct (run_history create maxc c' r) as [l c'']. cbn in *. subst l.
      split; [reflexivity|exact H4].
  Qed.

  (* hence the position of a call in a history, and what surrounds it, are irrelevant *)
  Lemma call_position_irrelevant_lemma {A} (h1 h2 h1' h2' : list (bool * prog A)) star p :
    nth_error (fst (run_history create maxc empty (h1 ++ (star, p) :: h2))) (List.length h1) =
    nth_error (fst (run_history create maxc empty (h1' ++ (star, p) :: h2'))) (List.length h1').
  Proof.
    destruct (history_independence_lemma (h1 ++ (star, p) :: h2) empty empty_inv) as [-> _].
    destruct (history_independence_lemma (h1' ++ (star, p) :: h2') empty empty_inv) as [-> _].
    rewrite !map_app. cbn [map].
    rewrite !nth_error_app2 by (rewrite map_length; lia). rewrite !map_length, !Nat.sub_diag. reflexivity.
  Qed.
End MemoProofs.
