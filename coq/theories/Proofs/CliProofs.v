(* Proofs/CliProofs.v — C19: the command is a function of the delivered texts; errors map as documented; the default
   spec formats only ever yield a path string or what the literal parser returned *)
From Coq Require Import String Ascii ZArith Bool List.
From Glom Require Import Base.PyVal Model.Exc Model.TEval Model.Interp Model.Cli.
Import ListNotations.
Local Open Scope list_scope.
Local Open Scope string_scope.

(* what the command answers once spec and target are settled *)
Definition evaluate (f : flags) (target : val) (spec : spec) : outcome :=
  match fst (glom_top true [] target spec) with
  | Ok v => render f v
  | Raise e =>
      if is_glom_error e then CGlomError (ecls e)
      else if exc_isa (ecls e) "Exception" then CGlomError ("GlomError.wrap(" ++ ecls e ++ ")")
      else CCrash (ecls e)
  | Unmodelled t => CUnm t
  | OutOfFuel => CUnm "fuel" end.

Definition answer (f : flags) (s : stage spec) (t : stage val) : outcome :=
  match s with
  | Halt o => o
  | Go spec => match t with Halt o => o | Go target => evaluate f target spec end end.

Lemma cli_is_answer w f posargs : List.length posargs <= 2 ->
  cli w f posargs = answer f (get_spec w f posargs) (get_target w f posargs).
Proof.
  intros H. unfold cli. replace (Nat.ltb 2 (List.length posargs)) with false by (symmetry; apply Nat.ltb_ge; exact H).
  unfold answer, evaluate. destruct (get_spec w f posargs); [|reflexivity].
  destruct (get_target w f posargs); reflexivity.
Qed.

(* ----- the target: argument, file, standard input and "-" all deliver the same text to the same loader ----- *)
Definition no_file (o : option string) : Prop := o = None \/ o = Some "".

Lemma is_dash_not s : s <> "-" -> is_dash (Some s) = false.
Proof.
  intros H. destruct s as [|c t]; [reflexivity|]. unfold is_dash.
  destruct c as [[] [] [] [] [] [] [] []]; try reflexivity. destruct t; [congruence|reflexivity].
Qed.

Lemma target_by_argument w f s c t : no_file (f_target_file f) -> String c t <> "-" ->
  get_target w f [s; String c t] = handle_target w (Some (String c t)) (f_target_format f).
Proof.
  intros Hf Hd. unfold get_target. rewrite (is_dash_not _ Hd).
  destruct Hf as [-> | ->]; reflexivity.
Qed.

Lemma target_by_file w f s p c t :
  f_target_file f = Some p -> p <> "" -> p <> "-" -> str_assoc p (w_files w) = Some (String c t) ->
  get_target w f [s] = handle_target w (Some (String c t)) (f_target_format f).
Proof.
  intros Hf Hne Hd Hr. unfold get_target. rewrite Hf, (is_dash_not _ Hd).
  destruct p as [|a p']; [congruence|]. cbn [nonempty andb is_dash orb]. rewrite Hr. reflexivity.
Qed.

Lemma target_by_stdin w f s c t : no_file (f_target_file f) -> w_stdin w = Some (String c t) ->
  get_target w f [s] = handle_target w (Some (String c t)) (f_target_format f).
Proof.
  intros Hf Hs. unfold get_target. cbn [nonempty andb is_dash].
  destruct Hf as [-> | ->]; cbn [is_dash orb negb]; rewrite Hs; reflexivity.
Qed.

Lemma target_by_dash_argument w f s c t : no_file (f_target_file f) -> w_stdin w = Some (String c t) ->
  get_target w f [s; "-"] = handle_target w (Some (String c t)) (f_target_format f).
Proof.
  intros Hf Hs. unfold get_target. cbn [nonempty].
  destruct Hf as [-> | ->]; cbn [andb is_dash orb]; rewrite Hs; reflexivity.
Qed.

Lemma target_by_dash_file w f s c t : f_target_file f = Some "-" -> w_stdin w = Some (String c t) ->
  get_target w f [s] = handle_target w (Some (String c t)) (f_target_format f).
Proof.
  intros Hf Hs. unfold get_target. rewrite Hf. cbn [nonempty andb is_dash orb]. rewrite Hs. reflexivity.
Qed.

(* ----- the spec: argument or file ----- *)
Definition spec_of_text (w : world) (f : flags) (text : string) : stage spec :=
  if String.eqb (f_spec_format f) "python" then
    if negb (literal_start text) then Go (SStr text)
    else match lookup2 "python" text (w_spec_parse w) with
         | Some (PGood s) => Go s | Some (PBad cls) => Halt (CCrash cls) | None => Halt (CUnm "spec-parse") end
  else if String.eqb (f_spec_format f) "json" then
    match lookup2 "json" text (w_spec_parse w) with
    | Some (PGood s) => Go s | Some (PBad cls) => Halt (CCrash cls) | None => Halt (CUnm "spec-parse") end
  else if String.eqb (f_spec_format f) "python-full" then Halt (CUnm "python-full executes the spec text")
  else Halt CUsage.

Lemma spec_by_argument w f c s rest : no_file (f_spec_file f) ->
  get_spec w f (String c s :: rest) = spec_of_text w f (String c s).
Proof.
  intros Hf. unfold get_spec, spec_of_text. cbn [nonempty].
  destruct Hf as [-> | ->]; cbn [andb negb nonempty]; reflexivity.
Qed.

Lemma spec_by_file w f p c s : f_spec_file f = Some p -> p <> "" -> str_assoc p (w_files w) = Some (String c s) ->
  get_spec w f [] = spec_of_text w f (String c s).
Proof.
  intros Hf Hne Hr. unfold get_spec, spec_of_text. rewrite Hf. cbn [nonempty andb].
  destruct p as [|a p']; [congruence|]. rewrite Hr. cbn [negb nonempty]. reflexivity.
Qed.

(* ----- error mapping ----- *)
Lemma glomerror_is_status_1 f target spec e :
  fst (glom_top true [] target spec) = Raise e -> exc_isa (ecls e) "Exception" = true ->
  exists cls, evaluate f target spec = CGlomError cls.
Proof.
  intros H Hex. unfold evaluate. rewrite H. destruct (is_glom_error e); [eauto|]. rewrite Hex. eauto.
Qed.

Lemma bad_target_is_usage_error w fmt c t cls :
  known_format fmt = true -> lookup2 (if String.eqb fmt "yml" then "yaml" else fmt) (String c t) (w_target_parse w) = Some (PBad cls) ->
  handle_target w (Some (String c t)) fmt = Halt CUsage.
Proof. intros Hk Hl. unfold handle_target. cbn [nonempty negb]. rewrite Hk. cbn [negb]. rewrite Hl. reflexivity. Qed.

Lemma unknown_format_is_usage_error w fmt c t : known_format fmt = false -> handle_target w (Some (String c t)) fmt = Halt CUsage.
Proof. intros Hk. unfold handle_target. cbn [nonempty negb]. rewrite Hk. reflexivity. Qed.

Lemma unreadable_target_is_usage_error w f s p : f_target_file f = Some p -> p <> "" -> p <> "-" -> str_assoc p (w_files w) = None ->
  get_target w f [s] = Halt CUsage.
Proof.
  intros Hf Hne Hd Hr. unfold get_target. rewrite Hf, (is_dash_not _ Hd).
  destruct p as [|a p']; [congruence|]. cbn [nonempty andb is_dash orb]. rewrite Hr. reflexivity.
Qed.

(* ----- the default formats never execute: the spec is a path string, Path(), or what the literal parser returned ----- *)
Lemma default_formats_never_execute w f posargs s :
  (f_spec_format f = "python" \/ f_spec_format f = "json") -> get_spec w f posargs = Go s ->
  s = ST RT [] \/ (exists text, s = SStr text) \/ (exists fmt text, lookup2 fmt text (w_spec_parse w) = Some (PGood s)).
Proof.
  intros Hfmt H. unfold get_spec in H.
  destruct (nonempty _ && _); [discriminate|].
  destruct (match f_spec_file f with Some (String c r) => _ | _ => _ end) as [text|o]; [|discriminate].
  destruct (negb (nonempty text)); [inversion H; auto|].
  destruct Hfmt as [Hf | Hf]; rewrite Hf in H; cbn [String.eqb Ascii.eqb Bool.eqb] in H.
  - destruct (negb (literal_start _)); [inversion H; eauto|].
    destruct (lookup2 "python" _ _) as [[s'|cls]|] eqn:El; try discriminate. inversion H; subst. eauto.
  - change (String.eqb "json" "python") with false in H. change (String.eqb "json" "json") with true in H. cbv iota in H.
    destruct (lookup2 "json" _ _) as [[s'|cls]|] eqn:El; try discriminate. inversion H; subst. eauto.
Qed.
