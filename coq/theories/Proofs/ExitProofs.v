(* Proofs/ExitProofs.v — C04: what leaves glom() *)
From Coq Require Import String ZArith Bool List.
From Glom Require Import Base.PyVal Model.Exc Model.Exit.
Import ListNotations.
Local Open Scope string_scope.
Local Open Scope list_scope.

Lemma set_attr_same k v l : str_assoc k (set_attr k v l) = Some v.
Proof.
  induction l as [|[k' v'] r IH]; cbn.
  - rewrite String.eqb_refl. reflexivity.
  - destruct (String.eqb k k') eqn:E; cbn; [rewrite String.eqb_refl; reflexivity|rewrite E; exact IH].
Qed.

Lemma set_attr_other k k' v l : String.eqb k' k = false -> str_assoc k' (set_attr k v l) = str_assoc k' l.
Proof.
  intros Hne. induction l as [|[k2 v2] r IH]; cbn.
  - rewrite Hne. reflexivity.
  - destruct (String.eqb k k2) eqn:E; cbn.
    + apply String.eqb_eq in E. subst k2. rewrite Hne. reflexivity.
    + destruct (String.eqb k' k2); [reflexivity|exact IH].
Qed.

Lemma update_attrs_absent : forall upd base k,
  ~ In k (map fst upd) -> str_assoc k (update_attrs base upd) = str_assoc k base.
Proof.
  induction upd as [|[k1 v1] r IH]; intros base k Hn; [reflexivity|].
  cbn [update_attrs]. rewrite IH by (intros Hc; apply Hn; right; exact Hc).
  apply set_attr_other. destruct (String.eqb k k1) eqn:E; [|reflexivity].
  apply String.eqb_eq in E. subst. exfalso. apply Hn. left. reflexivity.
Qed.

(* __dict__.update: every attribute of the update is present afterwards with the update's value *)
Lemma update_attrs_keeps : forall upd base k v,
  str_assoc k upd = Some v -> NoDup (map fst upd) -> str_assoc k (update_attrs base upd) = Some v.
Proof.
  induction upd as [|[k1 v1] r IH]; intros base k v H Hnd; [discriminate|].
  cbn in H. cbn [update_attrs]. cbn in Hnd. inversion Hnd as [|? ? Hnin Hnd']; subst.
  destruct (String.eqb k k1) eqn:E.
  - inversion H; subst. apply String.eqb_eq in E. subst k1.
    rewrite update_attrs_absent by exact Hnin. apply set_attr_same.
  - apply IH; assumption.
Qed.

Lemma exit_cases o e :
  exit o e = FDefault \/ exit o e = FSame \/
  exists attrs, x_rebuild e = Some attrs /\
    exit o e = FNew (negb (exc_isa (x_cls e) "GlomError")) (x_cls e) (x_args e) (update_attrs attrs (x_attrs e)).
Proof.
  unfold exit.
  destruct (matches_skip o e && _); [auto|].
  destruct (negb (exc_isa (x_cls e) "Exception")); [auto|].
  destruct (o_debug o); [auto|].
  destruct (x_rebuild e) as [attrs|]; [|auto].
  right. right. exists attrs. auto.
Qed.

(* whatever leaves is an instance of every class the original was an instance of, with the same args and attributes *)
Lemma exit_class_preserved_lemma o e c : exc_isa (x_cls e) c = true ->
  match exit o e with FDefault | FValue _ => True | f => final_isa e f c = true end.
Proof.
  intros H. destruct (exit_cases o e) as [-> | [-> | [attrs [_ ->]]]]; cbn [final_isa]; auto.
  rewrite H. reflexivity.
Qed.

Lemma exit_args_attrs_lemma o e w c a at_ :
  exit o e = FNew w c a at_ -> NoDup (map fst (x_attrs e)) ->
  c = x_cls e /\ a = x_args e /\ forall k v, str_assoc k (x_attrs e) = Some v -> str_assoc k at_ = Some v.
Proof.
  intros H Hnd. destruct (exit_cases o e) as [H1 | [H1 | [attrs [_ H1]]]]; rewrite H1 in H; try discriminate.
  inversion H; subst. split; [reflexivity|]. split; [reflexivity|].
  intros k v Hk. apply update_attrs_keeps; assumption.
Qed.

(* recreatable + caught by `except Exception` + not skipped + not debugging => a GlomError leaves *)
Lemma exit_is_glomerror_lemma o e attrs :
  exc_isa (x_cls e) "Exception" = true -> x_rebuild e = Some attrs -> o_debug o = false -> exit o e <> FDefault ->
  exists w a at_, exit o e = FNew w (x_cls e) a at_ /\ final_isa e (exit o e) "GlomError" = true.
Proof.
  intros Hex Hr Hd Hnd. unfold exit in *.
  destruct (matches_skip o e && _); [congruence|].
  rewrite Hex, Hd, Hr. cbn [negb].
  eexists _, _, _. split; [reflexivity|].
  cbn [final_isa]. destruct (exc_isa (x_cls e) "GlomError"); reflexivity.
Qed.

(* a GlomError stays a GlomError on every path *)
Lemma glomerror_stays_lemma o e : exc_isa (x_cls e) "GlomError" = true ->
  match exit o e with FDefault | FValue _ => True | f => final_isa e f "GlomError" = true end.
Proof. intros H. apply exit_class_preserved_lemma. exact H. Qed.

Lemma default_selective_lemma o e :
  exit o e = FDefault <-> (exists d, eff_default o = Some d) /\ existsb (exc_isa (x_cls e)) (eff_skip o) = true.
Proof.
  split.
  - intros H. destruct (exit_cases o e) as [_ | [H1 | [attrs [_ H1]]]]; try (rewrite H1 in H; discriminate).
    unfold exit, matches_skip in H.
    destruct (existsb (exc_isa (x_cls e)) (eff_skip o)) eqn:Hm.
    + destruct (eff_default o) as [d|] eqn:Hd; [split; [exists d; reflexivity|reflexivity]|].
      exfalso. cbn [andb] in H.
      destruct (negb (exc_isa (x_cls e) "Exception")); [discriminate|].
      destruct (o_debug o); [discriminate|]. destruct (x_rebuild e); discriminate.
    + exfalso. cbn [andb] in H.
      destruct (negb (exc_isa (x_cls e) "Exception")); [discriminate|].
      destruct (o_debug o); [discriminate|]. destruct (x_rebuild e); discriminate.
  - intros [[d Hd] Hm]. unfold exit, matches_skip. rewrite Hm, Hd. reflexivity.
Qed.

Lemma debug_propagates_original_lemma o e : o_debug o = true -> exit o e <> FDefault -> exit o e = FSame.
Proof.
  intros Hd Hn. unfold exit in *. destruct (matches_skip o e && _); [congruence|].
  destruct (negb (exc_isa (x_cls e) "Exception")); [reflexivity|]. rewrite Hd. reflexivity.
Qed.

Lemma baseexception_untouched_lemma o e : exc_isa (x_cls e) "Exception" = false -> exit o e <> FDefault -> exit o e = FSame.
Proof.
  intros Hb Hn. unfold exit in *. destruct (matches_skip o e && _); [congruence|]. rewrite Hb. reflexivity.
Qed.

Lemma option_defaults o :
  (o_default o = None -> o_skip o = None -> eff_default o = None /\ eff_skip o = []) /\
  (forall d, o_default o = Some d -> o_skip o = None -> eff_default o = Some d /\ eff_skip o = ["GlomError"]) /\
  (forall l, o_default o = None -> o_skip o = Some l -> eff_default o = Some VNone /\ eff_skip o = l) /\
  (forall d l, o_default o = Some d -> o_skip o = Some l -> eff_default o = Some d /\ eff_skip o = l).
Proof.
  unfold eff_skip, eff_default. repeat split; intros; repeat match goal with H : _ = _ |- _ => rewrite H end; reflexivity.
Qed.

(* every class glom itself raises is a GlomError (about the table regenerated from the class headers) *)
Lemma glom_classes_are_GlomErrors : forallb (fun p => exc_isa (fst p) "GlomError") Generated.ExcTable.glom_exc_bases = true.
Proof. vm_compute. reflexivity. Qed.
