(* Proofs/GroupProofs.v — C16 *)
From Coq Require Import String ZArith Bool List Lia.
From Glom Require Import Base.PyVal Model.TEval Model.Reduce Model.Group Spec.GroupSpec.
Import ListNotations.
Local Open Scope list_scope.

(* a top-level Limit(n, sub) is sub fed with the first n items *)
Lemma limit_law_lemma n v : forall items c sub ret,
  group_loop (GLimit n v) (TLimit c sub) items ret = group_loop v sub (firstn (n - c) items) ret.
Proof.
  induction items as [|x r IH]; intros c sub ret; cbn [group_loop].
  - rewrite firstn_nil. reflexivity.
  - cbn [gstep]. destruct (Nat.ltb_spec n (S c)) as [H|H].
    + replace (n - c) with 0 by lia. reflexivity.
    + replace (n - c) with (S (n - S c)) by lia. cbn [firstn group_loop].
      destruct (gstep v sub x) as [[res sub']| | |]; try reflexivity.
      destruct res; try apply IH. reflexivity.
Qed.

(* the leaf aggregators over a list of ints: Count = len, Sum = sum, Max = max, Min = min *)
Definition ints (zs : list Z) : list val := map VInt zs.

Lemma count_law : forall zs c ret,
  group_loop (GAgg ACount) (TAgg (Some (SVal (VInt c)))) (ints zs) ret
  = Ok (match zs with [] => ret | _ => VInt (c + Z.of_nat (length zs)) end).
Proof.
  induction zs as [|z r IH]; intros c ret; cbn [ints map group_loop gstep agg_step]; [reflexivity|].
  fold (ints r). rewrite IH. destruct r; cbn [length]; f_equal; f_equal; lia.
Qed.

Lemma sum_law : forall zs c ret,
  group_loop (GAgg ASum) (TAgg (Some (SVal (VInt c)))) (ints zs) ret
  = Ok (match zs with [] => ret | _ => VInt (fold_left Z.add zs c) end).
Proof.
  induction zs as [|z r IH]; intros c ret; cbn [ints map group_loop gstep agg_step iadd as_num]; [reflexivity|].
  fold (ints r). rewrite IH. destruct r; reflexivity.
Qed.

Lemma max_law : forall zs c ret,
  group_loop (GAgg AMax) (TAgg (Some (SVal (VInt c)))) (ints zs) ret
  = Ok (match zs with [] => ret | _ => VInt (fold_left Z.max zs c) end).
Proof.
  induction zs as [|z r IH]; intros c ret; cbn [ints map group_loop gstep agg_step py_lt_num as_num]; [reflexivity|].
  fold (ints r). destruct (Z.ltb_spec c z).
  - rewrite IH. destruct r; cbn [fold_left]; replace (Z.max c z) with z by lia; reflexivity.
  - rewrite IH. destruct r; cbn [fold_left]; replace (Z.max c z) with c by lia; reflexivity.
Qed.

(* the first item initialises the aggregate *)
Lemma agg_first_item a z : a = AMax \/ a = AMin \/ a = ASum \/ a = ACount ->
  gstep (GAgg a) (TAgg None) (VInt z) =
  Ok (match a with ACount => VInt 1 | _ => VInt z end, TAgg (Some (SVal (match a with ACount => VInt 1 | _ => VInt z end)))).
Proof. intros [H|[H|[H|H]]]; subst a; reflexivity. Qed.

(* [value function]: the function mapped over the items, SKIP results dropped (no STOP-producing function) *)
Lemma list_leaf_law f : (forall x r, apply_fn1 f x = Ok r -> r <> VStop) -> forall items acc,
  group_loop (GList (GFn f)) (TList acc TFn) items (VList 0 acc) =
  match map_res (apply_fn1 f) items with
  | Ok vs => Ok (VList 0 (acc ++ filter (fun v => match v with VSkip => false | _ => true end) vs))
  | Raise e => Raise e | Unmodelled u => Unmodelled u | OutOfFuel => OutOfFuel end.
Proof.
  intro NS. induction items as [|x r IH]; intro acc; cbn [group_loop map_res gstep].
  - rewrite app_nil_r. reflexivity.
  - destruct (apply_fn1 f x) as [v|e|u|] eqn:E; try reflexivity.
    pose proof (NS x v E) as Hv.
    destruct v; try contradiction;
      try (rewrite IH; destruct (map_res (apply_fn1 f) r) as [vs| | |]; try reflexivity; cbn [filter]; rewrite <- app_assoc; reflexivity).
Qed.

(* ================= the bucketing theorem ================= *)
(* the tree after feeding a list of items, and what "the spec tracks a reference" means *)
Fixpoint tree_after (s : gspec) (t : gtree) (l : list val) : option gtree :=
  match l with
  | [] => Some t
  | x :: r => match gstep s t x with Ok (_, t') => tree_after s t' r | _ => None end end.

Lemma tree_after_app s : forall l1 l2 t, tree_after s t (l1 ++ l2) =
  match tree_after s t l1 with Some t1 => tree_after s t1 l2 | None => None end.
Proof. induction l1 as [|x r IH]; intros l2 t; cbn [app tree_after]; [reflexivity|]. destruct (gstep s t x) as [[v t']| | |]; auto. Qed.

Definition prefix_closed (ok : list val -> Prop) : Prop := forall l x, ok (l ++ [x]) -> ok l.

(* [tracks s ref ok]: on every item list satisfying [ok], after the items l the next item x makes the dispatcher return
   [ref (l ++ [x])] — never SKIP or STOP *)
Definition tracks (s : gspec) (ref : list val -> val) (ok : list val -> Prop) : Prop :=
  forall l x t, ok (l ++ [x]) -> tree_after s (empty_tree s) l = Some t ->
    exists t', gstep s t x = Ok (ref (l ++ [x]), t') /\ ref (l ++ [x]) <> VStop /\ ref (l ++ [x]) <> VSkip.

Lemma tracks_tree_defined s ref ok : tracks s ref ok -> prefix_closed ok ->
  forall l, ok l -> exists t, tree_after s (empty_tree s) l = Some t.
Proof.
  intros T PC. induction l as [|x r IH] using rev_ind; intro Hok; [eexists; reflexivity|].
  destruct (IH (PC _ _ Hok)) as [t Ht]. destruct (T r x t Hok Ht) as [t' [Hg _]].
  rewrite tree_after_app, Ht. cbn [tree_after]. rewrite Hg. eexists; reflexivity.
Qed.

(* Group's loop returns the reference of the whole input (or the initial value on an empty input) *)
Lemma tracks_group_loop s ref ok : tracks s ref ok -> prefix_closed ok ->
  forall l2 l1 t ret, ok (l1 ++ l2) -> tree_after s (empty_tree s) l1 = Some t ->
  group_loop s t l2 ret = Ok (match l2 with [] => ret | _ => ref (l1 ++ l2) end).
Proof.
  intros T PC. induction l2 as [|x r IH]; intros l1 t ret Hok Ht; cbn [group_loop]; [reflexivity|].
  assert (Hok1 : ok (l1 ++ [x])).
  { clear IH. revert Hok. replace (l1 ++ x :: r) with ((l1 ++ [x]) ++ r) by (rewrite <- app_assoc; reflexivity).
    induction r as [|y r' IHr] using rev_ind; [rewrite app_nil_r; auto|]. rewrite app_assoc. intro H. apply IHr. eapply PC; eauto. }
  destruct (T l1 x t Hok1 Ht) as [t' [Hg [N1 N2]]]. rewrite Hg.
  assert (Ht' : tree_after s (empty_tree s) (l1 ++ [x]) = Some t') by (rewrite tree_after_app, Ht; cbn [tree_after]; rewrite Hg; reflexivity).
  replace (l1 ++ x :: r) with ((l1 ++ [x]) ++ r) in * by (rewrite <- app_assoc; reflexivity).
  specialize (IH (l1 ++ [x]) t' (ref (l1 ++ [x])) Hok Ht').
  destruct (ref (l1 ++ [x])) eqn:E; try contradiction; try (rewrite IH; destruct r; [rewrite app_nil_r, ?E|]; reflexivity); congruence.
Qed.

(* ---------- one dict level over a tracked sub-spec ---------- *)
Section DictLevel.
Variable k : keyfn.
Variable v : gspec.
Variable refv : list val -> val.
Variable okv : list val -> Prop.
Hypothesis Tv : tracks v refv okv.
Hypothesis PCv : prefix_closed okv.

(* keys are ints (every catalogue key function yields one on int items) or SKIP *)
Definition key_ok (x : val) : Prop := (exists z, apply_key k x = Ok (VInt z)) \/ apply_key k x = Ok VSkip.

Definition okd (l : list val) : Prop :=
  Forall key_ok l /\ forall key, okv (bucket key (pkeyed k l)).

Lemma pkeyed_app l1 l2 : pkeyed k (l1 ++ l2) = pkeyed k l1 ++ pkeyed k l2.
Proof. unfold pkeyed. apply flat_map_app. Qed.

Lemma bucket_app key a b : bucket key (a ++ b) = bucket key a ++ bucket key b.
Proof. unfold bucket. rewrite filter_app, map_app. reflexivity. Qed.

Lemma int_eqb a b : py_eqb (VInt a) (VInt b) = Z.eqb a b.
Proof. reflexivity. Qed.

(* keys seen so far *)
Definition keys_of (l : list (val * val)) : list val := map fst l.
Definition int_keys (l : list (val * val)) : Prop := Forall (fun kv => exists z, fst kv = VInt z) l.

Lemma first_keys_snoc : forall l seen key x, int_keys l ->
  first_keys (l ++ [(VInt key, x)]) seen =
  first_keys l seen ++ (if mem py_eqb (VInt key) (seen ++ keys_of l) then [] else [VInt key]).
Proof.
  induction l as [|[k0 x0] r IH]; intros seen key x HI; cbn [app first_keys keys_of map].
  - rewrite app_nil_r. destruct (mem py_eqb (VInt key) seen); reflexivity.
  - inversion HI as [|? ? [z0 Hz] Hr]; subst. cbn [fst] in Hz. subst k0.
    destruct (mem py_eqb (VInt z0) seen) eqn:Em.
    + rewrite (IH seen key x Hr). f_equal.
      assert (M : forall a s1 s2, mem py_eqb a (s1 ++ VInt z0 :: s2) = mem py_eqb a (s1 ++ s2) || py_eqb a (VInt z0)).
      { intros a s1 s2. induction s1 as [|b s1 IHs]; cbn [app mem]; [apply orb_comm|]. rewrite IHs. rewrite orb_assoc. reflexivity. }
      rewrite M. fold (keys_of r). destruct (py_eqb (VInt key) (VInt z0)) eqn:E; [|rewrite orb_false_r; reflexivity].
      (* key == z0 which is already in seen *)
      rewrite orb_true_r. rewrite int_eqb in E. apply Z.eqb_eq in E. subst z0.
      assert (M2 : forall s2, mem py_eqb (VInt key) (seen ++ s2) = true).
      { intro s2. clear -Em. induction seen as [|b s IHs]; cbn [mem app] in *; [discriminate|]. destruct (py_eqb (VInt key) b); [reflexivity|]. cbn in Em. apply IHs. exact Em. }
      rewrite M2. reflexivity.
    + cbn [app]. rewrite (IH (VInt z0 :: seen) key x Hr). cbn [app]. f_equal. f_equal.
      assert (M : forall a s1 s2, mem py_eqb a (s1 ++ VInt z0 :: s2) = mem py_eqb a (VInt z0 :: s1 ++ s2)).
      { intros a s1 s2. induction s1 as [|b s1 IHs]; cbn [app mem]; [reflexivity|]. rewrite IHs. cbn [mem]. rewrite !orb_assoc. f_equal. apply orb_comm. }
      fold (keys_of r). rewrite M. reflexivity.
Qed.

Lemma pkeyed_int_keys l : Forall key_ok l -> int_keys (pkeyed k l).
Proof.
  induction l as [|x r IH]; intro H; [constructor|]. inversion H as [|? ? Hx Hr]; subst.
  unfold pkeyed. cbn [flat_map]. fold (pkeyed k r). destruct Hx as [[z Hz]|Hs]; [rewrite Hz|rewrite Hs]; cbn [app]; [constructor; [eexists; reflexivity|]|]; apply IH; exact Hr.
Qed.

Lemma mem_keys_bucket key l : int_keys l -> mem py_eqb (VInt key) (keys_of l) = negb (match bucket (VInt key) l with [] => true | _ => false end).
Proof.
  induction l as [|[k0 x0] r IH]; intro HI; [reflexivity|]. inversion HI as [|? ? [z0 Hz] Hr]; subst. cbn [fst] in Hz. subst k0.
  cbn [keys_of map mem fst]. unfold bucket. cbn [filter fst]. rewrite !int_eqb. rewrite (Z.eqb_sym z0 key).
  destruct (Z.eqb key z0); cbn [map orb negb]; [reflexivity|]. apply IH. exact Hr.
Qed.

Lemma kv_lookup_map_some (f : val -> val) keys key : In key keys -> (forall a, In a keys -> exists z, a = VInt z) ->
  exists r, kv_lookup py_eqb key (map (fun a => (a, f a)) keys) = Some r.
Proof.
  intros Hin HI. induction keys as [|a r IH]; [contradiction|]. cbn [map kv_lookup].
  destruct (py_eqb key a) eqn:E; [eauto|]. destruct Hin as [Ha|Hin].
  - subst a. destruct (HI key (or_introl eq_refl)) as [z Hz]. subst key. rewrite int_eqb, Z.eqb_refl in E. discriminate.
  - apply IH; [exact Hin|intros b Hb; apply HI; right; exact Hb].
Qed.
Lemma kv_lookup_map_none (f : val -> val) keys key : ~ In key keys -> (forall a, In a keys -> exists z, a = VInt z) -> (exists z, key = VInt z) ->
  kv_lookup py_eqb key (map (fun a => (a, f a)) keys) = None.
Proof.
  intros Hn HI [zk ->]. induction keys as [|a r IH]; [reflexivity|]. cbn [map kv_lookup].
  destruct (HI a (or_introl eq_refl)) as [z ->]. rewrite int_eqb.
  destruct (Z.eqb_spec zk z); [subst; exfalso; apply Hn; left; reflexivity|].
  apply IH; [intro H; apply Hn; right; exact H|intros b Hb; apply HI; right; exact Hb].
Qed.

Lemma first_keys_ints l seen : int_keys l -> forall a, In a (first_keys l seen) -> exists z, a = VInt z.
Proof.
  revert seen. induction l as [|[k0 x0] r IH]; intros seen HI a Ha; [contradiction|]. inversion HI as [|? ? [z0 Hz] Hr]; subst. cbn [fst] in Hz. subst k0.
  cbn [first_keys] in Ha. destruct (mem py_eqb (VInt z0) seen); [eapply IH; eauto|]. destruct Ha as [<-|Ha]; [eauto|eapply IH; eauto].
Qed.

Lemma first_keys_in_iff l : int_keys l -> forall key, In (VInt key) (first_keys l []) <-> mem py_eqb (VInt key) (keys_of l) = true.
Proof.
  induction l as [|[k0 x0] l0 IH] using rev_ind; intros HI key; [cbn; split; [contradiction|discriminate]|].
  assert (HI' : int_keys l0) by (apply Forall_app in HI; tauto).
  assert (Hl : exists z0, k0 = VInt z0) by (apply Forall_app in HI; destruct HI as [_ H]; inversion H as [|? ? [z Hz] _]; eauto).
  destruct Hl as [z0 ->]. rewrite (first_keys_snoc l0 [] z0 x0 HI'). cbn [app]. rewrite in_app_iff.
  unfold keys_of. rewrite map_app. cbn [map fst].
  assert (M : forall a s, mem py_eqb a (s ++ [VInt z0]) = mem py_eqb a s || py_eqb a (VInt z0)).
  { intros a s. induction s as [|b s IHs]; cbn [app mem]; [apply orb_false_r|]. rewrite IHs. destruct (py_eqb a b), (mem py_eqb a s), (py_eqb a (VInt z0)); reflexivity. }
  rewrite M. rewrite (IH HI' key). fold (keys_of l0).
  destruct (mem py_eqb (VInt z0) (keys_of l0)) eqn:E0; cbn [In].
  - split; [intros [H|[]]; rewrite H; reflexivity|]. intro H. apply orb_prop in H. destruct H as [H|H]; [left; exact H|].
    rewrite int_eqb in H. apply Z.eqb_eq in H. subst z0. left. exact E0.
  - split.
    + intros [H|[H|[]]]; [rewrite H; reflexivity|]. injection H as <-. rewrite int_eqb, Z.eqb_refl. apply orb_true_r.
    + intro H. apply orb_prop in H. destruct H as [H|H]; [left; exact H|]. right. left. rewrite int_eqb in H. apply Z.eqb_eq in H. congruence.
Qed.
End DictLevel.

Section DictLevel2.
Variable k : keyfn.
Variable v : gspec.
Variable refv : list val -> val.
Variable okv : list val -> Prop.
Hypothesis Tv : tracks v refv okv.

Lemma set1_map_absent (F : val -> val) ks key r :
  (forall a, In a ks -> exists z, a = VInt z) -> (exists z, key = VInt z) -> ~ In key ks ->
  set1 key r (map (fun a => (a, F a)) ks) = map (fun a => (a, F a)) ks ++ [(key, r)].
Proof.
  intros HI [zk ->] Hn. induction ks as [|a t IH]; [reflexivity|]. cbn [map set1 app].
  destruct (HI a (or_introl eq_refl)) as [z ->]. rewrite int_eqb.
  destruct (Z.eqb_spec zk z); [subst; exfalso; apply Hn; left; reflexivity|].
  f_equal. apply IH; [intros b Hb; apply HI; right; exact Hb|intro H; apply Hn; right; exact H].
Qed.

Lemma set1_map_present (F G : val -> val) ks key r :
  (forall a, In a ks -> exists z, a = VInt z) -> (exists z, key = VInt z) -> NoDup ks -> In key ks ->
  G key = r -> (forall a, In a ks -> a <> key -> G a = F a) ->
  set1 key r (map (fun a => (a, F a)) ks) = map (fun a => (a, G a)) ks.
Proof.
  intros HI [zk ->] ND Hin Hk Ho. induction ks as [|a t IH]; [contradiction|]. cbn [map set1].
  destruct (HI a (or_introl eq_refl)) as [z ->]. rewrite int_eqb. inversion ND as [|? ? Hna ND']; subst.
  destruct (Z.eqb_spec zk z).
  - subst z. f_equal.
    (* the rest holds no further occurrence of the key *)
    apply map_ext_in. intros b Hb. f_equal. symmetry. apply Ho; [right; exact Hb|intro E; subst b; contradiction].
  - f_equal; [f_equal; symmetry; apply Ho; [left; reflexivity|congruence]|].
    apply IH; auto; [intros b Hb; apply HI; right; exact Hb|destruct Hin as [H|H]; [congruence|exact H]|intros b Hb; apply Ho; right; exact Hb].
Qed.

Lemma first_keys_nodup : forall l seen, int_keys l ->
  NoDup (first_keys l seen) /\ forall a, In a (first_keys l seen) -> mem py_eqb a seen = false.
Proof.
  induction l as [|[k0 x0] r IH]; intros seen HI; [split; [constructor|intros a []]|].
  inversion HI as [|? ? [z0 Hz] Hr]; subst. cbn [fst] in Hz. subst k0. cbn [first_keys].
  destruct (mem py_eqb (VInt z0) seen) eqn:E; [apply IH; exact Hr|].
  destruct (IH (VInt z0 :: seen) Hr) as [ND Hs]. split.
  - constructor; [|exact ND]. intro H. specialize (Hs _ H). cbn [mem] in Hs. rewrite int_eqb, Z.eqb_refl in Hs. discriminate.
  - intros a [<-|Ha]; [exact E|]. specialize (Hs a Ha). cbn [mem] in Hs. apply orb_false_iff in Hs. tauto.
Qed.

Lemma bucket_snoc_same key x l : bucket (VInt key) (l ++ [(VInt key, x)]) = bucket (VInt key) l ++ [x].
Proof. rewrite bucket_app. unfold bucket at 2. cbn [filter fst]. rewrite int_eqb, Z.eqb_refl. reflexivity. Qed.
Lemma bucket_snoc_other key key' x l : key <> key' -> bucket (VInt key') (l ++ [(VInt key, x)]) = bucket (VInt key') l.
Proof. intro N. rewrite bucket_app. unfold bucket at 2. cbn [filter fst]. rewrite int_eqb.
  destruct (Z.eqb_spec key key'); [contradiction|]. cbn. apply app_nil_r. Qed.

Lemma sub_lookup_set_same key t subs : sub_lookup (VInt key) (sub_set (VInt key) t subs) = Some t.
Proof. induction subs as [|[k0 t0] r IH]; cbn [sub_set sub_lookup]; [rewrite int_eqb, Z.eqb_refl; reflexivity|].
  destruct (py_eqb (VInt key) k0) eqn:E; cbn [sub_lookup]; rewrite E; [reflexivity|exact IH]. Qed.
Lemma sub_lookup_set_other key key' t subs : key <> key' ->
  (forall a t0, In (a, t0) subs -> exists z, a = VInt z) ->
  sub_lookup (VInt key') (sub_set (VInt key) t subs) = sub_lookup (VInt key') subs.
Proof.
  intros N HI. induction subs as [|[k0 t0] r IH]; cbn [sub_set sub_lookup].
  - rewrite int_eqb. destruct (Z.eqb_spec key' key); [congruence|reflexivity].
  - destruct (HI k0 t0 (or_introl eq_refl)) as [z ->]. rewrite int_eqb.
    destruct (Z.eqb_spec key z); cbn [sub_lookup]; rewrite int_eqb.
    + subst z. destruct (Z.eqb_spec key' key); [congruence|reflexivity].
    + destruct (Z.eqb key' z); [reflexivity|]. apply IH. intros a t1 H. eapply HI. right. exact H.
Qed.

(* the level's state after the items l: accumulator = the reference dict, one sub-tree per bucket holding that
   bucket's own state *)
Definition level_state (l : list val) (t : gtree) : Prop :=
  exists subs, t = TDict (dict_ref k refv l) false subs /\
    (forall a t0, In (a, t0) subs -> exists z, a = VInt z) /\
    forall key, In (VInt key) (first_keys (pkeyed k l) []) ->
      exists tk, sub_lookup (VInt key) subs = Some tk /\ tree_after v (empty_tree v) (bucket (VInt key) (pkeyed k l)) = Some tk.

Lemma sub_set_ints key t subs : (forall a t0, In (a, t0) subs -> exists z, a = VInt z) ->
  forall a t0, In (a, t0) (sub_set (VInt key) t subs) -> exists z, a = VInt z.
Proof.
  intro HI. induction subs as [|[k0 t1] r IH]; cbn [sub_set]; intros a t0 H.
  - destruct H as [H|[]]. injection H as <- _. eauto.
  - destruct (py_eqb (VInt key) k0).
    + destruct H as [H|H]; [injection H as <- _; eapply HI; left; reflexivity|eapply HI; right; exact H].
    + destruct H as [H|H]; [injection H as <- _; eapply HI; left; reflexivity|].
      eapply IH; [intros b t2 Hb; eapply HI; right; exact Hb|exact H].
Qed.

Lemma level_step l x t :
  okd k okv (l ++ [x]) -> level_state l t ->
  exists t', gstep (GDict k v) t x = Ok (VDict 0 false (dict_ref k refv (l ++ [x])), t') /\ level_state (l ++ [x]) t'.
Proof.
  intros [Hkeys Hokv] (subs & -> & Hsi & Hsub).
  assert (Hkl : Forall (key_ok k) l) by (apply Forall_app in Hkeys; tauto).
  assert (Hkx : key_ok k x) by (apply Forall_app in Hkeys; destruct Hkeys as [_ H]; inversion H; assumption).
  pose proof (pkeyed_int_keys k l Hkl) as HIk.
  cbn [gstep].
  destruct Hkx as [[z Hz]|Hs].
  - (* an int key *)
    rewrite Hz. cbn [hashable negb].
    assert (Px : pkeyed k (l ++ [x]) = pkeyed k l ++ [(VInt z, x)]).
    { rewrite pkeyed_app. f_equal. unfold pkeyed. cbn [flat_map]. rewrite Hz. reflexivity. }
    pose proof (first_keys_snoc (pkeyed k l) [] z x HIk) as FS. cbn [app] in FS.
    pose proof (mem_keys_bucket z (pkeyed k l) HIk) as MB.
    destruct (first_keys_nodup (pkeyed k l) [] HIk) as [ND _].
    pose proof (first_keys_ints (pkeyed k l) [] HIk) as FI.
    destruct (mem py_eqb (VInt z) (keys_of (pkeyed k l))) eqn:Em.
    + (* the key has been seen: its bucket's own tree takes the item *)
      assert (Hin : In (VInt z) (first_keys (pkeyed k l) [])) by (apply first_keys_in_iff; assumption).
      destruct (Hsub z Hin) as [tk [Hlk Hta]].
      destruct (kv_lookup_map_some (fun key => refv (bucket key (pkeyed k l))) _ (VInt z) Hin FI) as [r0 Hr0].
      change (map (fun a => (a, refv (bucket a (pkeyed k l)))) (first_keys (pkeyed k l) [])) with (dict_ref k refv l) in Hr0.
      rewrite Hr0, Hlk.
      assert (Hok1 : okv (bucket (VInt z) (pkeyed k l) ++ [x])).
      { specialize (Hokv (VInt z)). rewrite Px, bucket_snoc_same in Hokv. exact Hokv. }
      destruct (Tv _ x tk Hok1 Hta) as [t'' [Hg [N1 N2]]]. rewrite Hg.
      remember (refv (bucket (VInt z) (pkeyed k l) ++ [x])) as r eqn:Er.
      assert (DR : dict_ref k refv (l ++ [x]) = set1 (VInt z) r (dict_ref k refv l)).
      { unfold dict_ref at 1. rewrite Px, FS, app_nil_r. symmetry. unfold dict_ref.
        apply set1_map_present; auto; try solve [eauto].
        - rewrite bucket_snoc_same. symmetry. exact Er.
        - intros a Ha Hne. destruct (FI a Ha) as [za ->]. rewrite bucket_snoc_other; [reflexivity|congruence]. }
      assert (LS : level_state (l ++ [x]) (TDict (set1 (VInt z) r (dict_ref k refv l)) false (sub_set (VInt z) t'' subs))).
      { exists (sub_set (VInt z) t'' subs). split; [rewrite DR; reflexivity|]. split; [apply sub_set_ints; exact Hsi|].
        intros key Hkey. rewrite Px in Hkey |- *. rewrite FS, app_nil_r in Hkey.
        destruct (Z.eq_dec z key) as [->|Hne].
        - exists t''. split; [apply sub_lookup_set_same|]. rewrite bucket_snoc_same, tree_after_app, Hta. cbn [tree_after]. rewrite Hg. reflexivity.
        - destruct (Hsub key Hkey) as [tk' [Hlk' Hta']]. exists tk'. split; [rewrite sub_lookup_set_other; auto|].
          rewrite bucket_snoc_other by exact Hne. exact Hta'. }
      rewrite DR. destruct r; try congruence; eexists; (split; [reflexivity|exact LS]).
    + (* a new key: a fresh sub-tree *)
      assert (Hnin : ~ In (VInt z) (first_keys (pkeyed k l) [])) by (intro H; apply first_keys_in_iff in H; [congruence|assumption]).
      pose proof (kv_lookup_map_none (fun key => refv (bucket key (pkeyed k l))) _ (VInt z) Hnin FI ltac:(eauto)) as Hr0.
      cbv beta in Hr0. change (map (fun a => (a, refv (bucket a (pkeyed k l)))) (first_keys (pkeyed k l) [])) with (dict_ref k refv l) in Hr0.
      rewrite Hr0.
      assert (Hb0 : bucket (VInt z) (pkeyed k l) = []).
      { rewrite ?Em in MB. destruct (bucket (VInt z) (pkeyed k l)); [reflexivity|discriminate MB]. }
      assert (Hok1 : okv ([] ++ [x])).
      { specialize (Hokv (VInt z)). rewrite Px, bucket_snoc_same, Hb0 in Hokv. exact Hokv. }
      destruct (Tv [] x (empty_tree v) Hok1 eq_refl) as [t'' [Hg [N1 N2]]]. cbn [app] in Hg, N1, N2.
      rewrite Hg. remember (refv [x]) as r eqn:Er.
      assert (DR : dict_ref k refv (l ++ [x]) = set1 (VInt z) r (dict_ref k refv l)).
      { unfold dict_ref at 1. rewrite Px, FS. symmetry. unfold dict_ref. rewrite set1_map_absent; auto; [|eauto].
        rewrite map_app. cbn [map]. f_equal.
        - apply map_ext_in. intros a Ha. destruct (FI a Ha) as [za ->]. f_equal. f_equal. rewrite bucket_snoc_other; [reflexivity|]. intro E; subst za. contradiction.
        - rewrite bucket_snoc_same, Hb0. cbn [app]. rewrite Er. reflexivity. }
      assert (LS : level_state (l ++ [x]) (TDict (set1 (VInt z) r (dict_ref k refv l)) false (sub_set (VInt z) t'' subs))).
      { exists (sub_set (VInt z) t'' subs). split; [rewrite DR; reflexivity|]. split; [apply sub_set_ints; exact Hsi|].
        intros key Hkey. rewrite Px in Hkey |- *. rewrite FS in Hkey. apply in_app_or in Hkey.
        destruct (Z.eq_dec z key) as [->|Hne].
        - exists t''. split; [apply sub_lookup_set_same|]. rewrite bucket_snoc_same, Hb0. cbn [app tree_after]. rewrite Hg. reflexivity.
        - destruct Hkey as [Hkey|[Hkey|[]]]; [|congruence].
          destruct (Hsub key Hkey) as [tk' [Hlk' Hta']]. exists tk'. split; [rewrite sub_lookup_set_other; auto|].
          rewrite bucket_snoc_other by exact Hne. exact Hta'. }
      rewrite DR. destruct r; try congruence; eexists; (split; [reflexivity|exact LS]).
  - (* SKIP key: the item is dropped at this level *)
    rewrite Hs. assert (Px : pkeyed k (l ++ [x]) = pkeyed k l).
    { rewrite pkeyed_app. unfold pkeyed at 2. cbn [flat_map]. rewrite Hs. apply app_nil_r. }
    assert (DR : dict_ref k refv (l ++ [x]) = dict_ref k refv l) by (unfold dict_ref; rewrite Px; reflexivity).
    rewrite DR. eexists. split; [reflexivity|].
    exists subs. split; [rewrite DR; reflexivity|]. split; [exact Hsi|].
    intros key Hkey. rewrite Px in Hkey |- *. apply Hsub. exact Hkey.
Qed.

Hypothesis PCv : prefix_closed okv.

Lemma okd_prefix_closed : prefix_closed (okd k okv).
Proof.
  intros l' x' [H1 H2]. split; [apply Forall_app in H1; tauto|].
  intro key. specialize (H2 key). rewrite pkeyed_app, bucket_app in H2.
  assert (B : bucket key (pkeyed k [x']) = [] \/ bucket key (pkeyed k [x']) = [x']).
  { unfold pkeyed. cbn [flat_map]. destruct (apply_key k x') as [kx| | |]; try (left; reflexivity).
    destruct kx; try (left; reflexivity); unfold bucket; cbn [app filter fst];
      match goal with |- context [if ?c then _ else _] => destruct c end; cbn [map]; auto. }
  destruct B as [B|B]; rewrite B in H2; [rewrite app_nil_r in H2; exact H2|eapply PCv; exact H2].
Qed.

(* one dict level over a tracked sub-spec tracks the bucketing reference *)
Theorem dict_level_tracks :
  tracks (GDict k v) (fun l => VDict 0 false (dict_ref k refv l)) (okd k okv).
Proof.
  assert (LSall : forall l, okd k okv l ->
            forall t, tree_after (GDict k v) (empty_tree (GDict k v)) l = Some t -> level_state l t).
  { induction l as [|x r IH] using rev_ind; intros Hok t Ht.
    - injection Ht as <-. exists []. split; [reflexivity|]. split; [intros a t0 []|intros key []].
    - rewrite tree_after_app in Ht. destruct (tree_after (GDict k v) (empty_tree (GDict k v)) r) as [t0|] eqn:E0; [|discriminate].
      specialize (IH (okd_prefix_closed _ _ Hok) t0 eq_refl). destruct (level_step r x t0 Hok IH) as [t' [Hg LS]].
      cbn [tree_after] in Ht. rewrite Hg in Ht. injection Ht as <-. exact LS. }
  intros l x t Hok Ht. destruct (level_step l x t Hok (LSall l (okd_prefix_closed _ _ Hok) t Ht)) as [t' [Hg _]].
  exists t'. split; [exact Hg|]. split; discriminate.
Qed.
End DictLevel2.

(* ---------- leaves ---------- *)
Definition fn_ok (f : fn) (l : list val) : Prop := Forall (fun x => exists r, apply_fn1 f x = Ok r /\ r <> VStop) l.

Lemma list_leaf_state f : forall l, fn_ok f l -> forall t,
  tree_after (GList (GFn f)) (TList [] TFn) l = Some t -> t = TList (filter nonskip (map (fval f) l)) TFn.
Proof.
  induction l as [|x r IH] using rev_ind; intros Hok t Ht; [injection Ht as <-; reflexivity|].
  assert (Hr : fn_ok f r) by (apply Forall_app in Hok; tauto).
  assert (Hx : exists v, apply_fn1 f x = Ok v /\ v <> VStop) by (apply Forall_app in Hok; destruct Hok as [_ H]; inversion H; assumption).
  destruct Hx as [v [Hv Nv]].
  rewrite tree_after_app in Ht. destruct (tree_after (GList (GFn f)) (TList [] TFn) r) as [t0|] eqn:E0; [|discriminate].
  rewrite (IH Hr t0 eq_refl) in Ht. cbn [tree_after gstep] in Ht. rewrite Hv in Ht.
  assert (Fv : fval f x = v) by (unfold fval; rewrite Hv; reflexivity).
  rewrite map_app, filter_app. cbn [map filter]. rewrite Fv.
  destruct v; try contradiction; cbn [nonskip] in *; injection Ht as <-; rewrite ?app_nil_r; reflexivity.
Qed.

Lemma list_leaf_tracks f : tracks (GList (GFn f)) (fun l => VList 0 (filter nonskip (map (fval f) l))) (fn_ok f).
Proof.
  intros l x t Hok Ht. cbn [empty_tree] in Ht.
  assert (Hr : fn_ok f l) by (apply Forall_app in Hok; tauto).
  assert (Hx : exists v, apply_fn1 f x = Ok v /\ v <> VStop) by (apply Forall_app in Hok; destruct Hok as [_ H]; inversion H; assumption).
  destruct Hx as [v [Hv Nv]]. rewrite (list_leaf_state f l Hr t Ht). cbn [gstep]. rewrite Hv.
  assert (Fv : fval f x = v) by (unfold fval; rewrite Hv; reflexivity).
  rewrite map_app, filter_app. cbn [map filter]. rewrite Fv.
  destruct v; try contradiction; cbn [nonskip]; eexists; (split; [rewrite ?app_nil_r; reflexivity|split; discriminate]).
Qed.
Lemma fn_ok_prefix f : prefix_closed (fn_ok f).
Proof. intros l x H. apply Forall_app in H. tauto. Qed.

(* Count / Sum / Max over int items *)
Definition all_ints (l : list val) : Prop := Forall (fun x => exists z, x = VInt z) l.
Definition simple_agg (a : agg) : Prop := a = ACount \/ a = ASum \/ a = AMax \/ a = AMin.

Lemma fold_add_snoc l z c : fold_left Z.add (l ++ [z]) c = (fold_left Z.add l c + z)%Z.
Proof. rewrite fold_left_app. reflexivity. Qed.

Lemma agg_state a : simple_agg a -> forall l, all_ints l -> l <> [] -> forall t,
  tree_after (GAgg a) (TAgg None) l = Some t -> t = TAgg (Some (SVal (agg_val a l))).
Proof.
  intros Ha. induction l as [|x r IH] using rev_ind; intros Hok Hne t Ht; [contradiction|].
  assert (Hr : all_ints r) by (apply Forall_app in Hok; tauto).
  assert (Hx : exists z, x = VInt z) by (apply Forall_app in Hok; destruct Hok as [_ H]; inversion H; assumption).
  destruct Hx as [z ->].
  rewrite tree_after_app in Ht. destruct (tree_after (GAgg a) (TAgg None) r) as [t0|] eqn:E0; [|discriminate].
  destruct r as [|y r'].
  - injection E0 as <-. cbn [app tree_after gstep] in Ht.
    destruct Ha as [H0|[H0|[H0|H0]]]; subst a; cbn in Ht; injection Ht as <-; reflexivity.
  - rewrite (IH Hr ltac:(discriminate) t0 eq_refl) in Ht. cbn [tree_after gstep] in Ht.
    assert (Hy : exists zy, y = VInt zy) by (inversion Hr; assumption). destruct Hy as [zy ->].
    destruct Ha as [H0|[H0|[H0|H0]]]; subst a; cbn [agg_step agg_val] in Ht |- *.
    + injection Ht as <-. rewrite !app_length. cbn [length]. do 4 f_equal. lia.
    + cbn [iadd as_num] in Ht. injection Ht as <-. rewrite map_app. cbn [map unint]. rewrite fold_add_snoc. reflexivity.
    + cbn [map unint app] in Ht |- *. rewrite map_app. cbn [map unint]. rewrite fold_left_app. cbn [fold_left].
      cbn [py_lt_num as_num] in Ht. set (m := fold_left Z.max (map unint r') zy) in *.
      destruct (Z.ltb_spec m z); injection Ht as <-; do 4 f_equal; lia.
    + cbn [map unint app] in Ht |- *. rewrite map_app. cbn [map unint]. rewrite fold_left_app. cbn [fold_left].
      cbn [py_lt_num as_num] in Ht. set (m := fold_left Z.min (map unint r') zy) in *.
      destruct (Z.ltb_spec z m); injection Ht as <-; do 4 f_equal; lia.
Qed.

Lemma agg_tracks a : simple_agg a -> tracks (GAgg a) (agg_val a) all_ints.
Proof.
  intros Ha l x t Hok Ht. cbn [empty_tree] in Ht.
  assert (Hr : all_ints l) by (apply Forall_app in Hok; tauto).
  assert (Hx : exists z, x = VInt z) by (apply Forall_app in Hok; destruct Hok as [_ H]; inversion H; assumption).
  destruct Hx as [z ->].
  destruct l as [|y r].
  - injection Ht as <-. cbn [app gstep]. destruct Ha as [H0|[H0|[H0|H0]]]; subst a; cbn; eexists; (split; [reflexivity|split; discriminate]).
  - rewrite (agg_state a Ha (y :: r) Hr ltac:(discriminate) t Ht). cbn [gstep].
    assert (Hy : exists zy, y = VInt zy) by (inversion Hr; assumption). destruct Hy as [zy ->].
    destruct Ha as [H0|[H0|[H0|H0]]]; subst a; cbn [agg_step agg_val].
    + eexists. split; [|split; discriminate]. rewrite !app_length. cbn [length]. do 3 f_equal. lia.
    + cbn [iadd as_num]. eexists. split; [|split; discriminate]. rewrite map_app. cbn [map unint]. rewrite fold_add_snoc. reflexivity.
    + cbn [map unint app py_lt_num as_num]. rewrite map_app. cbn [map unint]. rewrite fold_left_app. cbn [fold_left].
      set (m := fold_left Z.max (map unint r) zy). destruct (Z.ltb_spec m z); eexists; (split; [do 3 f_equal; lia|split; discriminate]).
    + cbn [map unint app py_lt_num as_num]. rewrite map_app. cbn [map unint]. rewrite fold_left_app. cbn [fold_left].
      set (m := fold_left Z.min (map unint r) zy). destruct (Z.ltb_spec z m); eexists; (split; [do 3 f_equal; lia|split; discriminate]).
Qed.
Lemma all_ints_prefix : prefix_closed all_ints.
Proof. intros l x H. apply Forall_app in H. tauto. Qed.

(* ---------- the whole family: any number of single-key dict levels over a leaf ---------- *)
Fixpoint ok_of (b : bspec) : list val -> Prop :=
  match b with
  | BList f => fn_ok f
  | BAgg a => fun l => simple_agg a /\ all_ints l
  | BDict k b' => okd k (ok_of b') end.
Fixpoint wf_b (b : bspec) : Prop :=
  match b with BList _ => True | BAgg a => simple_agg a | BDict _ b' => wf_b b' end.

Lemma ok_of_prefix b : prefix_closed (ok_of b).
Proof.
  induction b as [f|a|k b IH]; cbn [ok_of].
  - apply fn_ok_prefix.
  - intros l x [H1 H2]. split; [exact H1|eapply all_ints_prefix; eauto].
  - apply okd_prefix_closed. exact IH.
Qed.

Theorem family_tracks b : wf_b b -> tracks (to_g b) (ref_of b) (ok_of b).
Proof.
  induction b as [f|a|k b IH]; cbn [wf_b to_g ref_of ok_of]; intro W.
  - apply list_leaf_tracks.
  - intros l x t [_ Hok] Ht. apply (agg_tracks a W l x t Hok Ht).
  - apply dict_level_tracks; [apply IH; exact W|apply ok_of_prefix].
Qed.

(* Group over the whole input: exactly the reference of the hand-written bucketing loop *)
Theorem group_is_bucket_loop_lemma b items :
  wf_b b -> ok_of b items ->
  group_loop (to_g b) (empty_tree (to_g b)) items (group_init (to_g b))
  = Ok (match items with [] => group_init (to_g b) | _ => ref_of b items end).
Proof.
  intros W Hok.
  apply (tracks_group_loop (to_g b) (ref_of b) (ok_of b) (family_tracks b W) (ok_of_prefix b) items [] (empty_tree (to_g b)) _ Hok eq_refl).
Qed.
