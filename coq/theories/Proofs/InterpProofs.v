(* Proofs/InterpProofs.v — the interpreter's result depends on the scope only through the head frame's MODE / MIN_MODE
   and the lookup functions (C03, C07, C08). *)
From Coq Require Import String Ascii ZArith Bool List Lia.
From Glom Require Import Base.PyVal Model.TEval Model.Exc Model.Interp.
Import ListNotations.
Local Open Scope string_scope.
Local Open Scope list_scope.

(* ---------- pointwise equality of computations ---------- *)
Definition eqM {A} (m m' : M A) : Prop := forall st, m st = m' st.
Lemma eqM_refl {A} (m : M A) : eqM m m. Proof. intro; reflexivity. Qed.
Lemma eqM_bind {A B} (m m' : M A) (f f' : A -> M B) :
  eqM m m' -> (forall x, eqM (f x) (f' x)) -> eqM (bindM m f) (bindM m' f').
Proof. intros H1 H2 st. unfold bindM. rewrite (H1 st). destruct (m' st) as [[a| | |] st']; try reflexivity. apply H2. Qed.
Lemma eqM_catch {A} (m m' : M A) c (h h' : exn -> M A) :
  eqM m m' -> (forall e, eqM (h e) (h' e)) -> eqM (catch m c h) (catch m' c h').
Proof. intros H1 H2 st. unfold catch. rewrite (H1 st). destruct (m' st) as [[a|e| |] st']; try reflexivity.
  destruct (c e); [apply H2|reflexivity]. Qed.

(* ---------- scopes that cannot be told apart ---------- *)
Definition sc_equiv (a b : scope) : Prop :=
  a <> [] /\ b <> [] /\ head_mode a = head_mode b /\ head_arg a = head_arg b /\
  (forall k, lookup k a = lookup k b) /\ (forall k, lookup_ref k a = lookup_ref k b).

Lemma sc_equiv_refl a : a <> [] -> sc_equiv a a.
Proof. intro H. repeat split; auto. Qed.
Lemma sc_equiv_cons f a b : sc_equiv a b -> sc_equiv (f :: a) (f :: b).
Proof.
  intros (_ & _ & _ & _ & Hl & Hr). unfold sc_equiv.
  split; [discriminate|]. split; [discriminate|]. split; [reflexivity|]. split; [reflexivity|].
  split; intro k; cbn [lookup lookup_ref]; [rewrite Hl|rewrite Hr]; reflexivity.
Qed.
Lemma sc_equiv_set_head m a b : sc_equiv a b -> sc_equiv (set_head_mode m a) (set_head_mode m b).
Proof.
  intros (Ha & Hb & Hm & Hg & Hl & Hr). destruct a as [|fa ra], b as [|fb rb]; try contradiction.
  cbn [head_arg] in Hg. unfold sc_equiv.
  split; [discriminate|]. split; [discriminate|]. split; [reflexivity|]. split; [cbn; exact Hg|].
  split; intro k; [specialize (Hl k)|specialize (Hr k)]; cbn [set_head_mode lookup lookup_ref set_mode binds frefs] in *; assumption.
Qed.

Definition rec_respects (rec : recfn) : Prop := forall a b t s, sc_equiv a b -> eqM (rec a t s) (rec b t s).

Section Loops.
Variable fixed : bool.
Variable rec : recfn.
Hypothesis R : rec_respects rec.

Ltac step_rec E := let st := fresh "st" in intro st; rewrite (R _ _ _ _ E st).

Lemma arg_val_equiv own a b t x : sc_equiv a b -> eqM (arg_val_i rec own a t x) (arg_val_i rec own b t x).
Proof. intro E. unfold arg_val_i. apply eqM_bind; [apply R; apply sc_equiv_cons; exact E|intros [v f]; apply eqM_refl]. Qed.

Lemma dict_loop_equiv a b t es : sc_equiv a b -> forall acc, eqM (dict_loop rec a t es acc) (dict_loop rec b t es acc).
Proof.
  intro E. induction es as [|[k s] r IH]; intro acc; cbn [dict_loop]; [apply eqM_refl|].
  apply eqM_bind; [apply R; exact E|]. intros [v f].
  destruct v; try apply IH;
    (apply eqM_bind; [destruct k; try apply eqM_refl; (apply eqM_bind; [apply R; exact E|intros [? ?]; apply eqM_refl])
                     |intro key; destruct (hashable key); [apply IH|apply eqM_refl]]).
Qed.

Lemma list_loop_equiv a b sub items : sc_equiv a b -> forall acc, eqM (list_loop rec a sub items acc) (list_loop rec b sub items acc).
Proof.
  intro E. induction items as [|x r IH]; intro acc; cbn [list_loop]; [apply eqM_refl|].
  apply eqM_bind; [apply R; exact E|]. intros [v f]. destruct v; try apply IH; apply eqM_refl.
Qed.

Lemma chain_loop_equiv om ss : forall a b res, sc_equiv a b -> eqM (chain_loop fixed rec om ss a res) (chain_loop fixed rec om ss b res).
Proof.
  induction ss as [|s r IH]; intros a b res E; cbn [chain_loop]; [apply eqM_refl|]. cbv zeta.
  assert (E' : sc_equiv (if fixed then set_head_mode om a else a) (if fixed then set_head_mode om b else b)).
  { destruct fixed; [apply sc_equiv_set_head|]; exact E. }
  apply eqM_bind; [apply R; exact E'|]. intros [v child].
  destruct v; try (apply IH; apply sc_equiv_cons; exact E'); apply eqM_refl.
Qed.

Lemma each_loop_equiv a b t ss : sc_equiv a b -> eqM (each_loop rec a t ss) (each_loop rec b t ss).
Proof.
  intro E. induction ss as [|s r IH]; cbn [each_loop]; [apply eqM_refl|].
  apply eqM_bind; [apply R; exact E|]. intros [v f]. apply eqM_bind; [exact IH|intro; apply eqM_refl].
Qed.

Lemma fill_dict_loop_equiv a b t es : sc_equiv a b -> forall acc, eqM (fill_dict_loop rec a t es acc) (fill_dict_loop rec b t es acc).
Proof.
  intro E. induction es as [|[k s] r IH]; intro acc; cbn [fill_dict_loop]; [apply eqM_refl|].
  apply eqM_bind; [apply R; exact E|]. intros [kv f]. apply eqM_bind; [apply R; exact E|]. intros [v f'].
  destruct (hashable kv); [apply IH|apply eqM_refl].
Qed.

Lemma coalesce_loop_equiv a b t ss skip sx : sc_equiv a b -> eqM (coalesce_loop rec a t ss skip sx) (coalesce_loop rec b t ss skip sx).
Proof.
  intro E. induction ss as [|s r IH]; cbn [coalesce_loop]; [apply eqM_refl|]. step_rec E.
  destruct (rec b t s st) as [[[v f]|e| |] st']; try reflexivity.
  - destruct (skip_fn skip v); [apply IH|reflexivity].
  - destruct (exn_among sx e); [apply IH|reflexivity].
Qed.

Lemma and_loop_equiv a b t ss : sc_equiv a b -> forall res, eqM (and_loop rec a t ss res) (and_loop rec b t ss res).
Proof.
  intro E. induction ss as [|s r IH]; intro res; cbn [and_loop]; [apply eqM_refl|].
  apply eqM_bind; [apply R; exact E|]. intros [v f]. apply IH.
Qed.

Lemma or_loop_equiv a b t ss : sc_equiv a b -> eqM (or_loop rec a t ss) (or_loop rec b t ss).
Proof.
  intro E. induction ss as [|s r IH]; cbn [or_loop]; [apply eqM_refl|].
  destruct r as [|s2 r2].
  - apply eqM_bind; [apply R; exact E|intros [v f]; apply eqM_refl].
  - apply eqM_catch; [apply eqM_bind; [apply R; exact E|intros [v f]; apply eqM_refl]|intro e; exact IH].
Qed.

Lemma switch_loop_equiv own a b t cases : sc_equiv a b -> eqM (switch_loop fixed rec own a t cases) (switch_loop fixed rec own b t cases).
Proof.
  intro E. induction cases as [|[k v] r IH]; cbn [switch_loop]; [apply eqM_refl|].
  pose proof (sc_equiv_cons own _ _ E) as E1. step_rec E1.
  destruct (rec (own :: b) t k st) as [[[x child]|e| |] st']; try reflexivity.
  - cbv zeta.
    assert (E2 : sc_equiv (if fixed then set_head_mode (fmode own) (child :: own :: a) else child :: own :: a)
                          (if fixed then set_head_mode (fmode own) (child :: own :: b) else child :: own :: b)).
    { destruct fixed; [apply sc_equiv_set_head|]; apply sc_equiv_cons; exact E1. }
    apply eqM_bind; [apply R; exact E2|intros [? ?]; apply eqM_refl].
  - destruct (is_glom_error e); [apply IH|reflexivity].
Qed.

Lemma match_alts_equiv a b item alts : sc_equiv a b -> forall last, eqM (match_alts rec a item alts last) (match_alts rec b item alts last).
Proof.
  intro E. induction alts as [|x r IH]; intro last; cbn [match_alts]; [apply eqM_refl|]. step_rec E.
  destruct (rec b item x st) as [[[v f]|e| |] st']; try reflexivity. destruct (is_glom_error e); [apply IH|reflexivity].
Qed.
Lemma match_items_equiv a b items alts : sc_equiv a b -> eqM (match_items rec a items alts) (match_items rec b items alts).
Proof.
  intro E. induction items as [|x r IH]; cbn [match_items]; [apply eqM_refl|].
  apply eqM_bind; [apply match_alts_equiv; exact E|intro v; apply eqM_bind; [exact IH|intro; apply eqM_refl]].
Qed.
Lemma match_tuple_equiv a b : sc_equiv a b -> forall items ss, eqM (match_tuple rec a items ss) (match_tuple rec b items ss).
Proof.
  intro E. induction items as [|x r IH]; intros [|s rs]; cbn [match_tuple]; try apply eqM_refl.
  apply eqM_bind; [apply R; exact E|intros [v f]; apply eqM_bind; [apply IH|intro; apply eqM_refl]].
Qed.

Lemma match_key_loop_equiv own a b key value es : sc_equiv a b ->
  forall i, eqM (match_key_loop fixed rec own a key value es i) (match_key_loop fixed rec own b key value es i).
Proof.
  intro E. induction es as [|[k vs] r IH]; intro i; cbn [match_key_loop]; [apply eqM_refl|].
  pose proof (sc_equiv_cons own _ _ E) as E1. step_rec E1.
  destruct (rec (own :: b) key (spec_key k) st) as [[[x child]|e| |] st']; try reflexivity.
  - cbv zeta.
    assert (E2 : sc_equiv (if fixed then set_head_mode (fmode own) (child :: own :: a) else child :: own :: a)
                          (if fixed then set_head_mode (fmode own) (child :: own :: b) else child :: own :: b)).
    { destruct fixed; [apply sc_equiv_set_head|]; apply sc_equiv_cons; exact E1. }
    apply eqM_bind; [apply R; exact E2|intros [? ?]; apply eqM_refl].
  - destruct (is_glom_error e); [apply IH|reflexivity].
Qed.

Lemma match_dict_items_equiv own a b es : sc_equiv a b -> forall items result hit,
  eqM (match_dict_items fixed rec own a items es result hit) (match_dict_items fixed rec own b items es result hit).
Proof.
  intro E. induction items as [|[k v] r IH]; intros result hit; cbn [match_dict_items]; [apply eqM_refl|].
  apply eqM_bind; [apply match_key_loop_equiv; exact E|]. intros [[[i k'] v']|]; [|apply eqM_refl].
  destruct (hashable k'); [apply IH|apply eqM_refl].
Qed.

Lemma bind_loop_equiv own a b t bs : sc_equiv a b -> eqM (bind_loop rec own a t bs) (bind_loop rec own b t bs).
Proof.
  intro E. induction bs as [|[k x] r IH]; cbn [bind_loop]; [apply eqM_refl|].
  apply eqM_bind; [apply arg_val_equiv; exact E|intro v; apply eqM_bind; [exact IH|intro; apply eqM_refl]].
Qed.
Lemma let_loop_equiv a b t bs : sc_equiv a b -> eqM (let_loop rec a t bs) (let_loop rec b t bs).
Proof.
  intro E. induction bs as [|[k x] r IH]; cbn [let_loop]; [apply eqM_refl|].
  apply eqM_bind; [apply R; exact E|intros [v f]; apply eqM_bind; [exact IH|intro; apply eqM_refl]].
Qed.
Lemma kw_loop_equiv a b t kw : sc_equiv a b -> eqM (kw_loop rec a t kw) (kw_loop rec b t kw).
Proof.
  intro E. induction kw as [|[k x] r IH]; cbn [kw_loop]; [apply eqM_refl|].
  apply eqM_bind; [apply R; exact E|intros [v f]; apply eqM_bind; [exact IH|intro; apply eqM_refl]].
Qed.
Lemma invoke_loop_equiv a b t parts : sc_equiv a b -> forall accA accK,
  eqM (invoke_loop rec a t parts accA accK) (invoke_loop rec b t parts accA accK).
Proof.
  intro E. induction parts as [|[[tag ss] kw] r IH]; intros accA accK; cbn [invoke_loop]; [apply eqM_refl|].
  destruct tag as [|[|tag]].
  - apply IH.
  - apply eqM_bind; [apply each_loop_equiv; exact E|intro xs].
    apply eqM_bind; [apply kw_loop_equiv; exact E|intro ks; apply IH].
  - apply eqM_bind.
    + destruct ss as [|x0 ?]; [apply eqM_refl|]. apply eqM_bind; [apply R; exact E|intros [v f]; apply eqM_refl].
    + intro xs. apply eqM_bind; [|intro ks; apply IH].
      destruct kw as [|[k0 x0] ?]; [apply eqM_refl|]. apply eqM_bind; [apply R; exact E|intros [v f]; apply eqM_refl].
Qed.
Lemma optional_defaults_equiv own a b t es : sc_equiv a b -> forall res,
  eqM (optional_defaults rec own a t es res) (optional_defaults rec own b t es res).
Proof.
  intro E. induction es as [|[k v] r IH]; intro res; cbn [optional_defaults]; [apply eqM_refl|].
  destruct k; try apply IH. destruct default as [d|]; [|apply IH].
  destruct (kv_lookup py_eqb key res); [apply IH|]. apply eqM_bind; [apply arg_val_equiv; exact E|intro; apply IH].
Qed.

Lemma t_ops_equiv own a b target ops : sc_equiv a b -> forall k cur, eqM (t_ops rec own a target ops k cur) (t_ops rec own b target ops k cur).
Proof.
  intro E. induction ops as [|[code x] r IH]; intros k cur; cbn [t_ops]; [apply eqM_refl|].
  apply eqM_bind; [apply arg_val_equiv; exact E|]. intro av.
  destruct (code =? "."); [apply eqM_bind; [apply eqM_refl|intro; apply IH]|].
  destruct (code =? "["); [apply eqM_bind; [apply eqM_refl|intro; apply IH]|].
  destruct (code =? "P"); [apply eqM_bind; [apply eqM_refl|intro; apply IH]|].
  destruct (code =? "("); [|apply eqM_refl].
  destruct av; try apply eqM_refl. apply eqM_bind; [apply eqM_refl|intro; apply IH].
Qed.

Lemma t_ops_scope_equiv own a b target ops k cur : sc_equiv a b ->
  eqM (t_ops_scope rec own a target ops k cur) (t_ops_scope rec own b target ops k cur).
Proof.
  intro E. unfold t_ops_scope. destruct (vars_ref cur) as [i|]; [|apply t_ops_equiv; exact E].
  destruct ops as [|[code x] r]; [apply eqM_refl|]. destruct x; try apply eqM_refl.
  destruct ((code =? ".") || (code =? "P")); [|apply eqM_refl].
  intro st. destruct (vars_get i s st) as [[v| | |] st']; try reflexivity. apply t_ops_equiv. exact E.
Qed.

Lemma s_first_equiv own a b name : sc_equiv a b -> eqM (s_first own a name) (s_first own b name).
Proof.
  intros (_ & _ & _ & _ & Hl & _). unfold s_first. destruct (name =? "globals"); [apply eqM_refl|].
  cbn [lookup]. rewrite Hl. apply eqM_refl.
Qed.
End Loops.

(* ---------- one level of the interpreter respects scope equivalence ---------- *)
Lemma glom_body_respects fixed rec : rec_respects rec -> rec_respects (glom_body fixed rec).
Proof.
  intros R a b t s E. pose proof E as (Ha & Hb & Hm & Hg & Hl & Hr).
  unfold glom_body. rewrite <- Hm, <- Hg.
  set (own0 := mkFrame [] (head_mode a) (head_arg a) []).
  assert (C : forall f, sc_equiv (f :: a) (f :: b)) by (intro f; apply sc_equiv_cons; exact E).
  assert (AV : forall own x y, eqM (arg_val_i rec own a x y) (arg_val_i rec own b x y)) by (intros; apply arg_val_equiv; auto).
  assert (WD : forall (own : frame) (d : option spec) (m m' : M (val * frame)), eqM m m' ->
            eqM (catch m is_glom_error (fun e => match d with Some d0 => let! v := arg_val_i rec own a t d0 in ret (v, own) | None => fail e end))
                (catch m' is_glom_error (fun e => match d with Some d0 => let! v := arg_val_i rec own b t d0 in ret (v, own) | None => fail e end))).
  { intros own d m m' Hmm. apply eqM_catch; [exact Hmm|]. intro e. destruct d; [|apply eqM_refl].
    apply eqM_bind; [apply AV|intro; apply eqM_refl]. }
  destruct s.
  all: try apply eqM_refl.
  - (* SStr *) destruct (farg own0); [apply eqM_refl|]. destruct (fmode own0); try apply eqM_refl.
    destruct (existsb _ _); [apply eqM_refl|]. apply eqM_bind; [apply t_ops_equiv; auto|intro; apply eqM_refl].
  - (* ST *) destruct r; try apply eqM_refl.
    + apply eqM_bind; [apply t_ops_equiv; auto|intro; apply eqM_refl].
    + destruct ops as [|[code x] r]; [apply eqM_refl|]. destruct x; try apply eqM_refl.
      destruct ((code =? ".") || (code =? "P") || (code =? "[")); [|apply eqM_refl].
      apply eqM_bind; [apply s_first_equiv; auto|]. intro first.
      apply eqM_bind; [apply t_ops_scope_equiv; auto|intro; apply eqM_refl].
    + destruct ops as [|[c1 x1] [|[c2 x2] [|? ?]]]; try apply eqM_refl.
      destruct x1; try apply eqM_refl. destruct x2; try apply eqM_refl.
      destruct ((c1 =? ".") || (c1 =? "P")); cbn [andb]; [|apply eqM_refl].
      destruct ((c2 =? ".") || (c2 =? "P")); [|apply eqM_refl].
      apply eqM_bind; [apply s_first_equiv; auto|intro first; apply eqM_refl].
  - (* SBind *) apply eqM_bind; [apply bind_loop_equiv; auto|intro; apply eqM_refl].
  - (* SDict *) destruct (farg own0).
    + destruct od; [apply eqM_refl|]. apply eqM_bind; [apply fill_dict_loop_equiv; auto|intro; apply eqM_refl].
    + destruct (fmode own0); try apply eqM_refl.
      * apply eqM_bind; [apply dict_loop_equiv; auto|intro; apply eqM_refl].
      * destruct od; [apply eqM_refl|]. apply eqM_bind; [apply fill_dict_loop_equiv; auto|intro; apply eqM_refl].
      * destruct t; try apply eqM_refl.
        apply eqM_bind; [apply match_dict_items_equiv; auto|]. intros [result hit].
        apply eqM_bind; [apply optional_defaults_equiv; auto|intro; apply eqM_refl].
  - (* SList *) destruct (farg own0).
    + apply eqM_bind; [apply each_loop_equiv; auto|intro; apply eqM_refl].
    + destruct (fmode own0); try apply eqM_refl.
      * destruct ss as [|sub [|? ?]]; try apply eqM_refl.
        apply eqM_bind; [apply eqM_refl|]. intro items. apply eqM_bind; [apply list_loop_equiv; auto|intro; apply eqM_refl].
      * apply eqM_bind; [apply each_loop_equiv; auto|intro; apply eqM_refl].
      * destruct t; try apply eqM_refl. apply eqM_bind; [apply match_items_equiv; auto|intro; apply eqM_refl].
  - (* STuple *) destruct (farg own0).
    + apply eqM_bind; [apply each_loop_equiv; auto|intro; apply eqM_refl].
    + destruct (fmode own0); try apply eqM_refl.
      * apply eqM_bind; [apply chain_loop_equiv; auto|intro; apply eqM_refl].
      * apply eqM_bind; [apply each_loop_equiv; auto|intro; apply eqM_refl].
      * destruct t; try apply eqM_refl. destruct (Nat.eqb _ _); [|apply eqM_refl].
        apply eqM_bind; [apply match_tuple_equiv; auto|intro; apply eqM_refl].
  - (* SSetLit *) destruct (farg own0).
    + apply eqM_bind; [apply each_loop_equiv; auto|intro; apply eqM_refl].
    + destruct (fmode own0); try apply eqM_refl.
      * apply eqM_bind; [apply each_loop_equiv; auto|intro; apply eqM_refl].
      * destruct t; try apply eqM_refl. destruct (_ || _); [|apply eqM_refl].
        apply eqM_bind; [apply match_items_equiv; auto|intro; apply eqM_refl].
  - (* SSpec *) apply eqM_bind; [apply R; auto|intros [? ?]; apply eqM_refl].
  - (* SPipe *) apply eqM_bind; [apply chain_loop_equiv; auto|intro; apply eqM_refl].
  - (* SCoalesce *) apply eqM_bind; [apply coalesce_loop_equiv; auto|]. intros [v|]; [apply eqM_refl|].
    destruct default; [apply eqM_bind; [apply AV|intro; apply eqM_refl]|apply eqM_refl].
  - (* SCall *) apply eqM_bind; [apply AV|]. intro fv. apply eqM_bind; [apply AV|intro av].
    apply eqM_bind; [|intro; apply eqM_refl]. destruct kw; [apply eqM_refl|]. apply eqM_bind; [apply AV|intro; apply eqM_refl].
  - (* SInvoke *) apply eqM_bind.
    + destruct s; try apply eqM_refl; (apply eqM_bind; [apply R; auto|intros [? ?]; apply eqM_refl]).
    + intro fv. apply eqM_bind; [apply invoke_loop_equiv; auto|intros [? ?]; apply eqM_refl].
  - (* SRef *) destruct sub.
    + apply eqM_bind; [apply R; auto|intros [? ?]; apply eqM_refl].
    + cbn [lookup_ref]. rewrite Hr. destruct (match str_assoc name (frefs (set_arg false own0)) with Some v => Some v | None => lookup_ref name b end);
        [apply eqM_bind; [apply R; auto|intros [? ?]; apply eqM_refl]|apply eqM_refl].
  - (* SFill *) apply eqM_bind; [apply R; auto|intros [? ?]; apply eqM_refl].
  - (* SAuto *) apply eqM_bind; [apply R; auto|intros [? ?]; apply eqM_refl].
  - (* SMatch *) apply WD. apply eqM_bind; [apply R; auto|intros [? ?]; apply eqM_refl].
  - (* SLet *) apply eqM_bind; [apply let_loop_equiv; auto|intro; apply eqM_refl].
  - (* SAnd *) apply WD. apply eqM_bind; [apply and_loop_equiv; auto|intro; apply eqM_refl].
  - (* SOr *) apply WD. apply eqM_bind; [apply or_loop_equiv; auto|intro; apply eqM_refl].
  - (* SNot *) intro st. rewrite (R _ _ t s (C (set_arg false own0)) st). reflexivity.
  - (* SMSub *) apply eqM_bind; [apply R; auto|intros [? ?]; apply eqM_refl].
  - (* SMExpr *)
    assert (S1 : forall x, eqM (match x with SM => ret t | SLit v => ret v | SStr k => ret (VStr k)
                                       | SMSub s' => let! (v, _) := rec (set_arg false own0 :: a) t s' in ret v | _ => unmodelled "m-side" end)
                               (match x with SM => ret t | SLit v => ret v | SStr k => ret (VStr k)
                                       | SMSub s' => let! (v, _) := rec (set_arg false own0 :: b) t s' in ret v | _ => unmodelled "m-side" end)).
    { intro x. destruct x; try apply eqM_refl. apply eqM_bind; [apply R; auto|intros [? ?]; apply eqM_refl]. }
    apply eqM_bind; [apply S1|]. intro l. apply eqM_bind; [apply S1|intro; apply eqM_refl].
  - (* SSwitch *) apply eqM_bind; [apply switch_loop_equiv; auto|]. intros [v|]; [apply eqM_refl|].
    destruct default; [apply eqM_bind; [apply AV|intro; apply eqM_refl]|apply eqM_refl].
  - (* SCheck *) apply eqM_bind.
    + destruct s; [apply eqM_bind; [apply R; auto|intros [? ?]; apply eqM_refl]|apply eqM_refl].
    + intro tv.
      assert (D : forall k : M (val * frame),
                eqM (match default with Some d => let! v := arg_val_i rec (set_arg false own0) a tv d in ret (v, set_arg false own0) | None => k end)
                    (match default with Some d => let! v := arg_val_i rec (set_arg false own0) b tv d in ret (v, set_arg false own0) | None => k end)).
      { intro k. destruct default; [apply eqM_bind; [apply AV|intro; apply eqM_refl]|apply eqM_refl]. }
      destruct (_ && _); [apply D|]. destruct (_ && _); [apply D|].
      apply eqM_bind; [apply eqM_refl|]. intros [[|]|]; [apply D| |];
        (destruct (_ && _); [apply D|apply eqM_refl]).
Qed.

Theorem glom_respects_scope fixed : forall fuel, rec_respects (glom_ fixed fuel).
Proof.
  induction fuel as [|fuel IH]; [intros a b t s E st; reflexivity|].
  intros a b t s E. cbn [glom_]. apply glom_body_respects; assumption.
Qed.

(* ---------- the final own frame of an evaluation ---------- *)
Definition returns_frame (m : M (val * frame)) (P : frame -> Prop) : Prop :=
  forall st v child st', m st = (Ok (v, child), st') -> P child.

Lemma rf_ret v f (P : frame -> Prop) : P f -> returns_frame (ret (v, f)) P.
Proof. intros H st v' c st' E. unfold ret in E. injection E as _ <- _. exact H. Qed.
Lemma rf_bind {A} (m : M A) k P : (forall x, returns_frame (k x) P) -> returns_frame (bindM m k) P.
Proof. intros H st v c st' E. unfold bindM in E. destruct (m st) as [[x| | |] st1]; try discriminate. eapply H; eauto. Qed.
Lemma rf_catch m c h P : returns_frame m P -> (forall e, returns_frame (h e) P) -> returns_frame (catch m c h) P.
Proof.
  intros H1 H2 st v ch st' E. unfold catch in E. destruct (m st) as [[x|e| |] st1] eqn:Em; try discriminate.
  - injection E as -> ->. eapply H1; eauto.
  - destruct (c e); [eapply H2; eauto|discriminate].
Qed.
Lemma rf_fail e P : returns_frame (fail e) P. Proof. intros st v c st' E. discriminate. Qed.
Lemma rf_unmodelled u P : returns_frame (unmodelled u) P. Proof. intros st v c st' E. discriminate. Qed.
Lemma rf_type_err P : returns_frame type_err P. Proof. apply rf_fail. Qed.

Definition is_binder (s : spec) : bool :=
  match s with
  | SBind _ | SAssignScope false _ | SLet _ | SRegex _ | SRef _ (Some _) => true
  | SSpec _ (_ :: _) => true
  | _ => false end.

Definition plain_frame (sc : scope) (s : spec) (f : frame) : Prop :=
  (farg f = false \/ farg f = head_arg sc) /\ (is_binder s = false -> binds f = [] /\ frefs f = []).

Ltac rf :=
  repeat first
    [ apply rf_ret | apply rf_fail | apply rf_unmodelled | apply rf_type_err
    | solve [let E := fresh "E" in intros ? ? ? ? E; discriminate E]
    | apply rf_bind; intros | apply rf_catch; intros
    | match goal with
      | |- returns_frame (match ?x with _ => _ end) _ => destruct x
      | |- returns_frame (if ?x then _ else _) _ => destruct x
      | |- returns_frame (let '(_, _) := ?x in _) _ => destruct x
      end ].

Lemma fold_add_bind_shape vs : forall f,
  farg (fold_left (fun f kv => add_bind (fst kv) (snd kv) f) vs f) = farg f /\
  frefs (fold_left (fun f kv => add_bind (fst kv) (snd kv) f) vs f) = frefs f.
Proof. induction vs as [|kv r IH]; intro f; cbn [fold_left]; [split; reflexivity|]. destruct (IH (add_bind (fst kv) (snd kv) f)) as [H1 H2]. rewrite H1, H2. split; reflexivity. Qed.

Lemma glom_body_frame fixed rec sc t s : returns_frame (glom_body fixed rec sc t s) (plain_frame sc s).
Proof.
  unfold glom_body. set (own0 := mkFrame [] (head_mode sc) (head_arg sc) []).
  assert (P0 : forall s', plain_frame sc s' own0) by (intro; split; [right; reflexivity|intro; split; reflexivity]).
  assert (P1 : forall s', plain_frame sc s' (set_arg false own0)) by (intro; split; [left; reflexivity|intro; split; reflexivity]).
  assert (P2 : forall s' m, plain_frame sc s' (set_mode m (set_arg false own0))) by (intros; split; [left; reflexivity|intro; split; reflexivity]).
  assert (PB : forall s' vs, is_binder s' = true ->
             plain_frame sc s' (fold_left (fun f kv => add_bind (fst kv) (snd kv) f) vs (set_arg false own0))).
  { intros s' vs Hb. split; [left; rewrite (proj1 (fold_add_bind_shape vs _)); reflexivity|intro H; congruence]. }
  destruct s.
  all: try solve [rf; auto].
  all: try solve [rf; first [apply PB; reflexivity | split; [left; reflexivity|intro Hb; discriminate Hb]]].
  - (* SAssignScope *) destruct globals.
    + rf. apply P1.
    + rf. split; [left; reflexivity|intro Hb; discriminate Hb].
  - (* SFn *) destruct (farg own0); [rf; auto|]. destruct (fmode own0); try solve [rf; auto].
    intros st v c st' E. destruct (call_logged (VFun f) [t] st) as [[x|e| |] st1]; try discriminate.
    destruct (truthy x); [injection E as _ <- _; apply P0|discriminate].
  - (* SSpec *) rf. destruct sc0 as [|kv r]; [apply P1|apply PB; reflexivity].
  - (* SRef *) destruct sub.
    + rf. split; [left; reflexivity|intro Hb; discriminate Hb].
    + destruct (lookup_ref name (set_arg false own0 :: sc)); [rf; apply P1|].
      intros st v c st' E. discriminate.
  - (* SVars *) intros st v c st' E. injection E as _ <- _. apply P1.
  - (* SNot *) intros st v c st' E. destruct (rec (set_arg false own0 :: sc) t s st) as [[x|e| |] st1]; try discriminate.
    destruct (is_glom_error e); [injection E as _ <- _; apply P1|discriminate].
Qed.

(* ---------- C03: glom(t, (a, b)) = glom(glom(t, a), b), with SKIP omitting a step and STOP ending the chain ---------- *)
Lemma set_mode_same f : set_mode (fmode f) f = f.
Proof. destruct f; reflexivity. Qed.

Definition keep_if_signal (prev w : val) : val := match w with VSkip | VStop => prev | _ => w end.

Lemma eqM_bind_dep {A B} (m : M A) (f f' : A -> M B) :
  (forall st x st', m st = (Ok x, st') -> f x st' = f' x st') -> eqM (bindM m f) (bindM m f').
Proof. intros H st. unfold bindM. destruct (m st) as [[x| | |] st'] eqn:E; try reflexivity. eapply H; eauto. Qed.

Theorem tuple_compose_lemma fuel own sc t a b :
  is_binder a = false -> farg own = false ->
  eqM (chain_loop true (glom_ true (S fuel)) (fmode own) [a; b] (own :: sc) t)
      (let! (v, _) := glom_ true (S fuel) (own :: sc) t a in
       match v with
       | VStop => ret t
       | VSkip => let! (w, _) := glom_ true (S fuel) (own :: sc) t b in ret (keep_if_signal t w)
       | _ => let! (w, _) := glom_ true (S fuel) (own :: sc) v b in ret (keep_if_signal v w) end).
Proof.
  intros NB Ha. cbn [chain_loop]. cbv zeta. cbn [set_head_mode]. rewrite set_mode_same.
  apply eqM_bind_dep. intros st [v child] st1 Ea.
  pose proof (glom_body_frame true (glom_ true fuel) (own :: sc) t a st v child st1 Ea) as [Hf Hb].
  destruct (Hb NB) as [Hb1 Hb2]. cbn [head_arg] in Hf.
  assert (Hfa : farg child = false) by (destruct Hf as [H|H]; [exact H|rewrite H; exact Ha]).
  assert (E : sc_equiv (set_mode (fmode own) child :: own :: sc) (own :: sc)).
  { unfold sc_equiv. split; [discriminate|]. split; [discriminate|]. split; [reflexivity|].
    split; [cbn; rewrite Hfa, Ha; reflexivity|].
    split; intro k; cbn [lookup lookup_ref set_mode binds frefs]; [rewrite Hb1|rewrite Hb2]; reflexivity. }
  assert (Step : forall x, chain_loop true (glom_ true (S fuel)) (fmode own) [b] (child :: own :: sc) x st1
                        = (let! (w, _) := glom_ true (S fuel) (own :: sc) x b in ret (keep_if_signal x w)) st1).
  { intro x. cbn [chain_loop]. cbv zeta. cbn [set_head_mode]. unfold bindM.
    rewrite (glom_respects_scope true (S fuel) _ _ x b E st1).
    destruct (glom_ true (S fuel) (own :: sc) x b st1) as [[[w c2]| | |] st2]; try reflexivity.
    destruct w; reflexivity. }
  destruct v; try apply Step. reflexivity.
Qed.

(* ---------- C03: the dict and list laws ---------- *)
Fixpoint dict_build (ks : list string) (vs : list val) (acc : list (val * val)) : list (val * val) :=
  match ks, vs with
  | k :: ks, v :: vs => dict_build ks vs (match v with VSkip => acc | _ => kv_set (VStr k) v acc end)
  | _, _ => acc end.

(* a dict spec with string keys: evaluate every value spec once, left to right, on the same target under the same scope;
   the result has the keys of the spec in the spec's order, SKIP results dropped *)
Lemma dict_spec_law rec sc t : forall ks ss acc, length ks = length ss ->
  eqM (dict_loop rec sc t (combine (map SStr ks) ss) acc)
      (let! vs := each_loop rec sc t ss in ret (dict_build ks vs acc)).
Proof.
  induction ks as [|k ks IH]; intros [|s ss] acc Hl; try discriminate; [intro st; reflexivity|].
  injection Hl as Hl. cbn [map combine dict_loop each_loop]. intro st. unfold bindM, ret.
  destruct (rec sc t s st) as [[[v f]| | |] st1]; try reflexivity.
  destruct v; cbn [lit_of_key hashable]; cbv beta iota zeta;
    match goal with |- dict_loop _ _ _ _ ?acc' _ = _ => pose proof (IH ss acc' Hl st1) as I; unfold bindM, ret in I; rewrite I end;
    destruct (each_loop rec sc t ss st1) as [[vs| | |] st2]; reflexivity.
Qed.

Fixpoint list_ref (rec : recfn) (sc : scope) (sub : spec) (items : list val) : M (list val) :=
  match items with
  | [] => ret []
  | x :: r =>
      let! (v, _) := rec sc x sub in
      match v with
      | VSkip => list_ref rec sc sub r
      | VStop => ret []
      | _ => let! vs := list_ref rec sc sub r in ret (v :: vs) end
  end.

(* a list spec: the sub-spec mapped over the items in order, SKIP results dropped, STOP ends the iteration
   (later items are not evaluated) *)
Lemma list_spec_law rec sc sub : forall items acc,
  eqM (list_loop rec sc sub items acc) (let! vs := list_ref rec sc sub items in ret (rev acc ++ vs)).
Proof.
  induction items as [|x r IH]; intros acc st; cbn [list_loop list_ref]; unfold bindM, ret.
  - rewrite app_nil_r. reflexivity.
  - destruct (rec sc x sub st) as [[[v f]| | |] st1]; try reflexivity.
    assert (I : forall acc', list_loop rec sc sub r acc' st1 =
              match list_ref rec sc sub r st1 with
              | (Ok vs, st2) => (Ok (rev acc' ++ vs), st2)
              | (Raise e, st2) => (Raise e, st2) | (Unmodelled u, st2) => (Unmodelled u, st2) | (OutOfFuel, st2) => (OutOfFuel, st2) end).
    { intro acc'. pose proof (IH acc' st1) as I. unfold bindM, ret in I. exact I. }
    destruct v; try (rewrite I; destruct (list_ref rec sc sub r st1) as [[vs| | |] st2]; try reflexivity;
                     cbn [rev]; rewrite <- app_assoc; reflexivity).
    rewrite app_nil_r. reflexivity.
Qed.

(* ---------- C03: Coalesce — the first alternative that neither raises a skipped exception nor yields a skipped value
   wins; the alternatives after it are not evaluated (the state, hence the call log, is the one right after it) ---------- *)
Inductive all_skipped (rec : recfn) (sc : scope) (t : val) (skip : option val) (sx : list string)
  : list spec -> state -> state -> Prop :=
| as_nil st : all_skipped rec sc t skip sx [] st st
| as_value s r st st1 st2 v f : rec sc t s st = (Ok (v, f), st1) -> skip_fn skip v = true ->
    all_skipped rec sc t skip sx r st1 st2 -> all_skipped rec sc t skip sx (s :: r) st st2
| as_exc s r st st1 st2 e : rec sc t s st = (Raise e, st1) -> exn_among sx e = true ->
    all_skipped rec sc t skip sx r st1 st2 -> all_skipped rec sc t skip sx (s :: r) st st2.

Lemma coalesce_first_success_lemma rec sc t skip sx pre s post st st1 st2 v f :
  all_skipped rec sc t skip sx pre st st1 ->
  rec sc t s st1 = (Ok (v, f), st2) -> skip_fn skip v = false ->
  coalesce_loop rec sc t (pre ++ s :: post) skip sx st = (Ok (Some v), st2).
Proof.
  intros H Hs Hk. induction H as [st|s0 r st sta stb v0 f0 H0 Hsk Hr IH|s0 r st sta stb e H0 Hex Hr IH]; cbn [app coalesce_loop].
  - rewrite Hs, Hk. reflexivity.
  - rewrite H0, Hsk. apply IH. exact Hs.
  - rewrite H0, Hex. apply IH. exact Hs.
Qed.

Lemma coalesce_all_skipped_lemma rec sc t skip sx ss st st1 :
  all_skipped rec sc t skip sx ss st st1 -> coalesce_loop rec sc t ss skip sx st = (Ok None, st1).
Proof.
  induction 1 as [st|s0 r st sta stb v0 f0 H0 Hsk Hr IH|s0 r st sta stb e H0 Hex Hr IH]; cbn [coalesce_loop]; [reflexivity| |].
  - rewrite H0, Hsk. exact IH.
  - rewrite H0, Hex. exact IH.
Qed.

(* ---------- C07: bindings chain forward; readers see the innermost binding; nothing else ---------- *)
Definition not_signal (v : val) : Prop := match v with VSkip | VStop => False | _ => True end.

Lemma chain_step (fixed : bool) (rec : recfn) (om : mode) (s : spec) (r : list spec) (cur : scope) (res : val) (st : state) (v : val) (child : frame) (st' : state) :
  rec (if fixed then set_head_mode om cur else cur) res s st = (Ok (v, child), st') -> not_signal v ->
  chain_loop fixed rec om (s :: r) cur res st = chain_loop fixed rec om r (child :: (if fixed then set_head_mode om cur else cur)) v st'.
Proof. intros H N. cbn [chain_loop]. cbv zeta. unfold bindM. rewrite H. destruct v; try reflexivity; contradiction. Qed.

Lemma str_assoc_set_same {B} k (v : B) l : str_assoc k (str_set k v l) = Some v.
Proof. induction l as [|[k' v'] r IH]; cbn; [rewrite String.eqb_refl; reflexivity|].
  destruct (String.eqb k k') eqn:E; cbn; rewrite E; [reflexivity|exact IH]. Qed.

(* S(k=Val v): the value is bound in the step's own frame, the target passes through *)
Lemma eval_bind_val fixed fuel sc t k v st :
  glom_ fixed (S (S fuel)) sc t (SBind [(k, SVal v)]) st
  = (Ok (t, add_bind k v (mkFrame [] (head_mode sc) false [])), st).
Proof. reflexivity. Qed.

Lemma t_ops_scope_nil rec own sc t k cur : t_ops_scope rec own sc t [] k cur = ret cur.
Proof. unfold t_ops_scope. destruct (vars_ref cur); reflexivity. Qed.

(* S.k reads the nearest binding of k on the scope chain, or fails with PathAccessError(KeyError, 0) *)
Lemma eval_read fixed fuel sc t k st : k <> "globals" ->
  glom_ fixed (S fuel) sc t (ST RS [(".", SStr k)]) st
  = match lookup k sc with
    | Some v => (Ok (v, mkFrame [] (head_mode sc) false []), st)
    | None => (Raise (pae "KeyError" 0), st) end.
Proof.
  intro Hk. apply String.eqb_neq in Hk. cbn [glom_]. unfold glom_body. cbn [String.eqb Ascii.eqb Bool.eqb orb].
  unfold s_first. rewrite Hk. cbn [lookup binds set_arg str_assoc]. unfold bindM.
  destruct (lookup k sc) as [v|]; [|reflexivity]. cbn. rewrite t_ops_scope_nil. reflexivity.
Qed.

Lemma lookup_head k v f sc : str_assoc k (binds f) = Some v -> lookup k (f :: sc) = Some v.
Proof. intro H. cbn [lookup]. rewrite H. reflexivity. Qed.
Lemma lookup_skip k f sc : str_assoc k (binds f) = None -> lookup k (f :: sc) = lookup k sc.
Proof. intro H. cbn [lookup]. rewrite H. reflexivity. Qed.

(* (S(k=Val v), S.k) yields v: a binding is visible to the later steps of the same chain *)
Theorem binding_chains_forward_lemma fuel own sc t k v st :
  k <> "globals" -> not_signal t -> not_signal v ->
  chain_loop true (glom_ true (S (S fuel))) (fmode own) [SBind [(k, SVal v)]; ST RS [(".", SStr k)]] (own :: sc) t st = (Ok v, st).
Proof.
  intros Hk Nt Nv. cbn [chain_loop]. cbv zeta. cbn [set_head_mode]. unfold bindM at 1. rewrite eval_bind_val.
  assert (E2 : forall c0 rest, binds c0 = [(k, v)] ->
            glom_ true (S (S fuel)) (c0 :: rest) t (ST RS [(".", SStr k)]) st
            = (Ok (v, mkFrame [] (fmode c0) false []), st)).
  { intros c0 rest Hb. rewrite eval_read by exact Hk. erewrite lookup_head; [reflexivity|]. rewrite Hb. cbn. rewrite String.eqb_refl. reflexivity. }
  destruct t; try contradiction; unfold bindM; rewrite E2 by reflexivity; destruct v; try contradiction; reflexivity.
Qed.

(* ---------- C08 ---------- *)
Lemma each_loop_length rec sc t : forall ss st vs st', each_loop rec sc t ss st = (Ok vs, st') -> length vs = length ss.
Proof.
  induction ss as [|s r IH]; intros st vs st' H; cbn [each_loop] in H.
  - injection H as <- _. reflexivity.
  - unfold bindM in H. destruct (rec sc t s st) as [[[v f]| | |] st1]; try discriminate.
    destruct (each_loop rec sc t r st1) as [[ws| | |] st2] eqn:E; try discriminate.
    injection H as <- _. cbn [length]. f_equal. eapply IH; eauto.
Qed.

(* Fill / argument mode rebuild a list literal with the same length, a tuple literal as a tuple *)
Lemma fill_list_shape fixed rec sc t ss st v f st' :
  head_arg sc = false -> head_mode sc = FILL ->
  glom_body fixed rec sc t (SList ss) st = (Ok (v, f), st') -> exists vs, v = VList 0 vs /\ length vs = length ss.
Proof.
  intros Ha Hm H. unfold glom_body in H. rewrite Ha, Hm in H. cbn [farg fmode] in H. unfold bindM in H.
  destruct (each_loop rec _ t ss st) as [[vs| | |] st1] eqn:E; try discriminate.
  injection H as <- _ _. exists vs. split; [reflexivity|eapply each_loop_length; eauto].
Qed.
Lemma fill_tuple_shape fixed rec sc t ss st v f st' :
  head_arg sc = false -> head_mode sc = FILL ->
  glom_body fixed rec sc t (STuple ss) st = (Ok (v, f), st') -> exists vs, v = VTuple 0 vs /\ length vs = length ss.
Proof.
  intros Ha Hm H. unfold glom_body in H. rewrite Ha, Hm in H. cbn [farg fmode] in H. unfold bindM in H.
  destruct (each_loop rec _ t ss st) as [[vs| | |] st1] eqn:E; try discriminate.
  injection H as <- _ _. exists vs. split; [reflexivity|eapply each_loop_length; eauto].
Qed.
Lemma arg_list_shape fixed rec sc t ss st v f st' :
  head_arg sc = true ->
  glom_body fixed rec sc t (SList ss) st = (Ok (v, f), st') -> exists vs, v = VList 0 vs /\ length vs = length ss.
Proof.
  intros Ha H. unfold glom_body in H. rewrite Ha in H. cbn [farg] in H. unfold bindM in H.
  destruct (each_loop rec _ t ss st) as [[vs| | |] st1] eqn:E; try discriminate.
  injection H as <- _ _. exists vs. split; [reflexivity|eapply each_loop_length; eauto].
Qed.

(* strings are literals in Fill mode and in argument position; callables are literals in argument position only *)
Lemma fill_string_literal fixed rec sc t k st : head_arg sc = false -> head_mode sc = FILL ->
  fst (glom_body fixed rec sc t (SStr k) st) = Ok (VStr k, mkFrame [] FILL false []).
Proof. intros Ha Hm. unfold glom_body. rewrite Ha, Hm. reflexivity. Qed.
Lemma arg_string_literal fixed rec sc t k st : head_arg sc = true ->
  fst (glom_body fixed rec sc t (SStr k) st) = Ok (VStr k, mkFrame [] (head_mode sc) true []).
Proof. intros Ha. unfold glom_body. rewrite Ha. reflexivity. Qed.
Lemma arg_callable_literal fixed rec sc t g st : head_arg sc = true ->
  fst (glom_body fixed rec sc t (SFn g) st) = Ok (VFun g, mkFrame [] (head_mode sc) true []).
Proof. intros Ha. unfold glom_body. rewrite Ha. reflexivity. Qed.

(* the mode set by a wrapper is the mode its sub-spec is evaluated in, and is inherited by children (own0) *)
Lemma wrapper_sets_mode fixed rec sc t s :
  glom_body fixed rec sc t (SFill s)
  = (let own' := mkFrame [] FILL false [] in let! (v, _) := rec (own' :: sc) t s in ret (v, own')).
Proof. reflexivity. Qed.
