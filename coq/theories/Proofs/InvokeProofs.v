(* Proofs/InvokeProofs.v — Invoke combines its parts as documented (C03): positional parts are spliced in the order given, each
   spec evaluated once, left to right; a keyword name given again by a later constants() / specs() call is evaluated only there. *)
From Coq Require Import String ZArith Bool List Lia.
From Glom Require Import Base.PyVal Model.TEval Model.Interp Proofs.InterpProofs.
Import ListNotations.
Local Open Scope string_scope.
Local Open Scope list_scope.

Section Invoke.
Variable rec : recfn.

Definition ipart := (nat * list spec * list (string * spec))%type.

(* monad laws used below *)
Lemma bind_assoc {A B C} (m : M A) (f : A -> M B) (g : B -> M C) :
  eqM (bindM (bindM m f) g) (bindM m (fun a => bindM (f a) g)).
Proof. intro st. unfold bindM. destruct (m st) as [[a|e|u|] st1]; reflexivity. Qed.
Lemma bind_ret_l {A B} (a : A) (f : A -> M B) : eqM (bindM (ret a) f) (f a).
Proof. intro st. reflexivity. Qed.

Lemma each_loop_app sc t : forall ss1 ss2,
  eqM (each_loop rec sc t (ss1 ++ ss2))
      (let! xs := each_loop rec sc t ss1 in let! ys := each_loop rec sc t ss2 in ret (xs ++ ys)).
Proof.
  induction ss1 as [|s r IH]; intros ss2 st; cbn [each_loop app].
  - unfold bindM, ret. destruct (each_loop rec sc t ss2 st) as [[ys|e|u|] st1]; reflexivity.
  - specialize (IH ss2). unfold eqM, bindM, ret in *.
    destruct (rec sc t s st) as [[[v f]|e|u|] st1]; try reflexivity.
    rewrite IH.
    destruct (each_loop rec sc t r st1) as [[xs|e|u|] st2]; try reflexivity.
    destruct (each_loop rec sc t ss2 st2) as [[ys|e|u|] st3]; reflexivity.
Qed.

(* only specs() parts without keywords: ONE left-to-right evaluation of all the positional specs, spliced in order *)
Lemma invoke_positional_lemma sc t : forall sss accA accK,
  eqM (invoke_loop rec sc t (map (fun ss => (1, ss, [])) sss) accA accK)
      (let! xs := each_loop rec sc t (concat sss) in ret (accA ++ xs, accK)).
Proof.
  induction sss as [|ss r IH]; intros accA accK st; cbn [map invoke_loop concat].
  - cbn [each_loop]. unfold bindM, ret. rewrite app_nil_r. reflexivity.
  - unfold live_kw, kw_update. cbn [filter kw_loop fold_left].
    pose proof (each_loop_app sc t ss (concat r) st) as Happ.
    unfold eqM, bindM, ret in *. rewrite Happ.
    destruct (each_loop rec sc t ss st) as [[xs|e|u|] st1]; try reflexivity.
    cbn [fold_left]. rewrite (IH (accA ++ xs) accK st1).
    destruct (each_loop rec sc t (concat r) st1) as [[ys|e|u|] st2]; try reflexivity.
    rewrite app_assoc. reflexivity.
Qed.

(* ---------- a keyword name given again by a later constants() / specs() call is evaluated only there ---------- *)
Definition names_of (p : ipart) : list string := match p with (tag, _, kw) => if Nat.ltb tag 2 then map fst kw else [] end.
Lemma later_names_app a b : later_names (a ++ b) = later_names a ++ later_names b.
Proof. unfold later_names. apply flat_map_app. Qed.

Definition same_names (l1 l2 : list string) : Prop := forall k, existsb (String.eqb k) l1 = existsb (String.eqb k) l2.

Lemma live_kw_same {B} l1 l2 (kw : list (string * B)) : same_names l1 l2 -> live_kw l1 kw = live_kw l2 kw.
Proof. intro H. unfold live_kw. apply filter_ext. intro kv. rewrite (H (fst kv)). reflexivity. Qed.

Lemma existsb_map_fst_filter {B} (k : string) (later : list string) (kw : list (string * B)) :
  existsb (String.eqb k) (map fst kw) || existsb (String.eqb k) later
  = existsb (String.eqb k) (map fst (live_kw later kw)) || existsb (String.eqb k) later.
Proof.
  induction kw as [|[k' v] r IH]; [reflexivity|]. unfold live_kw in *. cbn [map existsb filter fst].
  destruct (existsb (String.eqb k') later) eqn:El; cbn [negb].
  - destruct (String.eqb k k') eqn:Ek.
    + apply String.eqb_eq in Ek. subst k'. rewrite El. cbn [orb]. rewrite !orb_true_r. reflexivity.
    + cbn [orb]. exact IH.
  - cbn [map existsb fst]. destruct (String.eqb k k'); [reflexivity|]. cbn [orb]. exact IH.
Qed.

Lemma same_names_supersede pre tag ss kw r : tag < 2 ->
  same_names (later_names (pre ++ (tag, ss, kw) :: r)) (later_names (pre ++ (tag, ss, live_kw (later_names r) kw) :: r)).
Proof.
  intros Ht k. rewrite !later_names_app, !existsb_app. f_equal.
  change (later_names ((tag, ss, kw) :: r)) with ((if Nat.ltb tag 2 then map fst kw else []) ++ later_names r).
  change (later_names ((tag, ss, live_kw (later_names r) kw) :: r))
    with ((if Nat.ltb tag 2 then map fst (live_kw (later_names r) kw) else []) ++ later_names r).
  apply Nat.ltb_lt in Ht. rewrite Ht. rewrite !existsb_app. apply existsb_map_fst_filter.
Qed.

Lemma live_kw_idem {B} later (kw : list (string * B)) : live_kw later (live_kw later kw) = live_kw later kw.
Proof.
  unfold live_kw. induction kw as [|kv r IH]; [reflexivity|]. cbn [filter].
  destruct (negb (existsb (String.eqb (fst kv)) later)) eqn:E; [cbn [filter]; rewrite E, IH; reflexivity|exact IH].
Qed.

Lemma invoke_superseded_lemma sc t : forall pre tag ss kw r accA accK, tag < 2 ->
  eqM (invoke_loop rec sc t (pre ++ (tag, ss, kw) :: r) accA accK)
      (invoke_loop rec sc t (pre ++ (tag, ss, live_kw (later_names r) kw) :: r) accA accK).
Proof.
  induction pre as [|[[ptag pss] pkw] pre IH]; intros tag ss kw r accA accK Ht st.
  - cbn [app]. destruct tag as [|[|tag]]; [| |lia]; cbn [invoke_loop]; rewrite live_kw_idem; reflexivity.
  - cbn [app invoke_loop].
    pose proof (same_names_supersede pre tag ss kw r Ht) as Hs.
    destruct ptag as [|[|ptag]].
    + rewrite (live_kw_same _ _ pkw Hs). apply IH. exact Ht.
    + rewrite (live_kw_same _ _ pkw Hs). unfold bindM.
      destruct (each_loop rec sc t pss st) as [[xs|e|u|] st1]; try reflexivity.
      destruct (kw_loop rec sc t _ st1) as [[ks|e|u|] st2]; try reflexivity.
      apply IH. exact Ht.
    + unfold bindM.
      destruct ((match pss with [] => ret [] | a :: _ => _ end) st) as [[xs|e|u|] st1]; try reflexivity.
      destruct ((match pkw with [] => ret [] | (_, a) :: _ => _ end) st1) as [[ks|e|u|] st2]; try reflexivity.
      apply IH. exact Ht.
Qed.

(* ---------- star parts: the kwargs / args spec is evaluated whenever it is given (whatever the spec object looks like to
   Python's truth test) and contributes exactly the mapping / sequence it evaluates to, spliced in where the part stands ---------- *)
Lemma invoke_star_kwargs_lemma sc t : forall tag name a r accA accK st i od kvs f st1 l,
  2 <= tag -> rec sc t a st = (Ok (VDict i od kvs, f), st1) -> kw_of_dict kvs = Some l ->
  invoke_loop rec sc t ((tag, [], [(name, a)]) :: r) accA accK st = invoke_loop rec sc t r accA (kw_update accK l) st1.
Proof.
  intros tag name a r accA accK st i od kvs f st1 l Htag Hrec Hkw.
  destruct tag as [|[|tag]]; try lia. cbn [invoke_loop]. unfold bindM, ret. rewrite Hrec, Hkw, app_nil_r. reflexivity.
Qed.
Lemma invoke_star_args_lemma sc t : forall tag a r accA accK st i xs f st1,
  2 <= tag -> rec sc t a st = (Ok (VList i xs, f), st1) ->
  invoke_loop rec sc t ((tag, [a], []) :: r) accA accK st = invoke_loop rec sc t r (accA ++ xs) accK st1.
Proof.
  intros tag a r accA accK st i xs f st1 Htag Hrec.
  destruct tag as [|[|tag]]; try lia. cbn [invoke_loop]. unfold bindM, ret. rewrite Hrec. reflexivity.
Qed.

End Invoke.
