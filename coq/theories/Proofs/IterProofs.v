(* Proofs/IterProofs.v — C17: the depth-first push machine equals the composition of its stages in chaining order;
   laziness (the result is decided by the pulled prefix alone); the stages as list functions; the builders' frame. *)
From Coq Require Import String ZArith Bool List Lia.
From Glom Require Import Base.PyVal Model.TEval Model.Reduce Model.Iter Spec.IterSpec.
Import ListNotations.
Local Open Scope list_scope.

Definition obs (p : pres) : list val * status := (fst (fst p), snd (fst p)).

Lemma push_list_app p : forall a b ss,
  push_list p ss (a ++ b) =
  let '(f1, e1, ss1) := push_list p ss a in
  match e1 with
  | Cont => let '(f2, e2, ss2) := push_list p ss1 b in (f1 ++ f2, e2, ss2)
  | _ => (f1, e1, ss1) end.
Proof.
  induction a as [|x a IH]; intros b ss; cbn [push_list app].
  - destruct (push_list p ss b) as [[f2 e2] ss2]. reflexivity.
  - destruct (p ss x) as [[f1 e1] ss1]. destruct e1; try reflexivity.
    rewrite IH. destruct (push_list p ss1 a) as [[fa ea] ssa]. destruct ea; try reflexivity.
    destruct (push_list p ssa b) as [[fb eb] ssb]. rewrite app_assoc. reflexivity.
Qed.

Lemma flush_not_cont : forall stages sts, snd (fst (flush stages sts)) <> Cont.
Proof.
  induction stages as [|st rest IH]; intros sts.
  - destruct sts; cbn; discriminate.
  - destruct sts as [|s ss]; [cbn; discriminate|].
    cbn [flush].
    destruct (push_list (push rest) ss (flush1 st s)) as [[f1 e1] ss1].
    destruct e1; cbn; try discriminate.
    specialize (IH ss1). destruct (flush rest ss1) as [[f2 e2] ss2]. exact IH.
Qed.

(* ---------- the decomposition: the first stage run alone, its outputs pushed through the rest ---------- *)
Definition decomp (st : stage) (rest : list stage) (s : sstate) (ss : list sstate) (xs : list val) : pres :=
  let '(o, e, s') := stage_run st s xs in
  let '(f, e1, ss1) := push_list (push rest) ss o in
  match e1 with
  | Cont => match e with
            | Cont => (f, Cont, s' :: ss1)
            | Stop => let '(f2, e2, ss2) := flush rest ss1 in (f ++ f2, e2, s' :: ss2)
            | _ => (f, e, s' :: ss1) end
  | _ => (f, e1, s' :: ss1) end.

Definition agree (a b : pres) : Prop := obs a = obs b /\ (snd (fst a) = Cont -> a = b).

Definition prepend (f1 : list val) (p : pres) : pres := let '(f2, e2, ss2) := p in (f1 ++ f2, e2, ss2).

Lemma agree_prepend f1 a b : agree a b -> agree (prepend f1 a) (prepend f1 b).
Proof.
  destruct a as [[fa ea] sa], b as [[fb eb] sb]. unfold agree, obs, prepend. cbn.
  intros [H1 H2]. inversion H1; subst. split; [reflexivity|].
  intros Hc. specialize (H2 Hc). inversion H2; subst. reflexivity.
Qed.

Lemma agree_refl a : agree a a.
Proof. split; auto. Qed.

Lemma push_list_decomp st rest : forall xs s ss,
  agree (push_list (push (st :: rest)) (s :: ss) xs) (decomp st rest s ss xs).
Proof.
  induction xs as [|x r IH]; intros s ss.
  - unfold decomp. cbn. apply agree_refl.
  - cbn [push_list]. unfold decomp. cbn [stage_run push].
    destruct (feed st s x) as [[o1 e0] s1] eqn:Hf.
    destruct (push_list (push rest) ss o1) as [[f1 e1] ss1] eqn:Hp.
    destruct e0.
    + (* the stage goes on *)
      destruct (stage_run st s1 r) as [[o2 e'] s2] eqn:Hr.
      rewrite push_list_app, Hp.
      destruct e1.
      * specialize (IH s1 ss1). unfold decomp in IH. rewrite Hr in IH.
        apply (agree_prepend f1) in IH.
        replace (let '(f2, e2, ss2) := push_list (push (st :: rest)) (s1 :: ss1) r in (f1 ++ f2, e2, ss2))
          with (prepend f1 (push_list (push (st :: rest)) (s1 :: ss1) r)) by reflexivity.
        match goal with |- agree _ ?R => replace R with
          (prepend f1 (let '(f, e1, ss2) := push_list (push rest) ss1 o2 in
                       match e1 with
                       | Cont => match e' with
                                 | Cont => (f, Cont, s2 :: ss2)
                                 | Stop => let '(f2, e2, ss3) := flush rest ss2 in (f ++ f2, e2, s2 :: ss3)
                                 | _ => (f, e', s2 :: ss2) end
                       | _ => (f, e1, s2 :: ss2) end)) end.
        { exact IH. }
        destruct (push_list (push rest) ss1 o2) as [[f2 e2] ss2].
        destruct e2; cbn; try reflexivity.
        destruct e'; cbn; try reflexivity.
        destruct (flush rest ss2) as [[f3 e3] ss3]. cbn. rewrite app_assoc. reflexivity.
      * split; [reflexivity | cbn; discriminate].
      * split; [reflexivity | cbn; discriminate].
      * split; [reflexivity | cbn; discriminate].
    + (* the stage stops *)
      cbv beta iota zeta. rewrite Hp.
      destruct e1; try apply agree_refl.
      pose proof (flush_not_cont rest ss1) as Hn.
      destruct (flush rest ss1) as [[f2 e2] ss2]. cbn in Hn.
      destruct e2; try apply agree_refl. congruence.
    + cbv beta iota zeta. rewrite Hp. destruct e1; apply agree_refl.
    + cbv beta iota zeta. rewrite Hp. destruct e1; apply agree_refl.
Qed.

(* what a drained machine reports, as a function of the push result *)
Definition finish (stages : list stage) (p : pres) (ein : status) : stream :=
  let '(f, e, ss) := p in
  match e with
  | Cont => match ein with
            | Stop => let '(f2, e2, _) := flush stages ss in (f ++ f2, e2)
            | other => (f, other) end
  | _ => (f, e) end.

Lemma finish_agree stages a b ein : agree a b -> finish stages a ein = finish stages b ein.
Proof.
  destruct a as [[fa ea] sa], b as [[fb eb] sb]. unfold agree, obs. cbn. intros [H1 H2].
  inversion H1; subst. destruct eb; try reflexivity.
  specialize (H2 eq_refl). inversion H2; subst. reflexivity.
Qed.

Lemma machine_finish stages sts xs ein : machine stages sts (xs, ein) = finish stages (push_list (push stages) sts xs) ein.
Proof. reflexivity. Qed.

Lemma push_list_nil : forall xs ss, obs (push_list (push []) ss xs) = (xs, Cont).
Proof.
  induction xs as [|x r IH]; intros ss; [reflexivity|].
  cbn [push_list]. change (push [] ss x) with ([x], Cont, @nil sstate). cbv beta iota zeta.
  specialize (IH []). destruct (push_list (push []) [] r) as [[f e] s2].
  unfold obs in *. cbn [fst snd] in *. inversion IH; subst. reflexivity.
Qed.

Theorem machine_is_den : forall stages sts inp,
  List.length sts = List.length stages -> machine stages sts inp = den stages sts inp.
Proof.
  induction stages as [|st rest IH]; intros sts [xs ein] Hl.
  - destruct sts; [|discriminate]. cbn [den]. rewrite machine_finish.
    pose proof (push_list_nil xs []) as H. destruct (push_list (push []) [] xs) as [[f e] ss].
    unfold obs in H. cbn in H. inversion H; subst. cbn.
    destruct ein; try reflexivity. rewrite app_nil_r. reflexivity.
  - destruct sts as [|s ss]; [discriminate|]. cbn in Hl. injection Hl as Hl.
    cbn [den]. rewrite <- (IH ss _ Hl).
    rewrite machine_finish, (finish_agree _ _ _ _ (push_list_decomp st rest xs s ss)).
    unfold decomp, stage_den.
    destruct (stage_run st s xs) as [[o e] s'].
    destruct e.
    + (* the stage consumed everything *)
      destruct (push_list (push rest) ss o) as [[f e1] ss1] eqn:Hp.
      destruct ein.
      * rewrite machine_finish, Hp. destruct e1; reflexivity.
      * rewrite machine_finish, push_list_app, Hp.
        destruct e1; try reflexivity.
        cbn [finish flush].
        destruct (push_list (push rest) ss1 (flush1 st s')) as [[f1 e1'] ss1'].
        destruct e1'; try reflexivity.
        cbn. destruct (flush rest ss1') as [[f2 e2] ss2]. rewrite app_assoc. reflexivity.
      * rewrite machine_finish, Hp. destruct e1; reflexivity.
      * rewrite machine_finish, Hp. destruct e1; reflexivity.
    + (* the stage stopped *)
      rewrite machine_finish.
      destruct (push_list (push rest) ss o) as [[f e1] ss1] eqn:Hp.
      destruct e1; try reflexivity.
      cbn [finish].
      pose proof (flush_not_cont rest ss1) as Hn.
      destruct (flush rest ss1) as [[f2 e2] ss2]. cbn in Hn.
      destruct e2; try reflexivity. congruence.
    + rewrite machine_finish.
      destruct (push_list (push rest) ss o) as [[f e1] ss1] eqn:Hp.
      destruct e1; reflexivity.
    + rewrite machine_finish.
      destruct (push_list (push rest) ss o) as [[f e1] ss1] eqn:Hp.
      destruct e1; reflexivity.
Qed.

(* ---------- draining with [drive] is the machine ---------- *)
Definition ending_of (e : status) : ending :=
  match e with Err x => ERaised x | Unm t => EUnm t | _ => EExhausted end.

Lemma drive_drain stages : forall items sts acc pulls,
  let '(outs, e) := machine stages sts (items, Stop) in
  fst (drive stages sts items true None acc pulls) = (acc ++ outs, ending_of e).
Proof.
  induction items as [|x r IH]; intros sts acc pulls.
  - unfold machine. cbn [push_list drive reached].
    destruct (flush stages sts) as [[f e] ss]. cbn.
    pose proof (flush_not_cont stages sts) as Hn.
    destruct e; reflexivity.
  - unfold machine in *. cbn [push_list drive reached].
    destruct (push stages sts x) as [[f e] sts'].
    destruct e; cbn [reached]; try (cbn; reflexivity).
    specialize (IH sts' (acc ++ f) (S pulls)).
    destruct (push_list (push stages) sts' r) as [[f2 e2] ss2].
    destruct e2.
    + destruct (flush stages ss2) as [[f3 e3] ss3]. rewrite IH. rewrite !app_assoc. reflexivity.
    + rewrite IH. rewrite app_assoc. reflexivity.
    + rewrite IH. rewrite app_assoc. reflexivity.
    + rewrite IH. rewrite app_assoc. reflexivity.
Qed.

Lemma pipeline_is_composition_lemma stages items :
  first_stopped0 stages = None ->
  let '(outs, e) := den0 stages items in
  fst (run 0 stages (SrcList items) None) = (outs, ending_of e).
Proof.
  intros H0. unfold run, den0. cbn [src_items]. rewrite H0.
  rewrite <- machine_is_den by (rewrite map_length; reflexivity).
  pose proof (drive_drain stages items (map init_state stages) [] 0) as H.
  destruct (machine stages (map init_state stages) (items, Stop)) as [outs e]. exact H.
Qed.

(* ---------- laziness: the result is decided by the items pulled ---------- *)
Lemma drive_prefix stages : forall xs sts k acc pulls o e n,
  drive stages sts xs false k acc pulls = (o, e, n) -> e <> EFuel ->
  forall ys fin, drive stages sts (xs ++ ys) fin k acc pulls = (o, e, n).
Proof.
  induction xs as [|x r IH]; intros sts k acc pulls o e n H Hne ys fin.
  - cbn [drive] in H. destruct (reached k acc) eqn:Hr.
    + destruct ys; cbn [app drive]; rewrite Hr; exact H.
    + inversion H; subst. congruence.
  - cbn [app drive] in *. destruct (reached k acc); [exact H|].
    destruct (push stages sts x) as [[f e1] sts'].
    destruct (reached k (acc ++ f)); [exact H|].
    destruct e1; try exact H.
    eapply IH; eauto.
Qed.

Lemma drive_pulls_bound stages : forall xs sts fin k acc pulls,
  pulls <= snd (drive stages sts xs fin k acc pulls) <= pulls + List.length xs.
Proof.
  induction xs as [|x r IH]; intros sts fin k acc pulls; cbn [drive].
  - destruct (reached k acc); [cbn; lia|].
    destruct fin; [|cbn; lia].
    destruct (flush stages sts) as [[f e] ss]. destruct (reached k (acc ++ f)); [cbn; lia|].
    destruct e; cbn; lia.
  - destruct (reached k acc); [cbn; lia|].
    destruct (push stages sts x) as [[f e1] sts'].
    destruct (reached k (acc ++ f)); [cbn; lia|].
    destruct e1; try (cbn; lia).
    specialize (IH sts' fin k (acc ++ f) (S pulls)). cbn [List.length]. lia.
Qed.

(* the items pulled were needed: with one item fewer available the k outputs are not there yet *)
Lemma drive_minimal stages : forall xs sts k acc pulls o n,
  drive stages sts xs false k acc pulls = (o, EGotK, n) -> pulls < n ->
  exists e' n', drive stages sts (firstn (n - pulls - 1) xs) false k acc pulls = (e', EFuel, n').
Proof.
  induction xs as [|x r IH]; intros sts k acc pulls o n H Hlt.
  - cbn [drive] in H. destruct (reached k acc); inversion H; subst; lia.
  - cbn [drive] in H. destruct (reached k acc) eqn:Hr; [inversion H; subst; lia|].
    destruct (push stages sts x) as [[f e1] sts'] eqn:Hp.
    destruct (reached k (acc ++ f)) eqn:Hr2.
    + inversion H; subst. replace (S pulls - pulls - 1) with 0 by lia. cbn [firstn drive]. rewrite Hr. eauto.
    + destruct e1; try (inversion H; fail).
      pose proof (drive_pulls_bound stages r sts' false k (acc ++ f) (S pulls)) as Hb.
      rewrite H in Hb. cbn in Hb.
      destruct (Nat.eq_dec n (S pulls)) as [->|Hne].
      * (* got k without pulling further: impossible, reached was false *)
        exfalso. clear IH. destruct r as [|y r']; cbn [drive] in H; rewrite Hr2 in H.
        -- inversion H.
        -- destruct (push stages sts' y) as [[f' e'] s'']. destruct (reached k ((acc ++ f) ++ f')).
           ++ inversion H; lia.
           ++ destruct e'; try (inversion H; fail).
              pose proof (drive_pulls_bound stages r' s'' false k ((acc ++ f) ++ f') (S (S pulls))) as Hb'.
              rewrite H in Hb'. cbn in Hb'. lia.
      * destruct (IH sts' k (acc ++ f) (S pulls) o n H ltac:(lia)) as [e' [n' He]].
        replace (n - pulls - 1) with (S (n - S pulls - 1)) by lia.
        cbn [firstn drive]. rewrite Hr, Hp, Hr2. eauto.
Qed.

(* infinite sources: more fuel only appends items *)
Lemma count_items_app : forall n m a d, count_items (n + m) a d = count_items n a d ++ count_items m (a + Z.of_nat n * d)%Z d.
Proof.
  induction n as [|n IH]; intros m a d.
  - cbn. f_equal. lia.
  - cbn [count_items plus app]. f_equal. rewrite IH. f_equal. f_equal. lia.
Qed.

Lemma cycle_items_app : forall n m l cur, exists cur', cycle_items (n + m) l cur = cycle_items n l cur ++ cycle_items m l cur'.
Proof.
  induction n as [|n IH]; intros m l cur.
  - exists cur. reflexivity.
  - cbn [plus cycle_items]. destruct cur as [|x r].
    + destruct l as [|x r]; [exists []; cbn; destruct m; reflexivity|].
      destruct (IH m (x :: r) r) as [c' Hc]. exists c'. rewrite Hc. reflexivity.
    + destruct (IH m l r) as [c' Hc]. exists c'. rewrite Hc. reflexivity.
Qed.

Lemma src_items_mono fuel extra src :
  exists ys, fst (src_items (fuel + extra) src) = fst (src_items fuel src) ++ ys /\
             snd (src_items (fuel + extra) src) = snd (src_items fuel src) /\
             (snd (src_items fuel src) = true -> ys = []).
Proof.
  destruct src as [l|a d|l]; cbn [src_items].
  - exists []. rewrite app_nil_r. auto.
  - eexists. rewrite count_items_app. cbn. split; [reflexivity|]. split; [reflexivity|discriminate].
  - destruct l as [|x r].
    + exists []. cbn. auto.
    + destruct (cycle_items_app fuel extra (x :: r) (x :: r)) as [c' Hc]. eexists. cbn [fst snd]. rewrite Hc.
      split; [reflexivity|]. split; [reflexivity|discriminate].
Qed.

Lemma lazy_on_any_source_lemma stages src k fuel o e n :
  run fuel stages src k = (o, e, n) -> e <> EFuel ->
  forall extra, run (fuel + extra) stages src k = (o, e, n).
Proof.
  intros H Hne extra. unfold run in *.
  destruct (src_items_mono fuel extra src) as [ys [H1 [H2 H3]]].
  destruct (src_items fuel src) as [items fin]. destruct (src_items (fuel + extra) src) as [items' fin'].
  cbn in H1, H2, H3. subst items' fin'.
  destruct (first_stopped0 stages); [exact H|].
  destruct k as [[|k]|]; try exact H.
  - destruct fin.
    + rewrite (H3 eq_refl), app_nil_r. exact H.
    + apply drive_prefix; assumption.
  - destruct fin.
    + rewrite (H3 eq_refl), app_nil_r. exact H.
    + apply drive_prefix; assumption.
Qed.

(* ---------- the stages as list functions (callbacks that do not raise) ---------- *)
Lemma map_den c g : forall xs, (forall x, In x xs -> apply_cb c x = Ok (g x)) ->
  stage_run (SMap c) XNone xs = (map g xs, Cont, XNone).
Proof.
  induction xs as [|x r IH]; intros H; [reflexivity|].
  cbn [stage_run feed]. unfold with_cb. rewrite (H x (or_introl eq_refl)).
  rewrite IH by (intros y Hy; apply H; right; exact Hy). reflexivity.
Qed.

Lemma filter_den c g : forall xs, (forall x, In x xs -> apply_cb c x = Ok (g x)) -> (forall x, In x xs -> is_skip x = false) ->
  stage_run (SFilter c) XNone xs = (filter (fun x => truthy (g x)) xs, Cont, XNone).
Proof.
  induction xs as [|x r IH]; intros H Hs; [reflexivity|].
  cbn [stage_run feed filter]. unfold with_cb. rewrite (H x (or_introl eq_refl)), (Hs x (or_introl eq_refl)).
  cbn [negb]. rewrite andb_true_r.
  specialize (IH (fun y Hy => H y (or_intror Hy)) (fun y Hy => Hs y (or_intror Hy))).
  destruct (truthy (g x)); cbv beta iota zeta; rewrite IH; reflexivity.
Qed.

Lemma takewhile_den c g : forall xs, (forall x, In x xs -> apply_cb c x = Ok (g x)) ->
  fst (fst (stage_run (STakeWhile c) XNone xs)) = take_while (fun x => truthy (g x)) xs.
Proof.
  induction xs as [|x r IH]; intros H; [reflexivity|].
  cbn [stage_run feed take_while]. unfold with_cb. rewrite (H x (or_introl eq_refl)).
  destruct (truthy (g x)); [|reflexivity].
  specialize (IH (fun y Hy => H y (or_intror Hy))).
  destruct (stage_run (STakeWhile c) XNone r) as [[o e] s]. cbn in *. rewrite IH. reflexivity.
Qed.

Lemma dropwhile_started c : forall xs, stage_run (SDropWhile c) (XFlag true) xs = (xs, Cont, XFlag true).
Proof. induction xs as [|x r IH]; [reflexivity|]. cbn [stage_run feed]. rewrite IH. reflexivity. Qed.

Lemma dropwhile_den c g : forall xs, (forall x, In x xs -> apply_cb c x = Ok (g x)) ->
  fst (fst (stage_run (SDropWhile c) (XFlag false) xs)) = drop_while (fun x => truthy (g x)) xs.
Proof.
  induction xs as [|x r IH]; intros H; [reflexivity|].
  cbn [stage_run feed drop_while]. unfold with_cb. rewrite (H x (or_introl eq_refl)).
  destruct (truthy (g x)).
  - specialize (IH (fun y Hy => H y (or_intror Hy))).
    destruct (stage_run (SDropWhile c) (XFlag false) r) as [[o e] s]. cbn in *. exact IH.
  - rewrite dropwhile_started. reflexivity.
Qed.

Lemma limit_den n : forall xs c, c < n ->
  fst (fst (stage_run (SSlice 0 (Some n) 1) (XSlice c c) xs)) = firstn (n - c) xs.
Proof.
  induction xs as [|x r IH]; intros c Hc.
  - destruct (n - c); reflexivity.
  - cbn [stage_run feed]. rewrite Nat.ltb_irrefl.
    replace (n <? c + 1) with false by (symmetry; apply Nat.ltb_ge; lia).
    unfold slice_done. replace (c + 1 <=? S c) with true by (symmetry; apply Nat.leb_le; lia).
    cbn [andb].
    destruct (n <=? S c) eqn:Hd.
    + apply Nat.leb_le in Hd. replace (n - c) with 1 by lia. reflexivity.
    + apply Nat.leb_gt in Hd. replace (c + 1) with (S c) by lia.
      specialize (IH (S c) Hd).
      destruct (stage_run (SSlice 0 (Some n) 1) (XSlice (S c) (S c)) r) as [[o e] s]. cbn in *.
      rewrite IH. replace (n - c) with (S (n - S c)) by lia. reflexivity.
Qed.

Lemma flatten_den g : forall xs, (forall x, In x xs -> iter_items x = Ok (g x)) ->
  stage_run SFlatten XNone xs = (concat (map g xs), Cont, XNone).
Proof.
  induction xs as [|x r IH]; intros H; [reflexivity|].
  cbn [stage_run feed map concat]. rewrite (H x (or_introl eq_refl)).
  rewrite IH by (intros y Hy; apply H; right; exact Hy). reflexivity.
Qed.

Lemma unique_den c g : forall xs seen, (forall x, In x xs -> apply_cb c x = Ok (g x)) -> (forall x, In x xs -> hashable (g x) = true) ->
  fst (fst (stage_run (SUnique c) (XBuf seen) xs)) = uniq_by g seen xs.
Proof.
  induction xs as [|x r IH]; intros seen H Hh; [reflexivity|].
  cbn [stage_run feed uniq_by]. unfold with_cb. rewrite (H x (or_introl eq_refl)), (Hh x (or_introl eq_refl)).
  cbn [negb].
  destruct (mem py_eqb (g x) seen).
  - specialize (IH seen (fun y Hy => H y (or_intror Hy)) (fun y Hy => Hh y (or_intror Hy))).
    destruct (stage_run (SUnique c) (XBuf seen) r) as [[o e] s]. cbn in *. exact IH.
  - specialize (IH (seen ++ [g x]) (fun y Hy => H y (or_intror Hy)) (fun y Hy => Hh y (or_intror Hy))).
    destruct (stage_run (SUnique c) (XBuf (seen ++ [g x])) r) as [[o e] s]. cbn in *. rewrite IH. reflexivity.
Qed.

(* Iter._iterate: SKIP results are dropped, the first STOP / sentinel result ends the stream *)
Lemma base_den sub sentinel g : forall xs, (forall x, In x xs -> apply_cb sub x = Ok (g x)) ->
  fst (fst (stage_run (SBase sub sentinel) XNone xs)) =
  filter (fun y => negb (is_skip y)) (take_while (base_keep sentinel) (map g xs)).
Proof.
  induction xs as [|x r IH]; intros H; [reflexivity|].
  cbn [stage_run feed map take_while]. unfold with_cb, base_keep. rewrite (H x (or_introl eq_refl)).
  specialize (IH (fun y Hy => H y (or_intror Hy))).
  destruct (is_skip (g x)) eqn:Hs.
  - cbn [negb andb filter]. rewrite Hs. cbn [negb].
    destruct (stage_run (SBase sub sentinel) XNone r) as [[o e] s]. cbn in *. exact IH.
  - cbn [negb andb]. destruct (is_same (g x) sentinel || is_same (g x) VStop); [reflexivity|].
    cbn [negb filter]. rewrite Hs. cbn [negb].
    destruct (stage_run (SBase sub sentinel) XNone r) as [[o e] s]. cbn in *. rewrite IH. reflexivity.
Qed.

(* chunked: the chunks concatenate back to the input, every chunk but possibly the last has exactly n items *)
Lemma chunked_run n : n <> 0 -> forall xs buf, List.length buf < n ->
  exists cs buf', stage_run (SChunked n None) (XBuf buf) xs = (map (VList 0) cs, Cont, XBuf buf') /\
                  buf ++ xs = concat cs ++ buf' /\ Forall (fun c => List.length c = n) cs /\ List.length buf' < n.
Proof.
  intros Hn. induction xs as [|x r IH]; intros buf Hb.
  - exists [], buf. cbn. rewrite app_nil_r. auto.
  - cbn [stage_run feed]. destruct n as [|n']; [congruence|].
    destruct (Nat.eqb (List.length (buf ++ [x])) (S n')) eqn:He.
    + apply Nat.eqb_eq in He.
      destruct (IH [] ltac:(cbn; lia)) as [cs [b' [H1 [H2 [H3 H4]]]]].
      exists ((buf ++ [x]) :: cs), b'. rewrite H1. cbn [map concat app]. split; [reflexivity|].
      split; [rewrite <- app_assoc; cbn [app] in *; rewrite <- app_assoc; cbn; f_equal; f_equal; exact H2|].
      split; [constructor; assumption|assumption].
    + apply Nat.eqb_neq in He. rewrite app_length in *. cbn in He.
      destruct (IH (buf ++ [x]) ltac:(rewrite app_length; cbn; lia)) as [cs [b' [H1 [H2 [H3 H4]]]]].
      exists cs, b'. rewrite H1. split; [reflexivity|]. rewrite <- app_assoc in H2. cbn in H2. auto.
Qed.

(* ---------- builders ---------- *)
Lemma nth_error_app_old {A} (l l' : list A) i : i < List.length l -> nth_error (l ++ l') i = nth_error l i.
Proof. intros H. apply nth_error_app1. exact H. Qed.

Lemma add_op_frame h self entry h' i :
  add_op h self entry = Some (h', i) ->
  (forall j, j < List.length h -> nth_error h' j = nth_error h j) /\ i = S (List.length h) /\ List.length h' = S (S (List.length h)).
Proof.
  unfold add_op. destruct (nth_error h self) as [[l|o]|]; try discriminate.
  destruct (nth_error h (io_stack o)) as [[l|o']|]; try discriminate.
  intros H. inversion H; subst. split; [|split].
  - intros j Hj. apply nth_error_app1. exact Hj.
  - reflexivity.
  - rewrite app_length. cbn. lia.
Qed.

Lemma stages_of_old h self entry h' i j :
  add_op h self entry = Some (h', i) -> forall st, stages_of h j = Some st -> stages_of h' j = Some st.
Proof.
  intros H st Hs. destruct (add_op_frame _ _ _ _ _ H) as [Hf _].
  unfold stages_of in *.
  destruct (nth_error h j) as [[l|o]|] eqn:Hj; try discriminate.
  assert (j < List.length h) by (apply nth_error_Some; congruence).
  rewrite (Hf j H0), Hj.
  destruct (nth_error h (io_stack o)) as [[l|o']|] eqn:Hk; try discriminate.
  assert (io_stack o < List.length h) by (apply nth_error_Some; congruence).
  rewrite (Hf _ H1), Hk. exact Hs.
Qed.

Lemma stages_of_new h self entry h' i st :
  add_op h self entry = Some (h', i) -> stages_of h self = Some st -> stages_of h' i = Some (st ++ [entry]).
Proof.
  unfold add_op, stages_of.
  destruct (nth_error h self) as [[l|o]|] eqn:Hs; try discriminate.
  destruct (nth_error h (io_stack o)) as [[l|o']|] eqn:Hk; try discriminate.
  intros H Hst. inversion H; subst. inversion Hst; subst.
  rewrite nth_error_app2 by lia. replace (S (List.length h) - List.length h) with 1 by lia. cbn [nth_error io_stack].
  rewrite nth_error_app2 by lia. rewrite Nat.sub_diag. cbn. reflexivity.
Qed.

(* chaining methods one after another on a fresh Iter gives the stages in chaining order, behind the base generator *)
Fixpoint chain_ops (h : sheap) (self : nat) (entries : list stage) : option (sheap * nat) :=
  match entries with
  | [] => Some (h, self)
  | e :: r => match add_op h self e with Some (h', i) => chain_ops h' i r | None => None end end.

Lemma chain_ops_stages : forall entries h self st,
  stages_of h self = Some st ->
  exists h' i, chain_ops h self entries = Some (h', i) /\ stages_of h' i = Some (st ++ entries) /\
               (forall j s0, stages_of h j = Some s0 -> stages_of h' j = Some s0).
Proof.
  induction entries as [|e r IH]; intros h self st Hst.
  - exists h, self. rewrite app_nil_r. cbn. auto.
  - cbn [chain_ops].
    assert (exists h1 i1, add_op h self e = Some (h1, i1)) as [h1 [i1 Ha]].
    { unfold add_op, stages_of in *. destruct (nth_error h self) as [[l|o]|]; try discriminate.
      destruct (nth_error h (io_stack o)) as [[l|o']|]; try discriminate. eauto. }
    rewrite Ha.
    destruct (IH h1 i1 (st ++ [e]) (stages_of_new _ _ _ _ _ _ Ha Hst)) as [h' [i [Hc [Hs Hold]]]].
    exists h', i. split; [exact Hc|]. split; [rewrite Hs, <- app_assoc; reflexivity|].
    intros j s0 Hj. apply Hold. eapply stages_of_old; eauto.
Qed.

Lemma new_iter_stages h sub sentinel :
  let '(h', i) := new_iter h sub sentinel in
  stages_of h' i = Some [SBase sub sentinel] /\ (forall j s0, stages_of h j = Some s0 -> stages_of h' j = Some s0).
Proof.
  unfold new_iter, stages_of. split.
  - rewrite nth_error_app2 by lia. replace (S (List.length h) - List.length h) with 1 by lia. cbn [nth_error io_stack].
    rewrite nth_error_app2 by lia. rewrite Nat.sub_diag. reflexivity.
  - intros j s0. destruct (nth_error h j) as [[l|o]|] eqn:Hj; try discriminate.
    assert (j < List.length h) by (apply nth_error_Some; congruence).
    rewrite nth_error_app1, Hj by assumption.
    destruct (nth_error h (io_stack o)) as [[l|o']|] eqn:Hk; try discriminate.
    assert (io_stack o < List.length h) by (apply nth_error_Some; congruence).
    rewrite nth_error_app1, Hk by assumption. auto.
Qed.
