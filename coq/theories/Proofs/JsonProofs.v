(* Proofs/JsonProofs.v — C19: sort_keys=True: the printed keys are strictly increasing in code-point order and are
   exactly the keys of the dict *)
From Coq Require Import String Ascii ZArith Bool List Lia Sorting.Sorted Sorting.Permutation.
From Glom Require Import Base.PyVal Model.Cli.
Import ListNotations.
Local Open Scope list_scope.

Lemma nat_of_ascii_inj a b : nat_of_ascii a = nat_of_ascii b -> a = b.
Proof. intros H. rewrite <- (ascii_nat_embedding a), <- (ascii_nat_embedding b), H. reflexivity. Qed.

Lemma str_ltb_irrefl : forall a, str_ltb a a = false.
Proof. induction a as [|c a IH]; cbn [str_ltb]; [reflexivity|]. rewrite Nat.ltb_irrefl. exact IH. Qed.

Lemma str_ltb_trans : forall a b c, str_ltb a b = true -> str_ltb b c = true -> str_ltb a c = true.
Proof.
  induction a as [|x a IH]; intros [|y b] [|z c] H1 H2; cbn [str_ltb] in *; try discriminate; try reflexivity.
  destruct (Nat.ltb_spec (nat_of_ascii x) (nat_of_ascii y)), (Nat.ltb_spec (nat_of_ascii y) (nat_of_ascii z));
    destruct (Nat.ltb_spec (nat_of_ascii x) (nat_of_ascii z)); try reflexivity; try lia;
    destruct (Nat.ltb_spec (nat_of_ascii y) (nat_of_ascii x)); try discriminate; try lia;
    destruct (Nat.ltb_spec (nat_of_ascii z) (nat_of_ascii y)); try discriminate; try lia;
    destruct (Nat.ltb_spec (nat_of_ascii z) (nat_of_ascii x)); try lia.
  eapply IH; eassumption.
Qed.

Lemma str_ltb_total : forall a b, a = b \/ str_ltb a b = true \/ str_ltb b a = true.
Proof.
  induction a as [|x a IH]; intros [|y b]; cbn [str_ltb]; auto.
  destruct (Nat.ltb_spec (nat_of_ascii x) (nat_of_ascii y)); [auto|].
  destruct (Nat.ltb_spec (nat_of_ascii y) (nat_of_ascii x)); [auto|].
  assert (x = y) by (apply nat_of_ascii_inj; lia). subst y.
  destruct (IH b) as [-> | [H1 | H1]]; auto.
Qed.

Definition str_lt (a b : string) : Prop := str_ltb a b = true.

Lemma insert_key_keys k v : forall l x, In x (map fst (insert_key k v l)) <-> k = x \/ In x (map fst l).
Proof.
  induction l as [|[k' v'] r IH]; intros x; cbn; [tauto|].
  destruct (str_ltb k' k) eqn:E1; cbn.
  - rewrite IH. tauto.
  - destruct (str_ltb k k') eqn:E2; cbn; [tauto|].
    destruct (str_ltb_total k k') as [-> | [H | H]]; [tauto | congruence | congruence].
Qed.

Lemma insert_key_sorted k v : forall l, StronglySorted str_lt (map fst l) -> StronglySorted str_lt (map fst (insert_key k v l)).
Proof.
  induction l as [|[k' v'] r IH]; intros Hs; cbn; [repeat constructor|].
  cbn in Hs. inversion Hs as [|? ? Hs' Hall]; subst.
  destruct (str_ltb k' k) eqn:E1; cbn.
  - constructor; [apply IH; exact Hs'|].
    rewrite Forall_forall. intros x Hx. apply insert_key_keys in Hx. destruct Hx as [<- | Hx]; [exact E1|].
    rewrite Forall_forall in Hall. apply Hall. exact Hx.
  - destruct (str_ltb k k') eqn:E2; cbn.
    + constructor; [exact Hs|]. constructor; [exact E2|].
      rewrite Forall_forall in *. intros x Hx. eapply str_ltb_trans; [exact E2|]. apply Hall. exact Hx.
    + destruct (str_ltb_total k k') as [-> | [H | H]]; [|congruence|congruence].
      constructor; assumption.
Qed.

Lemma sort_keys_acc : forall l acc, StronglySorted str_lt (map fst acc) ->
  StronglySorted str_lt (map fst (fold_left (fun a kv => insert_key (fst kv) (snd kv) a) l acc)) /\
  (forall x, In x (map fst (fold_left (fun a kv => insert_key (fst kv) (snd kv) a) l acc)) <-> In x (map fst l) \/ In x (map fst acc)).
Proof.
  induction l as [|[k v] r IH]; intros acc Hs; cbn [fold_left map].
  - split; [exact Hs|]. intros x. cbn. tauto.
  - destruct (IH (insert_key k v acc) (insert_key_sorted k v acc Hs)) as [H1 H2]. split; [exact H1|].
    intros x. rewrite H2, insert_key_keys. cbn. tauto.
Qed.

Lemma sort_keys_sorted_lemma l : StronglySorted str_lt (map fst (sort_keys l)).
Proof. apply (sort_keys_acc l []). constructor. Qed.

Lemma sort_keys_same_keys_lemma l x : In x (map fst (sort_keys l)) <-> In x (map fst l).
Proof. unfold sort_keys. rewrite (proj2 (sort_keys_acc l [] (SSorted_nil _))). cbn. tauto. Qed.

(* values travel with their keys *)
Lemma insert_key_lookup k v : forall l k', str_assoc k' (insert_key k v l) = if String.eqb k' k then Some v else str_assoc k' l.
Proof.
  induction l as [|[k1 v1] r IH]; intros k'; cbn.
  - reflexivity.
  - destruct (str_ltb k1 k) eqn:E1; cbn.
    + rewrite IH. destruct (String.eqb k' k1) eqn:E; [|reflexivity].
      apply String.eqb_eq in E. subst k'. destruct (String.eqb k1 k) eqn:E'; [|reflexivity].
      apply String.eqb_eq in E'. subst. rewrite str_ltb_irrefl in E1. discriminate.
    + destruct (str_ltb k k1) eqn:E2; cbn.
      * reflexivity.
      * destruct (str_ltb_total k k1) as [-> | [H | H]]; [|congruence|congruence].
        destruct (String.eqb k' k1); reflexivity.
Qed.

Lemma sort_keys_lookup_lemma : forall l k v, NoDup (map fst l) -> str_assoc k l = Some v -> str_assoc k (sort_keys l) = Some v.
Proof.
  unfold sort_keys.
  assert (G : forall l acc k, ~ In k (map fst l) ->
              str_assoc k (fold_left (fun a kv => insert_key (fst kv) (snd kv) a) l acc) = str_assoc k acc).
  { induction l as [|[k1 v1] r IH]; intros acc k Hn; cbn [fold_left]; [reflexivity|].
    rewrite IH by (intros Hc; apply Hn; right; exact Hc). cbn [fst snd]. rewrite insert_key_lookup.
    destruct (String.eqb k k1) eqn:E; [|reflexivity]. apply String.eqb_eq in E. subst. exfalso. apply Hn. left. reflexivity. }
  induction l as [|[k1 v1] r IH]; intros k v Hnd H; [discriminate|].
  cbn in H, Hnd. inversion Hnd as [|? ? Hnin Hnd']; subst. cbn [fold_left fst snd].
  destruct (String.eqb k k1) eqn:E.
  - inversion H; subst. apply String.eqb_eq in E. subst k1. rewrite G by exact Hnin. cbn. rewrite String.eqb_refl. reflexivity.
  - (* k is bound in r: generalise over the accumulator *)
    clear IH.
    assert (G2 : forall l acc, NoDup (map fst l) -> str_assoc k l = Some v ->
                 str_assoc k (fold_left (fun a kv => insert_key (fst kv) (snd kv) a) l acc) = Some v).
    { clear - G. induction l as [|[k2 v2] r2 IH2]; intros acc Hnd2 H2; [discriminate|].
      cbn in H2, Hnd2. inversion Hnd2 as [|? ? Hnin2 Hnd2']; subst. cbn [fold_left fst snd].
      destruct (String.eqb k k2) eqn:E2.
      - inversion H2; subst. apply String.eqb_eq in E2. subst k2. rewrite G by exact Hnin2. rewrite insert_key_lookup, String.eqb_refl. reflexivity.
      - apply IH2; assumption. }
    apply G2; assumption.
Qed.
