(* Proofs/LiteralProofs.v — C19: evaluating a literal spec (what ast.literal_eval / json.loads can return, read as a glom
   spec: path strings, dicts, lists, tuples, constants) never calls a callable and never writes to the store: the
   interpreter's state — the call log and the ScopeVars store — is unchanged, for every target and every nesting. *)
From Coq Require Import String ZArith Bool List Lia.
From Glom Require Import Base.PyVal Model.Exc Model.TEval Model.Interp.
Import ListNotations.
Local Open Scope string_scope.
Local Open Scope list_scope.

Inductive lit : spec -> Prop :=
| LPath : lit (ST RT [])
| LStr k : lit (SStr k)
| LLit v : lit (SLit v)
| LDict od es : (forall k s, In (k, s) es -> (exists x, k = SStr x \/ exists v, k = SLit v) /\ lit s) -> lit (SDict od es)
| LList ss : (forall s, In s ss -> lit s) -> lit (SList ss)
| LTuple ss : (forall s, In s ss -> lit s) -> lit (STuple ss).

Definition auto_scope (sc : scope) : Prop := head_mode sc = AUTO /\ head_arg sc = false.
Definition auto_frame (f : frame) : Prop := fmode f = AUTO /\ farg f = false.

Definition quiet {A} (m : M A) : Prop := forall st, snd (m st) = st.

Definition good_rec (rec : recfn) : Prop :=
  (forall sc t s, lit s -> auto_scope sc ->
     forall st, snd (rec sc t s st) = st /\ (forall v f, fst (rec sc t s st) = Ok (v, f) -> auto_frame f)) /\
  (forall sc t k, head_arg sc = true -> forall st, snd (rec sc t (SStr k) st) = st /\
     (forall v f, fst (rec sc t (SStr k) st) = Ok (v, f) -> v = VStr k)).

Lemma quiet_ret {A} (a : A) : quiet (ret a).
Proof. intros st. reflexivity. Qed.
Lemma quiet_lift {A} (r : res A) : quiet (lift r).
Proof. intros st. reflexivity. Qed.
Lemma quiet_bind {A B} (m : M A) (f : A -> M B) : quiet m -> (forall a st, fst (m st) = Ok a -> quiet (f a)) -> quiet (bindM m f).
Proof.
  intros Hm Hf st. unfold bindM. pose proof (Hm st) as H1.
  destruct (m st) as [[a|e|u|] st'] eqn:E; cbn in H1; subst st'; try reflexivity.
  apply (Hf a st). rewrite E. reflexivity.
Qed.

Section Loops.
  Variable fixed : bool.
  Variable rec : recfn.
  Hypothesis Hrec : good_rec rec.

  Lemma dict_loop_quiet : forall es sc t acc,
    (forall k s, In (k, s) es -> (exists x, k = SStr x \/ exists v, k = SLit v) /\ lit s) -> auto_scope sc ->
    quiet (dict_loop rec sc t es acc).
  Proof.
    induction es as [|[k s] r IH]; intros sc t acc Hl Hsc; cbn [dict_loop]; [apply quiet_ret|].
    destruct (Hl k s (or_introl eq_refl)) as [Hk Hs].
    assert (Hr : forall k0 s0, In (k0, s0) r -> (exists x, k0 = SStr x \/ exists v, k0 = SLit v) /\ lit s0)
      by (intros; apply Hl; right; assumption).
    intros st. unfold bindM at 1. destruct Hrec as [H1 _]. destruct (H1 sc t s Hs Hsc st) as [Hq _].
    destruct (rec sc t s st) as [[[v f]|e|u|] st'] eqn:E; cbn in Hq; subst st'; try reflexivity.
    assert (Hkey : exists kv, (match k with
                       | ST _ _ | SSpec _ _ => let! (kv, _) := rec sc t k in ret kv
                       | _ => match lit_of_key k with Some kv => ret kv | None => unmodelled "dict-key" end end) = ret kv).
    { destruct Hk as [x [-> | [v' ->]]]; eexists; reflexivity. }
    destruct Hkey as [kv Hkey].
    destruct v; try apply IH; try assumption;
      (rewrite Hkey; unfold bindM, ret; destruct (hashable kv); [apply IH; assumption|reflexivity]).
  Qed.

  Lemma list_loop_quiet : forall items sc sub acc, lit sub -> auto_scope sc -> quiet (list_loop rec sc sub items acc).
  Proof.
    induction items as [|x r IH]; intros sc sub acc Hs Hsc; cbn [list_loop]; [apply quiet_ret|].
    intros st. unfold bindM. destruct Hrec as [H1 _]. destruct (H1 sc x sub Hs Hsc st) as [Hq _].
    destruct (rec sc x sub st) as [[[v f]|e|u|] st'] eqn:E; cbn in Hq; subst st'; try reflexivity.
    destruct v; try (apply IH; assumption); reflexivity.
  Qed.

  Lemma auto_scope_cons f sc : auto_frame f -> auto_scope (f :: sc).
  Proof. intros [H1 H2]. split; assumption. Qed.

  Lemma set_head_auto cur : auto_scope cur -> auto_scope (set_head_mode AUTO cur).
  Proof. destruct cur as [|f r]; intros [H1 H2]; split; cbn in *; auto. Qed.

  Lemma chain_loop_quiet : forall ss cur res, (forall s, In s ss -> lit s) -> auto_scope cur ->
    quiet (chain_loop fixed rec AUTO ss cur res).
  Proof.
    induction ss as [|s r IH]; intros cur res Hl Hc; cbn [chain_loop]; [apply quiet_ret|].
    set (cur' := if fixed then set_head_mode AUTO cur else cur).
    assert (Hc' : auto_scope cur') by (unfold cur'; destruct fixed; [apply set_head_auto|]; assumption).
    intros st. unfold bindM. destruct Hrec as [H1 _].
    destruct (H1 cur' res s (Hl s (or_introl eq_refl)) Hc' st) as [Hq Hf].
    destruct (rec cur' res s st) as [[[v child]|e|u|] st'] eqn:E; cbn in Hq; subst st'; try reflexivity.
    assert (auto_scope (child :: cur')) by (apply auto_scope_cons; eapply Hf; reflexivity).
    assert (forall s0, In s0 r -> lit s0) by (intros; apply Hl; right; assumption).
    destruct v; try (apply IH; assumption); reflexivity.
  Qed.

  Lemma path_ops_quiet own : forall segs sc target k cur, farg own = false ->
    quiet (t_ops rec own sc target (map (fun x => ("P", SStr x)) segs) k cur).
  Proof.
    induction segs as [|x r IH]; intros sc target k cur Ha; cbn [map t_ops]; [apply quiet_ret|].
    intros st. unfold bindM at 1. unfold arg_val_i. unfold bindM at 1.
    destruct Hrec as [_ H2].
    destruct (H2 (set_arg true own :: sc) target x eq_refl st) as [Hq Hv].
    destruct (rec (set_arg true own :: sc) target (SStr x) st) as [[[v f]|e|u|] st'] eqn:E; cbn in Hq; subst st'; try reflexivity.
    unfold ret. change (String.eqb "P" ".") with false. change (String.eqb "P" "[") with false. change (String.eqb "P" "P") with true.
    cbv iota. unfold bindM, lift.
    destruct (pae_of k (get_handler_get cur (EVal v)) ["Exception"]); try reflexivity.
    apply IH. exact Ha.
  Qed.
End Loops.

Lemma glom_literal_quiet fixed : forall fuel, good_rec (glom_ fixed fuel).
Proof.
  induction fuel as [|fuel IH].
  - split; intros; cbn; split; [reflexivity|discriminate| reflexivity | discriminate].
  - split.
    + intros sc t s Hl [Hm Ha] st. cbn [glom_]. unfold glom_body. rewrite Hm, Ha.
      destruct Hl as [|k|v|od es Hes|ss Hss|ss Hss].
      * (* Path() *) cbn. split; [reflexivity|]. intros v f H. inversion H; subst. split; reflexivity.
      * (* a path string *)
        cbn [farg fmode].
        destruct (existsb (fun x => String.eqb x "*" || String.eqb x "**") (split_dots k)).
        { split; [reflexivity|discriminate]. }
        pose proof (path_ops_quiet (glom_ fixed fuel) IH (mkFrame [] AUTO false []) (split_dots k) sc t 0 t eq_refl st) as Hq.
        unfold bindM. destruct (t_ops _ _ _ _ _ _ _ st) as [[v|e|u|] st']; cbn in Hq; subst st'; split; try reflexivity; try discriminate.
        intros v' f H. inversion H; subst. split; reflexivity.
      * cbn. split; [reflexivity|discriminate].
      * cbn [farg fmode].
        pose proof (dict_loop_quiet (glom_ fixed fuel) IH es (mkFrame [] AUTO false [] :: sc) t [] Hes (conj eq_refl eq_refl) st) as Hq.
        unfold bindM. destruct (dict_loop _ _ _ _ _ st) as [[kvs|e|u|] st']; cbn in Hq; subst st'; split; try reflexivity; try discriminate.
        intros v' f H. inversion H; subst. split; reflexivity.
      * cbn [farg fmode]. destruct ss as [|sub [|s2 r]]; try (split; [reflexivity|discriminate]).
        unfold bindM at 1. unfold lift. destruct (iterate t) as [items|e|u|]; try (split; [reflexivity|discriminate]).
        pose proof (list_loop_quiet (glom_ fixed fuel) IH items (mkFrame [] AUTO false [] :: sc) sub [] (Hss sub (or_introl eq_refl))
                      (conj eq_refl eq_refl) st) as Hq.
        unfold bindM. destruct (list_loop _ _ _ _ _ st) as [[vs|e|u|] st']; cbn in Hq; subst st'; split; try reflexivity; try discriminate.
        intros v' f H. inversion H; subst. split; reflexivity.
      * cbn [farg fmode].
        pose proof (chain_loop_quiet fixed (glom_ fixed fuel) IH ss (mkFrame [] AUTO false [] :: sc) t Hss (conj eq_refl eq_refl) st) as Hq.
        unfold bindM. destruct (chain_loop _ _ _ _ _ _ st) as [[v|e|u|] st']; cbn in Hq; subst st'; split; try reflexivity; try discriminate.
        intros v' f H. inversion H; subst. split; reflexivity.
    + intros sc t k Ha st. cbn [glom_]. unfold glom_body. rewrite Ha. cbn. split; [reflexivity|].
      intros v f H. inversion H. reflexivity.
Qed.

(* glom(target, literal spec): the call log stays empty and the store untouched *)
Lemma literal_spec_never_invokes_lemma target s : lit s -> snd (glom_top true [] target s) = init_state.
Proof.
  intros Hl. unfold glom_top.
  destruct (glom_literal_quiet true default_fuel_i) as [H1 _].
  destruct (H1 [root_frame []] target s Hl (conj eq_refl eq_refl) init_state) as [Hq _].
  destruct (glom_ true default_fuel_i [root_frame []] target s init_state) as [[[v f]|e|u|] st]; cbn in Hq; subst; reflexivity.
Qed.
