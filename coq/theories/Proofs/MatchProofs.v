(* Proofs/MatchProofs.v — C10: And / Or / Not / M / Switch / Check decide like the boolean expressions they denote;
   C09: match mode decides conformance (pure pattern fragment). *)
From Coq Require Import String Ascii ZArith Bool List Lia.
From Glom Require Import Base.PyVal Model.TEval Model.Exc Model.Interp Proofs.InterpProofs.
Import ListNotations.
Local Open Scope string_scope.
Local Open Scope list_scope.

Section Comb.
Variable rec : recfn.
Variable sc : scope.
Variable t : val.

(* children evaluated in sequence, threading the state: all pass / all rejected with a GlomError *)
Inductive all_pass : list spec -> val -> state -> val -> state -> Prop :=
| ap_nil res st : all_pass [] res st res st
| ap_cons s r res st v f st1 res' st2 :
    rec sc t s st = (Ok (v, f), st1) -> all_pass r v st1 res' st2 -> all_pass (s :: r) res st res' st2.

Inductive all_rejected : list spec -> state -> state -> Prop :=
| ar_nil st : all_rejected [] st st
| ar_cons s r st e st1 st2 :
    rec sc t s st = (Raise e, st1) -> is_glom_error e = true -> all_rejected r st1 st2 -> all_rejected (s :: r) st st2.

(* And: passes iff every child passes, yields the last child's result (the target when there is none) *)
Lemma and_all_pass ss : forall res st res' st', all_pass ss res st res' st' -> and_loop rec sc t ss res st = (Ok res', st').
Proof.
  induction ss as [|s r IH]; intros res st res' st' H; inversion H; subst; cbn [and_loop]; [reflexivity|].
  unfold bindM. match goal with H1 : rec sc t s st = _ |- _ => rewrite H1 end. apply IH. assumption.
Qed.
(* ... and stops at the first child that fails: the children after it are not evaluated *)
Lemma and_first_failure pre s post : forall res st v st1 e st2,
  all_pass pre res st v st1 -> rec sc t s st1 = (Raise e, st2) ->
  and_loop rec sc t (pre ++ s :: post) res st = (Raise e, st2).
Proof.
  induction pre as [|p r IH]; intros res st v st1 e st2 H Hs; inversion H; subst; cbn [app and_loop]; unfold bindM.
  - rewrite Hs. reflexivity.
  - match goal with H1 : rec sc t p st = _ |- _ => rewrite H1 end. eapply IH; eauto.
Qed.

(* Or: yields the first passing child's result without evaluating later children *)
Lemma or_first_pass pre s post : forall st st1 v f st2,
  all_rejected pre st st1 -> rec sc t s st1 = (Ok (v, f), st2) ->
  or_loop rec sc t (pre ++ s :: post) st = (Ok v, st2).
Proof.
  induction pre as [|p r IH]; intros st st1 v f st2 H Hs; inversion H; subst; cbn [app].
  - destruct post as [|q post']; cbn [or_loop]; unfold catch, bindM; rewrite Hs; reflexivity.
  - assert (N : exists x xs, r ++ s :: post = x :: xs) by (destruct r; cbn; eauto).
    destruct N as [x [xs N]]. cbn [or_loop]. rewrite N. rewrite <- N. unfold catch, bindM at 1.
    match goal with H1 : rec sc t p st = _ |- _ => rewrite H1 end.
    match goal with H1 : is_glom_error _ = true |- _ => rewrite H1 end. eapply IH; eauto.
Qed.
(* ... and fails, with the last child's error, iff every child is rejected *)
Lemma or_all_rejected pre s : forall st st1 e st2,
  all_rejected pre st st1 -> rec sc t s st1 = (Raise e, st2) ->
  or_loop rec sc t (pre ++ [s]) st = (Raise e, st2).
Proof.
  induction pre as [|p r IH]; intros st st1 e st2 H Hs; inversion H; subst; cbn [app].
  - cbn [or_loop]. unfold bindM. rewrite Hs. reflexivity.
  - assert (N : exists x xs, r ++ [s] = x :: xs) by (destruct r; cbn; eauto).
    destruct N as [x [xs N]]. cbn [or_loop]. rewrite N. rewrite <- N. unfold catch, bindM at 1.
    match goal with H1 : rec sc t p st = _ |- _ => rewrite H1 end.
    match goal with H1 : is_glom_error _ = true |- _ => rewrite H1 end. eapply IH; eauto.
Qed.
End Comb.

(* Not inverts and yields the target; its own rejection is a MatchError *)
Lemma not_inverts fixed rec sc t s st :
  glom_body fixed rec sc t (SNot s) st =
  match rec (mkFrame [] (head_mode sc) false [] :: sc) t s st with
  | (Ok _, st') => (Raise (simple_exn "MatchError"), st')
  | (Raise e, st') => if is_glom_error e then (Ok (t, mkFrame [] (head_mode sc) false []), st') else (Raise e, st')
  | (Unmodelled u, st') => (Unmodelled u, st')
  | (OutOfFuel, st') => (OutOfFuel, st') end.
Proof. reflexivity. Qed.

(* M op c passes exactly when the Python comparison is true, yielding the target; otherwise MatchError *)
Lemma m_expr_decides fixed rec sc t op c st :
  glom_body fixed rec sc t (SMExpr SM op (SLit c)) st =
  match m_compare op t c with
  | Ok true => (Ok (t, mkFrame [] (head_mode sc) false []), st)
  | Ok false => (Raise (simple_exn "MatchError"), st)
  | Raise e => if String.eqb (ecls e) "TypeError" then (Raise (simple_exn "MatchError"), st) else (Raise e, st)
  | Unmodelled u => (Unmodelled u, st)
  | OutOfFuel => (OutOfFuel, st) end.
Proof.
  unfold glom_body. cbn. unfold bindM, ret.
  destruct (m_compare op t c) as [[|]|e|u|]; try reflexivity. destruct (ecls e =? "TypeError"); reflexivity.
Qed.

Lemma m_truthy_decides fixed rec sc t st :
  glom_body fixed rec sc t SM st =
  if truthy t then (Ok (t, mkFrame [] (head_mode sc) false []), st) else (Raise (simple_exn "MatchError"), st).
Proof. unfold glom_body. cbn. destruct (truthy t); reflexivity. Qed.

(* default= is honoured: a GlomError of the combinator is replaced by the (argument-evaluated) default, anything else propagates *)
Lemma and_default_honoured fixed rec sc t ss d st e st1 :
  let own := set_arg false (mkFrame [] (head_mode sc) (head_arg sc) []) in
  and_loop rec (own :: sc) t ss t st = (Raise e, st1) -> is_glom_error e = true ->
  glom_body fixed rec sc t (SAnd ss (Some d)) st = (let! v := arg_val_i rec own sc t d in ret (v, own)) st1.
Proof.
  intros own H He. unfold glom_body. fold own. unfold catch. unfold bindM at 1. rewrite H, He. reflexivity.
Qed.

(* Switch: only the value spec of the first case whose key passes is evaluated; no case passing is a MatchError *)
Section Switch.
Variable rec : recfn.
Inductive keys_rejected (own : frame) (sc : scope) (t : val) : list (spec * spec) -> state -> state -> Prop :=
| kr_nil st : keys_rejected own sc t [] st st
| kr_cons k v r st e st1 st2 :
    rec (own :: sc) t k st = (Raise e, st1) -> is_glom_error e = true -> keys_rejected own sc t r st1 st2 ->
    keys_rejected own sc t ((k, v) :: r) st st2.

Lemma switch_first_match own sc t pre k v post : forall st st1 x child st2,
  keys_rejected own sc t pre st st1 -> rec (own :: sc) t k st1 = (Ok (x, child), st2) ->
  switch_loop true rec own sc t (pre ++ (k, v) :: post) st
  = (let! (res, _) := rec (set_mode (fmode own) child :: own :: sc) t v in ret (Some res)) st2.
Proof.
  induction pre as [|[k0 v0] r IH]; intros st st1 x child st2 H Hk; inversion H; subst; cbn [app switch_loop].
  - rewrite Hk. reflexivity.
  - match goal with H1 : rec (own :: sc) t k0 st = _ |- _ => rewrite H1 end.
    match goal with H1 : is_glom_error _ = true |- _ => rewrite H1 end. eapply IH; eauto.
Qed.
Lemma switch_no_match own sc t cases : forall st st1,
  keys_rejected own sc t cases st st1 -> switch_loop true rec own sc t cases st = (Ok None, st1).
Proof.
  induction cases as [|[k v] r IH]; intros st st1 H; inversion H; subst; cbn [switch_loop]; [reflexivity|].
  match goal with H1 : rec (own :: sc) t k st = _ |- _ => rewrite H1 end.
  match goal with H1 : is_glom_error _ = true |- _ => rewrite H1 end. apply IH. assumption.
Qed.
End Switch.

(* Check without default and without validators: passes (returning the target) iff every given condition holds;
   with no condition at all it checks truthiness *)
Lemma check_decides fixed rec sc t types vals inst st :
  glom_body fixed rec sc t (SCheck None types vals [] inst None) st =
  let own := mkFrame [] (head_mode sc) false [] in
  let bad_type := match types with [] => false | _ => negb (existsb (pytype_eqb (type_of t)) types) end in
  let bad_val := match vals with [] => false | _ => negb (mem py_eqb t vals) end in
  let bad_inst := match inst with [] => false | _ => negb (existsb (isinstance t) inst) end in
  let implicit := match types, vals, inst with [], [], [] => true | _, _, _ => false end in
  if bad_type || bad_val || bad_inst || (implicit && negb (truthy t))
  then (Raise (simple_exn "CheckError"), st) else (Ok (t, own), st).
Proof.
  unfold glom_body. cbn [farg fmode set_arg]. unfold bindM at 1. cbn [ret].
  rewrite !andb_false_r. cbn [validators_loop].
  destruct types as [|ty tys], vals as [|v vs], inst as [|i is]; cbn [andb orb negb];
    unfold bindM, ret;
    repeat match goal with |- context [if ?b then _ else _] => destruct b eqn:? end; try reflexivity; try discriminate.
Qed.

(* ================= C09: match mode decides conformance (literals, types, lists, tuples, dicts) ================= *)
(* key patterns of a dict pattern: an == constant (required), a type (not required), Required(type), Optional(constant) with an
   optional literal default *)
Inductive kpat := KLit (v : val) | KType (ty : pytype) | KReqType (ty : pytype) | KOpt (v : val) (d : option val).

Inductive pat :=
| PLit (v : val)
| PType (ty : pytype)
| PList (alts : list pat)
| PTuple (ps : list pat)
| PDict (es : list (kpat * pat)).

Definition kspec (k : kpat) : spec :=
  match k with
  | KLit v => SLit v | KType ty => SType ty | KReqType ty => SRequired (SType ty)
  | KOpt v d => SOptional v (option_map SLit d) end.
Definition kmatch (k : kpat) (key : val) : bool :=
  match k with KLit v | KOpt v _ => py_eqb key v | KType ty | KReqType ty => isinstance key ty end.
Definition krequired (k : kpat) : bool := match k with KLit _ | KReqType _ => true | _ => false end.

Fixpoint to_spec (p : pat) : spec :=
  match p with
  | PLit v => SLit v
  | PType ty => SType ty
  | PList alts => SList (map to_spec alts)
  | PTuple ps => STuple (map to_spec ps)
  | PDict es => SDict false (map (fun kp => (kspec (fst kp), to_spec (snd kp))) es) end.

Fixpoint pdepth (p : pat) : nat :=
  match p with
  | PLit _ | PType _ => 0
  | PList alts => S (fold_right (fun a acc => Nat.max (pdepth a) acc) 0 alts)
  | PTuple ps => S (fold_right (fun a acc => Nat.max (pdepth a) acc) 0 ps)
  | PDict es => S (fold_right (fun kp acc => Nat.max (pdepth (snd kp)) acc) 0 es) end.

(* Optional(key, default=d) entries whose key is absent from the result contribute key -> d *)
Fixpoint kdefaults (es : list (kpat * pat)) (res : list (val * val)) : list (val * val) :=
  match es with
  | [] => res
  | (KOpt k (Some d), _) :: r =>
      match kv_lookup py_eqb k res with Some _ => kdefaults r res | None => kdefaults r (kv_set k d res) end
  | _ :: r => kdefaults r res end.
(* a required spec key that no target key was matched by *)
Definition kmissing (es : list (kpat * pat)) (hit : list nat) : bool :=
  existsb (fun ik => krequired (fst (snd ik)) && negb (existsb (Nat.eqb (fst ik)) hit)) (combine (seq 0 (length es)) es).

(* the documented rules, as a structural recursion on the pattern: Some r = conforms, r the value Match returns *)
Fixpoint mres (p : pat) (v : val) : option val :=
  match p with
  | PLit c => if py_eqb v c then Some v else None
  | PType ty => if isinstance v ty then Some v else None
  | PList alts =>
      match v with
      | VList _ items =>
          option_map (VList 0)
            ((fix items_go (xs : list val) : option (list val) :=
                match xs with
                | [] => Some []
                | x :: r =>
                    match (fix alts_go (l : list pat) : option val :=
                             match l with [] => None | a :: ar => match mres a x with Some y => Some y | None => alts_go ar end end) alts with
                    | Some y => option_map (cons y) (items_go r)
                    | None => None end
                end) items)
      | _ => None end
  | PTuple ps =>
      match v with
      | VTuple _ items =>
          option_map (VTuple 0)
            ((fix go (l : list pat) (xs : list val) : option (list val) :=
                match l, xs with
                | [], [] => Some []
                | a :: ar, x :: r => match mres a x with Some y => option_map (cons y) (go ar r) | None => None end
                | _, _ => None end) ps items)
      | _ => None end
  | PDict es =>
      (* every target key, in the target's order, against the FIRST spec key that accepts it; its value against that entry's
         value pattern (no fall-through to later spec keys); then Optional defaults; every required spec key must have
         accepted some target key *)
      match v with
      | VDict _ _ items =>
          match (fix items_go (its : list (val * val)) (res : list (val * val)) (hit : list nat) : option (list (val * val) * list nat) :=
                   match its with
                   | [] => Some (res, hit)
                   | (k, x) :: r =>
                       match (fix keys_go (l : list (kpat * pat)) (i : nat) : option (option (nat * val)) :=
                                match l with
                                | [] => Some None
                                | (kp, vp) :: lr =>
                                    if kmatch kp k then match mres vp x with Some y => Some (Some (i, y)) | None => None end
                                    else keys_go lr (S i) end) es 0 with
                       | Some (Some (i, y)) => items_go r (kv_set k y res) (i :: hit)
                       | Some None => None          (* no spec key accepts this target key *)
                       | None => None end           (* the value does not conform *)
                   end) items [] [] with
          | Some (res, hit) => if kmissing es hit then None else Some (VDict 0 false (kdefaults es res))
          | None => None end
      | _ => None end
  end.

Definition keys_res (es : list (kpat * pat)) (k x : val) : nat -> option (option (nat * val)) :=
  (fix keys_go (l : list (kpat * pat)) (i : nat) : option (option (nat * val)) :=
     match l with
     | [] => Some None
     | (kp, vp) :: lr =>
         if kmatch kp k then match mres vp x with Some y => Some (Some (i, y)) | None => None end
         else keys_go lr (S i) end) es.
Definition ditems_res (es : list (kpat * pat)) : list (val * val) -> list (val * val) -> list nat -> option (list (val * val) * list nat) :=
  fix items_go (its : list (val * val)) (res : list (val * val)) (hit : list nat) : option (list (val * val) * list nat) :=
    match its with
    | [] => Some (res, hit)
    | (k, x) :: r =>
        match keys_res es k x 0 with
        | Some (Some (i, y)) => items_go r (kv_set k y res) (i :: hit)
        | Some None => None
        | None => None end
    end.

Definition first_alt (alts : list pat) (x : val) : option val :=
  (fix alts_go (l : list pat) : option val :=
     match l with [] => None | a :: ar => match mres a x with Some y => Some y | None => alts_go ar end end) alts.
Definition items_res (alts : list pat) (items : list val) : option (list val) :=
  (fix items_go (xs : list val) : option (list val) :=
     match xs with
     | [] => Some []
     | x :: r => match first_alt alts x with Some y => option_map (cons y) (items_go r) | None => None end end) items.
Definition tuple_res (ps : list pat) (items : list val) : option (list val) :=
  (fix go (l : list pat) (xs : list val) : option (list val) :=
     match l, xs with
     | [], [] => Some []
     | a :: ar, x :: r => match mres a x with Some y => option_map (cons y) (go ar r) | None => None end
     | _, _ => None end) ps items.

Definition is_match_error (e : exn) : Prop := ecls e = "MatchError" \/ ecls e = "TypeMatchError".
Lemma match_error_is_glom e : is_match_error e -> is_glom_error e = true.
Proof. intros [H|H]; unfold is_glom_error; rewrite H; vm_compute; reflexivity. Qed.

(* what "decides" means for one evaluation: the state is untouched; conforming -> the result, else a MatchError *)
Definition decides (m : M (val * frame)) (st : state) (expected : option val) : Prop :=
  match expected with
  | Some r => exists f, m st = (Ok (r, f), st)
  | None => exists e, m st = (Raise e, st) /\ is_match_error e end.

Section Decide.
Variable rec : recfn.
Variable sc : scope.

Lemma match_alts_decides alts x st :
  Forall (fun a => decides (rec sc x (to_spec a)) st (mres a x)) alts ->
  forall last, (match last with Some e => is_match_error e | None => True end) ->
  match first_alt alts x with
  | Some y => match_alts rec sc x (map to_spec alts) last st = (Ok y, st)
  | None => exists e, match_alts rec sc x (map to_spec alts) last st = (Raise e, st) /\ is_match_error e end.
Proof.
  induction alts as [|a ar IH]; intros HF last Hl; cbn [map match_alts first_alt].
  - destruct last as [e|]; [exists e; auto|]. eexists; split; [reflexivity|left; reflexivity].
  - inversion HF as [|? ? Ha Har]; subst. unfold decides in Ha. fold (first_alt ar x).
    destruct (mres a x) as [y|].
    + destruct Ha as [f Hf]. rewrite Hf. reflexivity.
    + destruct Ha as [e [He Hm]]. rewrite He. rewrite (match_error_is_glom e Hm). apply IH; auto.
Qed.

Lemma match_items_decides alts items st :
  (forall x, In x items -> Forall (fun a => decides (rec sc x (to_spec a)) st (mres a x)) alts) ->
  match items_res alts items with
  | Some ys => match_items rec sc items (map to_spec alts) st = (Ok ys, st)
  | None => exists e, match_items rec sc items (map to_spec alts) st = (Raise e, st) /\ is_match_error e end.
Proof.
  induction items as [|x r IH]; intro H; cbn [match_items items_res]; [reflexivity|]. fold (items_res alts r).
  pose proof (match_alts_decides alts x st (H x (or_introl eq_refl)) None I) as A.
  unfold bindM. destruct (first_alt alts x) as [y|].
  - rewrite A. specialize (IH (fun x' Hx' => H x' (or_intror Hx'))).
    destruct (items_res alts r) as [ys|]; cbn [option_map].
    + rewrite IH. reflexivity.
    + destruct IH as [e [He Hm]]. rewrite He. exists e. auto.
  - destruct A as [e [He Hm]]. rewrite He. exists e. auto.
Qed.

Lemma match_tuple_decides : forall ps items st,
  (forall a x, In (a, x) (combine ps items) -> decides (rec sc x (to_spec a)) st (mres a x)) ->
  match tuple_res ps items with
  | Some ys => match_tuple rec sc items (map to_spec ps) st = (Ok ys, st)
  | None => exists e, match_tuple rec sc items (map to_spec ps) st = (Raise e, st) /\ is_match_error e end.
Proof.
  induction ps as [|a ar IH]; intros [|x r] st H; cbn [map match_tuple tuple_res]; try reflexivity;
    try (eexists; split; [reflexivity|left; reflexivity]).
  fold (tuple_res ar r). pose proof (H a x (or_introl eq_refl)) as Ha. unfold decides in Ha. unfold bindM.
  destruct (mres a x) as [y|].
  - destruct Ha as [f Hf]. rewrite Hf. specialize (IH r st (fun a' x' Hin => H a' x' (or_intror Hin))).
    destruct (tuple_res ar r) as [ys|]; cbn [option_map].
    + rewrite IH. reflexivity.
    + destruct IH as [e [He Hm]]. rewrite He. exists e. auto.
  - destruct Ha as [e [He Hm]]. rewrite He. exists e. auto.
Qed.
End Decide.

(* induction principle for patterns *)
Fixpoint pat_ind' (P : pat -> Prop)
  (HL : forall v, P (PLit v)) (HT : forall ty, P (PType ty))
  (HLi : forall alts, Forall P alts -> P (PList alts)) (HTu : forall ps, Forall P ps -> P (PTuple ps))
  (HD : forall es, Forall P (map snd es) -> P (PDict es)) (p : pat) : P p :=
  let go := fix go (l : list pat) : Forall P l :=
      match l with [] => Forall_nil _ | k :: r => Forall_cons _ (pat_ind' P HL HT HLi HTu HD k) (go r) end in
  match p with
  | PLit v => HL v | PType ty => HT ty
  | PList alts => HLi alts (go alts)
  | PTuple ps => HTu ps (go ps)
  | PDict es => HD es ((fix god (l : list (kpat * pat)) : Forall P (map snd l) :=
                          match l with [] => Forall_nil _ | kp :: r => Forall_cons _ (pat_ind' P HL HT HLi HTu HD (snd kp)) (god r) end) es) end.

Lemma fold_max_le (l : list pat) a : In a l -> pdepth a <= fold_right (fun a acc => Nat.max (pdepth a) acc) 0 l.
Proof. induction l as [|b r IH]; intros []; cbn [fold_right]; [subst; lia|specialize (IH H); lia]. Qed.

Lemma fold_max_le_snd (l : list (kpat * pat)) kp : In kp l -> pdepth (snd kp) <= fold_right (fun kp acc => Nat.max (pdepth (snd kp)) acc) 0 l.
Proof. induction l as [|b r IH]; intros []; cbn [fold_right]; [subst; lia|specialize (IH H); lia]. Qed.

(* all dict keys occurring in a value are hashable (true of every Python dict) *)
Fixpoint keys_hashable (v : val) : bool :=
  match v with
  | VList _ xs | VTuple _ xs => (fix go (l : list val) := match l with [] => true | x :: r => keys_hashable x && go r end) xs
  | VDict _ _ kvs => (fix go (l : list (val * val)) := match l with [] => true | (k, x) :: r => hashable k && keys_hashable x && go r end) kvs
  | _ => true end.
Definition list_kh (l : list val) : bool := (fix go (l : list val) := match l with [] => true | x :: r => keys_hashable x && go r end) l.
Definition kvs_kh (l : list (val * val)) : bool :=
  (fix go (l : list (val * val)) := match l with [] => true | (k, x) :: r => hashable k && keys_hashable x && go r end) l.
Lemma list_kh_in l x : list_kh l = true -> In x l -> keys_hashable x = true.
Proof.
  induction l as [|y r IH]; intros H []; cbn in H; apply andb_prop in H; destruct H as [H1 H2]; [subst; exact H1|apply IH; assumption].
Qed.

(* ---------- dict patterns ---------- *)
Section DictDecide.
Variable fixed : bool.
Variable fuel : nat.
Let rec := glom_ fixed (S fuel).
Variable own : frame.
Variable sc : scope.
Hypothesis Hown_mode : fmode own = MATCH.
Hypothesis Hown_arg : farg own = false.

(* one spec key against one target key: accepted (the key itself, in a match-mode non-argument frame) or rejected with a MatchError *)
Lemma key_decides kp key st :
  if kmatch kp key
  then exists child, rec (own :: sc) key (spec_key (kspec kp)) st = (Ok (key, child), st) /\ fmode child = MATCH /\ farg child = false
  else exists e, rec (own :: sc) key (spec_key (kspec kp)) st = (Raise e, st) /\ is_match_error e.
Proof.
  unfold rec. cbn [glom_]. unfold glom_body. cbn [head_mode head_arg]. rewrite Hown_mode, Hown_arg.
  destruct kp as [v|ty|ty|v d]; cbn [kspec spec_key kmatch]; cbv zeta; cbn [farg fmode set_arg].
  - destruct (py_eqb key v); [eexists; repeat split; reflexivity|eexists; split; [reflexivity|left; reflexivity]].
  - destruct (isinstance key ty); [eexists; repeat split; reflexivity|eexists; split; [reflexivity|right; reflexivity]].
  - destruct (isinstance key ty); [eexists; repeat split; reflexivity|eexists; split; [reflexivity|right; reflexivity]].
  - destruct (py_eqb key v); [eexists; repeat split; reflexivity|eexists; split; [reflexivity|left; reflexivity]].
Qed.

Definition conv (kp : kpat * pat) : spec * spec := (kspec (fst kp), to_spec (snd kp)).

(* the scope the value spec runs in: chained after the key *)
Definition chained (child : frame) : scope :=
  if fixed then set_head_mode (fmode own) (child :: own :: sc) else child :: own :: sc.
Lemma chained_match child : fmode child = MATCH -> farg child = false -> head_mode (chained child) = MATCH /\ head_arg (chained child) = false.
Proof. intros H1 H2. unfold chained. destruct fixed; cbn; rewrite ?Hown_mode; auto. Qed.

Variable es0 : list (kpat * pat).
(* induction hypothesis of the main theorem: every value pattern decides, in every match-mode scope *)
Hypothesis value_decides : forall vp, In vp (map snd es0) -> forall sc' x st,
  keys_hashable x = true -> head_mode sc' = MATCH -> head_arg sc' = false -> decides (rec sc' x (to_spec vp)) st (mres vp x).

Lemma key_loop_decides k x st : keys_hashable x = true -> forall l i, incl (map snd l) (map snd es0) ->
  match keys_res l k x i with
  | Some (Some (j, y)) => match_key_loop fixed rec own sc k x (map conv l) i st = (Ok (Some (j, k, y)), st)
  | Some None => match_key_loop fixed rec own sc k x (map conv l) i st = (Ok None, st)
  | None => exists e, match_key_loop fixed rec own sc k x (map conv l) i st = (Raise e, st) /\ is_match_error e end.
Proof.
  intros Hx. induction l as [|[kp vp] r IH]; intros i Hin; cbn [map match_key_loop keys_res conv fst snd]; [reflexivity|].
  fold (keys_res r k x). pose proof (key_decides kp k st) as K. destruct (kmatch kp k).
  - destruct K as [child [Hk [Hm Ha]]]. rewrite Hk. destruct (chained_match child Hm Ha) as [C1 C2].
    pose proof (value_decides vp (Hin vp (or_introl eq_refl)) (chained child) x st Hx C1 C2) as D.
    unfold decides in D. unfold chained in D. unfold bindM.
    destruct (mres vp x) as [y|].
    + destruct D as [f Hf]. rewrite Hf. reflexivity.
    + destruct D as [e [He Hme]]. rewrite He. exists e. auto.
  - destruct K as [e [He Hme]]. rewrite He, (match_error_is_glom e Hme). apply IH.
    intros a Ha. apply Hin. right. exact Ha.
Qed.

Lemma dict_items_decides st : forall items res hit, kvs_kh items = true ->
  match ditems_res es0 items res hit with
  | Some (res', hit') => match_dict_items fixed rec own sc items (map conv es0) res hit st = (Ok (res', hit'), st)
  | None => exists e, match_dict_items fixed rec own sc items (map conv es0) res hit st = (Raise e, st) /\ is_match_error e end.
Proof.
  induction items as [|[k x] r IH]; intros res hit Hk; cbn [match_dict_items ditems_res]; [reflexivity|].
  fold (ditems_res es0). cbn [kvs_kh] in Hk. fold (kvs_kh r) in Hk.
  apply andb_prop in Hk. destruct Hk as [Hk Hr]. apply andb_prop in Hk. destruct Hk as [Hhk Hx].
  pose proof (key_loop_decides k x st Hx es0 0 (incl_refl _)) as K. unfold bindM.
  destruct (keys_res es0 k x 0) as [[[j y]|]|].
  - rewrite K. rewrite Hhk. apply IH. exact Hr.
  - rewrite K. eexists. split; [reflexivity|left; reflexivity].
  - destruct K as [e [He Hme]]. rewrite He. exists e. auto.
Qed.

Lemma defaults_decides t st : forall l res,
  optional_defaults rec own sc t (map conv l) res st = (Ok (kdefaults l res), st).
Proof.
  induction l as [|[kp vp] r IH]; intros res; cbn [map optional_defaults kdefaults conv fst snd]; [reflexivity|].
  destruct kp as [v|ty|ty|v [d|]]; cbn [kspec option_map]; try apply IH.
  destruct (kv_lookup py_eqb v res); [apply IH|].
  unfold bindM, arg_val_i, rec. cbn [glom_]. unfold glom_body. cbn [head_mode head_arg set_arg farg]. cbv zeta. cbn [farg].
  unfold bindM, ret. apply IH.
Qed.

Lemma missing_agrees hit : forall l n,
  existsb (fun ik => is_required (fst (snd ik)) && negb (existsb (Nat.eqb (fst ik)) hit)) (combine (seq n (length (map conv l))) (map conv l))
  = existsb (fun ik => krequired (fst (snd ik)) && negb (existsb (Nat.eqb (fst ik)) hit)) (combine (seq n (length l)) l).
Proof.
  induction l as [|[kp vp] r IH]; intros n; cbn [map length seq combine existsb conv fst snd]; [reflexivity|].
  rewrite IH. f_equal. destruct kp; reflexivity.
Qed.
End DictDecide.

(* Match mode decides conformance: for every pattern of the fragment, every target, every scope in match mode and any
   sufficient fuel, the evaluation leaves the state untouched and returns the conforming value, or raises a
   MatchError / TypeMatchError *)
Theorem match_decides_lemma fixed : forall p fuel sc v st,
  pdepth p < fuel -> keys_hashable v = true -> head_mode sc = MATCH -> head_arg sc = false ->
  decides (glom_ fixed fuel sc v (to_spec p)) st (mres p v).
Proof.
  induction p as [c|ty|alts IH|ps IH|es IH] using pat_ind'; intros fuel sc v st Hf Hkh Hm Ha;
    (destruct fuel as [|fuel]; [lia|]); cbn [glom_ to_spec]; unfold glom_body; rewrite Hm, Ha; cbv zeta; cbn [farg fmode].
  - cbn [mres]. destruct (py_eqb v c); [eexists; reflexivity|eexists; split; [reflexivity|left; reflexivity]].
  - cbn [mres]. destruct (isinstance v ty); [eexists; reflexivity|eexists; split; [reflexivity|right; reflexivity]].
  - destruct v; try (cbn [mres]; eexists; split; [reflexivity|right; reflexivity]).
    change (mres (PList alts) (VList id xs)) with (option_map (VList 0) (items_res alts xs)). set (own := mkFrame [] MATCH false []).
    pose proof (match_items_decides (glom_ fixed fuel) (own :: sc) alts xs st) as D.
    assert (HD : forall x, In x xs -> Forall (fun a => decides (glom_ fixed fuel (own :: sc) x (to_spec a)) st (mres a x)) alts).
    { intros x Hx. rewrite Forall_forall in *. intros a Hin. apply IH; [exact Hin| | |reflexivity|reflexivity].
      - cbn [pdepth] in Hf. pose proof (fold_max_le alts a Hin). lia.
      - exact (list_kh_in xs x Hkh Hx). }
    specialize (D HD). unfold decides, bindM. destruct (items_res alts xs) as [ys|]; cbn [option_map]; cbv beta iota.
    + rewrite D. eexists. reflexivity.
    + destruct D as [e [He Hme]]. rewrite He. exists e. auto.
  - destruct v; try (cbn [mres]; eexists; split; [reflexivity|right; reflexivity]).
    change (mres (PTuple ps) (VTuple id xs)) with (option_map (VTuple 0) (tuple_res ps xs)). set (own := mkFrame [] MATCH false []).
    destruct (Nat.eqb_spec (length xs) (length (map to_spec ps))) as [El|El].
    + pose proof (match_tuple_decides (glom_ fixed fuel) (own :: sc) ps xs st) as D.
      assert (HD : forall a x, In (a, x) (combine ps xs) -> decides (glom_ fixed fuel (own :: sc) x (to_spec a)) st (mres a x)).
      { intros a x Hin. pose proof (in_combine_r _ _ _ _ Hin) as Hx. apply in_combine_l in Hin. rewrite Forall_forall in IH.
        apply IH; [exact Hin| | |reflexivity|reflexivity].
        - cbn [pdepth] in Hf. pose proof (fold_max_le ps a Hin). lia.
        - exact (list_kh_in xs x Hkh Hx). }
      specialize (D HD). unfold decides, bindM. destruct (tuple_res ps xs) as [ys|]; cbn [option_map]; cbv beta iota.
      * rewrite D. eexists. reflexivity.
      * destruct D as [e [He Hme]]. rewrite He. exists e. auto.
    + (* different lengths: the positional rule cannot conform *)
      assert (N : tuple_res ps xs = None).
      { rewrite map_length in El. clear -El. revert xs El. induction ps as [|a ar IHp]; intros [|x r] El; cbn [tuple_res length] in *; try reflexivity; try lia.
        fold (tuple_res ar r). destruct (mres a x); [|reflexivity]. rewrite IHp by lia. reflexivity. }
      rewrite N. cbn [option_map]. unfold decides. cbv beta iota. eexists; split; [reflexivity|left; reflexivity].
  - (* dict patterns *)
    destruct v; try (cbn [mres]; eexists; split; [reflexivity|right; reflexivity]).
    change (mres (PDict es) (VDict id od kvs)) with
      (match ditems_res es kvs [] [] with
       | Some (res, hit) => if kmissing es hit then None else Some (VDict 0 false (kdefaults es res))
       | None => None end).
    set (own := mkFrame [] MATCH false []).
    destruct fuel as [|fuel]; [cbn [pdepth] in Hf; lia|].
    change (map (fun kp : kpat * pat => (kspec (fst kp), to_spec (snd kp))) es) with (map conv es).
    assert (HV : forall vp, In vp (map snd es) -> forall sc' x st',
               keys_hashable x = true -> head_mode sc' = MATCH -> head_arg sc' = false ->
               decides (glom_ fixed (S fuel) sc' x (to_spec vp)) st' (mres vp x)).
    { intros vp Hin sc' x st' Hx Hm' Ha'. rewrite Forall_forall in IH. apply IH; try assumption.
      apply in_map_iff in Hin. destruct Hin as [kp [<- Hkp]]. cbn [pdepth] in Hf. pose proof (fold_max_le_snd es kp Hkp). lia. }
    pose proof (dict_items_decides fixed fuel own sc eq_refl eq_refl es HV st kvs [] [] Hkh) as D.
    unfold decides, bindM.
    destruct (ditems_res es kvs [] []) as [[res hit]|].
    + rewrite D. rewrite (defaults_decides fixed fuel own sc (VDict id od kvs) st es res).
      rewrite (missing_agrees hit es 0). fold (kmissing es hit).
      destruct (kmissing es hit); [eexists; split; [reflexivity|left; reflexivity]|eexists; reflexivity].
    + destruct D as [e [He Hme]]. rewrite He. exists e. auto.
Qed.


(* match-dict: for one target key, the spec keys are tried in spec order; the FIRST one that accepts the key decides which
   value spec is applied (chained after the key); the keys before it were rejected with GlomErrors *)
Section KeyLoop.
Variable rec : recfn.
Inductive speckeys_rejected (own : frame) (sc : scope) (key : val) : list (spec * spec) -> state -> state -> Prop :=
| skr_nil st : speckeys_rejected own sc key [] st st
| skr_cons k v r st e st1 st2 :
    rec (own :: sc) key (spec_key k) st = (Raise e, st1) -> is_glom_error e = true -> speckeys_rejected own sc key r st1 st2 ->
    speckeys_rejected own sc key ((k, v) :: r) st st2.

Lemma match_key_first own sc key value pre k vs post : forall i st st1 key' child st2,
  speckeys_rejected own sc key pre st st1 -> rec (own :: sc) key (spec_key k) st1 = (Ok (key', child), st2) ->
  match_key_loop true rec own sc key value (pre ++ (k, vs) :: post) i st
  = (let! (v, _) := rec (set_mode (fmode own) child :: own :: sc) value vs in ret (Some (i + length pre, key', v))) st2.
Proof.
  induction pre as [|[k0 v0] r IH]; intros i st st1 key' child st2 H Hk; inversion H; subst; cbn [app match_key_loop length].
  - rewrite Hk. rewrite Nat.add_0_r. reflexivity.
  - match goal with H1 : rec (own :: sc) key (spec_key k0) st = _ |- _ => rewrite H1 end.
    match goal with H1 : is_glom_error _ = true |- _ => rewrite H1 end.
    rewrite (IH (S i) _ _ _ _ _ ltac:(eassumption) Hk). replace (S i + length r) with (i + S (length r)) by lia. reflexivity.
Qed.
Lemma match_key_none own sc key value es : forall i st st1,
  speckeys_rejected own sc key es st st1 -> match_key_loop true rec own sc key value es i st = (Ok None, st1).
Proof.
  induction es as [|[k v] r IH]; intros i st st1 H; inversion H; subst; cbn [match_key_loop]; [reflexivity|].
  match goal with H1 : rec (own :: sc) key (spec_key k) st = _ |- _ => rewrite H1 end.
  match goal with H1 : is_glom_error _ = true |- _ => rewrite H1 end. apply IH. assumption.
Qed.
End KeyLoop.

(* which spec keys are required: == constants unless Optional, everything else only under Required *)
Lemma required_rules k v ty s d :
  is_required (SStr k) = true /\ is_required (SLit v) = true /\ is_required (SType ty) = false /\
  is_required (SOptional v d) = false /\ is_required (SRequired s) = true /\ is_required SM = false.
Proof. repeat split; reflexivity. Qed.

Lemma match_error_lattice :
  exc_isa "MatchError" "GlomError" = true /\ exc_isa "TypeMatchError" "MatchError" = true /\
  exc_isa "TypeMatchError" "TypeError" = true /\ exc_isa "CheckError" "GlomError" = true.
Proof. vm_compute. auto. Qed.

(* comparisons of sets are inclusion tests: a PARTIAL order, where >= is not the negation of < *)
Lemma m_ge_sets_lemma : forall i f a j g b, m_compare "g" (VSet i f a) (VSet j g b) = Ok (set_subset b a).
Proof. reflexivity. Qed.
Lemma m_le_sets_lemma : forall i f a j g b, m_compare "l" (VSet i f a) (VSet j g b) = Ok (set_subset a b).
Proof. reflexivity. Qed.
Lemma m_lt_sets_lemma : forall i f a j g b, m_compare "<" (VSet i f a) (VSet j g b) = Ok (set_subset a b && negb (set_subset b a)).
Proof. reflexivity. Qed.
(* on the totally ordered operands (numbers with numbers, strings with strings) >= IS the negation of < *)
Lemma m_ge_total_lemma : forall a b x, m_compare "<" a b = Ok x ->
  (match a, b with VSet _ _ _, VSet _ _ _ => False | _, _ => True end) -> m_compare "g" a b = Ok (negb x).
Proof.
  intros a b x H Hn. cbn in H |- *. unfold py_lt in H. unfold py_le.
  destruct (as_num a) as [p|] eqn:Ea; destruct (as_num b) as [q|] eqn:Eb.
  - injection H as <-. f_equal. rewrite Z.leb_antisym. reflexivity.
  - destruct a, b; try discriminate; cbn in *; try contradiction;
      repeat match goal with H : (if ?c then _ else _) = Ok _ |- _ => destruct c; try discriminate end.
  - destruct a, b; try discriminate; cbn in *; try contradiction;
      repeat match goal with H : (if ?c then _ else _) = Ok _ |- _ => destruct c; try discriminate end.
  - destruct a, b; try discriminate; cbn in *; try contradiction;
      repeat match goal with H : (if ?c then _ else _) = Ok _ |- _ => destruct c; try discriminate end.
    injection H as <-. f_equal. rewrite String.compare_antisym. destruct (String.compare _ _); reflexivity.
Qed.
