(* Proofs/MutateProofs.v — C11 / C12: the lens laws of assign, the frame conditions, creation of missing segments,
   delete = Python's del. *)
From Coq Require Import String ZArith Bool List Lia.
From Glom Require Import Base.PyVal Base.Heap Model.Wild Model.Mutate.
Import ListNotations.
Local Open Scope string_scope.
Local Open Scope list_scope.

(* ---------- set_nth / put ---------- *)
Lemma set_nth_length {A} (l : list A) : forall i x, length (set_nth i x l) = length l.
Proof. unfold set_nth. induction l as [|y r IH]; intros [|i] x; cbn; auto. Qed.
Lemma set_nth_same {A} (l : list A) : forall i x, i < length l -> nth_error (set_nth i x l) i = Some x.
Proof. unfold set_nth. induction l as [|y r IH]; intros [|i] x H; cbn in *; try lia; [reflexivity|apply IH; lia]. Qed.
Lemma set_nth_other {A} (l : list A) : forall i j x, i <> j -> nth_error (set_nth i x l) j = nth_error l j.
Proof. unfold set_nth. induction l as [|y r IH]; intros [|i] [|j] x H; cbn; try reflexivity; try congruence. apply IH; congruence. Qed.

Lemma put_length h l n : length (put h l n) = length h.
Proof. apply set_nth_length. Qed.
Lemma put_same h l n : l < length h -> node_at (put h l n) l = Some n.
Proof. apply set_nth_same. Qed.
Lemma put_other h l l' n : l <> l' -> node_at (put h l n) l' = node_at h l'.
Proof. apply set_nth_other. Qed.
Lemma node_at_lt h l n : node_at h l = Some n -> l < length h.
Proof. intro H. apply nth_error_Some. unfold node_at in H. congruence. Qed.

(* ---------- association lists ---------- *)
Lemma atom_eqb_refl a : atom_eqb a a = true.
Proof. destruct a as [|[|]|z|s]; cbn -[Z.eqb]; auto using Z.eqb_refl, String.eqb_refl. Qed.
Lemma akv_lookup_set_same {B} k (v : B) l : akv_lookup k (akv_set k v l) = Some v.
Proof. induction l as [|[k' v'] r IH]; cbn; [rewrite atom_eqb_refl; reflexivity|].
  destruct (atom_eqb k k') eqn:E; cbn; rewrite E; [reflexivity|exact IH]. Qed.
Lemma atom_eqb_sym a b : atom_eqb a b = atom_eqb b a.
Proof. destruct a as [|[|]|x|s], b as [|[|]|y|u]; cbn -[Z.eqb]; try reflexivity; try apply Z.eqb_sym; try apply String.eqb_sym. Qed.
Lemma atom_eqb_trans a b c : atom_eqb a b = true -> atom_eqb b c = true -> atom_eqb a c = true.
Proof.
  destruct a as [|[|]|x|s], b as [|[|]|y|u], c as [|[|]|z|w]; cbn -[Z.eqb]; try congruence;
    rewrite ?Z.eqb_eq, ?String.eqb_eq; try congruence; try lia.
Qed.
Lemma akv_lookup_set_other {B} k k2 (v : B) l : atom_eqb k2 k = false -> akv_lookup k2 (akv_set k v l) = akv_lookup k2 l.
Proof.
  intro N. induction l as [|[k' v'] r IH]; cbn; [rewrite N; reflexivity|].
  destruct (atom_eqb k k') eqn:E; cbn.
  - destruct (atom_eqb k2 k') eqn:E2; [|reflexivity].
    exfalso. rewrite atom_eqb_sym in E. rewrite (atom_eqb_trans k2 k' k E2 E) in N. discriminate.
  - destruct (atom_eqb k2 k'); auto.
Qed.
Lemma sassoc_set_same {B} k (v : B) l : str_assoc k (sattr_set k v l) = Some v.
Proof. induction l as [|[k' v'] r IH]; cbn; [rewrite String.eqb_refl; reflexivity|].
  destruct (String.eqb k k') eqn:E; cbn; rewrite E; [reflexivity|exact IH]. Qed.
Lemma sassoc_set_other {B} k k2 (v : B) l : k2 <> k -> str_assoc k2 (sattr_set k v l) = str_assoc k2 l.
Proof.
  intro N. induction l as [|[k' v'] r IH]; cbn.
  - destruct (String.eqb_spec k2 k); [contradiction|reflexivity].
  - destruct (String.eqb_spec k k'); cbn.
    + subst k'. destruct (String.eqb_spec k2 k); [contradiction|reflexivity].
    + destruct (String.eqb k2 k'); auto.
Qed.
(* ---------- _assign_op: frame and get-after-set at the destination ---------- *)
Lemma assign_op_frame h dest final v h' :
  assign_op h dest final v = Ok h' ->
  exists l, dest = GR l /\ length h' = length h /\ forall l', l' <> l -> node_at h' l' = node_at h l'.
Proof.
  intro H. destruct dest as [a|l]; [destruct final; cbn in H; discriminate|]. exists l. split; [reflexivity|].
  assert (P : forall n, h' = put h l n -> length h' = length h /\ forall l', l' <> l -> node_at h' l' = node_at h l').
  { intros n ->. split; [apply put_length|intros l' N; apply put_other; congruence]. }
  destruct final as [a|a|n| |]; cbn [assign_op assign_handler setitem setattr] in H; try discriminate;
    destruct (node_at h l) as [[od kvs|xs|xs|cls attrs]|] eqn:El; try discriminate.
  - injection H as <-. eapply P; reflexivity.
  - destruct (atom_int a); try discriminate. destruct (norm_index _ _); try discriminate. injection H as <-. eapply P; reflexivity.
  - destruct a; try discriminate. cbn [setattr] in H. rewrite ?El in H.
    destruct (setattr_raises cls); [discriminate|]. injection H as <-. eapply P; reflexivity.
  - injection H as <-. eapply P; reflexivity.
  - destruct a; try discriminate; destruct (atom_int _); try discriminate; destruct (norm_index _ _); try discriminate;
      injection H as <-; eapply P; reflexivity.
  - destruct od; [discriminate|discriminate].
  - destruct (setattr_raises cls); [discriminate|]. injection H as <-. eapply P; reflexivity.
Qed.

(* reading the addressed slot back at the destination yields the assigned value *)
Lemma norm_index_seq {A} (xs : list A) z i : norm_index (length xs) z = Some i -> forall v,
  seq_index (set_nth i v xs) z = Some v /\ i < length xs.
Proof.
  unfold norm_index, seq_index. intros H v. rewrite set_nth_length.
  destruct ((0 <=? z)%Z && (z <? Z.of_nat (length xs))%Z) eqn:E1.
  - injection H as <-. assert (Z.to_nat z < length xs) by lia. split; [apply set_nth_same; assumption|assumption].
  - destruct ((z <? 0)%Z && (- Z.of_nat (length xs) <=? z)%Z) eqn:E2; [|discriminate].
    injection H as <-. assert (Z.to_nat (Z.of_nat (length xs) + z) < length xs) by lia. split; [apply set_nth_same; assumption|assumption].
Qed.

Definition final_ok (final : mseg) : Prop := match final with MAttr n => safe_attr n = true | _ => True end.

Lemma get_after_assign_op h dest final v h' :
  final_ok final -> assign_op h dest final v = Ok h' -> mstep h' dest final = Ok v.
Proof.
  intros Hfin H. destruct dest as [a|l]; [destruct final; cbn in H; discriminate|].
  destruct final as [a|a|n| |]; cbn [assign_op assign_handler setitem setattr] in H; try discriminate;
    destruct (node_at h l) as [[od kvs|xs|xs|cls attrs]|] eqn:El; try discriminate;
    pose proof (node_at_lt _ _ _ El) as Hl.
  - injection H as <-. cbn [mstep hget]. rewrite put_same by exact Hl. rewrite akv_lookup_set_same. reflexivity.
  - destruct (atom_int a) as [z|c] eqn:Ea; try discriminate. destruct (norm_index _ _) as [i|] eqn:En; try discriminate.
    injection H as <-. cbn [mstep hget]. rewrite put_same by exact Hl. rewrite Ea.
    rewrite (proj1 (norm_index_seq xs z i En v)). reflexivity.
  - destruct a as [| | |s]; try discriminate. cbn [setattr] in H. rewrite ?El in H.
    destruct (setattr_raises cls); [discriminate|]. injection H as <-.
    cbn [mstep hget]. rewrite put_same by exact Hl. rewrite sassoc_set_same. reflexivity.
  - injection H as <-. cbn [mstep]. rewrite put_same by exact Hl. rewrite akv_lookup_set_same. reflexivity.
  - destruct a as [|b|z0|s]; try discriminate; destruct (atom_int _) as [z|c] eqn:Ea; try discriminate;
      destruct (norm_index _ _) as [i|] eqn:En; try discriminate; injection H as <-;
      cbn [mstep]; rewrite put_same by exact Hl; rewrite Ea; rewrite (proj1 (norm_index_seq xs z i En v)); reflexivity.
  - destruct od; discriminate.
  - destruct (setattr_raises cls) eqn:Es; [discriminate|]. injection H as <-.
    cbn [mstep]. cbn [final_ok] in Hfin. rewrite Hfin. cbn [negb].
    rewrite put_same by exact Hl. rewrite sassoc_set_same. reflexivity.
Qed.

(* ---------- assign without missing=: atomic, one cell, parent unchanged elsewhere ---------- *)
Lemma dests_plain h segs t : has_wild segs = false ->
  dests h segs t = match mpath h segs 0 t with Ok d => Ok [d] | Raise e => Raise e | Unmodelled u => Unmodelled u | OutOfFuel => OutOfFuel end.
Proof. intro H. unfold dests. rewrite H. reflexivity. Qed.

Lemma assign_each_single h d final v : assign_each h [d] final v = assign_op h d final v.
Proof. cbn [assign_each]. destruct (assign_op h d final v); reflexivity. Qed.

Definition agree_except (n0 : nat) (l : nat) (h h' : heap) : Prop :=
  forall l', l' < n0 -> l' <> l -> node_at h' l' = node_at h l'.

(* ---------- missing=: the absent tail is built in fresh cells only ---------- *)
Definition empty_node (n : gnode) : Prop :=
  n = NDict false [] \/ n = NList [] \/ exists c, n = NObj c [].

Lemma seq_index_nil {A} z : @seq_index A [] z = None.
Proof. unfold seq_index. cbn [length Z.of_nat]. destruct ((0 <=? z)%Z && (z <? 0)%Z) eqn:E1; [lia|]. destruct ((z <? 0)%Z && (- 0 <=? z)%Z) eqn:E2; [lia|reflexivity]. Qed.

Lemma mstep_empty h lt n s : node_at h lt = Some n -> empty_node n -> forall v, mstep h (GR lt) s <> Ok v.
Proof.
  intros Hn He v. destruct He as [->|[->|[c ->]]]; destruct s as [a|a|nm| |]; cbn [mstep hget]; rewrite ?Hn; cbn [akv_lookup str_assoc]; try discriminate.
  all: repeat match goal with
       | |- context [@seq_index ?A [] ?z] => rewrite (@seq_index_nil A z)
       | |- context [match ?x with _ => _ end] => destruct x
       | |- context [if ?x then _ else _] => destruct x end; discriminate.
Qed.

Lemma mpath_empty h lt n s r : node_at h lt = Some n -> empty_node n ->
  match mpath h (s :: r) 0 (GR lt) with
  | Ok _ => False
  | Raise e => ecls e = "PathAccessError" /\ eidx e = 0
  | _ => True end.
Proof.
  intros Hn He. cbn [mpath]. pose proof (mstep_empty h lt n s Hn He) as M.
  destruct (mstep h (GR lt) s) as [v|e|u|]; auto. exfalso. apply (M v). reflexivity.
Qed.

Lemma make_spec f h h1 fresh : make f h = Ok (h1, fresh) ->
  fresh = GR (length h) /\ length h1 = S (length h) /\ (forall l, l < length h -> node_at h1 l = node_at h l) /\
  exists n, node_at h1 (length h) = Some n /\ empty_node n.
Proof.
  destruct f; cbn [make]; try discriminate; intro H; injection H as <- <-;
    (split; [reflexivity|]; split; [rewrite app_length; cbn; lia|]; split;
     [intros l Hl; unfold node_at; apply nth_error_app1; exact Hl|]);
    eexists; (split; [unfold node_at; rewrite nth_error_app2 by lia; rewrite Nat.sub_diag; reflexivity|]);
    unfold empty_node; eauto.
Qed.

(* assigning into an empty fresh container touches that cell and newer ones only *)
Lemma assign_into_empty : forall fuel h lt n path v f h' k,
  node_at h lt = Some n -> empty_node n -> has_wild path = false ->
  assign_ fuel h (GR lt) path v (Some f) = Ok (h', k) ->
  agree_except (length h) lt h h' /\ length h' = length h + k.
Proof.
  induction fuel as [|fuel IH]; intros h lt n path v f h' k Hn He Hw H; [discriminate|].
  cbn [assign_] in H. destruct (split_last path) as [[parent final]|] eqn:Es; [|discriminate].
  assert (Hwp : has_wild parent = false).
  { unfold split_last in Es. destruct (rev path) as [|x r] eqn:Er; [discriminate|]. injection Es as <- <-.
    assert (path = rev r ++ [x]) by (rewrite <- (rev_involutive path), Er; reflexivity). subst path.
    unfold has_wild in *. rewrite existsb_app in Hw. apply orb_false_iff in Hw. tauto. }
  rewrite (dests_plain _ _ _ Hwp) in H.
  destruct parent as [|s r].
  - (* the final segment is applied to the fresh container itself *)
    cbn [mpath] in H. rewrite assign_each_single in H.
    destruct (assign_op h (GR lt) final v) as [h2| | |] eqn:Ea; try discriminate. injection H as <- <-.
    destruct (assign_op_frame _ _ _ _ _ Ea) as [l [El [Hlen Hfr]]]. injection El as <-.
    split; [intros l' _ Hne; apply Hfr; exact Hne|lia].
  - pose proof (mpath_empty h lt n s r Hn He) as P.
    destruct (mpath h (s :: r) 0 (GR lt)) as [d|e|u|] eqn:Em; try contradiction; try discriminate.
    destruct P as [Pc Pi]. rewrite Pc in H. cbn [String.eqb] in H.
    replace (ecls e =? "PathAccessError") with true in H by (rewrite Pc; reflexivity).
    rewrite Pi in H.
    destruct (make f h) as [[h1 fresh]| | |] eqn:Emk; try discriminate.
    destruct (make_spec _ _ _ _ Emk) as (-> & Hl1 & Hag1 & n1 & Hn1 & He1).
    destruct (assign_ fuel h1 (GR (length h)) (skipn 1 path) v (Some f)) as [[h2 k2]| | |] eqn:Ein; try discriminate.
    assert (Hw2 : has_wild (skipn 1 path) = false).
    { unfold has_wild in *. destruct path; [reflexivity|]. cbn [skipn]. cbn [existsb] in Hw. apply orb_false_iff in Hw. tauto. }
    destruct (IH _ _ _ _ _ _ _ _ Hn1 He1 Hw2 Ein) as [Hag2 Hlen2].
    destruct (nth_error path 0) as [seg|] eqn:Eseg; [|discriminate].
    cbn [firstn] in H. unfold dests in H. cbn [has_wild existsb mpath] in H. rewrite assign_each_single in H.
    destruct (assign_op h2 (GR lt) seg (GR (length h))) as [h3| | |] eqn:Ea; try discriminate. injection H as <- <-.
    destruct (assign_op_frame _ _ _ _ _ Ea) as [l [El [Hlen3 Hfr]]]. injection El as <-.
    split; [|lia].
    intros l' Hl' Hne. rewrite (Hfr l' Hne). rewrite (Hag2 l'); [apply Hag1; exact Hl'|lia|lia].
Qed.

(* the whole assign on a wildcard-free path: at most one ORIGINAL cell changes, and the number of cells created equals the
   number of factory calls *)
Theorem assign_one_cell_lemma h t path v missing h' k :
  has_wild path = false -> assign h t path v missing = Ok (h', k) ->
  (exists l, agree_except (length h) l h h') /\ length h' = length h + k.
Proof.
  unfold assign. intros Hw H. cbn [assign_] in H.
  destruct (split_last path) as [[parent final]|] eqn:Es; [|discriminate].
  assert (Hwp : has_wild parent = false).
  { unfold split_last in Es. destruct (rev path) as [|x r] eqn:Er; [discriminate|]. injection Es as <- <-.
    assert (path = rev r ++ [x]) by (rewrite <- (rev_involutive path), Er; reflexivity). subst path.
    unfold has_wild in *. rewrite existsb_app in Hw. apply orb_false_iff in Hw. tauto. }
  rewrite (dests_plain _ _ _ Hwp) in H.
  destruct (mpath h parent 0 t) as [d|e|u|] eqn:Em; try discriminate.
  - rewrite assign_each_single in H. destruct (assign_op h d final v) as [h2| | |] eqn:Ea; try discriminate.
    injection H as <- <-. destruct (assign_op_frame _ _ _ _ _ Ea) as [l [El [Hlen Hfr]]].
    split; [exists l; intros l' _ Hne; apply Hfr; exact Hne|lia].
  - destruct (ecls e =? "PathAccessError"); [|discriminate]. destruct missing as [f|]; [|discriminate].
    destruct (make f h) as [[h1 fresh]| | |] eqn:Emk; try discriminate.
    destruct (make_spec _ _ _ _ Emk) as (-> & Hl1 & Hag1 & n1 & Hn1 & He1).
    destruct (assign_ (length path) h1 (GR (length h)) (skipn (S (eidx e)) path) v (Some f)) as [[h2 k2]| | |] eqn:Ein; try discriminate.
    assert (Hw2 : has_wild (skipn (S (eidx e)) path) = false).
    { unfold has_wild in *. rewrite <- (firstn_skipn (S (eidx e)) path) in Hw. rewrite existsb_app in Hw. apply orb_false_iff in Hw. tauto. }
    destruct (assign_into_empty _ _ _ _ _ _ _ _ _ Hn1 He1 Hw2 Ein) as [Hag2 Hlen2].
    destruct (nth_error path (eidx e)) as [seg|] eqn:Eseg; [|discriminate].
    assert (Hw3 : has_wild (firstn (eidx e) path) = false).
    { unfold has_wild in *. rewrite <- (firstn_skipn (eidx e) path) in Hw. rewrite existsb_app in Hw. apply orb_false_iff in Hw. tauto. }
    rewrite (dests_plain _ _ _ Hw3) in H.
    destruct (mpath h2 (firstn (eidx e) path) 0 t) as [d| | |]; try discriminate.
    rewrite assign_each_single in H. destruct (assign_op h2 d seg (GR (length h))) as [h3| | |] eqn:Ea; try discriminate.
    injection H as <- <-. destruct (assign_op_frame _ _ _ _ _ Ea) as [l [El [Hlen3 Hfr]]].
    split; [|lia]. exists l. intros l' Hl' Hne. rewrite (Hfr l' Hne). rewrite (Hag2 l'); [apply Hag1; exact Hl'|lia|lia].
Qed.

(* atomicity: a failing assign returns no heap at all; in state-passing form the state is the original one *)
Definition assign_st (h : heap) t path v missing : heap * bool :=
  match assign h t path v missing with Ok (h', _) => (h', true) | _ => (h, false) end.
Lemma assign_atomic_lemma h t path v missing : snd (assign_st h t path v missing) = false -> fst (assign_st h t path v missing) = h.
Proof. unfold assign_st. destruct (assign h t path v missing) as [[h' k]| | |]; cbn; congruence. Qed.

(* ---------- delete ---------- *)
Lemma del_one_frame h dest final ign h' :
  del_one h dest final ign = Ok h' ->
  h' = h \/ exists l, dest = GR l /\ length h' = length h /\ forall l', l' <> l -> node_at h' l' = node_at h l'.
Proof.
  intro H.
  assert (P : forall l n, h' = put h l n -> length h' = length h /\ forall l', l' <> l -> node_at h' l' = node_at h l').
  { intros l n ->. split; [apply put_length|intros l' N; apply put_other; congruence]. }
  assert (HD : forall (r : res heap) caught,
             (match r with
              | Raise e => if existsb (String.eqb "Exception") caught || existsb (String.eqb (ecls e)) caught
                           then (if ign then Ok h else Raise path_delete_error) else Raise e
              | _ => r end) = Ok h' -> h' = h \/ r = Ok h').
  { intros r caught Hr. destruct r as [x|e|u|]; try discriminate; [right; exact Hr|].
    destruct (_ || _); [|discriminate]. destruct ign; [left; congruence|discriminate]. }
  destruct dest as [a|l].
  - destruct final; cbn in H; try discriminate; destruct ign; try discriminate; left; congruence.
  - destruct final as [a|a|n| |]; cbn [del_one] in H; try discriminate.
    + destruct (node_at h l) as [[od kvs|xs|xs|cls attrs]|] eqn:El; try discriminate; apply HD in H; destruct H as [H|H]; auto;
        right; exists l; (split; [reflexivity|]); cbn [delitem delattr_] in H; rewrite ?El in H.
      * destruct (akv_lookup a kvs); [|discriminate]. injection H as <-. eapply P; reflexivity.
      * destruct (atom_int a); try discriminate. destruct (norm_index _ _); try discriminate. injection H as <-. eapply P; reflexivity.
      * destruct a; try discriminate. cbn [delattr_] in H. rewrite ?El in H. destruct (delattr_raises cls); [discriminate|].
        destruct (str_assoc s attrs); [|discriminate]. injection H as <-. eapply P; reflexivity.
    + apply HD in H. destruct H as [H|H]; auto. right. exists l. split; [reflexivity|].
      cbn [delitem] in H. destruct (node_at h l) as [[od kvs|xs|xs|cls attrs]|] eqn:El; try discriminate.
      * destruct (akv_lookup a kvs); [|discriminate]. injection H as <-. eapply P; reflexivity.
      * destruct a; try discriminate; destruct (atom_int _); try discriminate; destruct (norm_index _ _); try discriminate;
          injection H as <-; eapply P; reflexivity.
    + apply HD in H. destruct H as [H|H]; auto. right. exists l. split; [reflexivity|].
      cbn [delattr_] in H. destruct (node_at h l) as [[od kvs|xs|xs|cls attrs]|] eqn:El; try discriminate.
      destruct (delattr_raises cls); [discriminate|]. destruct (str_assoc n attrs); [|discriminate]. injection H as <-. eapply P; reflexivity.
Qed.

(* a missing final dict key: PathDeleteError, or silently nothing with ignore_missing *)
Lemma delete_missing_key h l od kvs a ign :
  node_at h l = Some (NDict od kvs) -> akv_lookup a kvs = None ->
  del_one h (GR l) (MP a) ign = (if ign then Ok h else Raise path_delete_error) /\
  del_one h (GR l) (MIdx a) ign = (if ign then Ok h else Raise path_delete_error).
Proof. intros Hn Hk. cbn [del_one delitem]. rewrite Hn, Hk. cbn. split; reflexivity. Qed.

(* a present dict key: exactly that entry disappears, the order of the others is kept *)
Lemma delete_present_key h l od kvs a v ign :
  node_at h l = Some (NDict od kvs) -> akv_lookup a kvs = Some v ->
  del_one h (GR l) (MP a) ign = Ok (put h l (NDict od (akv_remove a kvs))).
Proof. intros Hn Hk. cbn [del_one delitem]. rewrite Hn, Hk. reflexivity. Qed.

(* list deletion shifts the later items *)
Lemma remove_nth_spec {A} (xs : list A) : forall i, i < length xs ->
  remove_nth i xs = firstn i xs ++ skipn (S i) xs.
Proof. induction xs as [|x r IH]; intros [|i] H; cbn in *; try lia; [reflexivity|rewrite IH by lia; reflexivity]. Qed.

(* a missing parent: the PathAccessError of the parent path, or nothing with ignore_missing; the heap is untouched *)
Lemma delete_missing_parent h t parent final e ign :
  has_wild parent = false -> mpath h parent 0 t = Raise e -> ecls e = "PathAccessError" ->
  delete h t (parent ++ [final]) ign = (if ign then Ok h else Raise e).
Proof.
  intros Hw Hm Hc. unfold delete, split_last. rewrite rev_app_distr. cbn [rev app]. rewrite rev_involutive.
  rewrite (dests_plain _ _ _ Hw), Hm, Hc. cbn. destruct ign; reflexivity.
Qed.
