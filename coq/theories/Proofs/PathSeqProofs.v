(* Proofs/PathSeqProofs.v — the Path methods agree with the same operations on the tuple of steps (C18) *)
From Coq Require Import ZArith Bool List Lia ZifyBool.
From Glom Require Import Base.PyVal Base.PySlice Generated.PathOps Model.PathSeq.
Import ListNotations.
Local Open Scope list_scope.
Ltac Zify.zify_post_hook ::= Z.to_euclidean_division_equations.

Section Proofs.
Context {A : Type}.

Lemma length_interleave (steps : list (A * A)) : length (interleave steps) = 2 * length steps.
Proof. induction steps as [|[c a] r IH]; cbn [interleave length]; lia. Qed.
Lemma length_mk_ops (r : A) steps : length (mk_ops r steps) = 1 + 2 * length steps.
Proof. unfold mk_ops. cbn [length]. rewrite length_interleave. lia. Qed.

Lemma nth_interleave (steps : list (A * A)) : forall k c a, nth_error steps k = Some (c, a) ->
  nth_error (interleave steps) (2 * k) = Some c /\ nth_error (interleave steps) (2 * k + 1) = Some a.
Proof.
  induction steps as [|[c0 a0] r IH]; intros [|k] c a H; cbn in H; try discriminate.
  - injection H as -> ->. split; reflexivity.
  - destruct (IH k c a H) as [H1 H2]. replace (2 * S k) with (S (S (2 * k))) by lia.
    cbn [interleave nth_error Nat.add]. split; [exact H1|]. replace (S (S (2 * k)) + 1) with (S (S (2 * k + 1))) by lia. exact H2.
Qed.

Lemma skipn_nth' {B} (l : list B) k x : nth_error l k = Some x -> skipn k l = x :: skipn (S k) l.
Proof. revert k; induction l as [|y r IH]; intros [|k] H; cbn in *; try discriminate; [congruence|apply IH; exact H]. Qed.

(* walking the odd / even positions of root :: interleave steps yields the first / second components *)
Lemma walk_odd (r : A) steps : forall m k fuel,
  m = length steps - k -> k <= length steps -> m < fuel ->
  slice_walk fuel (mk_ops r steps) (Z.of_nat (1 + 2 * k)) (Z.of_nat (1 + 2 * length steps)) 2 = map fst (skipn k steps).
Proof.
  induction m as [|m IH]; intros k fuel Hm Hk Hf; (destruct fuel as [|fuel]; [lia|]); cbn [slice_walk].
  - assert (k = length steps) by lia. subst k. change (2 >? 0)%Z with true. cbv iota.
    replace (Z.of_nat (1 + 2 * length steps) <? Z.of_nat (1 + 2 * length steps))%Z with false by (symmetry; apply Z.ltb_irrefl).
    rewrite skipn_all. reflexivity.
  - destruct (nth_error steps k) as [[c a]|] eqn:E; [|apply nth_error_None in E; lia].
    change (2 >? 0)%Z with true. cbv iota.
    replace (Z.of_nat (1 + 2 * k) <? Z.of_nat (1 + 2 * length steps))%Z with true by (symmetry; apply Z.ltb_lt; lia).
    rewrite Nat2Z.id. unfold mk_ops. cbn [Nat.add nth_error]. destruct (nth_interleave steps k c a E) as [H1 _]. rewrite H1.
    rewrite (skipn_nth' _ _ _ E). cbn [map fst]. f_equal.
    replace (Z.of_nat (S (2 * k)) + 2)%Z with (Z.of_nat (1 + 2 * S k)) by lia.
    apply IH; lia.
Qed.

Lemma walk_even (r : A) steps : forall m k fuel,
  m = length steps - k -> k <= length steps -> m < fuel ->
  slice_walk fuel (mk_ops r steps) (Z.of_nat (2 + 2 * k)) (Z.of_nat (1 + 2 * length steps)) 2 = map snd (skipn k steps).
Proof.
  induction m as [|m IH]; intros k fuel Hm Hk Hf; (destruct fuel as [|fuel]; [lia|]); cbn [slice_walk].
  - assert (k = length steps) by lia. subst k. change (2 >? 0)%Z with true. cbv iota.
    replace (Z.of_nat (2 + 2 * length steps) <? Z.of_nat (1 + 2 * length steps))%Z with false by (symmetry; apply Z.ltb_ge; lia).
    rewrite skipn_all. reflexivity.
  - destruct (nth_error steps k) as [[c a]|] eqn:E; [|apply nth_error_None in E; lia].
    change (2 >? 0)%Z with true. cbv iota.
    replace (Z.of_nat (2 + 2 * k) <? Z.of_nat (1 + 2 * length steps))%Z with true by (symmetry; apply Z.ltb_lt; lia).
    rewrite Nat2Z.id. unfold mk_ops. destruct (nth_interleave steps k c a E) as [_ H2].
    replace (2 + 2 * k) with (S (2 * k + 1)) by lia. cbn [nth_error]. rewrite H2.
    rewrite (skipn_nth' _ _ _ E). cbn [map snd]. f_equal.
    replace (Z.of_nat (S (2 * k + 1)) + 2)%Z with (Z.of_nat (2 + 2 * S k)) by lia.
    apply IH; lia.
Qed.

Lemma pslice_odd (r : A) steps : pslice (mk_ops r steps) (Some 1%Z) None (Some 2%Z) = map fst steps.
Proof.
  unfold pslice, py_slice, slice_indices. rewrite length_mk_ops.
  change (2 =? 0)%Z with false. change (2 <? 0)%Z with false. cbv iota.
  unfold clamp_idx. change (1 <? 0)%Z with false. cbv iota.
  replace (Z.min 1 (Z.of_nat (1 + 2 * length steps))) with (Z.of_nat (1 + 2 * 0)) by lia.
  rewrite (walk_odd r steps (length steps) 0); [reflexivity|lia|lia|lia].
Qed.

Lemma pslice_even (r : A) steps : pslice (mk_ops r steps) (Some 2%Z) None (Some 2%Z) = map snd steps.
Proof.
  unfold pslice, py_slice, slice_indices. rewrite length_mk_ops.
  change (2 =? 0)%Z with false. change (2 <? 0)%Z with false. cbv iota.
  unfold clamp_idx. change (2 <? 0)%Z with false. cbv iota.
  destruct steps as [|s0 rest].
  - cbn. reflexivity.
  - replace (Z.min 2 (Z.of_nat (1 + 2 * length (s0 :: rest)))) with (Z.of_nat (2 + 2 * 0)) by (cbn [length]; lia).
    rewrite (walk_even r (s0 :: rest) (length (s0 :: rest)) 0); [reflexivity|lia|lia|lia].
Qed.

Lemma combine_fst_snd {B C} (l : list (B * C)) : combine (map fst l) (map snd l) = l.
Proof. induction l as [|[x y] r IH]; cbn; [reflexivity|rewrite IH; reflexivity]. Qed.

(* ---- the statements about the regenerated expressions ---- *)
Lemma len_spec (r : A) steps : path_len (mk_ops r steps) = Z.of_nat (length steps).
Proof. unfold path_len. rewrite length_mk_ops. lia. Qed.

Lemma values_spec (r : A) steps : path_values (mk_ops r steps) = map snd steps.
Proof. unfold path_values. apply pslice_even. Qed.

Lemma items_spec (r : A) steps : path_items (mk_ops r steps) = steps.
Proof. unfold path_items. rewrite pslice_odd, pslice_even. apply combine_fst_snd. Qed.

Lemma getitem_steps_spec (r : A) steps : path_getitem_steps (mk_ops r steps) = steps.
Proof. unfold path_getitem_steps. rewrite pslice_odd, pslice_even. apply combine_fst_snd. Qed.

Lemma seq_index_range {B} (xs : list B) (i : Z) :
  seq_index xs i = None <-> (i < - Z.of_nat (length xs) \/ Z.of_nat (length xs) <= i)%Z.
Proof.
  unfold seq_index. set (n := Z.of_nat (length xs)).
  destruct ((0 <=? i)%Z && (i <? n)%Z) eqn:E1.
  - split; [|lia]. intro H. apply nth_error_None in H. lia.
  - destruct ((i <? 0)%Z && (- n <=? i)%Z) eqn:E2.
    + split; [|lia]. intro H. apply nth_error_None in H. lia.
    + split; [lia|reflexivity].
Qed.

(* indexing: IndexError exactly outside [-n, n), otherwise the path consisting of that step *)
Lemma getitem_int_spec (r : A) steps i :
  path_getitem_int (mk_ops r steps) i =
  match seq_index steps i with Some (c, a) => Some (mk_ops r [(c, a)]) | None => None end.
Proof. unfold path_getitem_int. cbn [mk_ops]. change (r :: interleave steps) with (mk_ops r steps). rewrite getitem_steps_spec.
  destruct (seq_index steps i) as [[c a]|]; reflexivity. Qed.

Lemma getitem_int_error (r : A) steps i :
  path_getitem_int (mk_ops r steps) i = None <-> (i < - Z.of_nat (length steps) \/ Z.of_nat (length steps) <= i)%Z.
Proof. rewrite getitem_int_spec. rewrite <- seq_index_range. destruct (seq_index steps i) as [[c a]|]; split; congruence. Qed.

(* slicing = tuple slicing of the steps, for ALL triples *)
Lemma getitem_slice_spec (r : A) steps a b c :
  path_getitem_slice (mk_ops r steps) a b c = option_map (mk_ops r) (py_slice steps a b c).
Proof. unfold path_getitem_slice. cbn [mk_ops]. change (r :: interleave steps) with (mk_ops r steps). rewrite getitem_steps_spec.
  destruct (py_slice steps a b c); reflexivity. Qed.

(* xs[:k] for 0 <= k is firstn *)
Lemma walk_firstn {B} (xs : list B) : forall m k fuel stop,
  m = stop - k -> k <= stop -> stop <= length xs -> m < fuel ->
  slice_walk fuel xs (Z.of_nat k) (Z.of_nat stop) 1 = firstn (stop - k) (skipn k xs).
Proof.
  induction m as [|m IH]; intros k fuel stop Hm Hk Hs Hf; (destruct fuel as [|fuel]; [lia|]); cbn [slice_walk].
  - assert (k = stop) by lia. subst k. change (1 >? 0)%Z with true. cbv iota.
    rewrite Z.ltb_irrefl. rewrite Nat.sub_diag. reflexivity.
  - change (1 >? 0)%Z with true. cbv iota.
    replace (Z.of_nat k <? Z.of_nat stop)%Z with true by (symmetry; apply Z.ltb_lt; lia).
    rewrite Nat2Z.id. destruct (nth_error xs k) as [x|] eqn:E; [|apply nth_error_None in E; lia].
    rewrite (skipn_nth' _ _ _ E). replace (stop - k) with (S (stop - S k)) by lia. cbn [firstn]. f_equal.
    replace (Z.of_nat k + 1)%Z with (Z.of_nat (S k)) by lia. apply IH; lia.
Qed.

Lemma pslice_prefix (xs : list A) n : pslice xs None (Some (Z.of_nat n)) None = firstn n xs.
Proof.
  unfold pslice, py_slice, slice_indices. change (1 =? 0)%Z with false. change (1 <? 0)%Z with false. cbv iota.
  unfold clamp_idx. replace (Z.of_nat n <? 0)%Z with false by (symmetry; apply Z.ltb_ge; lia).
  destruct (Nat.le_ge_cases n (length xs)) as [H|H].
  - replace (Z.min (Z.of_nat n) (Z.of_nat (length xs))) with (Z.of_nat n) by lia.
    pose proof (walk_firstn xs n 0 (S (length xs)) n) as W. change (Z.of_nat 0) with 0%Z in W.
    rewrite W; [rewrite Nat.sub_0_r; reflexivity|lia|lia|lia|lia].
  - replace (Z.min (Z.of_nat n) (Z.of_nat (length xs))) with (Z.of_nat (length xs)) by lia.
    pose proof (walk_firstn xs (length xs) 0 (S (length xs)) (length xs)) as W. change (Z.of_nat 0) with 0%Z in W.
    rewrite W; [|lia|lia|lia|lia].
    rewrite Nat.sub_0_r. cbn [skipn]. rewrite !firstn_all2 by lia. reflexivity.
Qed.

Variable eqb : A -> A -> bool.
Hypothesis eqb_spec : forall x y, eqb x y = true <-> x = y.

Lemma seq_eqb_eq (a b : list A) : seq_eqb eqb a b = true <-> a = b.
Proof.
  revert b; induction a as [|x a IH]; intros [|y b]; cbn [seq_eqb]; try (split; [discriminate|discriminate]); [tauto|].
  rewrite andb_true_iff, eqb_spec, IH. split; [intros [-> ->]; reflexivity|intro H; injection H; auto].
Qed.

Lemma eq_spec (o1 o2 : list A) : path_eq eqb o1 o2 = true <-> o1 = o2.
Proof. apply seq_eqb_eq. Qed.

(* startswith: the other path's ops tuple is a prefix of ours *)
Lemma startswith_spec (ops o : list A) : path_startswith eqb ops o = true <-> firstn (length o) ops = o.
Proof. unfold path_startswith, path_startswith_lhs, path_startswith_rhs. rewrite pslice_prefix. apply seq_eqb_eq. Qed.

Lemma interleave_app (a b : list (A * A)) : interleave (a ++ b) = interleave a ++ interleave b.
Proof. induction a as [|[c x] r IH]; cbn [interleave app]; [reflexivity|rewrite IH; reflexivity]. Qed.

Lemma startswith_steps (r : A) s p : path_startswith eqb (mk_ops r (p ++ s)) (mk_ops r p) = true.
Proof.
  apply startswith_spec. rewrite length_mk_ops. unfold mk_ops. rewrite interleave_app.
  replace (1 + 2 * length p) with (S (length (interleave p))) by (rewrite length_interleave; lia).
  cbn [firstn]. f_equal. rewrite firstn_app, Nat.sub_diag, firstn_all. cbn [firstn]. apply app_nil_r.
Qed.

(* Path(p, q) appends q's steps *)
Lemma concat_spec (r r2 : A) s1 s2 : path_concat (mk_ops r s1) (mk_ops r2 s2) = mk_ops r (s1 ++ s2).
Proof. unfold path_concat, mk_ops. cbn [tl app]. rewrite interleave_app. reflexivity. Qed.
End Proofs.
