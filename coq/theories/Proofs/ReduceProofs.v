(* Proofs/ReduceProofs.v — C15 *)
From Coq Require Import String Ascii ZArith Bool List Lia.
From Glom Require Import Base.PyVal Model.TEval Model.Reduce.
Import ListNotations.
Local Open Scope string_scope.
Local Open Scope list_scope.

(* functools.reduce(op, items, init) with exceptions propagating *)
Definition reduce_ref (o : foldop) (ret : val) (items : list val) : res val :=
  fold_left (fun acc v => match acc with Ok r => apply_op o r v | e => e end) items (Ok ret).

Lemma reduce_ref_error o items : forall (e : res val), (forall r, e <> Ok r) ->
  fold_left (fun acc v => match acc with Ok r => apply_op o r v | e => e end) items e = e.
Proof. induction items as [|v r IH]; intros e H; cbn [fold_left]; [reflexivity|]. destruct e as [x| | |]; try apply IH; try discriminate. exfalso. apply (H x). reflexivity. Qed.

Lemma fold_is_reduce_lemma o : forall items ret, fold_loop o ret items = reduce_ref o ret items.
Proof.
  unfold reduce_ref. induction items as [|v r IH]; intro ret; cbn [fold_loop fold_left]; [reflexivity|].
  destruct (apply_op o ret v) as [x|e|u|] eqn:E; [apply IH| | |]; symmetry; apply reduce_ref_error; discriminate.
Qed.

(* Flatten: eager = lazy = concatenation of the items' iterations, into a fresh list *)
Lemma flatten_eager_is_chain : forall items acc,
  fold_loop OIadd (VList 0 acc) items =
  match chain_items items with
  | Ok l => Ok (VList 0 (acc ++ l))
  | Raise e => Raise e | Unmodelled u => Unmodelled u | OutOfFuel => OutOfFuel end.
Proof.
  induction items as [|x r IH]; intro acc; cbn [fold_loop chain_items apply_op iadd].
  - rewrite app_nil_r. reflexivity.
  - destruct (iter_items x) as [xs|e|u|]; try reflexivity.
    rewrite IH. destruct (chain_items r) as [ys|e|u|]; try reflexivity. rewrite app_assoc. reflexivity.
Qed.

Lemma flatten_lazy_eager t : fold IList OIadd t =
  match flatten_lazy t with
  | Ok l => Ok (VList 0 l)
  | Raise e => Raise e | Unmodelled u => Unmodelled u | OutOfFuel => OutOfFuel end.
Proof. unfold fold, flatten_lazy. destruct (target_items t); try reflexivity. cbn [init_val]. apply flatten_eager_is_chain. Qed.

Lemma flatten_result_fresh items acc r : fold_loop OIadd (VList 0 acc) items = Ok r -> ident r = 0.
Proof. rewrite flatten_eager_is_chain. destruct (chain_items items); try discriminate. intro H; injection H as <-. reflexivity. Qed.

(* flatten(levels = n + 2) = one lazy level, then flatten(levels = n + 1) *)
Lemma flatten_levels_step n k t : flatten_levels (S (S n)) k t =
  match flatten_lazy t with
  | Ok items => flatten_levels (S n) k (VList 0 items)
  | Raise e => Raise e | Unmodelled u => Unmodelled u | OutOfFuel => OutOfFuel end.
Proof. reflexivity. Qed.

(* a non-iterable target is a FoldError *)
Lemma fold_noniterable k o t : (match t with VNone | VBool _ | VInt _ | VStr _ | VObj _ _ _ | VFun _ => True | _ => False end) ->
  fold k o t = Raise (simple_exn "FoldError").
Proof. destruct t; intro H; try contradiction; reflexivity. Qed.

(* Merge: successive dict.update — the last writer wins, key order is the order of first occurrence *)
Definition atom_key (k : val) : Prop := match k with VNone | VBool _ | VInt _ | VStr _ => True | _ => False end.
Lemma py_eqb_atom_sym a b : atom_key a -> atom_key b -> py_eqb a b = py_eqb b a.
Proof.
  destruct a, b; cbn -[Z.eqb]; intros; try contradiction; try reflexivity;
    repeat match goal with x : bool |- _ => destruct x end; try reflexivity; try apply Z.eqb_sym; try apply String.eqb_sym.
Qed.
Lemma py_eqb_atom_trans a b c : atom_key a -> atom_key b -> atom_key c -> py_eqb a b = true -> py_eqb b c = true -> py_eqb a c = true.
Proof.
  destruct a, b, c; cbn -[Z.eqb]; intros; try contradiction; try congruence;
    repeat match goal with x : bool |- _ => destruct x end;
    rewrite ?Z.eqb_eq, ?String.eqb_eq in *; try congruence; try lia.
Qed.

Lemma kv_update_cons acc k v r : kv_update acc ((k, v) :: r) = kv_update (set1 k v acc) r.
Proof. reflexivity. Qed.

Lemma lookup_set1_same k v l : atom_key k -> kv_lookup py_eqb k (set1 k v l) = Some v.
Proof.
  intro Hk. assert (R : py_eqb k k = true) by (destruct k; try contradiction; cbn -[Z.eqb]; auto using Z.eqb_refl, String.eqb_refl; destruct b; reflexivity).
  induction l as [|[k' v'] t IH]; cbn [set1 kv_lookup]; [rewrite R; reflexivity|].
  destruct (py_eqb k k') eqn:E; cbn [kv_lookup]; rewrite E; [reflexivity|exact IH].
Qed.
Lemma lookup_set1_other k k2 v l : atom_key k -> atom_key k2 -> Forall (fun kv => atom_key (fst kv)) l ->
  py_eqb k2 k = false -> kv_lookup py_eqb k2 (set1 k v l) = kv_lookup py_eqb k2 l.
Proof.
  intros Hk Hk2 Hl N. induction l as [|[k' v'] t IH]; cbn [set1 kv_lookup]; [rewrite N; reflexivity|].
  inversion Hl as [|? ? Hk' Ht]; subst. cbn [fst] in Hk'.
  destruct (py_eqb k k') eqn:E; cbn [kv_lookup].
  - destruct (py_eqb k2 k') eqn:E2; [|reflexivity].
    exfalso. rewrite (py_eqb_atom_sym k k' Hk Hk') in E. rewrite (py_eqb_atom_trans k2 k' k Hk2 Hk' Hk E2 E) in N. discriminate.
  - destruct (py_eqb k2 k'); [reflexivity|apply IH; exact Ht].
Qed.
Lemma set1_keys_atoms k v l : atom_key k -> Forall (fun kv => atom_key (fst kv)) l -> Forall (fun kv => atom_key (fst kv)) (set1 k v l).
Proof.
  intros Hk Hl. induction l as [|[k' v'] t IH]; cbn [set1]; [constructor; [exact Hk|constructor]|].
  inversion Hl; subst. destruct (py_eqb k k'); constructor; auto.
Qed.

(* the value found for k after updating with kvs: the LAST binding of k in kvs if there is one, else the old one *)
Fixpoint last_binding (k : val) (kvs : list (val * val)) (found : option val) : option val :=
  match kvs with [] => found | (k', v) :: r => last_binding k r (if py_eqb k k' then Some v else found) end.

Lemma merge_last_writer_wins_lemma k : atom_key k -> forall kvs acc,
  Forall (fun kv => atom_key (fst kv)) kvs -> Forall (fun kv => atom_key (fst kv)) acc ->
  kv_lookup py_eqb k (kv_update acc kvs) = last_binding k kvs (kv_lookup py_eqb k acc).
Proof.
  intro Hk. induction kvs as [|[k' v] r IH]; intros acc Hkvs Hacc; [reflexivity|].
  inversion Hkvs as [|? ? Hk' Hr]; subst. cbn [fst] in Hk'.
  rewrite kv_update_cons. cbn [last_binding]. rewrite IH; [|exact Hr|apply set1_keys_atoms; assumption]. f_equal.
  destruct (py_eqb k k') eqn:E.
  - (* k == k': the new value *)
    assert (S : kv_lookup py_eqb k (set1 k' v acc) = kv_lookup py_eqb k' (set1 k' v acc)).
    { clear IH. induction acc as [|[k2 v2] t IHt]; cbn [set1 kv_lookup].
      - rewrite E. assert (py_eqb k' k' = true) by (apply (py_eqb_atom_trans k' k k'); auto; rewrite py_eqb_atom_sym; auto). rewrite H. reflexivity.
      - inversion Hacc as [|? ? Hk2 Ht]; subst. cbn [fst] in Hk2.
        destruct (py_eqb k' k2) eqn:E3; cbn [kv_lookup].
        + rewrite E3. rewrite (py_eqb_atom_trans k k' k2 Hk Hk' Hk2 E E3). reflexivity.
        + rewrite E3. destruct (py_eqb k k2) eqn:E4.
          * exfalso. rewrite (py_eqb_atom_sym k k' Hk Hk') in E. rewrite (py_eqb_atom_trans k' k k2 Hk' Hk Hk2 E E4) in E3. discriminate.
          * apply IHt. exact Ht. }
    rewrite S. apply lookup_set1_same. exact Hk'.
  - apply lookup_set1_other; assumption.
Qed.

Lemma append_nil_r_s (s : string) : (s ++ "")%string = s.
Proof. induction s as [|c s IH]; cbn; [reflexivity | rewrite IH; reflexivity]. Qed.
Lemma append_assoc_s (a b c : string) : ((a ++ b) ++ c)%string = (a ++ (b ++ c))%string.
Proof. induction a as [|x a IH]; cbn; [reflexivity | rewrite IH; reflexivity]. Qed.

(* a string start value is a START value: Sum / Fold with iadd over strings is init ++ the concatenation, in order *)
Lemma str_fold_concat_lemma : forall strs s, fold_loop OIadd (VStr s) (map VStr strs) = Ok (VStr (s ++ String.concat "" strs)).
Proof.
  induction strs as [|x xs IH]; intro s.
  - cbn. rewrite append_nil_r_s. reflexivity.
  - cbn [map fold_loop apply_op iadd]. rewrite IH. f_equal. f_equal. rewrite append_assoc_s. f_equal.
    destruct xs as [|y ys]; cbn [String.concat].
    + rewrite append_nil_r_s. reflexivity.
    + reflexivity.
Qed.

(* Sum() over integers is the arithmetic sum added to the start value; over lists (any iterables whose iteration is
   modelled) it is the start list extended by every item's elements in order, and it stays the object init() allocated *)
Lemma int_fold_sum_lemma : forall zs a, fold_loop OIadd (VInt a) (map VInt zs) = Ok (VInt (a + fold_right Z.add 0%Z zs)).
Proof.
  induction zs as [|z zs IH]; intro a; cbn [map fold_loop apply_op iadd as_num fold_right].
  - f_equal. f_equal. lia.
  - rewrite IH. f_equal. f_equal. lia.
Qed.
Lemma list_fold_concat_lemma : forall (ls : list (nat * list val)) i acc,
  fold_loop OIadd (VList i acc) (map (fun p => VList (fst p) (snd p)) ls) = Ok (VList i (acc ++ List.concat (map snd ls))).
Proof.
  induction ls as [|[j xs] ls IH]; intros i acc; cbn [map fold_loop apply_op iadd iter_items fst snd List.concat].
  - rewrite app_nil_r. reflexivity.
  - rewrite IH. rewrite app_assoc. reflexivity.
Qed.
