(* Proofs/RegistryProofs.v — C13: the subtype tree stays well formed under registration; the lookup picks a
   most specific matching registered type, preferring real bases in MRO order; the memo is transparent. *)
From Coq Require Import String Bool List Arith Lia.
From Glom Require Import Model.Registry.
Import ListNotations.
Local Open Scope list_scope.

(* induction principle for the rose tree *)
Fixpoint tree_ind' (P : tree -> Prop)
  (H : forall c kids, Forall P kids -> P (Node c kids)) (t : tree) : P t :=
  match t with Node c kids =>
    H c kids ((fix go (l : list tree) : Forall P l :=
                 match l with [] => Forall_nil _ | k :: r => Forall_cons _ (tree_ind' P H k) (go r) end) kids)
  end.

Section Reg.
Variable sub : nat -> nat -> bool.
Variable inst : nat -> nat -> bool.
Variable mro : nat -> list nat.

(* well-formed: every child's root is a subtype of its parent's root, recursively *)
Fixpoint wf (t : tree) : Prop :=
  match t with Node c kids =>
    (fix go (l : list tree) : Prop := match l with [] => True | k :: r => (sub (root_of k) c = true /\ wf k) /\ go r end) kids end.
Lemma wf_unfold c kids : wf (Node c kids) <-> Forall (fun k => sub (root_of k) c = true /\ wf k) kids.
Proof.
  cbn [wf]. induction kids as [|k r IH]; split; intro H.
  - constructor. - exact I.
  - destruct H as [Hk Hr]. constructor; [exact Hk|apply IH; exact Hr].
  - inversion H; subst. split; [assumption|apply IH; assumption].
Qed.
Definition wff (f : forest) : Prop := Forall wf f.

Lemma wfb_wf t : wfb sub t = true -> wf t.
Proof.
  induction t as [c kids IH] using tree_ind'. cbn [wfb]. intro H. apply wf_unfold.
  rewrite forallb_forall in H. rewrite Forall_forall in *. intros k Hk. specialize (H k Hk). apply andb_prop in H. destruct H. auto.
Qed.
Lemma wffb_wff f : wffb sub f = true -> wff f.
Proof. unfold wffb, wff. rewrite forallb_forall, Forall_forall. intros H t Ht. apply wfb_wf. auto. Qed.

(* ---------- OrderedDict operations preserve any per-tree predicate ---------- *)
Section Q.
Variable Q : tree -> Prop.
Lemma find_Q c f t : Forall Q f -> find c f = Some t -> Q t /\ root_of t = c.
Proof.
  induction f as [|u r IH]; cbn [find]; [discriminate|]. intros HF H. inversion HF; subst.
  destruct (Nat.eqb_spec (root_of u) c); [injection H as <-; auto|auto].
Qed.
Lemma remove_Q c f : Forall Q f -> Forall Q (remove c f).
Proof. induction f as [|u r IH]; cbn [remove]; intro H; [constructor|]. inversion H; subst.
  destruct (Nat.eqb (root_of u) c); [assumption|constructor; auto]. Qed.
Lemma od_set_Q t f : Q t -> Forall Q f -> Forall Q (od_set t f).
Proof. intro Ht. induction f as [|u r IH]; cbn [od_set]; intro H; [constructor; auto|]. inversion H; subst.
  destruct (Nat.eqb (root_of u) (root_of t)); constructor; auto. Qed.
Lemma update_Q c g f : (forall t, Q t -> root_of t = c -> Q (g t)) -> Forall Q f -> Forall Q (update c g f).
Proof. intro Hg. induction f as [|u r IH]; cbn [update]; intro H; [constructor|]. inversion H; subst.
  destruct (Nat.eqb_spec (root_of u) c); constructor; auto. Qed.
Lemma app_Q f t : Forall Q f -> Q t -> Forall Q (f ++ [t]).
Proof. intros. apply Forall_app. split; [assumption|constructor; [assumption|constructor]]. Qed.
End Q.

(* ---------- _register_fuzzy_type preserves well-formedness ---------- *)
Lemma fuzzy_loop_Q (R : nat -> Prop) recd new : R new ->
  (forall c t, rassoc c recd = Some t -> sub new c = true -> root_of t = c /\ wf t) ->
  forall snap f reg,
  Forall (fun t => R (root_of t) /\ wf t) f ->
  Forall (fun t => R (root_of t) /\ wf t) (fst (fuzzy_loop sub recd new snap f reg)).
Proof.
  intros HR Hrec. induction snap as [|cur rest IH]; intros f reg HF; cbn [fuzzy_loop]; [exact HF|].
  destruct (sub cur new) eqn:Ecn.
  - destruct (find cur f) as [[c0 skids]|] eqn:Ef; [|apply IH; exact HF].
    destruct (find_Q _ _ _ _ HF Ef) as [[HRc Hwc] Hroot]. cbn [root_of] in Hroot. subst c0.
    cbv zeta. apply IH.
    assert (Hcur : sub (root_of (Node cur skids)) new = true /\ wf (Node cur skids)) by (split; [exact Ecn|exact Hwc]).
    pose proof (remove_Q _ cur f HF) as HF1.
    destruct (find new (remove cur f)) as [[n0 nk]|] eqn:En.
    + destruct (find_Q _ _ _ _ HF1 En) as [[HRn Hwn] Hrn]. cbn [root_of] in Hrn. subst n0.
      apply update_Q; [|exact HF1]. intros t _ _. cbn [root_of]. split; [exact HR|].
      apply wf_unfold. apply od_set_Q; [exact Hcur|]. apply wf_unfold. exact Hwn.
    + apply app_Q; [exact HF1|]. cbn [root_of]. split; [exact HR|]. apply wf_unfold. constructor; [exact Hcur|constructor].
  - destruct (sub new cur) eqn:Enc; [|apply IH; exact HF].
    apply IH. apply update_Q; [|exact HF]. intros t [HRt Hwt] Hroot. unfold ins_sub_of.
    destruct (rassoc cur recd) as [t'|] eqn:Er; [|auto].
    destruct (Hrec cur t' Er Enc) as [Hr' Hw']. rewrite Hr', <- Hroot. auto.
Qed.

Lemma fuzzy_level_Q (R : nat -> Prop) recd new f : R new ->
  (forall c t, rassoc c recd = Some t -> sub new c = true -> root_of t = c /\ wf t) ->
  Forall (fun t => R (root_of t) /\ wf t) f ->
  Forall (fun t => R (root_of t) /\ wf t) (fuzzy_level sub recd new f).
Proof.
  intros HR Hrec HF. unfold fuzzy_level.
  pose proof (fuzzy_loop_Q R recd new HR Hrec (map root_of f) f false HF) as H.
  destruct (fuzzy_loop sub recd new (map root_of f) f false) as [f' reg]. cbn [fst] in H.
  destruct reg; [exact H|]. apply od_set_Q; [|exact H]. cbn [root_of]. split; [exact HR|]. apply wf_unfold. constructor.
Qed.

Lemma root_ins_node new t : root_of (ins_node sub new t) = root_of t.
Proof. destruct t; reflexivity. Qed.

Lemma rassoc_map_in (g : tree -> tree) kids c t :
  rassoc c (map (fun k => (root_of k, g k)) kids) = Some t -> exists k, In k kids /\ root_of k = c /\ t = g k.
Proof.
  induction kids as [|k r IH]; cbn [map rassoc]; [discriminate|].
  destruct (Nat.eqb_spec c (root_of k)).
  - intro H; injection H as <-. exists k. subst c. split; [left; reflexivity|split; reflexivity].
  - intro H. destruct (IH H) as [k' [H1 H2]]. exists k'. split; [right; exact H1|exact H2].
Qed.

Lemma ins_node_wf new : forall t, wf t -> sub new (root_of t) = true -> wf (ins_node sub new t).
Proof.
  induction t as [c kids IH] using tree_ind'. intros Hw Hs. cbn [ins_node root_of] in *.
  apply wf_unfold. apply wf_unfold in Hw.
  apply (fuzzy_level_Q (fun x => sub x c = true)); [exact Hs| |exact Hw].
  intros c' t' Hr Hs'. destruct (rassoc_map_in _ _ _ _ Hr) as [k [Hin [Hroot ->]]].
  rewrite root_ins_node. split; [exact Hroot|].
  rewrite Forall_forall in IH, Hw. apply IH; [exact Hin|apply Hw; exact Hin|rewrite Hroot; exact Hs'].
Qed.

Lemma insert_wf_lemma new f : wff f -> wff (insert sub new f).
Proof.
  intro HF. unfold insert, wff.
  assert (H : Forall (fun t => True /\ wf t) (fuzzy_level sub (map (fun k => (root_of k, ins_node sub new k)) f) new f)).
  { apply (fuzzy_level_Q (fun _ => True)); [exact I| |].
    - intros c' t' Hr Hs'. destruct (rassoc_map_in _ _ _ _ Hr) as [k [Hin [Hroot ->]]].
      rewrite root_ins_node. split; [exact Hroot|].
      unfold wff in HF. rewrite Forall_forall in HF. apply ins_node_wf; [apply HF; exact Hin|rewrite Hroot; exact Hs'].
    - unfold wff in HF. rewrite Forall_forall in *. intros t Ht. split; [exact I|apply HF; exact Ht]. }
  rewrite Forall_forall in *. intros t Ht. apply H. exact Ht.
Qed.

(* ---------- the lookup ---------- *)
Hypothesis mro_inst : forall t c, In c (mro t) -> inst t c = true.                 (* real bases match *)
Hypothesis inst_up : forall t d c, inst t d = true -> sub d c = true -> inst t c = true.

Definition in_mro (t c : nat) : Prop := In c (mro t).
Definition matching (t : nat) (L : list nat) (c : nat) : Prop := In c L /\ inst t c = true.

(* strict descendants *)
Definition below (tr : tree) : list nat := flat_map (labels) (kids_of tr).

Lemma index_of_some x l : In x l -> exists i, index_of x l = Some i.
Proof.
  induction l as [|y r IH]; [intros []|]. intros H. cbn [index_of]. destruct (Nat.eqb_spec x y); [eauto|].
  destruct H as [->|H]; [congruence|]. destruct (IH H) as [i ->]. cbn. eauto.
Qed.
Lemma index_of_none x l : ~ In x l -> index_of x l = None.
Proof.
  induction l as [|y r IH]; intro H; cbn [index_of]; [reflexivity|].
  destruct (Nat.eqb_spec x y); [subst; exfalso; apply H; left; reflexivity|]. rewrite IH; [reflexivity|]. intro; apply H; right; assumption.
Qed.
Lemma index_of_in x l i : index_of x l = Some i -> In x l.
Proof.
  revert i. induction l as [|y r IH]; intros i; cbn [index_of]; [discriminate|].
  destruct (Nat.eqb_spec x y); [left; auto|]. destruct (index_of x r); [|discriminate]. right. eauto.
Qed.

(* [good t L m]: m is a matching label of L; and whenever a matching label c of L is a real base, so is m, not later in the MRO *)
Definition no_match (t : nat) (L : list nat) : Prop := forall c, In c L -> inst t c = false.

(* labels of a well-formed tree whose root does not match: none matches (isinstance is upward closed) *)
Lemma labels_chain : forall tr, wf tr -> forall t d, In d (labels tr) -> inst t d = true -> inst t (root_of tr) = true.
Proof.
  induction tr as [c kids IH] using tree_ind'. intros Hw t d Hd Hi. cbn [labels root_of] in *.
  destruct Hd as [<-|Hd]; [exact Hi|].
  apply wf_unfold in Hw. apply in_flat_map in Hd. destruct Hd as [k [Hk Hdk]].
  rewrite Forall_forall in *. destruct (Hw k Hk) as [Hkc Hwk].
  eapply inst_up; [apply (IH k Hk Hwk t d Hdk Hi)|exact Hkc].
Qed.

(* the result of a subtree: a matching label with no matching strict descendant that "beats" it unseen *)
(* candidates a tree can return: its minimal matching labels *)
Inductive returns (t : nat) : tree -> nat -> Prop :=
| ret_self c kids : inst t c = true -> (forall k, In k kids -> inst t (root_of k) = false) -> returns t (Node c kids) c
| ret_kid c kids k m : inst t c = true -> In k kids -> returns t k m -> returns t (Node c kids) m.

(* ordering used by pick: real bases before duck matches, earlier MRO position first *)
Definition le_rank (t a b : nat) : Prop :=
  match idx mro t a, idx mro t b with
  | Some i, Some j => i <= j
  | Some _, None => True
  | None, Some _ => False
  | None, None => True end.

Lemma pick_spec t best cand :
  match pick mro t best cand with
  | None => best = None /\ cand = None
  | Some m => (best = Some m \/ cand = Some m) /\
              (forall b, best = Some b -> le_rank t m b) /\ (forall c, cand = Some c -> le_rank t m c) end.
Proof.
  unfold pick, better. destruct best as [b|], cand as [c|].
  - destruct (idx mro t c) as [i|] eqn:Ec, (idx mro t b) as [j|] eqn:Eb.
    + destruct (Nat.ltb_spec i j).
      * split; [right; reflexivity|split]; intros x H0; injection H0 as <-; unfold le_rank; rewrite ?Ec, ?Eb; lia.
      * split; [left; reflexivity|split]; intros x H0; injection H0 as <-; unfold le_rank; rewrite ?Ec, ?Eb; lia.
    + split; [right; reflexivity|split]; intros x H0; injection H0 as <-; unfold le_rank; rewrite ?Ec, ?Eb; auto.
    + split; [left; reflexivity|split]; intros x H0; injection H0 as <-; unfold le_rank; rewrite ?Ec, ?Eb; auto.
    + split; [left; reflexivity|split]; intros x H0; injection H0 as <-; unfold le_rank; rewrite ?Ec, ?Eb; auto.
  - split; [left; reflexivity|split]; intros x H0; [injection H0 as <-|discriminate].
    unfold le_rank. destruct (idx mro t b); auto.
  - split; [right; reflexivity|split]; intros x H0; [discriminate|injection H0 as <-].
    unfold le_rank. destruct (idx mro t c); auto.
  - auto.
Qed.

Lemma le_rank_trans t a b c : le_rank t a b -> le_rank t b c -> le_rank t a c.
Proof. unfold le_rank. destruct (idx mro t a), (idx mro t b), (idx mro t c); try tauto; lia. Qed.
Lemma le_rank_refl t a : le_rank t a a.
Proof. unfold le_rank. destruct (idx mro t a); auto. Qed.

(* folding pick over the siblings: the result is returned by one of them (or is the accumulator) and ranks at least
   as well as everything any of them returns *)
Lemma fold_pick t (res : tree -> option nat) : forall ks acc,
  match fold_left (fun best k => pick mro t best (res k)) ks acc with
  | None => acc = None /\ forall k, In k ks -> res k = None
  | Some m => (acc = Some m \/ exists k, In k ks /\ res k = Some m) /\
              (forall b, acc = Some b -> le_rank t m b) /\
              (forall k c, In k ks -> res k = Some c -> le_rank t m c) end.
Proof.
  induction ks as [|k r IH]; intro acc; cbn [fold_left].
  - destruct acc as [m|]; [|split; [reflexivity|intros k []]].
    repeat split; [left; reflexivity|intros b H; injection H as <-; apply le_rank_refl|intros k c []].
  - specialize (IH (pick mro t acc (res k))). pose proof (pick_spec t acc (res k)) as P.
    destruct (fold_left _ r (pick mro t acc (res k))) as [m|].
    + destruct IH as ([Hm|[k' [Hk' Hr']]] & Hacc & Hks).
      * rewrite Hm in P. destruct P as ([Pa|Pc] & Pb & Pk).
        -- repeat split; [left; exact Pa| |].
           ++ intros b Hb. eapply le_rank_trans; [apply Hacc; exact Hm|apply Pb; exact Hb].
           ++ intros k0 c [<-|Hk0] Hc; [eapply le_rank_trans; [apply Hacc; exact Hm|apply Pk; exact Hc]|eapply Hks; eauto].
        -- repeat split; [right; exists k; split; [left; reflexivity|exact Pc]| |].
           ++ intros b Hb. eapply le_rank_trans; [apply Hacc; exact Hm|apply Pb; exact Hb].
           ++ intros k0 c [<-|Hk0] Hc; [eapply le_rank_trans; [apply Hacc; exact Hm|apply Pk; exact Hc]|eapply Hks; eauto].
      * repeat split; [right; exists k'; split; [right; exact Hk'|exact Hr']| |].
        -- intros b Hb. destruct (pick mro t acc (res k)) as [p|] eqn:Ep.
           ++ destruct P as (_ & Pb & _). eapply le_rank_trans; [apply Hacc; reflexivity|apply Pb; exact Hb].
           ++ destruct P as [Pa _]. congruence.
        -- intros k0 c [<-|Hk0] Hc; [|eapply Hks; eauto].
           destruct (pick mro t acc (res k)) as [p|] eqn:Ep.
           ++ destruct P as (_ & _ & Pk). eapply le_rank_trans; [apply Hacc; reflexivity|apply Pk; exact Hc].
           ++ destruct P as [_ Pc]. congruence.
    + destruct IH as [Hp Hr]. rewrite Hp in P. destruct P as [Pa Pc]. split; [exact Pa|].
      intros k0 [<-|Hk0]; [exact Pc|apply Hr; exact Hk0].
Qed.

(* what one tree returns *)
Lemma closest_t_spec t : forall tr,
  match closest_t inst mro t tr with
  | None => inst t (root_of tr) = false
  | Some m => returns t tr m /\ forall c, returns t tr c -> le_rank t m c end.
Proof.
  induction tr as [c kids IH] using tree_ind'. cbn [closest_t root_of].
  destruct (inst t c) eqn:Ec; [|reflexivity].
  pose proof (fold_pick t (closest_t inst mro t) kids None) as F.
  destruct (fold_left _ kids None) as [m|].
  - destruct F as ([Hn|[k [Hk Hr]]] & _ & Hks); [discriminate|].
    rewrite Forall_forall in IH. pose proof (IH k Hk) as Ik. rewrite Hr in Ik. destruct Ik as [Rk Mk].
    split; [eapply ret_kid; eauto|].
    intros x Hx. inversion Hx as [c0 kids0 Hc Hnone|c0 kids0 k0 m0 Hc Hk0 Hr0]; subst.
    + (* the node would return itself only if no kid matched, but k does *)
      exfalso. specialize (Hnone k Hk). pose proof (IH k Hk) as Ik. rewrite Hr in Ik.
      destruct Ik as [Rk' _]. inversion Rk'; subst; cbn [root_of] in Hnone; congruence.
    + pose proof (IH k0 Hk0) as I0. destruct (closest_t inst mro t k0) as [m1|] eqn:E0.
      * destruct I0 as [_ M0]. eapply le_rank_trans; [eapply Hks; eauto|apply M0; exact Hr0].
      * exfalso. inversion Hr0; subst; cbn [root_of] in I0; congruence.
  - destruct F as [_ Hnone]. split.
    + apply ret_self; [exact Ec|]. intros k Hk. rewrite Forall_forall in IH. pose proof (IH k Hk) as Ik.
      rewrite (Hnone k Hk) in Ik. exact Ik.
    + intros x Hx. inversion Hx as [c0 kids0 Hc Hn|c0 kids0 k0 m0 Hc Hk0 Hr0]; subst; [apply le_rank_refl|].
      exfalso. rewrite Forall_forall in IH. pose proof (IH k0 Hk0) as I0. rewrite (Hnone k0 Hk0) in I0.
      inversion Hr0; subst; cbn [root_of] in I0; congruence.
Qed.

(* what the whole lookup returns *)
Definition freturns (t : nat) (f : forest) (m : nat) : Prop := exists tr, In tr f /\ returns t tr m.

Lemma closest_spec t f :
  match closest inst mro t f with
  | None => forall tr, In tr f -> inst t (root_of tr) = false
  | Some m => freturns t f m /\ forall c, freturns t f c -> le_rank t m c end.
Proof.
  unfold closest. pose proof (fold_pick t (closest_t inst mro t) f None) as F.
  destruct (fold_left _ f None) as [m|].
  - destruct F as ([Hn|[k [Hk Hr]]] & _ & Hks); [discriminate|].
    pose proof (closest_t_spec t k) as Ik. rewrite Hr in Ik. destruct Ik as [Rk _].
    split; [exists k; auto|]. intros c [tr [Htr Hc]].
    pose proof (closest_t_spec t tr) as It. destruct (closest_t inst mro t tr) as [m1|] eqn:E.
    + destruct It as [_ Mt]. eapply le_rank_trans; [eapply Hks; eauto|apply Mt; exact Hc].
    + exfalso. inversion Hc; subst; cbn [root_of] in It; congruence.
  - destruct F as [_ Hnone]. intros tr Htr. pose proof (closest_t_spec t tr) as It. rewrite (Hnone tr Htr) in It. exact It.
Qed.

(* returned labels are matching labels of the tree with no matching child below them *)
Lemma returns_label t tr m : returns t tr m -> In m (labels tr) /\ inst t m = true.
Proof.
  intro H. induction H as [c kids Hc Hn|c kids k m' Hc Hk Hr IH]; cbn [labels]; [split; [left; reflexivity|exact Hc]|].
  destruct IH as [H1 H2]. split; [right; apply in_flat_map; exists k; auto|exact H2].
Qed.

(* every matching label of a well-formed tree lies above (or is) something the tree returns: in particular a
   matching label that has no matching label strictly below it is itself returned *)
Fixpoint subtree_at (tr : tree) (path : list nat) : option tree :=
  match path with
  | [] => Some tr
  | i :: r => match nth_error (kids_of tr) i with Some k => subtree_at k r | None => None end end.

Lemma returns_complete t : forall tr, wf tr -> forall d, In d (labels tr) -> inst t d = true ->
  exists m, returns t tr m.
Proof.
  induction tr as [c kids IH] using tree_ind'. intros Hw d Hd Hi.
  assert (Hc : inst t c = true) by (apply (labels_chain (Node c kids) Hw t d Hd Hi)).
  destruct (existsb (fun k => inst t (root_of k)) kids) eqn:E.
  - apply existsb_exists in E. destruct E as [k [Hk Hik]].
    apply wf_unfold in Hw. rewrite Forall_forall in IH, Hw. destruct (Hw k Hk) as [_ Hwk].
    destruct (IH k Hk Hwk (root_of k)) as [m Hm]; [destruct k; left; reflexivity|exact Hik|].
    exists m. eapply ret_kid; eauto.
  - exists c. apply ret_self; [exact Hc|]. intros k Hk.
    destruct (inst t (root_of k)) eqn:Ek; [|reflexivity].
    exfalso. assert (existsb (fun k => inst t (root_of k)) kids = true) by (apply existsb_exists; exists k; auto). congruence.
Qed.

(* minimal matching labels are returned: a matching label whose node has no matching child *)
Inductive node_in : tree -> tree -> Prop :=
| ni_here tr : node_in tr tr
| ni_kid c kids k n : In k kids -> node_in k n -> node_in (Node c kids) n.

Lemma returns_minimal t : forall tr, wf tr -> forall n,
  node_in tr n -> inst t (root_of n) = true -> (forall k, In k (kids_of n) -> inst t (root_of k) = false) ->
  returns t tr (root_of n).
Proof.
  induction tr as [c kids IH] using tree_ind'. intros Hw n Hn Hi Hmin.
  inversion Hn as [|c0 kids0 k n0 Hk Hnk]; subst.
  - cbn [root_of kids_of] in *. apply ret_self; assumption.
  - apply wf_unfold in Hw. rewrite Forall_forall in IH, Hw. destruct (Hw k Hk) as [_ Hwk].
    assert (Hr : returns t k (root_of n)) by (apply IH; assumption).
    eapply ret_kid; [|exact Hk|exact Hr].
    destruct (returns_label t k _ Hr) as [Hl Him].
    apply (labels_chain (Node c kids)) with (d := root_of n); [apply wf_unfold; rewrite Forall_forall; exact Hw| |exact Hi].
    cbn [labels]. right. apply in_flat_map. exists k. auto.
Qed.

(* ---------- the theorem ---------- *)
Theorem lookup_nearest_lemma t f : wff f ->
  match closest inst mro t f with
  | None => forall d, In d (flabels f) -> inst t d = false
  | Some m =>
      (* a registered type that matches the object ... *)
      In m (flabels f) /\ inst t m = true /\
      (* ... and for every registered matching type n that is most specific (its node has no matching child):
         if n is a real base of type(obj) then so is m, and m comes no later in the MRO *)
      (forall tr n, In tr f -> node_in tr n -> inst t (root_of n) = true ->
                    (forall k, In k (kids_of n) -> inst t (root_of k) = false) ->
                    le_rank t m (root_of n)) end.
Proof.
  intro Hw. pose proof (closest_spec t f) as C. destruct (closest inst mro t f) as [m|].
  - destruct C as [[tr [Htr Hr]] Hbest]. destruct (returns_label t tr m Hr) as [Hl Hi].
    split; [unfold flabels; apply in_flat_map; exists tr; auto|]. split; [exact Hi|].
    intros tr' n Htr' Hn Hin Hmin. apply Hbest. exists tr'. split; [exact Htr'|].
    unfold wff in Hw. rewrite Forall_forall in Hw. apply returns_minimal; auto.
  - intros d Hd. unfold flabels in Hd. apply in_flat_map in Hd. destruct Hd as [tr [Htr Hdl]].
    destruct (inst t d) eqn:E; [|reflexivity].
    unfold wff in Hw. rewrite Forall_forall in Hw.
    rewrite <- (C tr Htr). symmetry. apply (labels_chain tr (Hw tr Htr) t d Hdl E).
Qed.

(* real bases always rank before duck matches and in MRO order *)
Lemma le_rank_mro t m n : le_rank t m n -> In n (mro t) ->
  exists i j, idx mro t m = Some i /\ idx mro t n = Some j /\ i <= j.
Proof.
  unfold le_rank. intros H Hn. destruct (index_of_some n (mro t) Hn) as [j Ej]. unfold idx in *. rewrite Ej in H.
  destruct (index_of m (mro t)) as [i|]; [eauto|contradiction].
Qed.

(* ---------- when only real bases match: the first registered class of the MRO, whatever the tree looks like ---------- *)
Hypothesis mro_order : forall t d c, In d (mro t) -> In c (mro t) -> sub d c = true -> le_rank t d c.

Lemma node_in_wf tr n : node_in tr n -> wf tr -> wf n.
Proof.
  induction 1 as [tr|c kids k n Hk Hn IH]; intro Hw; [exact Hw|].
  apply IH. apply wf_unfold in Hw. rewrite Forall_forall in Hw. apply (Hw k Hk).
Qed.
Lemma node_in_trans a b c : node_in a b -> node_in b c -> node_in a c.
Proof. induction 1 as [tr|c0 kids k n Hk Hn IH]; intro H; [exact H|]. eapply ni_kid; eauto. Qed.
Lemma node_in_label tr n : node_in tr n -> In (root_of n) (labels tr).
Proof.
  induction 1 as [tr|c kids k n Hk Hn IH]; [destruct tr; left; reflexivity|].
  cbn [labels]. right. apply in_flat_map. exists k. auto.
Qed.
Lemma label_node_in : forall tr d, In d (labels tr) -> exists n, node_in tr n /\ root_of n = d.
Proof.
  induction tr as [c kids IH] using tree_ind'. intros d [<-|Hd].
  - exists (Node c kids). split; [constructor|reflexivity].
  - apply in_flat_map in Hd. destruct Hd as [k [Hk Hdk]]. rewrite Forall_forall in IH.
    destruct (IH k Hk d Hdk) as [n [Hn Hr]]. exists n. split; [eapply ni_kid; eauto|exact Hr].
Qed.

Lemma minimal_below t : (forall d, inst t d = true -> In d (mro t)) ->
  forall n, wf n -> inst t (root_of n) = true ->
  exists n', node_in n n' /\ inst t (root_of n') = true /\
             (forall k, In k (kids_of n') -> inst t (root_of k) = false) /\ le_rank t (root_of n') (root_of n).
Proof.
  intro Hreal. induction n as [c kids IH] using tree_ind'. intros Hw Hi. cbn [root_of] in *.
  destruct (existsb (fun k => inst t (root_of k)) kids) eqn:E.
  - apply existsb_exists in E. destruct E as [k [Hk Hik]].
    apply wf_unfold in Hw. rewrite Forall_forall in IH, Hw. destruct (Hw k Hk) as [Hkc Hwk].
    destruct (IH k Hk Hwk Hik) as (n' & Hn' & Hi' & Hmin & Hle).
    exists n'. split; [eapply ni_kid; eauto|]. split; [exact Hi'|]. split; [exact Hmin|].
    eapply le_rank_trans; [exact Hle|]. apply mro_order; auto.
  - exists (Node c kids). split; [constructor|]. split; [exact Hi|]. split; [|apply le_rank_refl].
    intros k Hk. cbn [kids_of] in Hk. destruct (inst t (root_of k)) eqn:Ek; [|reflexivity].
    exfalso. assert (existsb (fun k => inst t (root_of k)) kids = true) by (apply existsb_exists; exists k; auto). congruence.
Qed.

Theorem lookup_first_in_mro_lemma t f m : wff f ->
  (forall d, inst t d = true -> In d (mro t)) ->
  closest inst mro t f = Some m ->
  In m (flabels f) /\ inst t m = true /\ forall b, In b (flabels f) -> inst t b = true -> le_rank t m b.
Proof.
  intros Hw Hreal Hc. pose proof (lookup_nearest_lemma t f Hw) as L. rewrite Hc in L. destruct L as (L1 & L2 & L3).
  split; [exact L1|]. split; [exact L2|]. intros b Hb Hib.
  unfold flabels in Hb. apply in_flat_map in Hb. destruct Hb as [tr [Htr Hbl]].
  destruct (label_node_in tr b Hbl) as [n [Hn Hr]]. subst b.
  unfold wff in Hw. rewrite Forall_forall in Hw.
  destruct (minimal_below t Hreal n (node_in_wf tr n Hn (Hw tr Htr)) Hib) as (n' & Hn' & Hi' & Hmin & Hle).
  eapply le_rank_trans; [|exact Hle]. apply (L3 tr n' Htr (node_in_trans _ _ _ Hn Hn') Hi' Hmin).
Qed.

(* the winner is determined by the SET of registered types and the MRO alone: registration order, tree shape and
   sibling order are irrelevant *)
Lemma index_of_inj l x y i : index_of x l = Some i -> index_of y l = Some i -> x = y.
Proof.
  revert i. induction l as [|z r IH]; intros i; cbn [index_of]; [discriminate|].
  destruct (Nat.eqb_spec x z), (Nat.eqb_spec y z); try congruence.
  - intros H1 H2. injection H1 as <-. destruct (index_of y r); cbn in H2; discriminate.
  - intros H1 H2. injection H2 as <-. destruct (index_of x r); cbn in H1; discriminate.
  - destruct (index_of x r) as [a|] eqn:Ea, (index_of y r) as [b|] eqn:Eb; cbn; try discriminate.
    intros H1 H2. injection H1 as <-. injection H2 as H2. apply (IH a); [reflexivity|congruence].
Qed.

Theorem registration_order_irrelevant_lemma t f1 f2 m1 m2 : wff f1 -> wff f2 ->
  (forall d, inst t d = true -> In d (mro t)) ->
  (forall d, In d (flabels f1) <-> In d (flabels f2)) ->
  closest inst mro t f1 = Some m1 -> closest inst mro t f2 = Some m2 -> m1 = m2.
Proof.
  intros W1 W2 Hreal Hsame C1 C2.
  destruct (lookup_first_in_mro_lemma t f1 m1 W1 Hreal C1) as (A1 & A2 & A3).
  destruct (lookup_first_in_mro_lemma t f2 m2 W2 Hreal C2) as (B1 & B2 & B3).
  pose proof (A3 m2 (proj2 (Hsame m2) B1) B2) as L12. pose proof (B3 m1 (proj1 (Hsame m1) A1) A2) as L21.
  unfold le_rank, idx in *.
  destruct (index_of_some m1 (mro t) (Hreal m1 A2)) as [i Ei]. destruct (index_of_some m2 (mro t) (Hreal m2 B2)) as [j Ej].
  rewrite Ei, Ej in *. assert (i = j) by lia. subst j. eapply index_of_inj; eauto.
Qed.
End Reg.

(* ---------- the memo ---------- *)
Section Cache.
Variable sub : nat -> nat -> bool.
Variable inst : nat -> nat -> bool.
Variable mro : nat -> list nat.
Variable auto : string -> nat -> handler.

Definition cache_ok (r : registry) : Prop :=
  forall t op h, cassoc t op (cache r) = Some h -> lookup inst mro r op t = Some h.

Lemma lookup_cache_irrelevant r c op t :
  lookup inst mro (mkReg (ops r) (auto_ops r) c) op t = lookup inst mro r op t.
Proof. reflexivity. Qed.

Lemma get_handler_ok r op t : cache_ok r ->
  fst (get_handler inst mro r op t) = lookup inst mro r op t /\ cache_ok (snd (get_handler inst mro r op t)).
Proof.
  intro H. unfold get_handler. destruct (cassoc t op (cache r)) as [h|] eqn:E.
  - split; [symmetry; apply H; exact E|exact H].
  - destruct (lookup inst mro r op t) as [h|] eqn:L; [|split; [reflexivity|exact H]].
    split; [reflexivity|]. intros t' op' h'. cbn [cache snd cassoc].
    rewrite lookup_cache_irrelevant.
    destruct (Nat.eqb_spec t' t), (String.eqb_spec op' op); cbn [andb]; subst; try (apply H).
    intro X; injection X as <-. exact L.
Qed.

Lemma register_cache_ok r tg kw ex : cache_ok (register sub auto r tg kw ex).
Proof. intros t op h. cbn [register cache cassoc]. discriminate. Qed.
End Cache.
