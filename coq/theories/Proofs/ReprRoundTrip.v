(* Proofs/ReprRoundTrip.v — C18: reading back what repr prints.  For every well-formed T expression / Path (attribute, item incl.
   slices and tuples of slices, call with positional and keyword arguments, wildcard steps; literal, tuple and nested-T arguments),
   parse (print e) = e — where print is the token-level model of _format_t / _format_path / _format_slice / format_invocation and
   parse the token-level model of what eval does with TType's overloads and Path.__init__ (Model/TRepr.v; both sides are the
   functions the correspondence runs against the implementation). *)
From Coq Require Import String Ascii ZArith Bool List Lia.
From Glom Require Import Base.PyVal Model.TEval Model.TRepr.
Import ListNotations.
Local Open Scope string_scope.
Local Open Scope list_scope.

(* ---------- sizes ---------- *)
Fixpoint tsize (a : targ) : nat :=
  match a with
  | GLit _ | GNoArg => 1
  | GTup xs => S ((fix go (l : list targ) : nat := match l with [] => 0 | x :: r => S (tsize x) + go r end) xs)
  | GSlice a b c =>
      S ((match a with Some v => S (tsize v) | None => 0 end) + (match b with Some v => S (tsize v) | None => 0 end) +
         (match c with Some v => S (tsize v) | None => 0 end))
  | GT _ steps => S ((fix go (l : list (string * targ)) : nat := match l with [] => 0 | (_, x) :: r => S (tsize x) + go r end) steps)
  | GCall args kw =>
      S ((fix go (l : list targ) : nat := match l with [] => 0 | x :: r => S (tsize x) + go r end) args +
         (fix go (l : list (string * targ)) : nat := match l with [] => 0 | (_, x) :: r => S (tsize x) + go r end) kw)
  end.
Fixpoint lsize (l : list targ) : nat := match l with [] => 0 | x :: r => S (tsize x) + lsize r end.
Fixpoint ssize (l : list (string * targ)) : nat := match l with [] => 0 | (_, x) :: r => S (tsize x) + ssize r end.
Definition osize (o : option targ) : nat := match o with Some v => S (tsize v) | None => 0 end.

Lemma tsize_tup xs : tsize (GTup xs) = S (lsize xs).
Proof. reflexivity. Qed.
Lemma tsize_t r steps : tsize (GT r steps) = S (ssize steps).
Proof. reflexivity. Qed.
Lemma tsize_call args kw : tsize (GCall args kw) = S (lsize args + ssize kw).
Proof. reflexivity. Qed.
Lemma tsize_slice a b c : tsize (GSlice a b c) = S (osize a + osize b + osize c).
Proof. reflexivity. Qed.
Lemma tsize_pos a : 1 <= tsize a.
Proof. destruct a; cbn [tsize]; lia. Qed.

(* ---------- the printable grammar ---------- *)
Definition plain_index (x : targ) : bool :=
  match x with
  | GTup (_ :: _ :: _) => false
  | GTup [y] => negb (is_slice y)
  | GSlice _ _ _ => false
  | _ => true end.

Inductive wfa : targ -> Prop :=
| wfa_lit l : wfa (GLit l)
| wfa_tup xs : Forall wfa xs -> wfa (GTup xs)
| wfa_t r steps : has_p steps = false -> Forall wfs steps -> wfa (GT r steps)
with wfs : string * targ -> Prop :=
| wfs_dot n : starts_dunder n = false -> wfs (".", GLit (LStr n))
| wfs_idx x : wfi x -> wfs ("[", x)
| wfs_call args kw : Forall wfa args -> Forall (fun kv => wfa (snd kv)) kw -> wfs ("(", GCall args kw)
| wfs_star : wfs ("x", GNoArg)
| wfs_sstar : wfs ("X", GNoArg)
with wfi : targ -> Prop :=
| wfi_many x1 x2 r : Forall wfit (x1 :: x2 :: r) -> wfi (GTup (x1 :: x2 :: r))
| wfi_one y : is_slice y = true -> wfit y -> wfi (GTup [y])
| wfi_slice a b c : wfit (GSlice a b c) -> wfi (GSlice a b c)
| wfi_plain x : plain_index x = true -> wfa x -> wfi x
with wfit : targ -> Prop :=
| wfit_slice a b c : wfo a -> wfo b -> wfo c -> wfit (GSlice a b c)
| wfit_arg x : is_slice x = false -> wfa x -> wfit x
with wfo : option targ -> Prop :=
| wfo_none : wfo None
| wfo_some v : wfa v -> wfo (Some v).

(* tokens that continue a T expression *)
Definition nostep (ts : list tok) : Prop := match ts with (KDot | KLB | KLP) :: _ => False | _ => True end.

Section RT.
Variable fp : root -> list (string * targ) -> list tok.
Notation fa := (fmt_arg fp).
Definition fstep (cx : string * targ) : list tok := fmt_step_with fa (fst cx) (snd cx).
Definition fsteps (steps : list (string * targ)) : list tok := concat (map fstep steps).
Definition fkw (kv : string * targ) : list tok := KName (fst kv) :: KEq :: fa (snd kv).

Lemma fa_t r steps : has_p steps = false -> fa (GT r steps) = KRoot r :: fsteps steps.
Proof. intros H. cbn [fmt_arg]. rewrite H. reflexivity. Qed.

(* what an argument's text begins with *)
Definition starts_expr (ts : list tok) : Prop := match ts with (KLit _ | KRoot _ | KLP) :: _ => True | _ => False end.
Lemma fa_head a l : wfa a -> starts_expr (fa a ++ l).
Proof.
  intros H. destruct H as [lit|xs Hx|r steps Hp Hs].
  - exact I.
  - cbn [fmt_arg]. destruct xs as [|x [|y r]]; exact I.
  - rewrite fa_t by exact Hp. exact I.
Qed.

Definition PE (n : nat) : Prop := forall a, tsize a <= n -> wfa a -> forall fuel rest, 4 * n + 1 <= fuel -> nostep rest ->
  parse_expr fuel (fa a ++ rest) = Some (a, rest).
Definition PS (n : nat) : Prop := forall steps, ssize steps <= n -> Forall wfs steps -> forall fuel rest, 4 * n + 4 <= fuel -> nostep rest ->
  parse_steps fuel (fsteps steps ++ rest) = Some (steps, rest).
Definition PL (n : nat) : Prop := forall x xs, lsize (x :: xs) <= n -> Forall wfa (x :: xs) -> forall fuel rest, 4 * n + 4 <= fuel ->
  parse_exprs fuel (join_comma (map fa (x :: xs)) ++ KRP :: rest) = Some (x :: xs, KRP :: rest).

Lemma join_comma_cons {A} (f : A -> list tok) x y r : join_comma (map f (x :: y :: r)) = f x ++ KComma :: join_comma (map f (y :: r)).
Proof. reflexivity. Qed.

Lemma PE_step n : PE n -> PS n -> PL n -> PE (S n).
Proof.
  intros IHE IHS IHL a Hsz Hw fuel rest Hf Hns.
  destruct fuel as [|f]; [lia|].
  destruct Hw as [lit|xs Hx|r steps Hp Hs].
  - reflexivity.
  - rewrite tsize_tup in Hsz.
    destruct xs as [|x [|y l]].
    + reflexivity.
    + (* (x,) *)
      inversion Hx as [|? ? Hwx _]; subst.
      cbn [fmt_arg]. cbn [app].
      replace ((fa x ++ [KComma; KRP]) ++ rest) with (fa x ++ KComma :: KRP :: rest) by (rewrite <- app_assoc; reflexivity).
      pose proof (fa_head x (KComma :: KRP :: rest) Hwx) as Hh.
      assert (E : parse_expr f (fa x ++ KComma :: KRP :: rest) = Some (x, KComma :: KRP :: rest)).
      { apply IHE; [cbn [lsize] in Hsz; lia|exact Hwx|lia|exact I]. }
      destruct (fa x ++ KComma :: KRP :: rest) as [|t ts] eqn:Et; [destruct Hh|].
      destruct t; try destruct Hh; cbn [parse_expr]; rewrite E; reflexivity.
    + (* (x, y, ...) *)
      inversion Hx as [|? ? Hwx Hrest]; subst.
      change (fa (GTup (x :: y :: l))) with (KLP :: join_comma (map fa (x :: y :: l)) ++ [KRP]).
      rewrite join_comma_cons. cbn [app].
      replace (((fa x ++ KComma :: join_comma (map fa (y :: l))) ++ [KRP]) ++ rest)
        with (fa x ++ KComma :: (join_comma (map fa (y :: l)) ++ KRP :: rest))
        by (rewrite <- !app_assoc; reflexivity).
      set (tail := join_comma (map fa (y :: l)) ++ KRP :: rest).
      pose proof (fa_head x (KComma :: tail) Hwx) as Hh.
      assert (E : parse_expr f (fa x ++ KComma :: tail) = Some (x, KComma :: tail)).
      { apply IHE; [cbn [lsize] in Hsz; lia|exact Hwx|lia|exact I]. }
      assert (EL : parse_exprs f tail = Some (y :: l, KRP :: rest)).
      { unfold tail. apply IHL; [cbn [lsize] in Hsz |- *; lia|exact Hrest|lia]. }
      assert (Ht : match tail with KRP :: _ => False | _ => True end).
      { unfold tail. inversion Hrest as [|? ? Hwy _]; subst.
        destruct l as [|z l'].
        - cbn [map join_comma]. pose proof (fa_head y (KRP :: rest) Hwy) as H2.
          destruct (fa y ++ KRP :: rest) as [|t ts]; [exact I|]. destruct t; try exact I. destruct H2.
        - rewrite join_comma_cons. rewrite <- app_assoc.
          pose proof (fa_head y ((KComma :: join_comma (map fa (z :: l'))) ++ KRP :: rest) Hwy) as H2.
          destruct (fa y ++ (KComma :: join_comma (map fa (z :: l'))) ++ KRP :: rest) as [|t ts]; [exact I|]. destruct t; try exact I. destruct H2. }
      destruct (fa x ++ KComma :: tail) as [|t ts] eqn:Et; [destruct Hh|].
      destruct t; try destruct Hh; cbn [parse_expr]; rewrite E;
        (destruct tail as [|t2 ts2]; [rewrite EL; reflexivity|]; destruct t2; try destruct Ht; rewrite EL; reflexivity).
  - rewrite tsize_t in Hsz. rewrite fa_t by exact Hp. cbn [app parse_expr].
    rewrite (IHS steps ltac:(lia) Hs f rest ltac:(lia) Hns). reflexivity.
Qed.

Lemma PL_step n : PE n -> PL n -> PL (S n).
Proof.
  intros IHE IHL x xs Hsz Hw fuel rest Hf.
  destruct fuel as [|f]; [lia|].
  inversion Hw as [|? ? Hwx Hrest]; subst.
  destruct xs as [|y l].
  - cbn [map join_comma parse_exprs].
    rewrite (IHE x ltac:(cbn [lsize] in Hsz; lia) Hwx f (KRP :: rest) ltac:(lia) I). reflexivity.
  - rewrite join_comma_cons. rewrite <- app_assoc. cbn [app parse_exprs].
    rewrite (IHE x ltac:(cbn [lsize] in Hsz; lia) Hwx f (KComma :: join_comma (map fa (y :: l)) ++ KRP :: rest) ltac:(lia) I).
    rewrite (IHL y l ltac:(cbn [lsize] in Hsz |- *; lia) Hrest f rest ltac:(lia)). reflexivity.
Qed.

(* ---------- items of an index: expressions and slices ---------- *)
Definition popt (f : nat) (ts : list tok) : option (option targ * list tok) :=
  match ts with
  | (KColon | KRB | KComma) :: _ => Some (None, ts)
  | _ => match parse_expr f ts with Some (x, r) => Some (Some x, r) | None => None end end.

Lemma parse_item_unfold f ts :
  parse_item (S f) ts =
  match popt f ts with
  | Some (a, KColon :: r1) =>
      match popt f r1 with
      | Some (b, KColon :: r2) =>
          match popt f r2 with
          | Some (Some c, r3) => Some (GSlice a b (Some c), r3)
          | Some (None, r3) => Some (GSlice a b None, r3)
          | None => None end
      | Some (b, r2) => Some (GSlice a b None, r2)
      | None => None end
  | Some (Some x, r) => Some (x, r)
  | _ => None end.
Proof. reflexivity. Qed.

Definition stops (ts : list tok) : Prop := match ts with (KColon | KRB | KComma) :: _ => True | _ => False end.
Definition ends_item (ts : list tok) : Prop := match ts with (KRB | KComma) :: _ => True | _ => False end.

Lemma popt_stop f ts : stops ts -> popt f ts = Some (None, ts).
Proof. intros H. destruct ts as [|t r]; [destruct H|]. destruct t; try destruct H; reflexivity. Qed.

Lemma stops_nostep ts : stops ts -> nostep ts.
Proof. destruct ts as [|t r]; [intros []|]. destruct t; intros H; try destruct H; exact I. Qed.

Lemma popt_expr n f v rest : PE n -> tsize v <= n -> wfa v -> 4 * n + 1 <= f -> stops rest ->
  popt f (fa v ++ rest) = Some (Some v, rest).
Proof.
  intros IHE Hs Hw Hf Hst. unfold popt.
  pose proof (fa_head v rest Hw) as Hh.
  rewrite (IHE v Hs Hw f rest Hf (stops_nostep rest Hst)).
  destruct (fa v ++ rest) as [|t r]; [destruct Hh|]. destruct t; try destruct Hh; reflexivity.
Qed.

Definition fsl (y : targ) : list tok := fmt_slice_with fa y.

Definition PIT (n : nat) : Prop := forall y, tsize y <= n -> wfit y -> forall fuel rest, 4 * n + 2 <= fuel -> ends_item rest ->
  parse_item fuel (fsl y ++ rest) = Some (y, rest).

Lemma ends_stops ts : ends_item ts -> stops ts.
Proof. destruct ts as [|t r]; [intros []|]. destruct t; intros H; try destruct H; exact I. Qed.

Lemma PIT_step n : PE n -> PE (S n) -> PIT (S n).
Proof.
  intros IHE IHE1 y Hsz Hw fuel rest Hf He.
  destruct fuel as [|f]; [lia|]. rewrite parse_item_unfold.
  destruct Hw as [a b c Ha Hb Hc|x Hns Hwx].
  - (* a slice *)
    rewrite tsize_slice in Hsz.
    assert (Hrest : stops rest) by exact (ends_stops rest He).
    assert (NC : match rest with KColon :: _ => False | _ => True end).
    { destruct rest as [|t r]; [exact I|]. destruct t; try exact I. destruct He. }
    unfold fsl. cbn [fmt_slice_with].
    (* the three components, each either absent or an expression followed by a stop token *)
    assert (P : forall o tail, wfo o -> osize o <= n -> stops tail ->
              popt f ((match o with Some v => fa v | None => [] end) ++ tail) = Some (o, tail)).
    { intros o tail Ho Hos Ht. destruct Ho as [|v Hv].
      - cbn [app]. apply popt_stop. exact Ht.
      - apply (popt_expr n f v tail IHE); [cbn [osize] in Hos; lia|exact Hv|lia|exact Ht]. }
    set (ga := match a with Some v => fa v | None => [] end).
    set (gb := match b with Some v => fa v | None => [] end).
    destruct c as [s|].
    + (* x:y:s *)
      inversion Hc as [|? Hs]; subst.
      replace ((ga ++ KColon :: gb ++ KColon :: fa s) ++ rest) with (ga ++ KColon :: (gb ++ KColon :: (fa s ++ rest)))
        by (rewrite <- !app_assoc; cbn [app]; rewrite <- !app_assoc; reflexivity).
      unfold ga. rewrite (P a (KColon :: (gb ++ KColon :: (fa s ++ rest))) Ha ltac:(cbn [osize] in Hsz |- *; lia) I).
      unfold gb. rewrite (P b (KColon :: (fa s ++ rest)) Hb ltac:(cbn [osize] in Hsz |- *; lia) I).
      rewrite (popt_expr n f s rest IHE ltac:(cbn [osize] in Hsz; lia) Hs ltac:(lia) Hrest). destruct a, b; reflexivity.
    + (* x:y *)
      replace ((ga ++ KColon :: gb) ++ rest) with (ga ++ KColon :: (gb ++ rest)) by (rewrite <- !app_assoc; reflexivity).
      unfold ga. rewrite (P a (KColon :: (gb ++ rest)) Ha ltac:(cbn [osize] in Hsz |- *; lia) I).
      unfold gb. rewrite (P b rest Hb ltac:(cbn [osize] in Hsz |- *; lia) Hrest).
      destruct rest as [|t r]; [destruct a, b; reflexivity|]. destruct t; try (destruct a, b; reflexivity). destruct NC.
  - (* an expression *)
    assert (E : fsl x = fa x) by (unfold fsl; destruct x; try reflexivity; discriminate Hns).
    rewrite E.
    rewrite (popt_expr (S n) f x rest IHE1 Hsz Hwx ltac:(lia) (ends_stops rest He)).
    destruct rest as [|t r]; [destruct He|]. destruct t; try destruct He; reflexivity.
Qed.

(* what an item's text begins with: never ']' *)
Lemma fsl_head y l : wfit y -> match fsl y ++ l with (KLit _ | KRoot _ | KLP | KColon) :: _ => True | _ => False end.
Proof.
  intros H. destruct H as [a b c Ha Hb Hc|x Hns Hwx].
  - unfold fsl. cbn [fmt_slice_with].
    destruct Ha as [|v Hv].
    + destruct c; exact I.
    + pose proof (fa_head v (KColon :: l) Hv) as Hh.
      destruct c as [s|].
      * rewrite <- app_assoc.
        pose proof (fa_head v ((KColon :: (match b with Some v0 => fa v0 | None => [] end) ++ KColon :: fa s) ++ l) Hv) as H2.
        destruct (fa v ++ (KColon :: (match b with Some v0 => fa v0 | None => [] end) ++ KColon :: fa s) ++ l) as [|t r]; [destruct H2|].
        destruct t; try destruct H2; exact I.
      * rewrite <- app_assoc.
        pose proof (fa_head v ((KColon :: (match b with Some v0 => fa v0 | None => [] end)) ++ l) Hv) as H2.
        destruct (fa v ++ (KColon :: (match b with Some v0 => fa v0 | None => [] end)) ++ l) as [|t r]; [destruct H2|].
        destruct t; try destruct H2; exact I.
  - assert (E : fsl x = fa x) by (unfold fsl; destruct x; try reflexivity; discriminate Hns).
    rewrite E. pose proof (fa_head x l Hwx) as Hh.
    destruct (fa x ++ l) as [|t r]; [destruct Hh|]. destruct t; try destruct Hh; exact I.
Qed.

Definition PITS (n : nat) : Prop := forall y ys, lsize (y :: ys) <= n -> Forall wfit (y :: ys) -> forall fuel rest, 4 * n + 3 <= fuel ->
  parse_items fuel (join_comma (map fsl (y :: ys)) ++ KRB :: rest) = Some (y :: ys, KRB :: rest).

Lemma PITS_step n : PIT n -> PITS n -> PITS (S n).
Proof.
  intros IHI IHS y ys Hsz Hw fuel rest Hf.
  destruct fuel as [|f]; [lia|].
  inversion Hw as [|? ? Hwy Hrest]; subst.
  destruct ys as [|z l].
  - cbn [map join_comma parse_items].
    rewrite (IHI y ltac:(cbn [lsize] in Hsz; lia) Hwy f (KRB :: rest) ltac:(lia) I). reflexivity.
  - rewrite join_comma_cons. rewrite <- app_assoc. cbn [app parse_items].
    set (tail := join_comma (map fsl (z :: l)) ++ KRB :: rest).
    rewrite (IHI y ltac:(cbn [lsize] in Hsz; lia) Hwy f (KComma :: tail) ltac:(lia) I).
    assert (ES : parse_items f tail = Some (z :: l, KRB :: rest)).
    { unfold tail. apply IHS; [cbn [lsize] in Hsz |- *; lia|exact Hrest|lia]. }
    assert (Ht : match tail with KRB :: _ => False | _ => True end).
    { unfold tail. inversion Hrest as [|? ? Hwz _]; subst. destruct l as [|w l'].
      - cbn [map join_comma]. pose proof (fsl_head z (KRB :: rest) Hwz) as H2.
        destruct (fsl z ++ KRB :: rest) as [|t r]; [exact I|]. destruct t; try exact I. destruct H2.
      - rewrite join_comma_cons. rewrite <- app_assoc.
        pose proof (fsl_head z ((KComma :: join_comma (map fsl (w :: l'))) ++ KRB :: rest) Hwz) as H2.
        destruct (fsl z ++ (KComma :: join_comma (map fsl (w :: l'))) ++ KRB :: rest) as [|t r]; [exact I|]. destruct t; try exact I. destruct H2. }
    destruct tail as [|t2 ts2]; [rewrite ES; reflexivity|]. destruct t2; try destruct Ht; rewrite ES; reflexivity.
Qed.

Definition fidx (x : targ) : list tok := fmt_index_with fa x.
Definition PI (n : nat) : Prop := forall x, tsize x <= n -> wfi x -> forall fuel rest, 4 * n + 4 <= fuel ->
  parse_index fuel (fidx x ++ KRB :: rest) = Some (x, KRB :: rest).

Lemma PI_step n : PIT n -> PITS n -> PIT (S n) -> PI (S n).
Proof.
  intros IHI IHS IHI1 x Hsz Hw fuel rest Hf.
  destruct fuel as [|f]; [lia|].
  destruct Hw as [x1 x2 r Hall|y Hsl Hwy|a b c Hwy|x Hpl Hwx].
  - (* two or more items *)
    rewrite tsize_tup in Hsz. inversion Hall as [|? ? Hw1 Hrest]; subst.
    unfold fidx. cbn [fmt_index_with]. change (map (fmt_slice_with fa) (x1 :: x2 :: r)) with (map fsl (x1 :: x2 :: r)).
    rewrite join_comma_cons. rewrite <- app_assoc. cbn [app parse_index].
    set (tail := join_comma (map fsl (x2 :: r)) ++ KRB :: rest).
    rewrite (IHI x1 ltac:(cbn [lsize] in Hsz; lia) Hw1 f (KComma :: tail) ltac:(lia) I).
    assert (ES : parse_items f tail = Some (x2 :: r, KRB :: rest)).
    { unfold tail. apply IHS; [cbn [lsize] in Hsz |- *; lia|exact Hrest|lia]. }
    assert (Ht : match tail with KRB :: _ => False | _ => True end).
    { unfold tail. inversion Hrest as [|? ? Hwz _]; subst. destruct r as [|w l'].
      - cbn [map join_comma]. pose proof (fsl_head x2 (KRB :: rest) Hwz) as H2.
        destruct (fsl x2 ++ KRB :: rest) as [|t r0]; [exact I|]. destruct t; try exact I. destruct H2.
      - rewrite join_comma_cons. rewrite <- app_assoc.
        pose proof (fsl_head x2 ((KComma :: join_comma (map fsl (w :: l'))) ++ KRB :: rest) Hwz) as H2.
        destruct (fsl x2 ++ (KComma :: join_comma (map fsl (w :: l'))) ++ KRB :: rest) as [|t r0]; [exact I|]. destruct t; try exact I. destruct H2. }
    destruct tail as [|t2 ts2]; [rewrite ES; reflexivity|]. destruct t2; try destruct Ht; rewrite ES; reflexivity.
  - (* one slice: T[a:b,] *)
    rewrite tsize_tup in Hsz.
    unfold fidx. cbn [fmt_index_with]. rewrite Hsl. fold (fsl y). rewrite <- app_assoc. cbn [app parse_index].
    rewrite (IHI y ltac:(cbn [lsize] in Hsz; lia) Hwy f (KComma :: KRB :: rest) ltac:(lia) I). reflexivity.
  - (* a slice *)
    unfold fidx. cbn [fmt_index_with]. fold (fsl (GSlice a b c)). cbn [parse_index].
    rewrite (IHI1 (GSlice a b c) Hsz Hwy f (KRB :: rest) ltac:(lia) I). reflexivity.
  - (* an expression *)
    assert (E : fidx x = fsl x).
    { unfold fidx, fsl. destruct x as [l|xs|a b c|r st|ar kw|]; try reflexivity.
      - destruct xs as [|y [|z l]]; [reflexivity| |discriminate Hpl].
        cbn [fmt_index_with]. cbn [plain_index] in Hpl. destruct (is_slice y); [discriminate Hpl|reflexivity]. }
    rewrite E. cbn [parse_index].
    assert (Hns : is_slice x = false) by (destruct x; try reflexivity; discriminate Hpl).
    rewrite (IHI1 x Hsz (wfit_arg x Hns Hwx) f (KRB :: rest) ltac:(lia) I). reflexivity.
Qed.

(* ---------- call arguments: positional, then keyword ---------- *)
Definition PC (n : nat) : Prop := forall args kw, lsize args + ssize kw <= n -> Forall wfa args -> Forall (fun kv => wfa (snd kv)) kw ->
  forall fuel rest, 4 * n + 4 <= fuel ->
  parse_callargs fuel (join_comma (map fa args ++ map fkw kw) ++ KRP :: rest) = Some (args, kw, rest).

Lemma join_comma_two (a b : list tok) (l : list (list tok)) : join_comma (a :: b :: l) = a ++ KComma :: join_comma (b :: l).
Proof. reflexivity. Qed.

Lemma PC_step n : PE n -> PC n -> PC (S n).
Proof.
  intros IHE IHC args kw Hsz Ha Hk fuel rest Hf.
  destruct fuel as [|f]; [lia|].
  destruct args as [|x args].
  - destruct kw as [|[k v] kw].
    + reflexivity.
    + (* a keyword argument *)
      inversion Hk as [|? ? Hwv Hkr]; subst. cbn [snd] in Hwv.
      cbn [map app]. cbn [ssize] in Hsz.
      destruct kw as [|kv2 kw'].
      * cbn [map join_comma fkw fst snd app parse_callargs].
        rewrite (IHE v ltac:(lia) Hwv f (KRP :: rest) ltac:(lia) I). reflexivity.
      * change (map fkw (kv2 :: kw')) with (fkw kv2 :: map fkw kw').
        rewrite join_comma_two. unfold fkw at 1. cbn [fst snd]. rewrite <- app_assoc. cbn [app parse_callargs].
        rewrite (IHE v ltac:(lia) Hwv f (KComma :: (join_comma (fkw kv2 :: map fkw kw') ++ KRP :: rest)) ltac:(lia) I).
        pose proof (IHC [] (kv2 :: kw') ltac:(cbn [lsize]; lia) (Forall_nil _) Hkr f rest ltac:(lia)) as E.
        cbn [map app] in E. rewrite E. reflexivity.
  - (* a positional argument *)
    inversion Ha as [|? ? Hwx Har]; subst. cbn [lsize] in Hsz.
    pose proof (fun l => fa_head x l Hwx) as Hh.
    destruct (map fa args ++ map fkw kw) as [|b l] eqn:Erest.
    + (* the last argument *)
      apply app_eq_nil in Erest. destruct Erest as [E1 E2]. apply map_eq_nil in E1. apply map_eq_nil in E2. subst args kw.
      cbn [map app join_comma].
      specialize (Hh (KRP :: rest)).
      pose proof (IHE x ltac:(lia) Hwx f (KRP :: rest) ltac:(lia) I) as E.
      destruct (fa x ++ KRP :: rest) as [|t ts] eqn:Et; [destruct Hh|].
      destruct t; try destruct Hh; cbn [parse_callargs]; rewrite E; reflexivity.
    + change (map fa (x :: args) ++ map fkw kw) with (fa x :: (map fa args ++ map fkw kw)). rewrite Erest.
      rewrite join_comma_two. rewrite <- app_assoc.
      specialize (Hh ((KComma :: join_comma (b :: l)) ++ KRP :: rest)).
      pose proof (IHE x ltac:(lia) Hwx f ((KComma :: join_comma (b :: l)) ++ KRP :: rest) ltac:(lia) I) as E.
      pose proof (IHC args kw ltac:(lia) Har Hk f rest ltac:(lia)) as EC. rewrite Erest in EC.
      destruct (fa x ++ (KComma :: join_comma (b :: l)) ++ KRP :: rest) as [|t ts] eqn:Et; [destruct Hh|].
      destruct t; try destruct Hh; cbn [parse_callargs]; rewrite E; cbn [app]; rewrite EC; reflexivity.
Qed.

(* ---------- steps ---------- *)
Lemma not_star n : starts_dunder n = false -> String.eqb n "__star__" = false /\ String.eqb n "__starstar__" = false.
Proof.
  intros H. split.
  - destruct (String.eqb_spec n "__star__") as [->|]; [discriminate H|reflexivity].
  - destruct (String.eqb_spec n "__starstar__") as [->|]; [discriminate H|reflexivity].
Qed.

Lemma parse_steps_nil f rest : nostep rest -> parse_steps (S f) rest = Some ([], rest).
Proof. intros H. destruct rest as [|t r]; [reflexivity|]. destruct t; try reflexivity; destruct H. Qed.

Lemma PS_step n : PI n -> PC n -> PS n -> PS (S n).
Proof.
  intros IHI IHC IHS steps Hsz Hw fuel rest Hf Hns.
  destruct fuel as [|f]; [lia|].
  destruct steps as [|[c x] steps].
  - cbn [fsteps map concat app]. apply parse_steps_nil. exact Hns.
  - inversion Hw as [|? ? Hw1 Hwr]; subst. cbn [ssize] in Hsz.
    assert (ER : parse_steps f (fsteps steps ++ rest) = Some (steps, rest)).
    { apply IHS; [lia|exact Hwr|lia|exact Hns]. }
    unfold fsteps. cbn [map concat]. fold (fsteps steps). rewrite <- app_assoc.
    inversion Hw1 as [nm Hd|x0 Hi|args kw Ha Hk| |]; subst.
    + (* .name *)
      destruct (not_star nm Hd) as [N1 N2].
      unfold fstep. cbn [fst snd fmt_step_with String.eqb Ascii.eqb Bool.eqb app parse_steps].
      rewrite N1, N2, Hd, ER. reflexivity.
    + (* [index] *)
      unfold fstep. cbn [fst snd fmt_step_with String.eqb Ascii.eqb Bool.eqb]. fold (fidx x).
      cbn [app]. rewrite <- app_assoc. cbn [app parse_steps].
      rewrite (IHI x ltac:(lia) Hi f (fsteps steps ++ rest) ltac:(lia)). rewrite ER. reflexivity.
    + (* (call) *)
      unfold fstep. cbn [fst snd fmt_step_with String.eqb Ascii.eqb Bool.eqb]. unfold fmt_call_with.
      cbn [app]. rewrite <- app_assoc. cbn [app parse_steps].
      change (map (fun kv : string * targ => KName (fst kv) :: KEq :: fa (snd kv)) kw) with (map fkw kw).
      rewrite (IHC args kw ltac:(rewrite tsize_call in Hsz; lia) Ha Hk f (fsteps steps ++ rest) ltac:(lia)).
      rewrite ER. reflexivity.
    + unfold fstep. cbn [fst snd fmt_step_with String.eqb Ascii.eqb Bool.eqb app parse_steps]. rewrite ER. reflexivity.
    + unfold fstep. cbn [fst snd fmt_step_with String.eqb Ascii.eqb Bool.eqb app parse_steps]. rewrite ER. reflexivity.
Qed.

Lemma ssize_zero steps : ssize steps <= 0 -> steps = [].
Proof. destruct steps as [|[c x] r]; [reflexivity|]. cbn [ssize]. lia. Qed.

Theorem all_P : forall n, PE n /\ PS n /\ PL n /\ PIT n /\ PITS n /\ PI n /\ PC n.
Proof.
  induction n as [|n (IE & IS & IL & IIT & IITS & II & IC)].
  - split; [|split; [|split; [|split; [|split; [|split]]]]].
    + intros a Hs. pose proof (tsize_pos a). lia.
    + intros steps Hs Hw fuel rest Hf Hns. rewrite (ssize_zero steps Hs). destruct fuel as [|f]; [lia|].
      cbn [fsteps map concat app]. apply parse_steps_nil. exact Hns.
    + intros x xs Hs. cbn [lsize] in Hs. lia.
    + intros y Hs. pose proof (tsize_pos y). lia.
    + intros y ys Hs. cbn [lsize] in Hs. lia.
    + intros x Hs. pose proof (tsize_pos x). lia.
    + intros args kw Hs Ha Hk fuel rest Hf. destruct fuel as [|f]; [lia|].
      destruct args as [|x args]; [|cbn [lsize] in Hs; lia]. destruct kw as [|[k v] kw]; [reflexivity|cbn [ssize] in Hs; lia].
  - pose proof (PE_step n IE IS IL) as IE1.
    pose proof (PIT_step n IE IE1) as IIT1.
    split; [exact IE1|]. split; [exact (PS_step n II IC IS)|]. split; [exact (PL_step n IE IL)|]. split; [exact IIT1|].
    split; [exact (PITS_step n IIT IITS)|]. split; [exact (PI_step n IIT IITS IIT1)|exact (PC_step n IE IC)].
Qed.
End RT.

(* ---------- repr of a T expression (no plain-key steps): T.a['b'](1, k=2)[1:, ::2].__star__() ... ---------- *)
Theorem t_repr_roundtrip_lemma r steps :
  wfa (GT r steps) -> forall fuel, 4 * tsize (GT r steps) + 5 <= fuel ->
  parse_top fuel (fmt_t true (r, steps)) = Some (r, steps).
Proof.
  intros Hw fuel Hf.
  destruct (all_P (fmt_path_f 3 true) (tsize (GT r steps))) as (IE & _).
  pose proof (IE (GT r steps) (le_n _) Hw fuel [] ltac:(lia) I) as E.
  rewrite app_nil_r in E.
  unfold fmt_t. cbn [fst snd].
  inversion Hw as [| |? ? Hp Hs]; subst.
  rewrite (fa_t (fmt_path_f 3 true) r steps Hp) in E |- *.
  unfold parse_top. rewrite E. reflexivity.
Qed.

(* ---------- repr of a Path: Path(T.a, 'b', T[1], ...) ---------- *)
Definition not_t (a : targ) : Prop := match a with GT _ _ => False | _ => True end.
Inductive wfp : string * targ -> Prop :=
| wfp_key a : wfa a -> not_t a -> wfp ("P", a)
| wfp_step cx : wfs cx -> wfp cx.

Definition to_targ (rt : root) (p : list (string * targ) + targ) : targ := match p with inl ch => GT rt ch | inr a => a end.

Lemma wfs_not_p cx : wfs cx -> String.eqb (fst cx) "P" = false.
Proof. intros H. destruct H; reflexivity. Qed.

(* the parts put the steps back together *)
Lemma split_rejoin : forall steps cur acc, Forall wfp steps ->
  path_init_parts acc (map (to_targ RT) (split_chunks steps cur)) = Some (acc ++ rev cur ++ steps).
Proof.
  induction steps as [|[c a] r IH]; intros cur acc Hw.
  - cbn [split_chunks]. destruct cur as [|x l].
    + cbn. rewrite app_nil_r. reflexivity.
    + cbn [map to_targ path_init_parts]. rewrite app_nil_r. reflexivity.
  - inversion Hw as [|? ? H1 Hr]; subst. cbn [split_chunks].
    inversion H1 as [a0 Hwa Hnt|cx Hs]; subst.
    + (* a plain key *)
      cbn [String.eqb Ascii.eqb Bool.eqb].
      destruct cur as [|x l].
      * cbn [map to_targ]. destruct a; try destruct Hnt; cbn [path_init_parts]; rewrite (IH [] _ Hr); cbn [rev app]; rewrite <- app_assoc; reflexivity.
      * cbn [map to_targ path_init_parts].
        destruct a; try destruct Hnt; cbn [path_init_parts]; rewrite (IH [] _ Hr); cbn [rev app]; rewrite <- !app_assoc; reflexivity.
    + pose proof (wfs_not_p (c, a) Hs) as Hn. cbn [fst] in Hn. rewrite Hn.
      rewrite (IH ((c, a) :: cur) acc Hr). cbn [rev]. rewrite <- !app_assoc. reflexivity.
Qed.

Lemma split_wf : forall steps cur, Forall wfp steps -> Forall wfs cur ->
  Forall (fun p => match p with inl ch => has_p ch = false /\ Forall wfs ch | inr a => wfa a end) (split_chunks steps cur).
Proof.
  assert (Hnp : forall l, Forall wfs l -> has_p l = false).
  { induction l as [|x l IH]; intros H; [reflexivity|]. inversion H as [|? ? H1 H2]; subst.
    unfold has_p. cbn [existsb]. rewrite (wfs_not_p x H1). apply IH. exact H2. }
  induction steps as [|[c a] r IH]; intros cur Hw Hc.
  - cbn [split_chunks]. destruct cur as [|x l]; [constructor|].
    constructor; [|constructor]. split; [apply Hnp|]; apply Forall_rev; exact Hc.
  - inversion Hw as [|? ? H1 Hr]; subst. cbn [split_chunks].
    inversion H1 as [a0 Hwa Hnt|cx Hs]; subst.
    + cbn [String.eqb Ascii.eqb Bool.eqb]. destruct cur as [|x l].
      * constructor; [exact Hwa|]. apply IH; [exact Hr|constructor].
      * constructor; [split; [apply Hnp|]; apply Forall_rev; exact Hc|]. constructor; [exact Hwa|]. apply IH; [exact Hr|constructor].
    + pose proof (wfs_not_p (c, a) Hs) as Hn. cbn [fst] in Hn. rewrite Hn. apply IH; [exact Hr|]. constructor; assumption.
Qed.

Definition path_targs (r : root) (parts : list (list (string * targ) + targ)) : list targ :=
  match parts with [] => [] | p :: rest => to_targ r p :: map (to_targ RT) rest end.
Definition parts_of (r : root) (steps : list (string * targ)) : list (list (string * targ) + targ) :=
  match r, split_chunks steps [] with
  | RT, ps => ps
  | _, (inl _ :: _) as ps => ps
  | _, ps => inl [] :: ps end.

Lemma split_not_t : forall steps cur, Forall wfp steps ->
  Forall (fun p => match p with inl _ => True | inr a => not_t a end) (split_chunks steps cur).
Proof.
  induction steps as [|[c a] r IH]; intros cur Hw.
  - cbn [split_chunks]. destruct cur; constructor; [exact I|constructor].
  - inversion Hw as [|? ? H1 Hr]; subst. cbn [split_chunks].
    inversion H1 as [a0 Hwa Hnt|cx Hs]; subst.
    + cbn [String.eqb Ascii.eqb Bool.eqb]. destruct cur as [|x l].
      * constructor; [exact Hnt|apply IH; exact Hr].
      * constructor; [exact I|]. constructor; [exact Hnt|apply IH; exact Hr].
    + pose proof (wfs_not_p (c, a) Hs) as Hn. cbn [fst] in Hn. rewrite Hn. apply IH. exact Hr.
Qed.

Lemma eval_parts r steps : Forall wfp steps -> eval_path_call (path_targs r (parts_of r steps)) = Some (r, steps).
Proof.
  intros Hw.
  pose proof (split_rejoin steps [] [] Hw) as Hj. cbn [rev app] in Hj.
  pose proof (split_not_t steps [] Hw) as Hnt.
  unfold parts_of.
  destruct (split_chunks steps []) as [|p ps] eqn:Es.
  - (* no parts: no steps *)
    cbn [map path_init_parts] in Hj. injection Hj as <-. destruct r; reflexivity.
  - destruct p as [ch|a].
    + (* a leading chunk carries the root *)
      assert (E : eval_path_call (GT r ch :: map (to_targ RT) ps) = Some (r, steps)).
      { cbn [eval_path_call]. cbn [map to_targ path_init_parts app] in Hj. rewrite Hj. reflexivity. }
      destruct r; exact E.
    + inversion Hnt as [|? ? Ha _]; subst.
      destruct r.
      * (* rooted at T, a plain key first *)
        cbn [path_targs to_targ].
        change (a :: map (to_targ RT) ps) with (map (to_targ RT) (inr a :: ps)).
        unfold eval_path_call. cbn [map to_targ] in Hj |- *. rewrite Hj.
        destruct a; try destruct Ha; reflexivity.
      * cbn [path_targs to_targ eval_path_call]. change (a :: map (to_targ RT) ps) with (map (to_targ RT) (inr a :: ps)). rewrite Hj. reflexivity.
      * cbn [path_targs to_targ eval_path_call]. change (a :: map (to_targ RT) ps) with (map (to_targ RT) (inr a :: ps)). rewrite Hj. reflexivity.
Qed.

Lemma parts_wf r steps : Forall wfp steps -> Forall wfa (path_targs r (parts_of r steps)).
Proof.
  intros Hw. pose proof (split_wf steps [] Hw (Forall_nil _)) as Hs.
  assert (Hm : forall rt ps, Forall (fun p => match p with inl ch => has_p ch = false /\ Forall wfs ch | inr a => wfa a end) ps ->
                             Forall wfa (map (to_targ rt) ps)).
  { intros rt ps H. induction H as [|p l Hp Hl IH]; [constructor|]. cbn [map]. constructor; [|exact IH].
    destruct p as [ch|a]; cbn [to_targ]; [destruct Hp as [A B]; apply wfa_t; assumption|exact Hp]. }
  unfold parts_of.
  destruct (split_chunks steps []) as [|p ps] eqn:Es.
  - destruct r; cbn [path_targs]; try constructor; try (apply wfa_t; [reflexivity|constructor]); constructor.
  - inversion Hs as [|? ? Hp Hps]; subst.
    assert (Hfirst : forall rt, wfa (to_targ rt p)).
    { intros rt. destruct p as [ch|a]; cbn [to_targ]; [destruct Hp as [A B]; apply wfa_t; assumption|exact Hp]. }
    destruct p as [ch|a]; destruct r; cbn [path_targs map]; repeat (constructor; try apply Hfirst); try (apply Hm; exact Hps);
      try (apply wfa_t; [reflexivity|constructor]); try apply (Hfirst RT).
Qed.

Lemma fmt_path_parts r steps : (has_p steps = true \/ steps = []) -> (r = RT -> steps <> []) ->
  fmt_path true (r, steps) =
  KPath :: KLP :: join_comma (map (fmt_arg (fmt_path_f 3 true)) (path_targs r (parts_of r steps))) ++ [KRP].
Proof.
  intros Hc Hne. unfold fmt_path. cbn [fst snd]. cbn [fmt_path_f].
  assert (Hif : has_p steps || match steps with [] => true | _ :: _ => false end = true).
  { destruct Hc as [->| ->]; [reflexivity|apply orb_true_r]. }
  rewrite Hif.
  set (fa3 := fmt_arg (fmt_path_f 3 true)).
  match goal with |- context [ (fix go (first : bool) (l : list (list (string * targ) + targ)) {struct l} : list (list tok) := @?body go first l) ] =>
    set (go := (fix go (first : bool) (l : list (list (string * targ) + targ)) {struct l} : list (list tok) := body go first l)) end.
  assert (Gf : forall l, go false l = map fa3 (map (to_targ RT) l)).
  { induction l as [|p l IH]; [reflexivity|]. destruct p; cbn [go map to_targ]; rewrite IH; reflexivity. }
  assert (Gt : forall l, go true l = map fa3 (path_targs r l)).
  { intros l. destruct l as [|p l]; [reflexivity|]. destruct p; cbn [go path_targs map to_targ]; rewrite Gf; reflexivity. }
  assert (Hp : match r with
               | RT => split_chunks steps []
               | _ => match split_chunks steps [] with
                      | inl _ :: _ => split_chunks steps []
                      | _ => inl [] :: split_chunks steps [] end end = parts_of r steps).
  { unfold parts_of. destruct r; [reflexivity| |]; destruct (split_chunks steps []) as [|[ch|a] ps]; reflexivity. }
  destruct r.
  - destruct steps as [|s0 st]; [exfalso; apply (Hne eq_refl); reflexivity|].
    rewrite Gt. rewrite <- Hp. reflexivity.
  - destruct steps as [|s0 st]; rewrite Gt; rewrite <- Hp; reflexivity.
  - destruct steps as [|s0 st]; rewrite Gt; rewrite <- Hp; reflexivity.
Qed.

Lemma wfp_no_p_wfs steps : Forall wfp steps -> has_p steps = false -> Forall wfs steps.
Proof.
  induction steps as [|x l IH]; intros Hw Hp; [constructor|].
  inversion Hw as [|? ? H1 Hr]; subst. unfold has_p in Hp. cbn [existsb] in Hp. apply orb_false_iff in Hp. destruct Hp as [Hx Hl].
  constructor; [|apply IH; assumption].
  inversion H1 as [a Ha Hn|cx Hs]; subst; [discriminate Hx|exact Hs].
Qed.

Lemma path_targs_nonempty r steps : (r = RT -> steps <> []) -> Forall wfp steps -> path_targs r (parts_of r steps) <> [].
Proof.
  intros Hne Hw Hnil.
  pose proof (eval_parts r steps Hw) as E. rewrite Hnil in E. cbn in E. injection E as <- <-. apply (Hne eq_refl). reflexivity.
Qed.

Lemma fmt_path_f_nop k r steps : has_p steps = false -> steps <> [] ->
  fmt_path_f (S k) true r steps = fmt_arg (fmt_path_f k true) (GT r steps).
Proof.
  intros Hp Hne. destruct steps as [|s0 st]; [congruence|].
  change (fmt_path_f (S k) true r (s0 :: st)) with
    (if has_p (s0 :: st) || false then
       (match r with RT => KPath :: KLP :: join_comma ((fix go (first : bool) (l : list (list (string * targ) + targ)) : list (list tok) :=
                 match l with [] => [] | inl ch :: rest => fmt_arg (fmt_path_f k true) (GT (if first then r else RT) ch) :: go false rest
                 | inr a :: rest => fmt_arg (fmt_path_f k true) a :: go false rest end) true (split_chunks (s0 :: st) [])) ++ [KRP]
        | _ => KPath :: KLP :: join_comma ((fix go (first : bool) (l : list (list (string * targ) + targ)) : list (list tok) :=
                 match l with [] => [] | inl ch :: rest => fmt_arg (fmt_path_f k true) (GT (if first then r else RT) ch) :: go false rest
                 | inr a :: rest => fmt_arg (fmt_path_f k true) a :: go false rest end) true
                 (match split_chunks (s0 :: st) [] with inl _ :: _ => split_chunks (s0 :: st) [] | _ => inl [] :: split_chunks (s0 :: st) [] end)) ++ [KRP] end)
     else fmt_arg (fmt_path_f k true) (GT r (s0 :: st))) || idtac.
  cbn [fmt_path_f]. rewrite Hp. reflexivity.
Qed.

Theorem path_repr_roundtrip_lemma r steps :
  Forall wfp steps ->
  exists n, forall fuel, n <= fuel -> parse_top fuel (fmt_path true (r, steps)) = Some (r, steps).
Proof.
  intros Hw.
  destruct (has_p steps) eqn:Hp.
  2:{ destruct steps as [|s0 st].
      2:{ (* no plain key: printed as the T expression *)
          pose proof (wfp_no_p_wfs (s0 :: st) Hw Hp) as Hs.
          exists (4 * tsize (GT r (s0 :: st)) + 5). intros fuel Hf.
          pose proof (t_repr_roundtrip_lemma r (s0 :: st) (wfa_t r (s0 :: st) Hp Hs) fuel Hf) as E.
          unfold fmt_path. cbn [fst snd]. rewrite (fmt_path_f_nop 3 r (s0 :: st) Hp ltac:(discriminate)).
          exact E. }
      destruct r.
      - exists 1. intros fuel Hf. reflexivity.
      - exists 9. intros fuel Hf. do 9 (destruct fuel as [|fuel]; [lia|]). reflexivity.
      - exists 9. intros fuel Hf. do 9 (destruct fuel as [|fuel]; [lia|]). reflexivity. }
  (* plain keys: Path(...) *)
  assert (Hne : r = RT -> steps <> []) by (intros _ ->; discriminate Hp).
  set (pl := path_targs r (parts_of r steps)).
  pose proof (parts_wf r steps Hw) as Hwf. fold pl in Hwf.
  pose proof (path_targs_nonempty r steps Hne Hw) as Hnn. fold pl in Hnn.
  exists (4 * lsize pl + 5). intros fuel Hf.
  rewrite (fmt_path_parts r steps (or_introl Hp) Hne). fold pl.
  destruct pl as [|x xs] eqn:Epl; [congruence|].
  destruct (all_P (fmt_path_f 3 true) (lsize (x :: xs))) as (_ & _ & IL & _).
  pose proof (IL x xs (le_n _) Hwf fuel [] ltac:(lia)) as E.
  unfold parse_top.
  assert (Hhead : match join_comma (map (fmt_arg (fmt_path_f 3 true)) (x :: xs)) ++ [KRP] with KRP :: [] => False | _ => True end).
  { inversion Hwf as [|? ? Hwx _]; subst. destruct xs as [|y l].
    - cbn [map join_comma]. pose proof (fa_head (fmt_path_f 3 true) x [KRP] Hwx) as Hh.
      destruct (fmt_arg (fmt_path_f 3 true) x ++ [KRP]) as [|t ts]; [exact I|]. destruct t; try exact I. destruct Hh.
    - rewrite join_comma_cons. rewrite <- app_assoc.
      pose proof (fa_head (fmt_path_f 3 true) x ((KComma :: join_comma (map (fmt_arg (fmt_path_f 3 true)) (y :: l))) ++ [KRP]) Hwx) as Hh.
      destruct (fmt_arg (fmt_path_f 3 true) x ++ (KComma :: join_comma (map (fmt_arg (fmt_path_f 3 true)) (y :: l))) ++ [KRP]) as [|t ts]; [exact I|].
      destruct t; try exact I. destruct Hh. }
  destruct (join_comma (map (fmt_arg (fmt_path_f 3 true)) (x :: xs)) ++ [KRP]) as [|t ts] eqn:Et.
  - apply app_eq_nil in Et. destruct Et as [_ Et]. discriminate Et.
  - assert (Hm : match t :: ts with KRP :: [] => Some (RT, []) | _ =>
                   match parse_exprs fuel (t :: ts) with Some (parts, [KRP]) => eval_path_call parts | _ => None end end
                 = eval_path_call (x :: xs)).
    { rewrite E. destruct t; try reflexivity. destruct ts; [destruct Hhead|reflexivity]. }
    rewrite Hm. rewrite <- Epl. apply eval_parts. exact Hw.
Qed.
