(* Proofs/SchedProofs.v — C20: under every interleaving of the dict operations of Path.from_text, every call computes what
   it computes alone *)
From Coq Require Import String ZArith Bool List Lia.
From Glom Require Import Base.PyVal Generated.CacheOps Model.Cache Model.Sched Proofs.CacheProofs.
Import ListNotations.
Local Open Scope string_scope.
Local Open Scope list_scope.

Lemma Forall2_weaken {X Y} (P Q : X -> Y -> Prop) : (forall x y, P x y -> Q x y) -> forall l l', Forall2 P l l' -> Forall2 Q l l'.
Proof. intros H l l' HF. induction HF; constructor; auto. Qed.

Section SchedProofs.
  Context {V A : Type}.
  Variable create : bool -> string -> V.
  Variable maxc : Z.
  Variable star : bool.
  Variable lencheck : bool.
  Variable storable : V -> bool.
  Implicit Types c : @caches V.

  (* what a thread state will return, computed with no cache at all *)
  Definition denote (ts : @tstate V A) : option A :=
    match ts with
    | TRun p => Some (run_pure create star p)
    | TMiss text k | TStore text k | TRead text k => Some (run_pure create star (k (create star text)))
    | TDone a => Some a
    | TKeyError => None end.

  (* a thread about to read cache[text] has seen text in the cache *)
  Definition present (c : @caches V) (ts : @tstate V A) : Prop :=
    match ts with TRead text _ => str_assoc text (sel star c) <> None | _ => True end.

  Lemma tset_lookup k v : forall (t : @table V) k', str_assoc k' (tset k v t) = if String.eqb k' k then Some v else str_assoc k' t.
  Proof.
    induction t as [|[k1 v1] r IH]; intros k'; cbn.
    - destruct (String.eqb k' k); reflexivity.
    - destruct (String.eqb k k1) eqn:E; cbn.
      + apply String.eqb_eq in E. subst k1. destruct (String.eqb k' k); reflexivity.
      + rewrite IH. destruct (String.eqb k' k1) eqn:E1; [|reflexivity].
        apply String.eqb_eq in E1. subst k'. rewrite String.eqb_sym, E. reflexivity.
  Qed.

  Lemma sel_upd_same' s c t : sel s (upd s c t) = t.
  Proof. destruct s; reflexivity. Qed.
  Lemma sel_upd_other' s c t : sel (negb s) (upd s c t) = sel (negb s) c.
  Proof. destruct s; reflexivity. Qed.

  (* one step of one thread: the memo invariant holds on, nothing is ever removed, the thread still denotes the same answer *)
  Lemma step_sound c ts : Inv create c -> present c ts ->
    let '(ts', c') := step create maxc star lencheck storable c ts in
    Inv create c' /\ denote ts' = denote ts /\ present c' ts' /\
    (forall s text, str_assoc text (sel s c) <> None -> str_assoc text (sel s c') <> None).
  Proof.
    intros HI Hp. destruct ts as [[a|text k]|text k|text k|text k|a|]; cbn [step].
    - repeat split; auto.
    - destruct (str_assoc text (sel star c)) as [v|] eqn:E; [repeat split; auto; cbn; congruence|].
      destruct (storable (create star text)); [destruct lencheck|]; repeat split; auto.
    - destruct (path_cache_full _ _); repeat split; auto.
    - repeat split.
      + intros s text' p H. destruct (Bool.eqb s star) eqn:Es.
        * apply Bool.eqb_prop in Es. subst s. rewrite sel_upd_same', tset_lookup in H.
          destruct (String.eqb text' text) eqn:Et.
          -- apply String.eqb_eq in Et. subst. inversion H. reflexivity.
          -- apply HI. exact H.
        * assert (s = negb star) as -> by (destruct s, star; cbn in Es; try discriminate; reflexivity).
          rewrite sel_upd_other' in H. apply HI. exact H.
      + cbn. rewrite sel_upd_same', tset_lookup, String.eqb_refl. discriminate.
      + intros s text' H. destruct (Bool.eqb s star) eqn:Es.
        * apply Bool.eqb_prop in Es. subst s. rewrite sel_upd_same', tset_lookup.
          destruct (String.eqb text' text); [discriminate|exact H].
        * assert (s = negb star) as -> by (destruct s, star; cbn in Es; try discriminate; reflexivity).
          rewrite sel_upd_other'. exact H.
    - cbn in Hp. destruct (str_assoc text (sel star c)) as [v|] eqn:E; [|congruence].
      repeat split; auto. cbn. rewrite (HI star text v E). reflexivity.
    - repeat split; auto.
    - repeat split; auto.
  Qed.

  Definition good (c : @caches V) (ths : list (@tstate V A)) (answers : list A) : Prop :=
    Inv create c /\ Forall2 (fun ts a => denote ts = Some a /\ present c ts) ths answers.

  Lemma present_mono c c' ts :
    (forall s text, str_assoc text (sel s c) <> None -> str_assoc text (sel s c') <> None) -> present c ts -> present c' ts.
  Proof. intros H. destruct ts; cbn; auto. Qed.

  Lemma sched_step_good c ths answers i : good c ths answers ->
    let '(ths', c') := sched_step create maxc star lencheck storable (ths, c) i in good c' ths' answers.
  Proof.
    intros [HI HF]. cbn [sched_step].
    destruct (nth_error ths i) as [ts|] eqn:En; [|split; assumption].
    assert (Hts : exists a, nth_error answers i = Some a /\ denote ts = Some a /\ present c ts).
    { clear - HF En. revert i answers HF En. induction ths as [|t0 r IH]; intros [|i] answers HF En; cbn in En; try discriminate.
      - inversion En; subst. inversion HF as [|? a0 ? ? Hhd Htl]; subst. exists a0. cbn. split; [reflexivity|exact Hhd].
      - inversion HF as [|? a0 ? ? Hhd Htl]; subst. destruct (IH i _ Htl En) as [a Ha]. exists a. exact Ha. }
    destruct Hts as [a [Ha [Hd Hp]]].
    pose proof (step_sound c ts HI Hp) as Hs.
    destruct (step create maxc star lencheck storable c ts) as [ts' c']. destruct Hs as [HI' [Hd' [Hp' Hm]]].
    split; [exact HI'|].
    clear - HF En Ha Hd Hd' Hp' Hm. revert i answers HF En Ha.
    induction ths as [|t0 r IH]; intros [|i] answers HF En Ha; cbn in En; try discriminate;
      inversion HF as [|? a0 ? ? Hhd Htl]; subst; cbn [set_nth].
    - inversion En; subst. cbn in Ha. inversion Ha; subst. constructor.
      + split; [congruence|exact Hp'].
      + eapply Forall2_weaken; [|exact Htl]. intros t a1 [G1 G2]. split; [exact G1|eapply present_mono; eauto].
    - constructor.
      + destruct Hhd as [G1 G2]. split; [exact G1|eapply present_mono; eauto].
      + eapply IH; eauto.
  Qed.

  Lemma run_schedule_good : forall schedule c ths answers, good c ths answers ->
    let '(ths', c') := run_schedule create maxc star lencheck storable (ths, c) schedule in good c' ths' answers.
  Proof.
    induction schedule as [|i r IH]; intros c ths answers H; cbn [run_schedule fold_left]; [exact H|].
    pose proof (sched_step_good c ths answers i H) as Hs.
    destruct (sched_step create maxc star lencheck storable (ths, c) i) as [ths1 c1]. apply (IH c1 ths1 answers Hs).
  Qed.

  Lemma initial_good c (ps : list (@prog V A)) : Inv create c ->
    good c (map (@TRun V A) ps) (map (run_pure create star) ps).
  Proof.
    intros HI. split; [exact HI|]. induction ps as [|p r IH]; cbn; constructor; [split; [reflexivity|exact I]|exact IH].
  Qed.

  (* interleaving = isolation: after ANY schedule, a thread that is done holds the answer it computes alone, no thread has
     failed, and the threads that are not done still denote their isolated answers *)
  Theorem interleaving_equals_isolation_lemma (ps : list (@prog V A)) c schedule : Inv create c ->
    let '(ths, c') := run_schedule create maxc star lencheck storable (map (@TRun V A) ps, c) schedule in
    Inv create c' /\ Forall2 (fun ts p => denote ts = Some (run_pure create star p)) ths ps.
  Proof.
    intros HI. pose proof (run_schedule_good schedule c _ _ (initial_good c ps HI)) as H.
    destruct (run_schedule create maxc star lencheck storable (map (@TRun V A) ps, c) schedule) as [ths c']. destruct H as [HI' HF].
    split; [exact HI'|].
    clear - HF. revert ths HF. induction ps as [|p r IH]; intros ths HF; cbn in HF; inversion HF as [|? ? ? ? Hhd Htl]; subst; constructor.
    - destruct Hhd as [G1 _]. exact G1.
    - apply IH. exact Htl.
  Qed.

  Corollary done_threads_hold_isolated_answers (ps : list (@prog V A)) schedule i a :
    nth_error (fst (run_schedule create maxc star lencheck storable (map (@TRun V A) ps, empty) schedule)) i = Some (TDone a) ->
    exists p, nth_error ps i = Some p /\ a = run_pure create star p.
  Proof.
    intros H. pose proof (interleaving_equals_isolation_lemma ps empty schedule (empty_inv create)) as Hs.
    destruct (run_schedule create maxc star lencheck storable (map (@TRun V A) ps, empty) schedule) as [ths c']. destruct Hs as [_ HF]. cbn in H.
    clear - HF H. revert i ps HF H. induction ths as [|t r IH]; intros [|i] ps HF H; cbn in H; try discriminate;
      inversion HF as [|? p0 ? ? Hhd Htl]; subst.
    - inversion H; subst. cbn in Hhd. inversion Hhd. exists p0. split; reflexivity.
    - destruct (IH i _ Htl H) as [p [Hp Ha]]. exists p. split; assumption.
  Qed.

  Corollary no_thread_fails (ps : list (@prog V A)) schedule i :
    nth_error (fst (run_schedule create maxc star lencheck storable (map (@TRun V A) ps, empty) schedule)) i <> Some TKeyError.
  Proof.
    intros H. pose proof (interleaving_equals_isolation_lemma ps empty schedule (empty_inv create)) as Hs.
    destruct (run_schedule create maxc star lencheck storable (map (@TRun V A) ps, empty) schedule) as [ths c']. destruct Hs as [_ HF]. cbn in H.
    clear - HF H. revert i ps HF H. induction ths as [|t r IH]; intros [|i] ps HF H; cbn in H; try discriminate;
      inversion HF as [|? p0 ? ? Hhd Htl]; subst.
    - inversion H; subst. cbn in Hhd. discriminate.
    - eapply IH; eauto.
  Qed.
End SchedProofs.

(* re-entrancy: a call made from inside a call is part of the same sequential program *)
Section Reentrant.
  Context {V : Type}.
  Variable create : bool -> string -> V.
  Variable maxc : Z.

  Fixpoint pbind {A B} (p : @prog V A) (f : A -> @prog V B) : @prog V B :=
    match p with Ret a => f a | Ask text k => Ask text (fun v => pbind (k v) f) end.

  Lemma run_pure_bind {A B} star (p : @prog V A) (f : A -> @prog V B) :
    run_pure create star (pbind p f) = run_pure create star (f (run_pure create star p)).
  Proof. induction p as [a|text k IH]; cbn; [reflexivity|apply IH]. Qed.

  (* an outer call that makes a nested call and continues with its result: with any cache satisfying the invariant the
     outcome is the outer continuation applied to the nested call's isolated outcome *)
  Lemma reentrant_equals_isolation_lemma {A B} star c (inner : @prog V A) (outer : A -> @prog V B) :
    Inv create c -> fst (run create maxc star c (pbind inner outer)) = run_pure create star (outer (run_pure create star inner)).
  Proof.
    intros HI. destruct (run_pure_eq create maxc star (pbind inner outer) c HI) as [H _]. rewrite H. apply run_pure_bind.
  Qed.
End Reentrant.
