(* Proofs/TEvalProofs.v — lemmas about Model/TEval.v (C01, C02) *)
From Coq Require Import String Ascii ZArith Bool List Lia ZifyBool.
From Glom Require Import Base.PyVal Base.PySlice Generated.TOpTable Generated.ExcTable Model.TEval Model.Exc Spec.PathSpec.
Import ListNotations.
Local Open Scope string_scope.
Local Open Scope list_scope.
Ltac Zify.zify_post_hook ::= Z.to_euclidean_division_equations.

(* PathAccessError's place in the class lattice, from the regenerated class headers *)
Lemma pae_class_lattice_lemma :
  forallb (exc_isa "PathAccessError") ["GlomError"; "KeyError"; "IndexError"; "AttributeError"; "LookupError"; "Exception"] = true.
Proof. vm_compute. reflexivity. Qed.

(* ---------- the flat tuple ---------- *)
Lemma length_flatten steps : length (flatten_steps steps) = 2 * length steps.
Proof. induction steps as [|[c a] r IH]; cbn [flatten_steps length]; lia. Qed.
Lemma length_flat r steps : length (flat r steps) = 1 + 2 * length steps.
Proof. unfold flat. cbn [length]. rewrite length_flatten. lia. Qed.

Lemma nth_flatten_code steps : forall k c a, nth_error steps k = Some (c, a) ->
  nth_error (flatten_steps steps) (2 * k) = Some (CCode c) /\ nth_error (flatten_steps steps) (2 * k + 1) = Some (CArg a).
Proof.
  induction steps as [|[c0 a0] r IH]; intros [|k] c a H; cbn in H; try discriminate.
  - injection H as -> ->. split; reflexivity.
  - destruct (IH k c a H) as [H1 H2]. replace (2 * S k) with (S (S (2 * k))) by lia.
    cbn [flatten_steps nth_error Nat.add]. split; [exact H1|]. replace (S (S (2 * k)) + 1) with (S (S (2 * k + 1))) by lia. exact H2.
Qed.

Lemma nth_flat r steps k c a : nth_error steps k = Some (c, a) ->
  nth_error (flat r steps) (1 + 2 * k) = Some (CCode c) /\ nth_error (flat r steps) (2 + 2 * k) = Some (CArg a).
Proof.
  intro H. destruct (nth_flatten_code steps k c a H) as [H1 H2]. unfold flat. split.
  - exact H1.
  - replace (2 + 2 * k) with (S (2 * k + 1)) by lia. exact H2.
Qed.

(* ---------- the loop walks the steps in order: index i = 1 + 2k is step k ---------- *)
Fixpoint replay_cells (rec : evalfn) (target : val) (cells : list cell) (steps : list (string * arg)) (k : nat) (cur : val) : res val :=
  match steps with
  | [] => Ok cur
  | (c, a) :: r =>
      do ea <- arg_val rec target a;
      do x <- step_op rec target cells (Z.of_nat (1 + 2 * k)) c ea cur;
      match x with inl cur' => replay_cells rec target cells r (S k) cur' | inr fin => Ok fin end
  end.

Lemma skipn_nth {A} (l : list A) k x : nth_error l k = Some x -> skipn k l = x :: skipn (S k) l.
Proof. revert k; induction l as [|y r IH]; intros [|k] H; cbn in *; try discriminate; [congruence|apply IH; exact H]. Qed.

Lemma loop_replay rec target r steps : forall m k cur n,
  m = length steps - k -> k <= length steps -> m < n ->
  loop n rec target (flat r steps) (Z.of_nat (1 + 2 * k)) cur
  = replay_cells rec target (flat r steps) (skipn k steps) k cur.
Proof.
  induction m as [|m IH]; intros k cur n Hm Hk Hn; (destruct n as [|n]; [lia|]); cbn [loop]; rewrite length_flat.
  - assert (k = length steps) by lia. subst k.
    replace (Z.of_nat (1 + 2 * length steps) <? Z.of_nat (1 + 2 * length steps))%Z with false by (symmetry; apply Z.ltb_irrefl).
    rewrite skipn_all. reflexivity.
  - assert (Hlt : k < length steps) by lia.
    destruct (nth_error steps k) as [[c a]|] eqn:E; [|apply nth_error_None in E; lia].
    replace (Z.of_nat (1 + 2 * k) <? Z.of_nat (1 + 2 * length steps))%Z with true by (symmetry; apply Z.ltb_lt; lia).
    destruct (nth_flat r steps k c a E) as [H1 H2].
    unfold zidx. rewrite Nat2Z.id.
    replace (Z.to_nat (Z.of_nat (1 + 2 * k) + 1)) with (2 + 2 * k) by lia.
    rewrite H1, H2. rewrite (skipn_nth _ _ _ E). cbn [replay_cells].
    destruct (arg_val rec target a) as [ea| | |]; cbn [bind]; try reflexivity.
    destruct (step_op rec target (flat r steps) (Z.of_nat (1 + 2 * k)) c ea cur) as [[cur'|fin]| | |]; cbn [bind]; try reflexivity.
    replace (Z.of_nat (1 + 2 * k) + loop_step)%Z with (Z.of_nat (1 + 2 * S k)) by (unfold loop_step; lia).
    apply IH; lia.
Qed.

Lemma t_eval_replay fuel target steps :
  t_eval (S fuel) target (flat RT steps) = replay_cells (t_eval fuel) target (flat RT steps) steps 0 target.
Proof.
  cbn [t_eval flat]. change (CRoot RT :: flatten_steps steps) with (flat RT steps).
  replace loop_start with (Z.of_nat (1 + 2 * 0)) by reflexivity.
  rewrite (loop_replay (t_eval fuel) target RT steps (length steps) 0 target); [reflexivity|lia|lia|rewrite length_flat; lia].
Qed.

(* ---------- Path(...) of plain segments is a sequence of 'P' steps ---------- *)
Lemma flatten_app a b : flatten_steps (a ++ b) = flatten_steps a ++ flatten_steps b.
Proof. induction a as [|[c x] r IH]; cbn [flatten_steps app]; [reflexivity|rewrite IH; reflexivity]. Qed.

Lemma path_init_flat ps : forall pre, path_init (flat RT pre) ps = flat RT (pre ++ parts_steps ps).
Proof.
  induction ps as [|p r IH]; intro pre; cbn [path_init parts_steps map concat].
  - rewrite app_nil_r. reflexivity.
  - destruct p as [v|steps]; cbn [part_steps].
    + unfold t_child. replace (flat RT pre ++ [CCode "P"; CArg (ALit v)]) with (flat RT (pre ++ [("P", ALit v)])).
      * rewrite IH. rewrite <- app_assoc. reflexivity.
      * unfold flat. rewrite flatten_app. reflexivity.
    + replace (flat RT pre ++ flatten_steps steps) with (flat RT (pre ++ steps)) by (unfold flat; rewrite flatten_app; reflexivity).
      rewrite IH. rewrite <- app_assoc. reflexivity.
Qed.

Lemma path_of_parts_flat ps : path_of_parts ps = flat RT (parts_steps ps).
Proof. unfold path_of_parts. change [CRoot RT] with (flat RT []). apply path_init_flat. Qed.

Lemma part_idx_p_spec k : zidx (part_idx_p (Z.of_nat (1 + 2 * k))) = k.
Proof. unfold zidx, part_idx_p. lia. Qed.

Lemma p_catches_everything cls : exc_caught (catches_of "P") cls = true.
Proof. vm_compute. reflexivity. Qed.

Lemma step_P rec target cells k v cur :
  step_op rec target cells (Z.of_nat (1 + 2 * k)) "P" (EVal v) cur =
  match access1 cur v with
  | Ok x => Ok (inl x) | Raise e => Raise (pae (ecls e) k) | Unmodelled t => Unmodelled t | OutOfFuel => OutOfFuel end.
Proof.
  unfold step_op. cbn [String.eqb Ascii.eqb Bool.eqb orb andb].
  change (if "P" =? "." then _ else _) with
    (do v0 <- wrap_pae "P" (part_idx_p (Z.of_nat (1 + 2 * k))) (get_handler_get cur (EVal v)); @Ok (val + val) (inl v0)).
  unfold access1, wrap_pae. destruct (get_handler_get cur (EVal v)) as [x|e|t|]; cbn [bind]; try reflexivity.
  rewrite p_catches_everything, part_idx_p_spec. reflexivity.
Qed.

Lemma replay_P rec target cells vs : forall k cur,
  replay_cells rec target cells (map (fun v => ("P", ALit v)) vs) k cur = access vs k cur.
Proof.
  induction vs as [|v r IH]; intros k cur; cbn [map replay_cells access]; [reflexivity|].
  cbn [arg_val bind]. rewrite step_P. destruct (access1 cur (rebuild v)); cbn [bind]; try reflexivity. apply IH.
Qed.

Lemma parts_steps_vals vs : parts_steps (map PVal vs) = map (fun v => ("P", ALit v)) vs.
Proof. induction vs as [|v r IH]; [reflexivity|]. unfold parts_steps in *. cbn [map concat part_steps app]. rewrite IH. reflexivity. Qed.

Lemma path_refines_access_lemma fuel target vs :
  t_eval (S fuel) target (path_of_parts (map PVal vs)) = access vs 0 target.
Proof. rewrite path_of_parts_flat, t_eval_replay, parts_steps_vals. apply replay_P. Qed.

(* text paths: split on '.', every segment a 'P' step (no wildcard segment) *)
Lemma seg_parts_no_star b segs : no_star segs -> map (seg_part b) segs = map PVal (map VStr segs).
Proof.
  induction segs as [|s r IH]; intro H; [reflexivity|]. cbn [map]. rewrite IH by (intros x Hx; apply H; right; exact Hx).
  f_equal. unfold seg_part. destruct (H s (or_introl eq_refl)) as [H1 H2].
  destruct (String.eqb_spec s "*"); [contradiction|]. destruct (String.eqb_spec s "**"); [contradiction|].
  rewrite !andb_false_r. reflexivity.
Qed.

Lemma text_path_refines_access_lemma fuel b target text :
  no_star (split_dots text) ->
  t_eval (S fuel) target (from_text b text) = access (map VStr (split_dots text)) 0 target.
Proof. intro H. unfold from_text. rewrite seg_parts_no_star by exact H. apply path_refines_access_lemma. Qed.

(* ---------- identity: the result is the object stored in the target, labels and all ---------- *)
Inductive child : val -> val -> Prop :=
| ch_list i xs v : In v xs -> child (VList i xs) v
| ch_tuple i xs v : In v xs -> child (VTuple i xs) v
| ch_dict i od kvs k v : In (k, v) kvs -> child (VDict i od kvs) v
| ch_obj i c attrs n v : In (n, v) attrs -> child (VObj i c attrs) v.
Inductive reaches : val -> val -> Prop :=
| r_refl v : reaches v v
| r_step a b c : child a b -> reaches b c -> reaches a c.

Lemma kv_lookup_in eqb k kvs v : kv_lookup eqb k kvs = Some v -> exists k', In (k', v) kvs.
Proof. induction kvs as [|[k' v'] r IH]; cbn; [discriminate|]. destruct (eqb k k').
  - intro H; injection H as ->. exists k'. left; reflexivity.
  - intro H. destruct (IH H) as [k2 H2]. exists k2. right; exact H2. Qed.
Lemma str_assoc_in {B} k (l : list (string * B)) v : str_assoc k l = Some v -> In (k, v) l.
Proof. induction l as [|[k' v'] r IH]; cbn; [discriminate|]. destruct (String.eqb_spec k k').
  - intro H; injection H as ->. subst. left; reflexivity.
  - intro H. right. apply IH; exact H. Qed.
Lemma seq_index_in {A} (xs : list A) z v : seq_index xs z = Some v -> In v xs.
Proof. unfold seq_index. destruct (_ && _); [apply nth_error_In|]. destruct (_ && _); [apply nth_error_In|discriminate]. Qed.

Lemma access1_child cur seg v : access1 cur seg = Ok v -> child cur v.
Proof.
  unfold access1, get_handler_get. destruct cur as [| | | |i xs|i xs|i od kvs| |i c attrs| | | |]; cbn [getitem_val].
  all: try (unfold getattr_val; destruct seg; try discriminate;
            match goal with |- context [safe_attr ?s] => destruct (safe_attr s) end; cbn [negb]; discriminate).
  - destruct (py_int seg) as [z|c]; [|discriminate]. destruct (seq_index xs z) eqn:E; [|discriminate].
    intro H; injection H as <-. constructor. eapply seq_index_in; eauto.
  - destruct (py_int seg) as [z|c]; [|discriminate]. destruct (seq_index xs z) eqn:E; [|discriminate].
    intro H; injection H as <-. constructor. eapply seq_index_in; eauto.
  - destruct (hashable seg); [|discriminate]. destruct (kv_lookup py_eqb seg kvs) eqn:E; [|discriminate].
    intro H; injection H as <-. destruct (kv_lookup_in _ _ _ _ E) as [k' Hk]. econstructor; eauto.
  - unfold getattr_val. destruct seg; try discriminate. destruct (safe_attr s); cbn [negb]; [|discriminate].
    destruct (str_assoc s attrs) eqn:E; [|discriminate]. intro H; injection H as <-. econstructor. eapply str_assoc_in; eauto.
Qed.

Lemma path_returns_identity_lemma segs : forall k cur v, access segs k cur = Ok v -> reaches cur v.
Proof.
  induction segs as [|s r IH]; intros k cur v; cbn [access].
  - intro H; injection H as <-. constructor.
  - destruct (access1 cur (rebuild s)) eqn:E; try discriminate. intro H.
    eapply r_step; [eapply access1_child; eauto|eapply IH; eauto].
Qed.

(* ---------- first failing segment: index = its position; later segments are irrelevant ---------- *)
Lemma access_app pre : forall k cur c rest,
  access pre k cur = Ok c -> access (pre ++ rest) k cur = access rest (k + length pre) c.
Proof.
  induction pre as [|s r IH]; intros k cur c rest; cbn [access app length].
  - intro H; injection H as <-. rewrite Nat.add_0_r. reflexivity.
  - destruct (access1 cur (rebuild s)); try discriminate. intro H. rewrite (IH _ _ _ _ H). f_equal. lia.
Qed.

Lemma path_first_failure_lemma pre bad rest target c e :
  access pre 0 target = Ok c -> access1 c (rebuild bad) = Raise e ->
  access (pre ++ bad :: rest) 0 target = Raise (pae (ecls e) (length pre)).
Proof. intros H1 H2. rewrite (access_app _ _ _ _ _ H1). cbn [access]. rewrite H2. reflexivity. Qed.

(* a raised PathAccessError always carries the position of the first inaccessible segment *)
Lemma access_raise_position segs : forall k cur e,
  access segs k cur = Raise e ->
  exists pre bad rest c e0, segs = pre ++ bad :: rest /\ access pre k cur = Ok c /\ access1 c (rebuild bad) = Raise e0
                            /\ e = pae (ecls e0) (k + length pre).
Proof.
  induction segs as [|s r IH]; intros k cur e; cbn [access]; [discriminate|].
  destruct (access1 cur (rebuild s)) as [v|e0|t|] eqn:E; try discriminate.
  - intro H. destruct (IH _ _ _ H) as (pre & bad & rest & c & e1 & -> & Hp & Hb & ->).
    exists (s :: pre), bad, rest, c, e1. cbn [app access length]. rewrite E. repeat split; auto. f_equal. lia.
  - intro H; injection H as <-. exists [], s, r, cur, e0. cbn. rewrite Nat.add_0_r. auto.
Qed.

(* ---- the arguments of a recorded call are evaluated in Python's order: positional left to right, then keywords ---- *)
Definition eval_one (rec : evalfn) (target : val) (x : arg) : res val :=
  match arg_val rec target x with
  | Ok (EVal v) => Ok v
  | Ok _ => Unmodelled "call-arg"
  | Raise e => Raise e | Unmodelled t => Unmodelled t | OutOfFuel => OutOfFuel end.
Fixpoint eval_pos (rec : evalfn) (target : val) (l : list arg) : res (list val) :=
  match l with
  | [] => Ok []
  | x :: r => match eval_one rec target x with
              | Ok v => match eval_pos rec target r with Ok vs => Ok (v :: vs) | Raise e => Raise e | Unmodelled t => Unmodelled t | OutOfFuel => OutOfFuel end
              | Raise e => Raise e | Unmodelled t => Unmodelled t | OutOfFuel => OutOfFuel end end.
Fixpoint eval_kws (rec : evalfn) (target : val) (l : list (string * arg)) : res (list (string * val)) :=
  match l with
  | [] => Ok []
  | (k, x) :: r => match eval_one rec target x with
                   | Ok v => match eval_kws rec target r with Ok kvs => Ok ((k, v) :: kvs) | Raise e => Raise e | Unmodelled t => Unmodelled t | OutOfFuel => OutOfFuel end
                   | Raise e => Raise e | Unmodelled t => Unmodelled t | OutOfFuel => OutOfFuel end end.

Lemma call_args_order_lemma : forall rec target args kw,
  arg_val rec target (ACall args kw) =
  match eval_pos rec target args with
  | Ok vs => match eval_kws rec target kw with
             | Ok kvs => Ok (ECall vs kvs)
             | Raise e => Raise e | Unmodelled t => Unmodelled t | OutOfFuel => OutOfFuel end
  | Raise e => Raise e | Unmodelled t => Unmodelled t | OutOfFuel => OutOfFuel end.
Proof.
  intros rec target args kw. cbn [arg_val].
  match goal with |- bind ?P _ = _ => assert (HP : P = eval_pos rec target args) end.
  { induction args as [|x r IH]; [reflexivity|]. cbn [eval_pos]. unfold eval_one.
    destruct (arg_val rec target x) as [[v|? ? ?|? ?|]|e|t|]; cbn [bind]; try reflexivity.
    rewrite IH. destruct (eval_pos rec target r); reflexivity. }
  rewrite HP. destruct (eval_pos rec target args) as [vs|e|t|]; cbn [bind]; try reflexivity.
  match goal with |- bind ?P _ = _ => assert (HK : P = eval_kws rec target kw) end.
  { induction kw as [|[k x] r IH]; [reflexivity|]. cbn [eval_kws]. unfold eval_one.
    destruct (arg_val rec target x) as [[v|? ? ?|? ?|]|e|t|]; cbn [bind]; try reflexivity.
    rewrite IH. destruct (eval_kws rec target r); reflexivity. }
  rewrite HK. destruct (eval_kws rec target kw); reflexivity.
Qed.

(* the first failing positional argument is the one reported, whatever follows it and whatever the keywords hold *)
Lemma eval_pos_first_failure : forall rec target pre x post vs e,
  eval_pos rec target pre = Ok vs -> eval_one rec target x = Raise e ->
  eval_pos rec target (pre ++ x :: post) = Raise e.
Proof.
  intros rec target pre. induction pre as [|p pre IH]; intros x post vs e Hpre Hx; cbn [app eval_pos].
  - rewrite Hx. reflexivity.
  - cbn [eval_pos] in Hpre. destruct (eval_one rec target p) as [v|?|?|]; try discriminate.
    destruct (eval_pos rec target pre) as [vs'|?|?|] eqn:E; try discriminate.
    rewrite (IH x post vs' e eq_refl Hx). reflexivity.
Qed.
Lemma call_positional_failure_first_lemma : forall rec target pre x post kw vs e,
  eval_pos rec target pre = Ok vs -> eval_one rec target x = Raise e ->
  arg_val rec target (ACall (pre ++ x :: post) kw) = Raise e.
Proof. intros. rewrite call_args_order_lemma, (eval_pos_first_failure _ _ _ _ _ _ _ H H0). reflexivity. Qed.
(* a keyword argument is only evaluated once every positional one has a value; the first failing keyword is reported *)
Lemma call_keyword_failure_lemma : forall rec target args pre k x post vs kvs e,
  eval_pos rec target args = Ok vs -> eval_kws rec target pre = Ok kvs -> eval_one rec target x = Raise e ->
  arg_val rec target (ACall args (pre ++ (k, x) :: post)) = Raise e.
Proof.
  intros rec target args pre k x post vs kvs e Ha Hpre Hx. rewrite call_args_order_lemma, Ha.
  assert (H : eval_kws rec target (pre ++ (k, x) :: post) = Raise e).
  { revert kvs Hpre. induction pre as [|[k' p] pre IH]; intros kvs Hpre; cbn [app eval_kws].
    - rewrite Hx. reflexivity.
    - cbn [eval_kws] in Hpre. destruct (eval_one rec target p); try discriminate.
      destruct (eval_kws rec target pre) as [kvs'|?|?|]; try discriminate. rewrite (IH kvs' eq_refl). reflexivity. }
  rewrite H. reflexivity.
Qed.
