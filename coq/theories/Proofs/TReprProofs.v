(* Proofs/TReprProofs.v — C18: pickling state round trip; Path concatenation composes *)
From Coq Require Import String Ascii ZArith Bool List Lia.
From Glom Require Import Base.PyVal Model.TEval Model.TRepr Spec.PathSpec Proofs.TEvalProofs.
Import ListNotations.
Local Open Scope string_scope.
Local Open Scope list_scope.

Lemma setstate_getstate_lemma (e : texpr) : setstate (getstate e) = Some e.
Proof. destruct e as [[| |] steps]; reflexivity. Qed.

Lemma access_app_notok p : forall k cur q, (forall c, access p k cur <> Ok c) -> access (p ++ q) k cur = access p k cur.
Proof.
  induction p as [|s r IH]; intros k cur q H; cbn [access app] in *.
  - exfalso. apply (H cur). reflexivity.
  - destruct (access1 cur (rebuild s)); try reflexivity. apply IH. exact H.
Qed.

(* glom(t, Path(p, q)) = glom(glom(t, p), q) for plain segments: success iff both halves succeed, same object *)
Lemma path_concat_composes_lemma p q target v :
  access (p ++ q) 0 target = Ok v <-> exists c, access p 0 target = Ok c /\ access q (length p) c = Ok v.
Proof.
  split.
  - intro H. destruct (access p 0 target) as [c|e|t|] eqn:E.
    + exists c. split; [reflexivity|]. rewrite (access_app _ _ _ _ _ E) in H. exact H.
    + rewrite access_app_notok in H by (rewrite E; discriminate). congruence.
    + rewrite access_app_notok in H by (rewrite E; discriminate). congruence.
    + rewrite access_app_notok in H by (rewrite E; discriminate). congruence.
  - intros [c [H1 H2]]. rewrite (access_app _ _ _ _ _ H1). exact H2.
Qed.

(* the running index only shows in errors: success is independent of the starting index *)
Lemma access_ok_index_irrelevant segs : forall k k' cur v, access segs k cur = Ok v -> access segs k' cur = Ok v.
Proof.
  induction segs as [|s r IH]; intros k k' cur v; cbn [access]; [auto|].
  destruct (access1 cur (rebuild s)); try discriminate. apply IH.
Qed.
