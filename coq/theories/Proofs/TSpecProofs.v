(* Proofs/TSpecProofs.v — C02: evaluating a recorded T expression = replaying the denoted operations *)
From Coq Require Import String Ascii ZArith Bool List Lia ZifyBool.
From Glom Require Import Base.PyVal Base.PySlice Generated.TOpTable Model.TEval Spec.TSpec Proofs.TEvalProofs.
Import ListNotations.
Local Open Scope string_scope.
Local Open Scope list_scope.
Ltac Zify.zify_post_hook ::= Z.to_euclidean_division_equations.

(* ---------- obligations about the regenerated tables ---------- *)
Definition bin_dunders : list string :=
  ["__add__"; "__sub__"; "__mul__"; "__floordiv__"; "__truediv__"; "__mod__"; "__pow__"; "__and__"; "__or__"; "__xor__"].
Definition un_dunders : list string := ["__invert__"; "__neg__"].
Definition special_codes : list string := ["."; "["; "P"; "x"; "X"; "("].
Definition is_special (c : string) : bool := existsb (String.eqb c) special_codes.

Definition binop_eqb (a b : binop) : bool :=
  match a, b with
  | BAdd, BAdd | BSub, BSub | BMult, BMult | BFloorDiv, BFloorDiv | BDiv, BDiv | BMod, BMod | BPow, BPow
  | BAnd, BAnd | BOr, BOr | BXor, BXor => true | _, _ => false end.
Definition unop_eqb (a b : unop) : bool := match a, b with UInvert, UInvert | UNeg, UNeg => true | _, _ => false end.

(* every arithmetic overload records an opcode that has an arm, and the arm applies the operator the dunder denotes *)
Definition bin_ok (d : string) : bool :=
  match binop_of_dunder d, code_of_dunder d with
  | Some o, Some c =>
      negb (is_special c) &&
      match str_assoc c arith_arms with
      | Some name => match binop_of_name name with Some o' => binop_eqb o o' | None => false end
      | None => false end
  | _, _ => false end.
Definition un_ok (d : string) : bool :=
  match unop_of_dunder d, code_of_dunder d with
  | Some o, Some c =>
      negb (is_special c) &&
      match str_assoc c arith_arms with
      | Some name => match binop_of_name name, unop_of_name name with None, Some o' => unop_eqb o o' | _, _ => false end
      | None => false end
  | _, _ => false end.

Lemma overload_dispatch_sound_bin : forallb bin_ok bin_dunders = true.
Proof. vm_compute. reflexivity. Qed.
Lemma overload_dispatch_sound_un : forallb un_ok un_dunders = true.
Proof. vm_compute. reflexivity. Qed.
Lemma access_codes :
  code_of_dunder "__getattr__" = Some "." /\ code_of_dunder "__getitem__" = Some "[" /\ code_of_dunder "call" = Some "(".
Proof. vm_compute. auto. Qed.
(* totality: every overload TType defines records a code that _t_eval has an arm for *)
Definition code_has_arm (c : string) : bool :=
  is_special c || match str_assoc c arith_arms with Some _ => true | None => false end.
Lemma overload_dispatch_total :
  forallb (fun dc => code_has_arm (snd dc)) (binary_overloads ++ unary_overloads) = true.
Proof. vm_compute. reflexivity. Qed.

Lemma binop_eqb_eq a b : binop_eqb a b = true -> a = b.
Proof. destruct a, b; cbn; congruence. Qed.
Lemma unop_eqb_eq a b : unop_eqb a b = true -> a = b.
Proof. destruct a, b; cbn; congruence. Qed.

Lemma binop_of_dunder_inv d o : binop_of_dunder d = Some o -> In d bin_dunders.
Proof.
  unfold binop_of_dunder, bin_dunders.
  repeat match goal with |- context [String.eqb d ?s] => destruct (String.eqb_spec d s); [subst; intros _; cbn; tauto|] end.
  discriminate.
Qed.
Lemma unop_of_dunder_inv d o : unop_of_dunder d = Some o -> In d un_dunders.
Proof.
  unfold unop_of_dunder, un_dunders.
  repeat match goal with |- context [String.eqb d ?s] => destruct (String.eqb_spec d s); [subst; intros _; cbn; tauto|] end.
  discriminate.
Qed.

(* ---------- which exceptions the primitive operations raise ---------- *)
Definition raises_among (cat : list string) (r : res val) : Prop :=
  match r with Raise e => existsb (String.eqb (ecls e)) cat = true | _ => True end.

Lemma getattr_raises cur n : raises_among ["AttributeError"] (getattr_val cur (VStr n)).
Proof. unfold getattr_val. destruct (safe_attr n); cbn [negb]; [|exact I].
  destruct cur; cbn; try exact I; try reflexivity. destruct (str_assoc n attrs); cbn; [exact I|reflexivity]. Qed.

Lemma getitem_raises cur a : raises_among ["KeyError"; "IndexError"; "TypeError"; "ValueError"] (getitem_val cur a).
Proof.
  unfold getitem_val.
  destruct cur as [|b0|z0|s|i xs|i xs|i od kvs|i fz xs|i c attrs| | |t0|f0], a as [k|x y z|vs|]; try exact I; try reflexivity.
  - destruct k; try reflexivity; unfold py_int; [destruct b|]; (destruct (str_index s _); [exact I|reflexivity]).
  - destruct (py_slice _ x y z); [exact I|reflexivity].
  - destruct k; try reflexivity; unfold py_int; [destruct b|]; (destruct (seq_index xs _); [exact I|reflexivity]).
  - destruct (py_slice _ x y z); [exact I|reflexivity].
  - destruct k; try reflexivity; unfold py_int; [destruct b|]; (destruct (seq_index xs _); [exact I|reflexivity]).
  - destruct (py_slice _ x y z); [exact I|reflexivity].
  - destruct (hashable k); [|reflexivity]. destruct (kv_lookup py_eqb k kvs); [exact I|reflexivity].
Qed.

Lemma unop_raises o x : raises_among ["TypeError"] (apply_unop o x).
Proof. unfold apply_unop. destruct (as_num x); [destruct o; exact I|]. destruct (is_plain x); [reflexivity|exact I]. Qed.

Lemma binop_raises o x y : raises_among ["TypeError"; "ZeroDivisionError"] (apply_binop o x y).
Proof.
  unfold apply_binop. destruct (as_num x) as [a|] eqn:Ex; [destruct (as_num y) as [b|] eqn:Ey|].
  - destruct o; try exact I.
    + destruct (Z.eqb b 0); [reflexivity|exact I].
    + destruct (Z.eqb b 0); [reflexivity|]. destruct (Z.eqb (a mod b) 0); exact I.
    + destruct (Z.eqb b 0); [reflexivity|exact I].
    + destruct (Z.ltb b 0); [exact I|]. destruct (Z.ltb 64 b); exact I.
    + destruct x, y; exact I.
    + destruct x, y; exact I.
    + destruct x, y; exact I.
  - destruct o, x, y; cbn in Ex, Ey; try discriminate; cbn; try exact I; try reflexivity.
  - destruct o, x; cbn in Ex; try discriminate; destruct y; cbn; try exact I; try reflexivity;
      try (match goal with |- context [Z.ltb 50 ?n] => destruct (Z.ltb 50 n) end; exact I).
Qed.

(* ---------- the except clauses of the arms catch exactly those classes ---------- *)
Lemma dot_catches : forallb (exc_caught (catches_of ".")) ["AttributeError"] = true.
Proof. vm_compute. reflexivity. Qed.
Lemma idx_catches : forallb (exc_caught (catches_of "[")) ["KeyError"; "IndexError"; "TypeError"; "ValueError"] = true.
Proof. vm_compute. reflexivity. Qed.
Lemma arith_catches_ok : forallb (exc_caught arith_catches) ["TypeError"; "ZeroDivisionError"] = true.
Proof. vm_compute. reflexivity. Qed.

Lemma caught_of_among cat catches cls :
  forallb (exc_caught catches) cat = true -> existsb (String.eqb cls) cat = true -> exc_caught catches cls = true.
Proof.
  intros Hall Hex. apply existsb_exists in Hex. destruct Hex as [c [Hin Heq]]. apply String.eqb_eq in Heq. subst c.
  rewrite forallb_forall in Hall. apply Hall. exact Hin.
Qed.

Lemma part_idx_dot_spec k : zidx (part_idx_dot (Z.of_nat (1 + 2 * k))) = k.
Proof. unfold zidx, part_idx_dot. lia. Qed.
Lemma part_idx_idx_spec k : zidx (part_idx_idx (Z.of_nat (1 + 2 * k))) = k.
Proof. unfold zidx, part_idx_idx. lia. Qed.
Lemma part_idx_arith_spec k : zidx (part_idx_arith (Z.of_nat (1 + 2 * k))) = k.
Proof. unfold zidx, part_idx_arith. lia. Qed.

(* ---------- one step of the dispatch = the denoted operation ---------- *)
Definition lift (p : pyop) (k : nat) (r : res val) : res (val + val) :=
  match r with
  | Ok v => Ok (inl v)
  | Raise e => if failure_is_pae p then Raise (pae (ecls e) k) else Raise e
  | Unmodelled t => Unmodelled t
  | OutOfFuel => OutOfFuel end.

Lemma step_getattr rec target cells k ea cur :
  step_op rec target cells (Z.of_nat (1 + 2 * k)) "." ea cur = lift PGetattr k (apply_pyop PGetattr cur ea).
Proof.
  unfold step_op. cbn [String.eqb Ascii.eqb Bool.eqb].
  destruct ea as [v|x y z|vs|]; try reflexivity. destruct v as [| | |n| | | | | | | | |]; try reflexivity.
  cbn [apply_pyop]. pose proof (getattr_raises cur n) as R. unfold wrap_pae.
  destruct (getattr_val cur (VStr n)) as [v|e|t|]; cbn [bind lift failure_is_pae]; try reflexivity.
  cbn [raises_among] in R. rewrite (caught_of_among _ (catches_of ".") _ dot_catches R), part_idx_dot_spec. reflexivity.
Qed.

Lemma step_getitem rec target cells k ea cur :
  step_op rec target cells (Z.of_nat (1 + 2 * k)) "[" ea cur = lift PGetitem k (apply_pyop PGetitem cur ea).
Proof.
  unfold step_op. cbn [String.eqb Ascii.eqb Bool.eqb].
  assert (E : apply_pyop PGetitem cur ea = getitem_val cur ea) by (destruct ea; reflexivity). rewrite E.
  pose proof (getitem_raises cur ea) as R. unfold wrap_pae.
  destruct (getitem_val cur ea) as [v|e|t|]; cbn [bind lift failure_is_pae]; try reflexivity.
  cbn [raises_among] in R. rewrite (caught_of_among _ (catches_of "[") _ idx_catches R), part_idx_idx_spec. reflexivity.
Qed.

Lemma step_call rec target cells k ea cur :
  step_op rec target cells (Z.of_nat (1 + 2 * k)) "(" ea cur = lift PCall k (apply_pyop PCall cur ea).
Proof.
  unfold step_op. cbn [String.eqb Ascii.eqb Bool.eqb orb].
  destruct ea as [v|x y z|vs|]; reflexivity.
Qed.

Lemma not_special_eqbs c : is_special c = false ->
  String.eqb c "." = false /\ String.eqb c "[" = false /\ String.eqb c "P" = false /\
  String.eqb c "x" = false /\ String.eqb c "X" = false /\ String.eqb c "(" = false.
Proof.
  unfold is_special, special_codes. cbn [existsb]. intro H.
  repeat (apply orb_false_iff in H; destruct H as [? H]). auto 10.
Qed.

Lemma step_bin rec target cells k d o c ea cur :
  binop_of_dunder d = Some o -> code_of_dunder d = Some c ->
  step_op rec target cells (Z.of_nat (1 + 2 * k)) c ea cur = lift (PBin o) k (apply_pyop (PBin o) cur ea).
Proof.
  intros Hd Hc. pose proof (binop_of_dunder_inv d o Hd) as Hin.
  pose proof overload_dispatch_sound_bin as T. rewrite forallb_forall in T. specialize (T d Hin).
  unfold bin_ok in T. rewrite Hd, Hc in T. apply andb_prop in T. destruct T as [Hs T].
  apply negb_true_iff in Hs. destruct (not_special_eqbs c Hs) as (E1 & E2 & E3 & E4 & E5 & E6).
  unfold step_op. rewrite E1, E2, E3, E4, E5, E6. cbn [orb].
  destruct (str_assoc c arith_arms) as [name|]; [|discriminate].
  destruct (binop_of_name name) as [o'|]; [|discriminate]. apply binop_eqb_eq in T. subst o'.
  destruct ea as [y|x y z|vs|]; cbn [apply_pyop lift]; try reflexivity;
    try (destruct (unop_of_name name); reflexivity).
  pose proof (binop_raises o cur y) as R. unfold wrap_pae_arith.
  destruct (apply_binop o cur y) as [v|e|t|]; cbn [bind lift failure_is_pae]; try reflexivity.
  cbn [raises_among] in R. rewrite (caught_of_among _ arith_catches _ arith_catches_ok R), part_idx_arith_spec. reflexivity.
Qed.

Lemma step_un rec target cells k d o c ea cur :
  unop_of_dunder d = Some o -> code_of_dunder d = Some c ->
  step_op rec target cells (Z.of_nat (1 + 2 * k)) c ea cur = lift (PUn o) k (apply_pyop (PUn o) cur ea).
Proof.
  intros Hd Hc. pose proof (unop_of_dunder_inv d o Hd) as Hin.
  pose proof overload_dispatch_sound_un as T. rewrite forallb_forall in T. specialize (T d Hin).
  unfold un_ok in T. rewrite Hd, Hc in T. apply andb_prop in T. destruct T as [Hs T].
  apply negb_true_iff in Hs. destruct (not_special_eqbs c Hs) as (E1 & E2 & E3 & E4 & E5 & E6).
  unfold step_op. rewrite E1, E2, E3, E4, E5, E6. cbn [orb].
  destruct (str_assoc c arith_arms) as [name|]; [|discriminate].
  destruct (binop_of_name name) as [o'|]; [discriminate|].
  destruct (unop_of_name name) as [o'|]; [|discriminate]. apply unop_eqb_eq in T. subst o'.
  assert (A : apply_pyop (PUn o) cur ea = apply_unop o cur) by (destruct ea; reflexivity). rewrite A.
  pose proof (unop_raises o cur) as R. unfold wrap_pae_arith.
  assert (C : exc_caught arith_catches "TypeError" = true) by (vm_compute; reflexivity).
  destruct (apply_unop o cur) as [v|e|t|]; cbn [bind lift failure_is_pae]; try reflexivity.
  cbn [raises_among existsb] in R. rewrite orb_false_r in R. apply String.eqb_eq in R. rewrite R, C, part_idx_arith_spec.
  destruct ea; reflexivity.
Qed.

(* the code every denoting dunder records *)
Lemma denoting_has_code d p : denotes d = Some p -> exists c, code_of_dunder d = Some c.
Proof.
  unfold denotes. destruct access_codes as (A1 & A2 & A3).
  destruct (String.eqb_spec d "__getattr__"); [subst; eauto|].
  destruct (String.eqb_spec d "__getitem__"); [subst; eauto|].
  destruct (String.eqb_spec d "call"); [subst; eauto|].
  destruct (binop_of_dunder d) as [o|] eqn:B.
  - intros _. pose proof (binop_of_dunder_inv d o B) as Hin.
    pose proof overload_dispatch_sound_bin as T. rewrite forallb_forall in T. specialize (T d Hin).
    unfold bin_ok in T. rewrite B in T. destruct (code_of_dunder d); [eauto|discriminate].
  - destruct (unop_of_dunder d) as [o|] eqn:U; [|discriminate].
    intros _. pose proof (unop_of_dunder_inv d o U) as Hin.
    pose proof overload_dispatch_sound_un as T. rewrite forallb_forall in T. specialize (T d Hin).
    unfold un_ok in T. rewrite U in T. destruct (code_of_dunder d); [eauto|discriminate].
Qed.

Lemma step_denoted rec target cells k d p c ea cur :
  denotes d = Some p -> code_of_dunder d = Some c ->
  step_op rec target cells (Z.of_nat (1 + 2 * k)) c ea cur = lift p k (apply_pyop p cur ea).
Proof.
  unfold denotes. destruct access_codes as (A1 & A2 & A3).
  destruct (String.eqb_spec d "__getattr__"); [subst; intros H; injection H as <-; rewrite A1; intros H; injection H as <-; apply step_getattr|].
  destruct (String.eqb_spec d "__getitem__"); [subst; intros H; injection H as <-; rewrite A2; intros H; injection H as <-; apply step_getitem|].
  destruct (String.eqb_spec d "call"); [subst; intros H; injection H as <-; rewrite A3; intros H; injection H as <-; apply step_call|].
  destruct (binop_of_dunder d) as [o|] eqn:B.
  - intros H; injection H as <-. intro Hc. eapply step_bin; eauto.
  - destruct (unop_of_dunder d) as [o|] eqn:U; [|discriminate].
    cbn [option_map]. intros H; injection H as <-. intro Hc. eapply step_un; eauto.
Qed.

(* ---------- recording ---------- *)
Fixpoint coded (ops : list (string * arg)) : option (list (string * arg)) :=
  match ops with
  | [] => Some []
  | (d, a) :: r => match code_of_dunder d, coded r with Some c, Some cr => Some ((c, a) :: cr) | _, _ => None end end.

Lemma record_from_coded ops : forall pre,
  record_from (flat RT pre) ops = option_map (fun cs => flat RT (pre ++ cs)) (coded ops).
Proof.
  induction ops as [|[d a] r IH]; intro pre; cbn [record_from coded option_map].
  - rewrite app_nil_r. reflexivity.
  - destruct (code_of_dunder d) as [c|]; [|reflexivity].
    unfold t_child. replace (flat RT pre ++ [CCode c; CArg a]) with (flat RT (pre ++ [(c, a)])) by (unfold flat; rewrite flatten_app; reflexivity).
    rewrite IH. destruct (coded r); cbn [option_map]; [rewrite <- app_assoc; reflexivity|reflexivity].
Qed.

Lemma record_coded ops : record ops = option_map (flat RT) (coded ops).
Proof. unfold record. change [CRoot RT] with (flat RT []). rewrite record_from_coded. destruct (coded ops); reflexivity. Qed.

Definition all_denote (ops : list (string * arg)) : Prop := forall d a, In (d, a) ops -> denotes d <> None.

Lemma replay_cells_replay rec target cells ops : forall cs k cur,
  all_denote ops -> coded ops = Some cs ->
  replay_cells rec target cells cs k cur = replay rec target ops k cur.
Proof.
  induction ops as [|[d a] r IH]; intros cs k cur Hall Hc; cbn [coded] in Hc.
  - injection Hc as <-. reflexivity.
  - destruct (code_of_dunder d) as [c|] eqn:Ec; [|discriminate]. destruct (coded r) as [cr|] eqn:Er; [|discriminate].
    injection Hc as <-. cbn [replay_cells replay].
    destruct (denotes d) as [p|] eqn:Ed; [|exfalso; eapply (Hall d a); [left; reflexivity|exact Ed]].
    destruct (arg_val rec target a) as [ea| | |]; cbn [bind]; try reflexivity.
    rewrite (step_denoted rec target cells k d p c ea cur Ed Ec).
    destruct (apply_pyop p cur ea) as [v|e|t|]; cbn [lift bind]; try reflexivity.
    + apply IH; [|reflexivity]. intros d' a' Hin. apply (Hall d' a'). right; exact Hin.
    + destruct (failure_is_pae p); reflexivity.
Qed.

Lemma all_denote_coded ops : all_denote ops -> exists cs, coded ops = Some cs.
Proof.
  induction ops as [|[d a] r IH]; intro H; [eexists; reflexivity|].
  destruct IH as [cr Hr]. { intros d' a' Hin. apply (H d' a'). right; exact Hin. }
  destruct (denotes d) as [p|] eqn:Ed; [|exfalso; apply (H d a); [left; reflexivity|exact Ed]].
  destruct (denoting_has_code d p Ed) as [c Hc]. exists ((c, a) :: cr). cbn [coded]. rewrite Hc, Hr. reflexivity.
Qed.

Lemma texpr_denotes_lemma fuel target ops :
  all_denote ops ->
  exists cells, record ops = Some cells /\ t_eval (S fuel) target cells = replay (t_eval fuel) target ops 0 target.
Proof.
  intro H. destruct (all_denote_coded ops H) as [cs Hcs].
  exists (flat RT cs). split; [rewrite record_coded, Hcs; reflexivity|].
  rewrite t_eval_replay. apply replay_cells_replay; assumption.
Qed.

(* no operation is dropped: a successful replay applied exactly as many operations as were recorded *)
Lemma replay_count_all rec target ops : forall k cur v,
  replay rec target ops k cur = Ok v -> replay_count rec target ops cur = Some (length ops).
Proof.
  induction ops as [|[d a] r IH]; intros k cur v; cbn [replay replay_count length]; [reflexivity|].
  destruct (denotes d) as [p|]; [|discriminate].
  destruct (arg_val rec target a) as [ea| | |]; cbn [bind]; try discriminate.
  destruct (apply_pyop p cur ea) as [w|e|t|]; try discriminate.
  - intro H. rewrite (IH _ _ _ H). reflexivity.
  - destruct (failure_is_pae p); discriminate.
Qed.

(* failure position: the error of the first failing attribute/item/arithmetic operation k is PathAccessError(.., k) *)
Lemma replay_failure_position rec target ops : forall k cur e,
  replay rec target ops k cur = Raise e ->
  (exists pre d a rest p c ea e0,
      ops = pre ++ (d, a) :: rest /\ denotes d = Some p /\ replay rec target pre k cur = Ok c /\
      arg_val rec target a = Ok ea /\ apply_pyop p c ea = Raise e0 /\
      e = (if failure_is_pae p then pae (ecls e0) (k + length pre) else e0))
  \/ (exists pre d a rest c, ops = pre ++ (d, a) :: rest /\ replay rec target pre k cur = Ok c /\ arg_val rec target a = Raise e).
Proof.
  induction ops as [|[d a] r IH]; intros k cur e; cbn [replay]; [discriminate|].
  destruct (denotes d) as [p|] eqn:Ed; [|discriminate].
  destruct (arg_val rec target a) as [ea|e1|t|] eqn:Ea; cbn [bind]; try discriminate.
  - destruct (apply_pyop p cur ea) as [w|e0|t|] eqn:Ep; try discriminate.
    + intro H. destruct (IH _ _ _ H) as [(pre & d' & a' & rest & p' & c & ea' & e0 & -> & Hd & Hp & Ha & Hap & ->)|(pre & d' & a' & rest & c & -> & Hp & Ha)].
      * left. exists ((d, a) :: pre), d', a', rest, p', c, ea', e0. cbn [app replay length]. rewrite Ed, Ea. cbn [bind]. rewrite Ep.
        repeat split; auto. replace (k + S (length pre)) with (S k + length pre) by lia. reflexivity.
      * right. exists ((d, a) :: pre), d', a', rest, c. cbn [app replay]. rewrite Ed, Ea. cbn [bind]. rewrite Ep. auto.
    + intro H. left. exists [], d, a, r, p, cur, ea, e0. cbn [app replay length]. rewrite Nat.add_0_r.
      repeat split; auto. destruct (failure_is_pae p); injection H as <-; reflexivity.
  - intro H; injection H as <-. right. exists [], d, a, r, cur. cbn. auto.
Qed.
