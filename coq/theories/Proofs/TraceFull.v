(* Proofs/TraceFull.v — C05, unbounded and for EVERY spec shape of the model (tuple chains and Switch included): the trace the
   breadcrumb machine renders is the structural reading: frames may be NO_PYFRAME-marked, a
   failure walks up the marked frames (nopy_walk), chained steps hang under each other and have their top frames rewritten. *)
From Coq Require Import Bool Lia List Arith Wf_nat.
From Glom Require Import Model.Trace Spec.TraceSpec Proofs.TraceProofs Proofs.TraceLib.
Import ListNotations.
Local Open Scope list_scope.

(* ---------- well-formed stores and the failure walk ---------- *)
Definition WF (st : store) : Prop := (forall i, 1 <= i -> f_up (get st i) < i) /\ f_nopy (get st 0) = false.

Lemma WF_upd st i g : (forall fr, f_up (g fr) = f_up fr) -> (i = 0 -> forall fr, f_nopy (g fr) = f_nopy fr) -> WF st -> WF (upd st i g).
Proof.
  intros Hu Hn [W1 W2]. split.
  - intros j Hj. rewrite get_upd. destruct (Nat.eqb i j); [|apply W1; exact Hj].
    destruct (j <? List.length st); [rewrite Hu|]; apply W1; exact Hj.
  - rewrite get_upd. destruct (Nat.eqb_spec i 0) as [->|N]; [|exact W2].
    destruct (0 <? List.length st); [rewrite (Hn eq_refl)|]; exact W2.
Qed.

Lemma WF_app st x : f_up x < List.length st -> 1 <= List.length st -> WF st -> WF (st ++ [x]).
Proof.
  intros Hx Hl [W1 W2]. split.
  - intros j Hj. destruct (Nat.lt_ge_cases j (List.length st)) as [L|L].
    + rewrite get_app_old by exact L. apply W1. exact Hj.
    + destruct (Nat.eq_dec j (List.length st)) as [->|N]; [rewrite get_app_new; exact Hx|].
      rewrite get_beyond; [cbn; lia|]. rewrite app_length. cbn. lia.
  - rewrite get_app_old by lia. exact W2.
Qed.

Lemma walk_stop n st cur e : f_nopy (get st cur) = false -> nopy_walk n st cur e = st.
Proof. intros H. destruct n; [reflexivity|]. cbn [nopy_walk]. rewrite H. reflexivity. Qed.

Lemma walk_step n st cur e : f_nopy (get st cur) = true ->
  nopy_walk (S n) st cur e = nopy_walk n (upd (upd st (f_up (get st cur)) (add_cerr cur)) cur (set_err e)) (f_up (get st cur)) e.
Proof.
  intros H. cbn [nopy_walk]. rewrite H. f_equal.
  rewrite get_upd. destruct (Nat.eqb cur cur); [|].
  - destruct (cur <? List.length (upd st (f_up (get st cur)) (add_cerr cur))).
    + cbn [set_err f_up]. rewrite get_upd. destruct (Nat.eqb _ cur); [destruct (cur <? _); reflexivity|reflexivity].
    + rewrite get_upd. destruct (Nat.eqb _ cur); [destruct (cur <? _); reflexivity|reflexivity].
  - rewrite get_upd. destruct (Nat.eqb _ cur); [destruct (cur <? _); reflexivity|reflexivity].
Qed.

Lemma walk_length : forall n st cur e, List.length (nopy_walk n st cur e) = List.length st.
Proof.
  induction n as [|n IH]; intros st cur e; [reflexivity|]. cbn [nopy_walk].
  destruct (f_nopy (get st cur)); [|reflexivity]. rewrite IH, !upd_length. reflexivity.
Qed.

Lemma WF_walk : forall n st cur e, WF st -> WF (nopy_walk n st cur e).
Proof.
  induction n as [|n IH]; intros st cur e W; [exact W|].
  destruct (f_nopy (get st cur)) eqn:Hn; [|rewrite walk_stop by exact Hn; exact W].
  rewrite walk_step by exact Hn. apply IH.
  apply WF_upd; [reflexivity|reflexivity|]. apply WF_upd; [reflexivity|reflexivity|exact W].
Qed.

(* frames above the starting point are not touched *)
Lemma walk_above : forall n st cur e j, WF st -> cur < j -> get (nopy_walk n st cur e) j = get st j.
Proof.
  induction n as [|n IH]; intros st cur e j W Hj; [reflexivity|].
  destruct (f_nopy (get st cur)) eqn:Hn; [|rewrite walk_stop by exact Hn; reflexivity].
  rewrite walk_step by exact Hn.
  assert (Hup : f_up (get st cur) <= cur).
  { destruct cur as [|c]; [destruct W as [_ W2]; rewrite W2 in Hn; discriminate|]. destruct W as [W1 _]. specialize (W1 (S c)). lia. }
  rewrite IH.
  - rewrite get_upd_ne by lia. rewrite get_upd_ne by lia. reflexivity.
  - apply WF_upd; [reflexivity|reflexivity|]. apply WF_upd; [reflexivity|reflexivity|exact W].
  - lia.
Qed.

(* enough fuel is enough *)
Lemma walk_fuel : forall cur n m st e, WF st -> cur < n -> cur < m -> nopy_walk n st cur e = nopy_walk m st cur e.
Proof.
  induction cur as [cur IH] using lt_wf_ind. intros n m st e W Hn Hm.
  destruct n as [|n]; [lia|]. destruct m as [|m]; [lia|].
  destruct (f_nopy (get st cur)) eqn:Hnp; [|rewrite !walk_stop by exact Hnp; reflexivity].
  rewrite !walk_step by exact Hnp.
  destruct cur as [|c]; [destruct W as [_ W2]; rewrite W2 in Hnp; discriminate|].
  assert (Hup : f_up (get st (S c)) < S c) by (destruct W as [W1 _]; apply W1; lia).
  apply IH; [exact Hup| |lia|lia].
  apply WF_upd; [reflexivity|reflexivity|]. apply WF_upd; [reflexivity|reflexivity|exact W].
Qed.

Definition same_below (f : nat) (a b : store) : Prop := forall i, i < f -> get a i = get b i.

Lemma same_below_upd f a b i g : same_below f a b -> (i < f -> i < List.length a /\ i < List.length b) -> same_below f (upd a i g) (upd b i g).
Proof.
  intros H Hl j Hj. destruct (Nat.eq_dec i j) as [->|N].
  - destruct (Hl Hj) as [La Lb]. rewrite !get_upd_eq by assumption. rewrite (H j Hj). reflexivity.
  - rewrite !get_upd_ne by exact N. apply H. exact Hj.
Qed.

(* the walk below f depends on the frames below f only *)
Lemma walk_below : forall n a b cur e f, same_below f a b -> cur < f -> WF a -> WF b ->
  f <= List.length a -> f <= List.length b ->
  same_below f (nopy_walk n a cur e) (nopy_walk n b cur e).
Proof.
  induction n as [|n IH]; intros a b cur e f H Hc Wa Wb La Lb; [exact H|].
  assert (Hg : get a cur = get b cur) by (apply H; exact Hc).
  destruct (f_nopy (get a cur)) eqn:Hn.
  - rewrite (walk_step n a cur e Hn). rewrite Hg in Hn. rewrite (walk_step n b cur e Hn). rewrite <- Hg.
    assert (Hup : f_up (get a cur) <= cur).
    { destruct cur as [|c]; [destruct Wb as [_ W2]; rewrite W2 in Hn; discriminate|]. destruct Wa as [W1 _]. specialize (W1 (S c)). lia. }
    apply IH.
    + apply same_below_upd; [|rewrite !upd_length; lia]. apply same_below_upd; [exact H|lia].
    + lia.
    + apply WF_upd; [reflexivity|reflexivity|]. apply WF_upd; [reflexivity|reflexivity|exact Wa].
    + apply WF_upd; [reflexivity|reflexivity|]. apply WF_upd; [reflexivity|reflexivity|exact Wb].
    + rewrite !upd_length. exact La.
    + rewrite !upd_length. exact Lb.
  - rewrite (walk_stop (S n) a cur e Hn). rewrite Hg in Hn. rewrite (walk_stop (S n) b cur e Hn). exact H.
Qed.

(* what one evaluation under parent p, creating frame f, does to the frames that were there before *)
Definition eff (st : store) (p f : nat) (r : out) : store :=
  match r with
  | Ret _ => upd st p (set_last f)
  | Exc e => nopy_walk (S p) (upd st p (fun x => add_cerr f (set_last f x))) p e end.

Lemma eff_nonopy st p f r : p < List.length st -> f_nopy (get st p) = false ->
  eff st p f r = upd st p (match r with Ret _ => set_last f | Exc _ => fun x => add_cerr f (set_last f x) end).
Proof.
  intros Hp Hn. destruct r as [v|e]; [reflexivity|]. unfold eff. apply walk_stop.
  rewrite get_upd_eq by exact Hp. exact Hn.
Qed.

(* ---------- the structural raw descent, all shapes ---------- *)
(* a finished step / a passed key with what hangs under it: _unpack_stack goes on below it only while the error is recorded there *)
Definition under (sid t : nat) (r : out) (body : list tr) : list tr :=
  match r with Ret _ => [TR sid t None []] | Exc e => TR sid t (Some e) [] :: body end.
Section RawF.
  Variable rec : tspec -> nat -> out * list tr.
  (* the descent from the frame of the first step: finished steps show as bare entries (their own branches are forgiven), the
     error walks up through them *)
  Fixpoint chain_raw (res : nat) (steps : list tspec) : out * list tr :=
    match steps with
    | [] => (Ret res, [])
    | [s] => rec s res
    | s :: rest => match rec s res with
                   | (Exc e, rs) => (Exc e, rs)
                   | (Ret v, _) => match chain_raw v rest with
                                   | (r, body) => (r, under (sid_of s) res r body) end end end.
  (* Switch: failing keys are failed branches; the value spec of the first key that passes hangs under that key *)
  Fixpoint switch_raw (own t : nat) (cs : list (tspec * tspec)) (k : kids) : out * kids :=
    match cs with
    | [] => (Exc own, k)
    | (key, v) :: rest => match rec key t with
                          | (Exc _, rk) => switch_raw own t rest (k_fail k rk)
                          | (Ret _, _) => match rec v t with
                                          | (r, rv) => (r, k_after k r (under (sid_of key) t r rv)) end end end.
End RawF.

Fixpoint rawF (fuel : nat) (s : tspec) (t : nat) : out * list tr :=
  match fuel with O => (Exc 0, []) | S fuel =>
  match s with
  | Leaf n ok => if ok then (Ret (2000 + n), [TR n t None []]) else (Exc n, [TR n t (Some n) []])
  | SkipLeaf n => (Ret 0, [TR n t None []])
  | Nest n l => match nest_raw (rawF fuel) t l k0 with
                | (None, k) => (Ret (1000 + n), assemble n t None k)
                | (Some e, k) => (Exc e, assemble n t (Some e) k) end
  | Alt n l => match alt_raw (rawF fuel) t l k0 with
               | (Some v, k) => (Ret v, assemble n t None k)
               | (None, k) => (Exc (5000 + n), assemble n t (Some (5000 + n)) k) end
  | OrS n l => match or_raw (rawF fuel) t l k0 with
               | (Ret v, k) => (Ret v, assemble n t None k)
               | (Exc e, k) => (Exc e, assemble n t (Some e) k) end
  | Guard n ok kid => match rawF fuel kid t with
                      | (Ret _, rk) => if ok then (Ret t, assemble n t None (k_ok k0 rk))
                                       else (Exc (6000 + n), assemble n t (Some (6000 + n)) (k_ok k0 rk))
                      | (Exc e, rk) => (Exc e, assemble n t (Some e) (k_fail k0 rk)) end
  | Chain n steps => match steps with
                     | [] => (Ret t, assemble n t None k0)
                     | _ => match chain_raw (rawF fuel) t steps with
                            | (r, body) => (r, assemble n t (err_of r) (k_after k0 r body)) end end
  | Switch n cs => match switch_raw (rawF fuel) (5000 + n) t cs k0 with
                   | (r, k) => (r, assemble n t (err_of r) k) end
  | AltD n l => match alt_raw (rawF fuel) t l k0 with
                | (Some v, k) => (Ret v, assemble n t None k)
                | (None, k) => (Ret (3000 + n), assemble n t None k) end
  | NotS n kid => match rawF fuel kid t with
                  | (Ret _, rk) => (Exc (6000 + n), assemble n t (Some (6000 + n)) (k_ok k0 rk))
                  | (Exc _, rk) => (Ret t, assemble n t None (k_fail k0 rk)) end
  | AndS n l => match and_raw (rawF fuel) t l k0 t with
                | (r, k) => (r, assemble n t (err_of r) k) end
  end end.

(* ---------- what an evaluation (or a group of evaluations acting as one child) guarantees ---------- *)
Definition childstep (st : store) (p : nat) (st' : store) (r : out) (rawc : list tr) : Prop :=
  let c := List.length st in
  c < List.length st' /\ WF st' /\ same_below c st' (eff st p c r) /\ closed st' c (List.length st') /\
  (forall st'' kd kr, agree c (List.length st') st' st'' -> List.length st' <= List.length st'' ->
                      List.length st' - c <= kd -> List.length st' - c <= kr -> RD kd kr st'' c = rawc) /\
  f_err (get st' c) = err_of r.

Definition topfacts (st' : store) (c sid t p : nat) (r : out) : Prop :=
  f_spec (get st' c) = sid /\ f_target (get st' c) = t /\ f_up (get st' c) = p /\ f_nopy (get st' c) = false /\
  f_err (get st' c) = err_of r.

(* the parent of an evaluation carries no error when it starts: every call site of the eager machine provides that — the owner of
   a running loop has not failed, a chained step hangs under a step that finished successfully — and so the rule "a spec that fails
   with the error its parent already carries is not another failure" (lazy streams, F43) never fires here *)
Definition goodF (fuel : nat) : Prop := forall st p t s st' r,
  tdepth s < fuel -> p < List.length st -> WF st -> f_err (get st p) = None -> glom_ fuel st p t s = (st', r) ->
  childstep st p st' r (snd (rawF fuel s t)) /\ r = fst (rawF fuel s t) /\ topfacts st' (List.length st) (sid_of s) t p r.

(* how far the store has to be left alone for the recorded failed branches to keep their rendering: up to the last child when
   that child did not fail (a Switch key that passed is re-wired afterwards), the whole store otherwise *)
Definition fbound (st : store) (k : kids) (lc : option nat) : nat :=
  match lc with Some c => if k_lf k then List.length st else c | None => 0 end.

Record invF (base : store) (sid t p f : nat) (st : store) (k : kids) (lc : option nat) (fc : list nat) : Prop := mkInvF {
  j_len : f < List.length st;
  j_wf : WF st;
  j_old : forall i, i < f -> get st i = get base i;
  j_f : get st f = mkF sid t p lc fc None false;
  j_closed : closed st (S f) (List.length st);
  j_fc : forall c, In c fc -> f < c < List.length st;
  j_lc : forall c, lc = Some c -> f < c < List.length st;
  j_has : k_has k = match lc with Some _ => true | None => false end;
  j_none : lc = None -> fc = [] /\ k_ft k = [];
  j_lf : forall c, lc = Some c ->
         if k_lf k then exists fc', fc = fc' ++ [c] /\ (forall x, In x fc' -> x < c) else (forall x, In x fc -> x < c);
  j_ft : Forall2 (fun c tr => forall st'' k', agree (S f) (fbound st k lc) st st'' -> List.length st <= List.length st'' ->
                              List.length st - f <= k' -> render k' st'' c = tr) fc (k_ft k);
  j_lr : forall c, lc = Some c -> forall st'' kd kr, agree (S f) (List.length st) st st'' -> List.length st <= List.length st'' ->
         List.length st - S f <= kd -> List.length st - S f <= kr -> RD kd kr st'' c = k_lr k;
  j_lerr : forall c, lc = Some c -> is_some (f_err (get st c)) = k_lf k }.

(* one more child under f: an evaluation, or anything that acts like one *)
Lemma invF_step base sid t p f st k lc fc st_b r_b rawc :
  invF base sid t p f st k lc fc -> childstep st f st_b r_b rawc ->
  invF base sid t p f st_b (k_after k r_b rawc) (Some (List.length st))
       (match r_b with Ret _ => fc | Exc _ => fc ++ [List.length st] end).
Proof.
  intros I (Hlen & Hwf & Hsb & Hcl & Hrd & Herr).
  set (c := List.length st) in *.
  assert (Hfc : f < c) by exact (j_len _ _ _ _ _ _ _ _ _ I).
  assert (Hnf : f_nopy (get st f) = false) by (rewrite (j_f _ _ _ _ _ _ _ _ _ I); reflexivity).
  rewrite (eff_nonopy st f c r_b Hfc Hnf) in Hsb.
  assert (Hold : forall i, i < c -> i <> f -> get st_b i = get st i).
  { intros i Hi Hne. rewrite (Hsb i Hi). apply get_upd_ne. lia. }
  assert (Hpar : get st_b f = (match r_b with Ret _ => set_last c | Exc _ => fun x => add_cerr c (set_last c x) end) (get st f)).
  { rewrite (Hsb f Hfc). apply get_upd_eq. exact Hfc. }
  assert (Hagree : forall st'', agree (S f) (List.length st_b) st_b st'' -> agree (S f) c st st'').
  { intros st'' Ha i Hi. rewrite Ha by lia. apply Hold; lia. }
  assert (Hf : get st_b f = mkF sid t p (Some c) (match r_b with Ret _ => fc | Exc _ => fc ++ [c] end) None false).
  { rewrite Hpar, (j_f _ _ _ _ _ _ _ _ _ I). destruct r_b; reflexivity. }
  constructor.
  - lia.
  - exact Hwf.
  - intros i Hi. rewrite Hold by lia. apply (j_old _ _ _ _ _ _ _ _ _ I). exact Hi.
  - exact Hf.
  - intros i Hi. destruct (Nat.lt_ge_cases i c) as [L|L].
    + rewrite Hold by lia. destruct (j_closed _ _ _ _ _ _ _ _ _ I i) as [A B]; [lia|]. split; intros x Hx.
      * specialize (A x Hx). lia.
      * specialize (B x Hx). lia.
    + apply Hcl. lia.
  - intros x Hx. destruct r_b.
    + specialize (j_fc _ _ _ _ _ _ _ _ _ I x Hx). lia.
    + apply in_app_or in Hx. destruct Hx as [Hx|[<-|[]]]; [specialize (j_fc _ _ _ _ _ _ _ _ _ I x Hx)|]; lia.
  - intros x Hx. injection Hx as <-. lia.
  - destruct r_b; reflexivity.
  - discriminate.
  - intros x Hx. injection Hx as <-. destruct r_b; cbn [k_after k_ok k_fail k_lf].
    + intros y Hy. specialize (j_fc _ _ _ _ _ _ _ _ _ I y Hy). lia.
    + exists fc. split; [reflexivity|]. intros y Hy. specialize (j_fc _ _ _ _ _ _ _ _ _ I y Hy). lia.
  - assert (Hfb : fbound st k lc <= c).
    { unfold fbound. destruct lc as [x|]; [|lia]. destruct (k_lf k); [lia|]. specialize (j_lc _ _ _ _ _ _ _ _ _ I x eq_refl). lia. }
    assert (Hold2 : forall b', c <= b' -> b' <= List.length st_b ->
              Forall2 (fun x tr => forall st'' k', agree (S f) b' st_b st'' ->
                        List.length st_b <= List.length st'' -> List.length st_b - f <= k' -> render k' st'' x = tr) fc (k_ft k)).
    { intros b' Hb1 Hb2. eapply Forall2_weaken; [|exact (j_ft _ _ _ _ _ _ _ _ _ I)]. cbv beta.
      intros x tr H st'' k' Ha Hl Hk. apply H; [|lia|lia].
      intros i Hi. rewrite Ha by lia. apply Hold; lia. }
    destruct r_b; cbn [k_after k_ok k_fail k_ft fbound k_lf].
    + apply Hold2; lia.
    + apply Forall2_app_one; [apply Hold2; lia|].
      intros st'' k' Ha Hl Hk. destruct k' as [|k'']; [lia|].
      rewrite render_unfold. f_equal. apply Hrd; [eapply agree_sub; [exact Ha|lia|lia]|lia|lia|lia].
  - intros x Hx st'' kd kr Ha Hl Hkd Hkr. injection Hx as <-.
    replace (k_lr (k_after k r_b rawc)) with rawc by (destruct r_b; reflexivity).
    apply Hrd; [eapply agree_sub; [exact Ha|lia|lia]|lia|lia|lia].
  - intros x Hx. injection Hx as <-. rewrite Herr. destruct r_b; reflexivity.
Qed.

(* the raw descent at f, once its children are described by k *)
Lemma invF_assemble base sid t p f st k lc fc err st'' kd kr :
  invF base sid t p f st k lc fc ->
  agree (S f) (List.length st) st st'' -> get st'' f = mkF sid t p lc fc err false ->
  List.length st <= List.length st'' -> List.length st - f <= kd -> List.length st - f <= kr ->
  RD kd kr st'' f = assemble sid t err k.
Proof.
  intros I Ha Hf Hl Hkd Hkr.
  pose proof (j_len _ _ _ _ _ _ _ _ _ I) as Hlen.
  destruct kd as [|kd]; [lia|].
  unfold RD. cbn [descend]. rewrite Hf. cbn [f_last f_spec f_target f_err f_cerrs].
  assert (Hbr : map (render kr st'') fc = k_ft k).
  { apply Forall2_map_eq. eapply Forall2_weaken; [|exact (j_ft _ _ _ _ _ _ _ _ _ I)]. cbv beta.
    intros x tr H. apply H; [|exact Hl|exact Hkr].
    eapply agree_sub; [exact Ha|lia|].
    unfold fbound. destruct lc as [x0|]; [|lia]. destruct (k_lf k); [lia|]. specialize (j_lc _ _ _ _ _ _ _ _ _ I x0 eq_refl). lia. }
  unfold assemble. rewrite (j_has _ _ _ _ _ _ _ _ _ I).
  destruct lc as [child|].
  - cbn [negb].
    assert (Hlr : map (toTR (render kr st'')) (descend kd st'' child) = k_lr k).
    { apply (j_lr _ _ _ _ _ _ _ _ _ I child eq_refl st'' kd kr Ha Hl); lia. }
    pose proof (j_lf _ _ _ _ _ _ _ _ _ I child eq_refl) as Hlf.
    pose proof (j_lerr _ _ _ _ _ _ _ _ _ I child eq_refl) as Hle.
    assert (Hch : get st'' child = get st child).
    { apply Ha. specialize (j_lc _ _ _ _ _ _ _ _ _ I child eq_refl). lia. }
    rewrite Hch.
    destruct (k_lf k).
    + destruct Hlf as (fc' & -> & Hlt).
      destruct (f_err (get st child)) as [ec|]; [|discriminate].
      destruct fc' as [|a fc'].
      * (* the single failed branch is the last child: a straight line *)
        cbn [app]. rewrite Nat.eqb_refl. cbn [existsb].
        cbn [app map] in Hbr. destruct (k_ft k) as [|x [|y r]]; try discriminate.
        cbn [andb]. cbn [map]. unfold toTR at 1. cbn [map e_spec e_target e_err e_branches]. rewrite Hlr. reflexivity.
      * (* two or more failed branches, the last child among them *)
        assert (E2 : match (a :: fc') ++ [child] with [c0] => if Nat.eqb c0 child then [] else [c0] | l => l end = (a :: fc') ++ [child]).
        { destruct fc'; reflexivity. }
        rewrite E2. rewrite existsb_eqb_last.
        assert (L2 : 2 <= List.length (k_ft k)).
        { rewrite <- Hbr. rewrite map_length, app_length. cbn. lia. }
        remember ((a :: fc') ++ [child]) as br eqn:Ebr.
        cbn [map]. unfold toTR at 1. cbn [e_spec e_target e_err e_branches]. rewrite Hbr.
        destruct (k_ft k) as [|x [|y r]]; cbn in L2; try lia. reflexivity.
    + pose proof (existsb_eqb_false child fc Hlf) as Hex.
      destruct (f_err (get st child)) as [ec|]; [discriminate|].
      cbn [andb].
      destruct fc as [|c0 [|c1 r]].
      * cbn [existsb]. cbn [map] in Hbr. rewrite <- Hbr.
        cbn [map]. unfold toTR at 1. cbn [map e_spec e_target e_err e_branches]. reflexivity.
      * replace (Nat.eqb c0 child) with false
          by (symmetry; apply Nat.eqb_neq; specialize (Hlf c0 (or_introl eq_refl)); lia).
        rewrite Hex. cbn [map]. unfold toTR at 1. cbn [e_spec e_target e_err e_branches]. rewrite Hbr.
        cbn [map] in Hbr. rewrite <- Hbr. reflexivity.
      * rewrite Hex. cbn [map]. unfold toTR at 1. cbn [e_spec e_target e_err e_branches]. rewrite Hbr.
        cbn [map] in Hbr. rewrite <- Hbr. reflexivity.
  - destruct (j_none _ _ _ _ _ _ _ _ _ I eq_refl) as [-> Hft]. cbn [negb]. reflexivity.
Qed.

Lemma upd_upd_same st i g h : upd (upd st i g) i h = upd st i (fun x => h (g x)).
Proof.
  revert i. induction st as [|a r IH]; intros [|i]; cbn; try reflexivity. rewrite IH. reflexivity.
Qed.

(* the except arm, normalised: the walk function itself tests the NO_PYFRAME mark *)
Lemma except_armF st2 p f (r2 : out) st' r :
  1 <= List.length st2 -> f_err (get st2 p) = None ->
  (match r2 with
   | Ret v => (st2, Ret v)
   | Exc e =>
       if same_err (f_err (get st2 p)) e then (upd st2 f (set_err e), Exc e) else
       let st3 := upd st2 p (add_cerr f) in
       let st4 := upd st3 f (set_err e) in
       let st5 := if f_nopy (get st4 p) then nopy_walk (List.length st4) st4 p e else st4 in
       (st5, Exc e) end) = (st', r) ->
  r = r2 /\ st' = match r2 with Ret _ => st2
                  | Exc e => nopy_walk (List.length st2) (upd (upd st2 p (add_cerr f)) f (set_err e)) p e end.
Proof.
  intros Hl Hpe E. destruct r2 as [v|e].
  - injection E as <- <-. split; reflexivity.
  - rewrite Hpe in E. cbn [same_err] in E. cbv zeta in E. rewrite !upd_length in E.
    destruct (f_nopy (get (upd (upd st2 p (add_cerr f)) f (set_err e)) p)) eqn:Hn.
    + injection E as <- <-. split; reflexivity.
    + injection E as <- <-. split; [reflexivity|]. symmetry. apply walk_stop. exact Hn.
Qed.

(* the finished frame: what the whole evaluation did to the old frames, and what its frame shows *)
Lemma finalizeF base sid t p f st k lc fc st_in r :
  invF base sid t p f st k lc fc -> p < f -> f = List.length st_in -> WF st_in ->
  get base p = set_last f (get st_in p) -> (forall i, i < f -> i <> p -> get base i = get st_in i) ->
  let st' := match r with Ret _ => st
             | Exc e => nopy_walk (List.length st) (upd (upd st p (add_cerr f)) f (set_err e)) p e end in
  childstep st_in p st' r (assemble sid t (err_of r) k) /\ topfacts st' f sid t p r.
Proof.
  intros I Hpf Hf Wi Hbp Hbo st'.
  pose proof (j_len _ _ _ _ _ _ _ _ _ I) as Hlen.
  pose proof (j_wf _ _ _ _ _ _ _ _ _ I) as Wst.
  set (st4 := fun e => upd (upd st p (add_cerr f)) f (set_err e)).
  assert (W4 : forall e, WF (st4 e)).
  { intros e. unfold st4. apply WF_upd; [reflexivity|reflexivity|]. apply WF_upd; [reflexivity|reflexivity|exact Wst]. }
  assert (Hl : List.length st' = List.length st).
  { unfold st'. destruct r; [reflexivity|]. rewrite walk_length, !upd_length. reflexivity. }
  assert (Hge : forall i, f <= i -> get st' i = get (match r with Ret _ => st | Exc e => st4 e end) i).
  { intros i Hi. unfold st'. destruct r as [v|e]; [reflexivity|]. apply walk_above; [apply W4|lia]. }
  assert (Hgt : forall i, f < i -> get st' i = get st i).
  { intros i Hi. rewrite Hge by lia. destruct r; [reflexivity|]. unfold st4. rewrite get_upd_ne by lia. rewrite get_upd_ne by lia. reflexivity. }
  assert (Hff : get st' f = mkF sid t p lc fc (err_of r) false).
  { rewrite Hge by lia. destruct r as [v|e]; cbn [err_of]; [exact (j_f _ _ _ _ _ _ _ _ _ I)|].
    unfold st4. rewrite get_upd_eq by (rewrite upd_length; exact Hlen). rewrite get_upd_ne by lia.
    rewrite (j_f _ _ _ _ _ _ _ _ _ I). reflexivity. }
  split.
  - unfold childstep. rewrite <- Hf. rewrite Hl. split; [exact Hlen|]. split; [|split; [|split; [|split]]].
    5: { rewrite Hff. reflexivity. }
    + unfold st'. destruct r; [exact Wst|]. apply WF_walk. apply W4.
    + (* the old frames *)
      unfold st', eff. destruct r as [v|e].
      * intros i Hi. rewrite (j_old _ _ _ _ _ _ _ _ _ I i Hi). destruct (Nat.eq_dec i p) as [->|Hne].
        -- rewrite Hbp. symmetry. apply get_upd_eq. lia.
        -- rewrite Hbo by assumption. symmetry. apply get_upd_ne. lia.
      * set (B := upd st_in p (fun x => add_cerr f (set_last f x))).
        assert (WB : WF B) by (unfold B; apply WF_upd; [reflexivity|reflexivity|exact Wi]).
        rewrite (walk_fuel p (S p) (List.length st) B e WB (Nat.lt_succ_diag_r p) ltac:(lia)).
        apply walk_below; [|exact Hpf|apply W4|exact WB| |].
        -- intros i Hi. unfold st4. rewrite get_upd_ne by lia. destruct (Nat.eq_dec i p) as [->|Hne].
           ++ rewrite get_upd_eq by lia. rewrite (j_old _ _ _ _ _ _ _ _ _ I p Hpf), Hbp. unfold B. symmetry. apply get_upd_eq. lia.
           ++ rewrite get_upd_ne by lia. rewrite (j_old _ _ _ _ _ _ _ _ _ I i Hi). rewrite Hbo by assumption.
              unfold B. symmetry. apply get_upd_ne. lia.
        -- unfold st4. rewrite !upd_length. lia.
        -- unfold B. rewrite upd_length. lia.
    + intros i Hi. split; intros c Hc.
      * destruct (Nat.eq_dec i f) as [->|Hne].
        -- rewrite Hff in Hc. cbn [f_last] in Hc. apply (j_lc _ _ _ _ _ _ _ _ _ I c Hc).
        -- rewrite Hgt in Hc by lia. destruct (j_closed _ _ _ _ _ _ _ _ _ I i) as [A _]; [lia|]. apply (A c Hc).
      * destruct (Nat.eq_dec i f) as [->|Hne].
        -- rewrite Hff in Hc. cbn [f_cerrs] in Hc. apply (j_fc _ _ _ _ _ _ _ _ _ I c Hc).
        -- rewrite Hgt in Hc by lia. destruct (j_closed _ _ _ _ _ _ _ _ _ I i) as [_ B]; [lia|]. apply (B c Hc).
    + intros st'' kd kr Ha Hl2 Hkd Hkr.
      apply (invF_assemble base sid t p f st k lc fc (err_of r) st'' kd kr I).
      * intros i Hi. rewrite Ha by lia. apply Hgt. lia.
      * rewrite Ha by lia. exact Hff.
      * exact Hl2.
      * exact Hkd.
      * exact Hkr.
  - unfold topfacts. rewrite Hff. cbn. repeat split; reflexivity.
Qed.

Lemma invF_step_glom fuel (IH : goodF fuel) base sid t p f st k lc fc b st_b r_b :
  invF base sid t p f st k lc fc -> tdepth b < fuel ->
  glom_ fuel st f t b = (st_b, r_b) ->
  r_b = fst (rawF fuel b t) /\
  invF base sid t p f st_b (k_after k r_b (snd (rawF fuel b t))) (Some (List.length st))
       (match r_b with Ret _ => fc | Exc _ => fc ++ [List.length st] end).
Proof.
  intros I Hd E.
  assert (Hfe : f_err (get st f) = None) by (rewrite (j_f _ _ _ _ _ _ _ _ _ I); reflexivity).
  destruct (IH st f t b st_b r_b Hd (j_len _ _ _ _ _ _ _ _ _ I) (j_wf _ _ _ _ _ _ _ _ _ I) Hfe E) as (Hcs & Hr & _).
  split; [exact Hr|]. apply (invF_step base sid t p f st k lc fc st_b r_b _ I Hcs).
Qed.

Section LoopsF.
  Variable fuel : nat.
  Hypothesis IH : goodF fuel.
  Variables (base : store) (sid t p f : nat).

  Lemma nest_loop_inv : forall l st k lc fc st' r,
    invF base sid t p f st k lc fc -> (forall x, In x l -> tdepth x < fuel) ->
    nest_loop (glom_ fuel) sid st f t l = (st', r) ->
    exists k' lc' fc', invF base sid t p f st' k' lc' fc' /\
      match nest_raw (rawF fuel) t l k with
      | (None, k2) => r = Ret (1000 + sid) /\ k' = k2
      | (Some e, k2) => r = Exc e /\ k' = k2 end.
  Proof.
    induction l as [|x l IHl]; intros st k lc fc st' r I Hd E; cbn [nest_loop nest_raw] in *.
    - injection E as <- <-. exists k, lc, fc. split; [exact I|split; reflexivity].
    -
      destruct (glom_ fuel st f t x) as [st1 rb] eqn:Ex.
      destruct (invF_step_glom fuel IH _ _ _ _ _ _ _ _ _ _ _ _ I (Hd x (or_introl eq_refl)) Ex) as [Hr I1].
      destruct (rawF fuel x t) as [o rx]. cbn [fst snd] in *. subst o.
      destruct rb as [v|e]; cbn [k_after] in I1.
      + apply (IHl _ _ _ _ _ _ I1 (fun y Hy => Hd y (or_intror Hy)) E).
      + injection E as <- <-. eexists _, _, _. split; [exact I1|split; reflexivity].
  Qed.

  Lemma and_loop_inv : forall l st k lc fc last st' r,
    invF base sid t p f st k lc fc -> (forall x, In x l -> tdepth x < fuel) ->
    and_loop (glom_ fuel) st f t l last = (st', r) ->
    exists k' lc' fc', invF base sid t p f st' k' lc' fc' /\
      r = fst (and_raw (rawF fuel) t l k last) /\ k' = snd (and_raw (rawF fuel) t l k last).
  Proof.
    induction l as [|x l IHl]; intros st k lc fc last st' r I Hd E; cbn [and_loop and_raw] in *.
    - injection E as <- <-. exists k, lc, fc. split; [exact I|split; reflexivity].
    - destruct (glom_ fuel st f t x) as [st1 rb] eqn:Ex.
      destruct (invF_step_glom fuel IH _ _ _ _ _ _ _ _ _ _ _ _ I (Hd x (or_introl eq_refl)) Ex) as [Hr I1].
      destruct (rawF fuel x t) as [o rx]. cbn [fst snd] in *. subst o.
      destruct rb as [v|e]; cbn [k_after] in I1.
      + apply (IHl _ _ _ _ _ _ _ I1 (fun y Hy => Hd y (or_intror Hy)) E).
      + injection E as <- <-. eexists _, _, _. split; [exact I1|split; reflexivity].
  Qed.

  Lemma alt_loop_inv own : forall l st k lc fc st' r,
    invF base sid t p f st k lc fc -> (forall x, In x l -> tdepth x < fuel) ->
    alt_loop (glom_ fuel) own st f t l = (st', r) ->
    exists k' lc' fc', invF base sid t p f st' k' lc' fc' /\
      match alt_raw (rawF fuel) t l k with
      | (Some v, k2) => r = Ret v /\ k' = k2
      | (None, k2) => r = Exc own /\ k' = k2 end.
  Proof.
    induction l as [|x l IHl]; intros st k lc fc st' r I Hd E; cbn [alt_loop alt_raw] in *.
    - injection E as <- <-. exists k, lc, fc. split; [exact I|split; reflexivity].
    -
      destruct (glom_ fuel st f t x) as [st1 rb] eqn:Ex.
      destruct (invF_step_glom fuel IH _ _ _ _ _ _ _ _ _ _ _ _ I (Hd x (or_introl eq_refl)) Ex) as [Hr I1].
      destruct (rawF fuel x t) as [o rx]. cbn [fst snd] in *. subst o.
      destruct rb as [v|e]; cbn [k_after] in I1.
      + destruct (Nat.eqb v 0).
        * apply (IHl _ _ _ _ _ _ I1 (fun y Hy => Hd y (or_intror Hy)) E).
        * injection E as <- <-. eexists _, _, _. split; [exact I1|split; reflexivity].
      + apply (IHl _ _ _ _ _ _ I1 (fun y Hy => Hd y (or_intror Hy)) E).
  Qed.

  Lemma or_loop_inv : forall l st k lc fc st' r,
    invF base sid t p f st k lc fc -> (forall x, In x l -> tdepth x < fuel) ->
    or_loop (glom_ fuel) st f t l = (st', r) ->
    exists k' lc' fc', invF base sid t p f st' k' lc' fc' /\ r = fst (or_raw (rawF fuel) t l k) /\ k' = snd (or_raw (rawF fuel) t l k).
  Proof.
    induction l as [|x l IHl]; intros st k lc fc st' r I Hd E.
    - cbn [or_loop or_raw] in *. injection E as <- <-. exists k, lc, fc. split; [exact I|split; reflexivity].
    -
      destruct l as [|y l].
      + cbn [or_loop or_raw] in *.
        destruct (invF_step_glom fuel IH _ _ _ _ _ _ _ _ _ _ _ _ I (Hd x (or_introl eq_refl)) E) as [Hr I1].
        destruct (rawF fuel x t) as [o rx]. cbn [fst snd] in *. subst o.
        eexists _, _, _. split; [exact I1|]. destruct r; split; reflexivity.
      + change (or_loop (glom_ fuel) st f t (x :: y :: l)) with
          (match glom_ fuel st f t x with (st0, Ret v) => (st0, Ret v) | (st0, Exc _) => or_loop (glom_ fuel) st0 f t (y :: l) end) in E.
        change (or_raw (rawF fuel) t (x :: y :: l) k) with
          (match rawF fuel x t with (Ret v, rb) => (Ret v, k_ok k rb) | (Exc _, rb) => or_raw (rawF fuel) t (y :: l) (k_fail k rb) end).
        destruct (glom_ fuel st f t x) as [st1 rb] eqn:Ex.
        destruct (invF_step_glom fuel IH _ _ _ _ _ _ _ _ _ _ _ _ I (Hd x (or_introl eq_refl)) Ex) as [Hr I1].
        destruct (rawF fuel x t) as [o rx]. cbn [fst snd] in *. subst o.
        destruct rb as [v|e]; cbn [k_after] in I1.
        * injection E as <- <-. eexists _, _, _. split; [exact I1|split; reflexivity].
        * apply (IHl _ _ _ _ _ _ I1 (fun z Hz => Hd z (or_intror Hz)) E).
  Qed.
End LoopsF.

(* ---------- tuple chains: the steps after the first hang under each other; from the frame they start under, the whole
   remaining chain acts like ONE child ---------- *)
Lemma chain_child_facts st cur :
  WF st -> cur < List.length st -> (forall n, f_last (get st cur) = Some n -> cur < n < List.length st) ->
  let stm := fst (chain_child st cur) in let parent := snd (chain_child st cur) in
  WF stm /\ List.length stm = List.length st /\ parent < List.length st /\ cur <= parent.
Proof.
  intros W Hc Hl. unfold chain_child. destruct (f_last (get st cur)) as [n|] eqn:E; cbn [fst snd].
  - specialize (Hl n eq_refl). split; [|split; [apply upd_length|split; lia]].
    apply WF_upd; [reflexivity|intros ->; lia|exact W].
  - split; [exact W|]. split; [reflexivity|]. split; [exact Hc|lia].
Qed.

Lemma chain_steps fuel (IH : goodF fuel) : forall steps st cur res st' r,
  steps <> [] -> (forall x, In x steps -> tdepth x < fuel) ->
  WF st -> cur < List.length st -> (forall n, f_last (get st cur) = Some n -> cur < n < List.length st) ->
  f_err (get (fst (chain_child st cur)) (snd (chain_child st cur))) = None ->
  chain_loop (glom_ fuel) st cur res steps = (st', r) ->
  childstep (fst (chain_child st cur)) (snd (chain_child st cur)) st' r (snd (chain_raw (rawF fuel) res steps)) /\
  r = fst (chain_raw (rawF fuel) res steps).
Proof.
  induction steps as [|s steps IHs]; intros st cur res st' r Hne Hd W Hc Hl Hce E; [congruence|].
  destruct (chain_child_facts st cur W Hc Hl) as (Wm & Lm & Hp & Hcp).
  cbn [chain_loop] in E.
  destruct (chain_child st cur) as [stm parent] eqn:Ecc. cbn [fst snd] in *.
  destruct (glom_ fuel stm parent res s) as [st1 r1] eqn:E1.
  destruct (IH stm parent res s st1 r1 (Hd s (or_introl eq_refl)) ltac:(lia) Wm Hce E1) as (Hcs1 & Hr1 & Htop).
  destruct steps as [|s2 rest].
  - (* the last step *)
    cbn [chain_raw]. destruct r1 as [v|e]; cbn [chain_loop] in E; injection E as <- <-; split; assumption.
  - change (chain_raw (rawF fuel) res (s :: s2 :: rest)) with
      (match rawF fuel s res with
       | (Exc e, rs) => (Exc e, rs)
       | (Ret v, _) => match chain_raw (rawF fuel) v (s2 :: rest) with
                       | (r, body) => (r, under (sid_of s) res r body) end end).
    destruct (rawF fuel s res) as [o1 rs1]. cbn [fst snd] in Hr1, Hcs1. subst o1.
    destruct r1 as [v|e].
    2:{ injection E as <- <-. split; [exact Hcs1|reflexivity]. }
    (* the step succeeded: the next ones hang under it *)
    destruct Hcs1 as (Hlen1 & W1 & Hsb1 & Hcl1 & _).
    set (c1 := List.length stm) in *.
    assert (Hpc : parent < c1) by (unfold c1; lia).
    assert (Hsb1' : forall i, i < c1 -> get st1 i = get (upd stm parent (set_last c1)) i) by exact Hsb1.
    assert (Hpar1 : get st1 parent = set_last c1 (get stm parent)).
    { rewrite Hsb1' by exact Hpc. apply get_upd_eq. unfold c1 in Hpc. exact Hpc. }
    assert (Hl1 : forall n, f_last (get st1 parent) = Some n -> parent < n < List.length st1).
    { intros n Hn. rewrite Hpar1 in Hn. cbn [set_last f_last] in Hn. injection Hn as <-. lia. }
    assert (Ecc2 : chain_child st1 parent = (upd st1 c1 mark_chain, c1)).
    { unfold chain_child. rewrite Hpar1. reflexivity. }
    assert (Hce2 : f_err (get (fst (chain_child st1 parent)) (snd (chain_child st1 parent))) = None).
    { rewrite Ecc2. cbn [fst snd]. rewrite get_upd_eq by lia.
      destruct Htop as (_ & _ & _ & _ & Ter). cbn [err_of] in Ter. destruct (get st1 c1); cbn in *. exact Ter. }
    specialize (IHs st1 parent v st' r ltac:(discriminate) (fun x Hx => Hd x (or_intror Hx)) W1 ltac:(lia) Hl1 Hce2 E).
    rewrite Ecc2 in IHs. cbn [fst snd] in IHs.
    destruct (chain_raw (rawF fuel) v (s2 :: rest)) as [o2 body2]. cbn [fst snd] in IHs.
    destruct IHs as ((Hlen2 & W2 & Hsb2 & Hcl2 & Hrd2 & Herr2) & ->).
    set (stm2 := upd st1 c1 mark_chain) in *.
    assert (Lm2 : List.length stm2 = List.length st1) by apply upd_length.
    rewrite Lm2 in *.
    set (c2 := List.length st1) in *.
    destruct Htop as (Tsp & Ttg & Tup & Tnp & Ter). cbn [err_of] in Ter.
    (* the frame of the finished step, before it is marked *)
    destruct (get st1 c1) as [sp1 tg1 up1 la1 ce1 er1 np1] eqn:G1. cbn in Tsp, Ttg, Tup, Tnp, Ter. subst sp1 tg1 up1 np1 er1.
    assert (Gm : get stm2 c1 = mkF (sid_of s) res parent la1 [] None true).
    { unfold stm2. rewrite get_upd_eq by lia. rewrite G1. reflexivity. }
    set (X := upd stm2 c1 (fun x => add_cerr c2 (set_last c2 x))).
    assert (Wm2 : WF stm2) by (unfold stm2; apply WF_upd; [reflexivity|intros ->; lia|exact W1]).
    assert (GX : get X c1 = mkF (sid_of s) res parent (Some c2) [c2] None true).
    { unfold X. rewrite get_upd_eq by lia. rewrite Gm. reflexivity. }
    assert (WX : WF X) by (unfold X; apply WF_upd; [reflexivity|reflexivity|exact Wm2]).
    set (Y := fun e : nat => upd (upd X parent (add_cerr c1)) c1 (set_err e)).
    assert (WY : forall e, WF (Y e)).
    { intros e. unfold Y. apply WF_upd; [reflexivity|reflexivity|]. apply WF_upd; [reflexivity|reflexivity|apply WX]. }
    assert (Hwalk : forall e, eff stm2 c1 c2 (Exc e) = nopy_walk c1 (Y e) parent e).
    { intros e. unfold eff. fold X. rewrite walk_step by (rewrite GX; reflexivity). rewrite GX. cbn [f_up]. reflexivity. }
    (* the frame of the finished step at the end *)
    assert (Hc1 : get st' c1 = mkF (sid_of s) res parent (Some c2) (match o2 with Ret _ => [] | Exc _ => [c2] end) (err_of o2) true).
    { rewrite (Hsb2 c1 ltac:(lia)). destruct o2 as [v2|e].
      - unfold eff. rewrite get_upd_eq by lia. rewrite Gm. reflexivity.
      - rewrite Hwalk. rewrite walk_above by (try apply WY; lia). unfold Y. rewrite get_upd_eq by (rewrite upd_length; unfold X; rewrite upd_length; lia).
        rewrite get_upd_ne by lia. rewrite GX. reflexivity. }
    (* the frames strictly between the two steps are those of the first step's own evaluation *)
    assert (Hmid : forall i, c1 < i -> i < c2 -> get st' i = get st1 i).
    { intros i Hi1 Hi2. rewrite (Hsb2 i Hi2). destruct o2 as [v2|e].
      - unfold eff. rewrite get_upd_ne by lia. unfold stm2. apply get_upd_ne. lia.
      - unfold eff. fold X. rewrite walk_above by (try apply WX; lia). unfold X. rewrite get_upd_ne by lia. unfold stm2. apply get_upd_ne. lia. }
    split; [|reflexivity]. unfold childstep. fold c1. cbn [snd].
    split; [lia|]. split; [exact W2|]. split; [|split; [|split]].
    4: { rewrite Hc1. reflexivity. }
    + (* the old frames *)
      intros i Hi. rewrite (Hsb2 i ltac:(lia)). destruct o2 as [v2|e].
      * unfold eff. rewrite get_upd_ne by lia. unfold stm2. rewrite get_upd_ne by lia. apply Hsb1'. exact Hi.
      * rewrite Hwalk. unfold eff.
        set (B := upd stm parent (fun x => add_cerr c1 (set_last c1 x))).
        assert (WB : WF B) by (unfold B; apply WF_upd; [reflexivity|reflexivity|exact Wm]).
        rewrite (walk_fuel parent c1 (S parent) (Y e) e (WY e) Hpc (Nat.lt_succ_diag_r parent)).
        assert (SB : same_below c1 (nopy_walk (S parent) (Y e) parent e) (nopy_walk (S parent) B parent e)).
        { apply walk_below.
          - intros j Hj. unfold Y. rewrite get_upd_ne by lia. destruct (Nat.eq_dec j parent) as [->|Hnp].
            + rewrite get_upd_eq by (unfold X; rewrite upd_length; lia). unfold X. rewrite get_upd_ne by lia.
              unfold stm2. rewrite get_upd_ne by lia. rewrite Hpar1. unfold B. symmetry. apply get_upd_eq. unfold c1 in Hpc. exact Hpc.
            + rewrite get_upd_ne by lia. unfold X. rewrite get_upd_ne by lia. unfold stm2. rewrite get_upd_ne by lia.
              rewrite Hsb1' by exact Hj. rewrite get_upd_ne by lia. unfold B. symmetry. apply get_upd_ne. lia.
          - exact Hpc.
          - apply WY.
          - exact WB.
          - unfold Y, X. rewrite !upd_length. lia.
          - unfold B. rewrite upd_length. unfold c1. lia. }
        exact (SB i Hi).
    + (* closed *)
      intros i Hi. destruct (Nat.eq_dec i c1) as [->|Hn1].
      * rewrite Hc1. cbn [f_last f_cerrs]. split; intros x Hx.
        -- injection Hx as <-. lia.
        -- destruct o2; [destruct Hx|destruct Hx as [<-|[]]; lia].
      * destruct (Nat.lt_ge_cases i c2) as [L|L].
        -- rewrite Hmid by lia. destruct (Hcl1 i ltac:(lia)) as [A B]. split; intros x Hx; [specialize (A x Hx)|specialize (B x Hx)]; lia.
        -- destruct (Hcl2 i ltac:(lia)) as [A B]. split; intros x Hx; [specialize (A x Hx)|specialize (B x Hx)]; lia.
    + (* the descent: the finished step as a bare entry, then the rest *)
      intros st'' kd kr Ha Hl2 Hkd Hkr. destruct kd as [|kd]; [lia|].
      unfold RD. cbn [descend]. rewrite (Ha c1 ltac:(lia)), Hc1. cbn [f_last f_spec f_target f_err f_cerrs].
      assert (Hbr : match (match o2 with Ret _ => [] | Exc _ => [c2] end) with
                    | [c] => if Nat.eqb c c2 then [] else [c] | l => l end = (@nil nat)).
      { destruct o2; [reflexivity|]. rewrite Nat.eqb_refl. reflexivity. }
      rewrite Hbr. cbn [existsb]. rewrite (Ha c2 ltac:(lia)), Herr2.
      destruct o2 as [v2|e2]; cbn [err_of under map]; unfold toTR at 1; cbn [e_spec e_target e_err e_branches map]; [reflexivity|].
      f_equal. apply (Hrd2 st'' kd kr); [eapply agree_sub; [exact Ha|lia|lia]|lia|lia|lia].
Qed.

(* ---------- Switch: the key that passed is marked and its value spec hangs under it; for the Switch frame the pair acts like
   one child whose descent is the key's bare entry followed by the value's ---------- *)
Lemma invF_value_step fuel (IH : goodF fuel) base sid t p f st k1 kf fc sidk v st' r :
  invF base sid t p f st k1 (Some kf) fc -> k_lf k1 = false ->
  f_spec (get st kf) = sidk -> f_target (get st kf) = t -> f_up (get st kf) = f -> f_err (get st kf) = None ->
  tdepth v < fuel ->
  glom_ fuel (upd st kf mark_chain) kf t v = (st', r) ->
  r = fst (rawF fuel v t) /\
  invF base sid t p f st' (k_after k1 r (under sidk t r (snd (rawF fuel v t)))) (Some kf)
       (match r with Ret _ => fc | Exc _ => fc ++ [kf] end).
Proof.
  intros I Hlf Ksp Ktg Kup Ker Hd E.
  pose proof (j_len _ _ _ _ _ _ _ _ _ I) as Hlen.
  pose proof (j_lc _ _ _ _ _ _ _ _ _ I kf eq_refl) as Hkf.
  pose proof (j_lf _ _ _ _ _ _ _ _ _ I kf eq_refl) as Hlt. rewrite Hlf in Hlt.
  set (stm := upd st kf mark_chain) in *.
  assert (Wm : WF stm) by (unfold stm; apply WF_upd; [reflexivity|intros ->; lia|exact (j_wf _ _ _ _ _ _ _ _ _ I)]).
  assert (Lm : List.length stm = List.length st) by apply upd_length.
  assert (Hke : f_err (get stm kf) = None).
  { unfold stm. rewrite get_upd_eq by lia. destruct (get st kf); cbn in *. exact Ker. }
  destruct (IH stm kf t v st' r Hd ltac:(lia) Wm Hke E) as ((Hlen' & W' & Hsb & Hcl & Hrd & Herr) & Hr & _).
  rewrite Lm in *. set (vf := List.length st) in *.
  split; [exact Hr|].
  destruct (get st kf) as [sp tg up la ce er np] eqn:G. cbn in Ksp, Ktg, Kup, Ker. subst sp tg up er.
  assert (Gm : get stm kf = mkF sidk t f la [] None true) by (unfold stm; rewrite get_upd_eq by lia; rewrite G; reflexivity).
  set (X := upd stm kf (fun x => add_cerr vf (set_last vf x))).
  assert (GX : get X kf = mkF sidk t f (Some vf) [vf] None true) by (unfold X; rewrite get_upd_eq by lia; rewrite Gm; reflexivity).
  assert (WX : WF X) by (unfold X; apply WF_upd; [reflexivity|reflexivity|exact Wm]).
  set (Y := fun e : nat => upd (upd X f (add_cerr kf)) kf (set_err e)).
  assert (Gf : get st f = mkF sid t p (Some kf) fc None false) by exact (j_f _ _ _ _ _ _ _ _ _ I).
  assert (Hwalk : forall e, eff stm kf vf (Exc e) = Y e).
  { intros e. unfold eff. fold X. rewrite walk_step by (rewrite GX; reflexivity). rewrite GX. cbn [f_up]. fold (Y e).
    apply walk_stop. unfold Y. rewrite get_upd_ne by lia. rewrite get_upd_eq by (unfold X; rewrite upd_length; lia).
    unfold X. rewrite get_upd_ne by lia. unfold stm. rewrite get_upd_ne by lia. rewrite Gf. reflexivity. }
  (* the frames below the value's own *)
  assert (Hkf' : get st' kf = mkF sidk t f (Some vf) (match r with Ret _ => [] | Exc _ => [vf] end) (err_of r) true).
  { rewrite (Hsb kf ltac:(lia)). destruct r as [v0|e].
    - unfold eff. rewrite get_upd_eq by lia. rewrite Gm. reflexivity.
    - rewrite Hwalk. unfold Y. rewrite get_upd_eq by (rewrite upd_length; unfold X; rewrite upd_length; lia).
      rewrite get_upd_ne by lia. rewrite GX. reflexivity. }
  assert (Hf' : get st' f = mkF sid t p (Some kf) (match r with Ret _ => fc | Exc _ => fc ++ [kf] end) None false).
  { rewrite (Hsb f ltac:(lia)). destruct r as [v0|e].
    - unfold eff. rewrite get_upd_ne by lia. unfold stm. rewrite get_upd_ne by lia. exact Gf.
    - rewrite Hwalk. unfold Y. rewrite get_upd_ne by lia. rewrite get_upd_eq by (unfold X; rewrite upd_length; lia).
      unfold X. rewrite get_upd_ne by lia. unfold stm. rewrite get_upd_ne by lia. rewrite Gf. reflexivity. }
  assert (Hoth : forall i, i < vf -> i <> kf -> i <> f -> get st' i = get st i).
  { intros i Hi H1 H2. rewrite (Hsb i Hi). destruct r as [v0|e].
    - unfold eff. rewrite get_upd_ne by lia. unfold stm. apply get_upd_ne. lia.
    - rewrite Hwalk. unfold Y. rewrite get_upd_ne by lia. rewrite get_upd_ne by lia. unfold X. rewrite get_upd_ne by lia.
      unfold stm. apply get_upd_ne. lia. }
  (* the descent at the key's frame: its bare entry, then the value's *)
  assert (Hrdk : forall st'' kd kr, agree (S f) (List.length st') st' st'' -> List.length st' <= List.length st'' ->
            List.length st' - S f <= kd -> List.length st' - S f <= kr ->
            RD kd kr st'' kf = under sidk t r (snd (rawF fuel v t))).
  { intros st'' kd kr Ha Hl2 Hkd Hkr. destruct kd as [|kd]; [lia|].
    unfold RD. cbn [descend]. rewrite (Ha kf ltac:(lia)), Hkf'. cbn [f_last f_spec f_target f_err f_cerrs].
    assert (Hbr : match (match r with Ret _ => [] | Exc _ => [vf] end) with
                  | [c] => if Nat.eqb c vf then [] else [c] | l => l end = (@nil nat)).
    { destruct r; [reflexivity|]. rewrite Nat.eqb_refl. reflexivity. }
    rewrite Hbr. cbn [existsb]. rewrite (Ha vf ltac:(lia)), Herr.
    destruct r as [v2|e2]; cbn [err_of under map]; unfold toTR at 1; cbn [e_spec e_target e_err e_branches map]; [reflexivity|].
    f_equal. apply (Hrd st'' kd kr); [eapply agree_sub; [exact Ha|lia|lia]|lia|lia|lia]. }
  constructor.
  - lia.
  - exact W'.
  - intros i Hi. rewrite Hoth by lia. apply (j_old _ _ _ _ _ _ _ _ _ I). exact Hi.
  - exact Hf'.
  - intros i Hi. destruct (Nat.eq_dec i kf) as [->|Hn1].
    + rewrite Hkf'. cbn [f_last f_cerrs]. split; intros x Hx.
      * injection Hx as <-. lia.
      * destruct r; [destruct Hx|destruct Hx as [<-|[]]; lia].
    + destruct (Nat.lt_ge_cases i vf) as [L|L].
      * rewrite Hoth by lia. destruct (j_closed _ _ _ _ _ _ _ _ _ I i ltac:(lia)) as [A B].
        split; intros x Hx; [specialize (A x Hx)|specialize (B x Hx)]; lia.
      * destruct (Hcl i ltac:(lia)) as [A B]. split; intros x Hx; [specialize (A x Hx)|specialize (B x Hx)]; lia.
  - intros x Hx. destruct r.
    + specialize (j_fc _ _ _ _ _ _ _ _ _ I x Hx). lia.
    + apply in_app_or in Hx. destruct Hx as [Hx|[<-|[]]]; [specialize (j_fc _ _ _ _ _ _ _ _ _ I x Hx)|]; lia.
  - intros x Hx. injection Hx as <-. lia.
  - destruct r; reflexivity.
  - discriminate.
  - intros x Hx. injection Hx as <-. destruct r; cbn [k_after k_ok k_fail k_lf].
    + exact Hlt.
    + exists fc. split; [reflexivity|exact Hlt].
  - assert (Hold2 : forall b', kf <= b' ->
              Forall2 (fun x tr => forall st'' k', agree (S f) b' st' st'' ->
                        List.length st' <= List.length st'' -> List.length st' - f <= k' -> render k' st'' x = tr) fc (k_ft k1)).
    { intros b' Hb1. eapply Forall2_weaken; [|exact (j_ft _ _ _ _ _ _ _ _ _ I)]. cbv beta.
      intros x tr H st'' k' Ha Hl Hk. apply H; [|lia|lia].
      unfold fbound. rewrite Hlf.
      intros i Hi. rewrite Ha by lia. apply Hoth; lia. }
    destruct r; cbn [k_after k_ok k_fail k_ft fbound k_lf].
    + apply Hold2. lia.
    + apply Forall2_app_one; [apply Hold2; lia|].
      intros st'' k' Ha Hl Hk. destruct k' as [|k'']; [lia|].
      rewrite render_unfold. f_equal. apply Hrdk; [exact Ha|lia|lia|lia].
  - intros x Hx st'' kd kr Ha Hl Hkd Hkr. injection Hx as <-.
    replace (k_lr (k_after k1 r (under sidk t r (snd (rawF fuel v t))))) with (under sidk t r (snd (rawF fuel v t)))
      by (destruct r; reflexivity).
    apply Hrdk; assumption.
  - intros x Hx. injection Hx as <-. rewrite Hkf'. destruct r; reflexivity.
Qed.

Lemma switch_loop_inv fuel (IH : goodF fuel) base sid t p f own : forall cs st k lc fc st' r,
  invF base sid t p f st k lc fc ->
  (forall key v, In (key, v) cs -> tdepth key < fuel /\ tdepth v < fuel) ->
  switch_loop (glom_ fuel) own st f t cs = (st', r) ->
  exists k' lc' fc', invF base sid t p f st' k' lc' fc' /\
    r = fst (switch_raw (rawF fuel) own t cs k) /\ k' = snd (switch_raw (rawF fuel) own t cs k).
Proof.
  induction cs as [|[key v] cs IHc]; intros st k lc fc st' r I Hd E; cbn [switch_loop switch_raw] in *.
  - injection E as <- <-. exists k, lc, fc. split; [exact I|split; reflexivity].
  - destruct (Hd key v (or_introl eq_refl)) as [Hdk Hdv].
    destruct (glom_ fuel st f t key) as [st1 rb] eqn:Ek.
    assert (Hfe : f_err (get st f) = None) by (rewrite (j_f _ _ _ _ _ _ _ _ _ I); reflexivity).
    destruct (IH st f t key st1 rb Hdk (j_len _ _ _ _ _ _ _ _ _ I) (j_wf _ _ _ _ _ _ _ _ _ I) Hfe Ek) as (Hcs & Hr & Htop).
    pose proof (invF_step base sid t p f st k lc fc st1 rb _ I Hcs) as I1.
    destruct (rawF fuel key t) as [o rk]. cbn [fst snd] in *. subst o.
    destruct rb as [v0|e]; cbn [k_after] in I1.
    + (* the key passed: its value spec decides *)
      assert (Ecc : chain_child st1 f = (upd st1 (List.length st) mark_chain, List.length st)).
      { unfold chain_child. rewrite (j_f _ _ _ _ _ _ _ _ _ I1). reflexivity. }
      rewrite Ecc in E.
      destruct Htop as (Tsp & Ttg & Tup & _ & Ter).
      destruct (invF_value_step fuel IH base sid t p f st1 (k_ok k rk) (List.length st) fc (sid_of key) v st' r
                  I1 eq_refl Tsp Ttg Tup Ter Hdv E) as [Hrv I2].
      destruct (rawF fuel v t) as [ov rv]. cbn [fst snd] in *. subst ov.
      eexists _, _, _. split; [exact I2|]. split; [reflexivity|]. destruct r; reflexivity.
    + apply (IHc _ _ _ _ _ _ I1 (fun a b H => Hd a b (or_intror H)) E).
Qed.

Lemma depth_in_pairs cs key v : In (key, v) cs ->
  tdepth key <= fold_right (fun kv acc => let '(k, v) := kv in Nat.max (Nat.max (tdepth k) (tdepth v)) acc) 0 cs /\
  tdepth v <= fold_right (fun kv acc => let '(k, v) := kv in Nat.max (Nat.max (tdepth k) (tdepth v)) acc) 0 cs.
Proof.
  induction cs as [|[a b] r IH]; intros H; [destruct H|]. cbn [fold_right]. destruct H as [H|H].
  - injection H as -> ->. lia.
  - specialize (IH H). lia.
Qed.

Theorem all_goodF : forall fuel, goodF fuel.
Proof.
  induction fuel as [|fuel IH]; intros st p t s st' r Hd Hp W Hpe E; [lia|].
  cbn [glom_] in E.
  set (f := List.length st) in *.
  set (st1 := upd (st ++ [new_frame s t p]) p (set_last f)) in *.
  assert (Hl1 : List.length st1 = S f) by (unfold st1; rewrite upd_length, app_length; cbn; lia).
  assert (Hf1 : get st1 f = mkF (sid_of s) t p None [] None false).
  { unfold st1. rewrite get_upd_ne by (unfold f; lia). unfold f. rewrite get_app_new. reflexivity. }
  assert (Hp1 : get st1 p = set_last f (get st p)).
  { unfold st1. rewrite get_upd_eq by (rewrite app_length; cbn; lia). rewrite get_app_old by exact Hp. reflexivity. }
  assert (Ho1 : forall i, i < f -> i <> p -> get st1 i = get st i).
  { intros i Hi Hne. unfold st1. rewrite get_upd_ne by lia. apply get_app_old. exact Hi. }
  assert (W1 : WF st1).
  { unfold st1. apply WF_upd; [reflexivity|reflexivity|]. apply WF_app; [exact Hp|lia|exact W]. }
  assert (I0 : invF st1 (sid_of s) t p f st1 k0 None []).
  { constructor.
    - lia.
    - exact W1.
    - reflexivity.
    - exact Hf1.
    - intros i Hi. lia.
    - intros c [].
    - intros c Hc. discriminate Hc.
    - reflexivity.
    - intros _. split; reflexivity.
    - intros c Hc. discriminate Hc.
    - constructor.
    - intros c Hc. discriminate Hc.
    - intros c Hc. discriminate Hc. }
  assert (Tail : forall st2 r2 k lc fc,
             invF st1 (sid_of s) t p f st2 k lc fc ->
             (match r2 with
              | Ret v => (st2, Ret v)
              | Exc e =>
                  if same_err (f_err (get st2 p)) e then (upd st2 f (set_err e), Exc e) else
                  let st3 := upd st2 p (add_cerr f) in
                  let st4 := upd st3 f (set_err e) in
                  let st5 := if f_nopy (get st4 p) then nopy_walk (List.length st4) st4 p e else st4 in
                  (st5, Exc e) end) = (st', r) ->
             rawF (S fuel) s t = (r2, assemble (sid_of s) t (err_of r2) k) ->
             childstep st p st' r (snd (rawF (S fuel) s t)) /\ r = fst (rawF (S fuel) s t) /\ topfacts st' f (sid_of s) t p r).
  { intros st2 r2 k lc fc I2 E2 Hraw.
    assert (L2 : 1 <= List.length st2) by (pose proof (j_len _ _ _ _ _ _ _ _ _ I2); lia).
    assert (Hpe2 : f_err (get st2 p) = None).
    { rewrite (j_old _ _ _ _ _ _ _ _ _ I2 p Hp), Hp1. exact Hpe. }
    destruct (except_armF st2 p f r2 st' r L2 Hpe2 E2) as [-> ->].
    rewrite Hraw. cbn [fst snd].
    destruct (finalizeF st1 (sid_of s) t p f st2 k lc fc st r2 I2 Hp eq_refl W Hp1 Ho1) as [A B].
    split; [exact A|]. split; [reflexivity|exact B]. }
  destruct s as [n ok|n|n l|n l|n l|n l|n cs|n ok kid|n l|n kid|n l]; cbn [sid_of] in *.
  - destruct ok.
    + apply (Tail st1 (Ret (2000 + n)) k0 None [] I0 E). reflexivity.
    + apply (Tail st1 (Exc n) k0 None [] I0 E). reflexivity.
  - apply (Tail st1 (Ret 0) k0 None [] I0 E). reflexivity.
  - (* Nest *)
    cbn [tdepth] in Hd.
    assert (Hdl : forall x, In x l -> tdepth x < fuel) by (intros x Hx; pose proof (depth_in l x Hx); lia).
    destruct (nest_loop (glom_ fuel) n st1 f t l) as [st2 r2] eqn:Eb.
    destruct (nest_loop_inv fuel IH st1 n t p f l st1 k0 None [] st2 r2 I0 Hdl Eb) as (k' & lc' & fc' & I2 & Hm).
    apply (Tail st2 r2 k' lc' fc' I2 E).
    cbn [rawF]. destruct (nest_raw (rawF fuel) t l k0) as [[e|] k2]; destruct Hm as [-> ->]; reflexivity.
  - (* Chain *)
    cbn [tdepth] in Hd.
    assert (Hdl : forall x, In x l -> tdepth x < fuel) by (intros x Hx; pose proof (depth_in l x Hx); lia).
    destruct l as [|s0 rest].
    + cbn [chain_loop] in E. apply (Tail st1 (Ret t) k0 None [] I0 E). reflexivity.
    + destruct (chain_loop (glom_ fuel) st1 f t (s0 :: rest)) as [st2 r2] eqn:Eb.
      assert (Hlast : forall m, f_last (get st1 f) = Some m -> f < m < List.length st1).
      { intros m Hm. rewrite Hf1 in Hm. discriminate Hm. }
      assert (Ecc : chain_child st1 f = (st1, f)) by (unfold chain_child; rewrite Hf1; reflexivity).
      assert (Hce : f_err (get (fst (chain_child st1 f)) (snd (chain_child st1 f))) = None) by (rewrite Ecc; cbn [fst snd]; rewrite Hf1; reflexivity).
      destruct (chain_steps fuel IH (s0 :: rest) st1 f t st2 r2 ltac:(discriminate) Hdl W1 ltac:(lia) Hlast Hce Eb) as [Hcs Hr2].
      rewrite Ecc in Hcs. cbn [fst snd] in Hcs.
      pose proof (invF_step st1 n t p f st1 k0 None [] st2 r2 _ I0 Hcs) as I2.
      apply (Tail st2 r2 _ _ _ I2 E).
      cbn [rawF]. destruct (chain_raw (rawF fuel) t (s0 :: rest)) as [o body]. cbn [fst snd] in *. subst o. reflexivity.
  - (* Alt *)
    cbn [tdepth] in Hd.
    assert (Hdl : forall x, In x l -> tdepth x < fuel) by (intros x Hx; pose proof (depth_in l x Hx); lia).
    destruct (alt_loop (glom_ fuel) (5000 + n) st1 f t l) as [st2 r2] eqn:Eb.
    destruct (alt_loop_inv fuel IH st1 n t p f (5000 + n) l st1 k0 None [] st2 r2 I0 Hdl Eb) as (k' & lc' & fc' & I2 & Hm).
    apply (Tail st2 r2 k' lc' fc' I2 E).
    cbn [rawF]. destruct (alt_raw (rawF fuel) t l k0) as [[v|] k2]; destruct Hm as [-> ->]; reflexivity.
  - (* OrS *)
    cbn [tdepth] in Hd.
    assert (Hdl : forall x, In x l -> tdepth x < fuel) by (intros x Hx; pose proof (depth_in l x Hx); lia).
    destruct (or_loop (glom_ fuel) st1 f t l) as [st2 r2] eqn:Eb.
    destruct (or_loop_inv fuel IH st1 n t p f l st1 k0 None [] st2 r2 I0 Hdl Eb) as (k' & lc' & fc' & I2 & Hr2 & Hk2).
    apply (Tail st2 r2 k' lc' fc' I2 E).
    cbn [rawF]. destruct (or_raw (rawF fuel) t l k0) as [o k2]. cbn [fst snd] in *. subst o k2. destruct r2; reflexivity.
  - (* Switch *)
    cbn [tdepth] in Hd.
    assert (Hdc : forall key v, In (key, v) cs -> tdepth key < fuel /\ tdepth v < fuel).
    { intros key v Hin. pose proof (depth_in_pairs cs key v Hin). lia. }
    destruct (switch_loop (glom_ fuel) (5000 + n) st1 f t cs) as [st2 r2] eqn:Eb.
    destruct (switch_loop_inv fuel IH st1 n t p f (5000 + n) cs st1 k0 None [] st2 r2 I0 Hdc Eb) as (k' & lc' & fc' & I2 & Hr2 & Hk2).
    apply (Tail st2 r2 k' lc' fc' I2 E).
    cbn [rawF]. destruct (switch_raw (rawF fuel) (5000 + n) t cs k0) as [o k2]. cbn [fst snd] in *. subst o k2. reflexivity.
  - (* Guard *)
    cbn [tdepth] in Hd.
    destruct (glom_ fuel st1 f t kid) as [st2 rb] eqn:Eb.
    assert (Hdk : tdepth kid < fuel) by lia.
    destruct (invF_step_glom fuel IH _ _ _ _ _ _ _ _ _ _ _ _ I0 Hdk Eb) as [Hr I2].
    rewrite Hl1 in I2.
    destruct rb as [v|e].
    + destruct ok.
      * apply (Tail st2 (Ret t) _ _ _ I2 E).
        cbn [rawF]. destruct (rawF fuel kid t) as [o rk]. cbn [fst snd] in *. subst o. reflexivity.
      * apply (Tail st2 (Exc (6000 + n)) _ _ _ I2 E).
        cbn [rawF]. destruct (rawF fuel kid t) as [o rk]. cbn [fst snd] in *. subst o. reflexivity.
    + apply (Tail st2 (Exc e) _ _ _ I2 E).
      cbn [rawF]. destruct (rawF fuel kid t) as [o rk]. cbn [fst snd] in *. subst o. reflexivity.
  - (* AltD *)
    cbn [tdepth] in Hd.
    assert (Hdl : forall x, In x l -> tdepth x < fuel) by (intros x Hx; pose proof (depth_in l x Hx); lia).
    destruct (alt_loop (glom_ fuel) 0 st1 f t l) as [st2 r2] eqn:Eb.
    destruct (alt_loop_inv fuel IH st1 n t p f 0 l st1 k0 None [] st2 r2 I0 Hdl Eb) as (k' & lc' & fc' & I2 & Hm).
    destruct (alt_raw (rawF fuel) t l k0) as [[v|] k2] eqn:Eraw; destruct Hm as [-> ->].
    + apply (Tail st2 (Ret v) k2 lc' fc' I2 E). cbn [rawF]. rewrite Eraw. reflexivity.
    + apply (Tail st2 (Ret (3000 + n)) k2 lc' fc' I2 E). cbn [rawF]. rewrite Eraw. reflexivity.
  - (* NotS *)
    cbn [tdepth] in Hd.
    destruct (glom_ fuel st1 f t kid) as [st2 rb] eqn:Eb.
    assert (Hdk : tdepth kid < fuel) by lia.
    destruct (invF_step_glom fuel IH _ _ _ _ _ _ _ _ _ _ _ _ I0 Hdk Eb) as [Hr I2].
    rewrite Hl1 in I2.
    destruct rb as [v|e].
    + apply (Tail st2 (Exc (6000 + n)) _ _ _ I2 E).
      cbn [rawF]. destruct (rawF fuel kid t) as [o rk]. cbn [fst snd] in *. subst o. reflexivity.
    + apply (Tail st2 (Ret t) _ _ _ I2 E).
      cbn [rawF]. destruct (rawF fuel kid t) as [o rk]. cbn [fst snd] in *. subst o. reflexivity.
  - (* AndS *)
    cbn [tdepth] in Hd.
    assert (Hdl : forall x, In x l -> tdepth x < fuel) by (intros x Hx; pose proof (depth_in l x Hx); lia).
    destruct (and_loop (glom_ fuel) st1 f t l t) as [st2 r2] eqn:Eb.
    destruct (and_loop_inv fuel IH st1 n t p f l st1 k0 None [] t st2 r2 I0 Hdl Eb) as (k' & lc' & fc' & I2 & Hr2 & Hk2).
    apply (Tail st2 r2 k' lc' fc' I2 E).
    cbn [rawF]. destruct (and_raw (rawF fuel) t l k0 t) as [o k2]. cbn [fst snd] in *. subst o k2. reflexivity.
Qed.

(* ---------- stage 2 for all shapes: push-down and trim applied to the raw descent give the structural reading ---------- *)
Definition sound2F (fuel : nat) : Prop := forall s t,
  tdepth s < fuel -> wf s ->
  fst (rawF fuel s t) = fst (fst (exp fuel s t)) /\
  (forall e, fst (rawF fuel s t) = Exc e ->
     finish (snd (rawF fuel s t)) = snd (fst (exp fuel s t)) /\ snd (exp fuel s t) = e /\
     head_err (snd (rawF fuel s t)) = Some e /\ raised e (sids s)).

Section Loops2F.
  Variable fuel : nat.
  Hypothesis IH : sound2F fuel.
  Variable t : nat.

  Definition kids_okF (l : list tspec) : Prop := forall x, In x l -> tdepth x < fuel /\ wf x.

  Lemma kids_okF_tail x l : kids_okF (x :: l) -> kids_okF l.
  Proof. intros H y Hy. apply H. right. exact Hy. Qed.

  Lemma above_sameF sid e trk : above sid t e trk e = TR sid t None [] :: trk.
  Proof. unfold above. rewrite Nat.eqb_refl. reflexivity. Qed.

  Lemma nest_soundF sid : forall l k S, kids_okF l -> incl (flat_map sids l) S -> kstate k S -> k_ft k = [] -> k_lf k = false ->
    match nest_raw (rawF fuel) t l k with
    | (None, k2) => nest_exp (exp fuel) sid t l = (Ret (1000 + sid), [], 0) /\ kstate k2 S /\ k_ft k2 = [] /\ k_lf k2 = false
    | (Some e, k2) => nest_exp (exp fuel) sid t l = (Exc e, finish (assemble sid t (Some e) k2), e) /\ raised e S end.
  Proof.
    induction l as [|x l IHl]; intros k S Hk Hi Hs Hft Hlf; cbn [nest_raw nest_exp].
    - split; [reflexivity|]. split; [exact Hs|]. split; assumption.
    - destruct (Hk x (or_introl eq_refl)) as (Hd & Hw).
      destruct (IH x t Hd Hw) as (Ho & Hex).
      destruct (rawF fuel x t) as [o rx]. destruct (exp fuel x t) as [[o' tx] ex]. cbn [fst snd] in *. subst o'.
      destruct o as [v|e].
      + apply IHl.
        * apply (kids_okF_tail x l Hk).
        * intros y Hy. apply Hi. cbn [flat_map]. apply in_or_app. right. exact Hy.
        * apply kstate_ok.
        * exact Hft.
        * reflexivity.
      + destruct (Hex e eq_refl) as (Hfin & -> & Hhd & Hra).
        assert (Hra' : raised e S).
        { eapply raised_incl; [exact Hra|]. intros y Hy. apply Hi. cbn [flat_map]. apply in_or_app. left. exact Hy. }
        split; [|exact Hra'].
        rewrite above_sameF. f_equal. f_equal.
        unfold assemble, k_fail. cbn [k_has k_ft k_lf k_lr negb]. rewrite Hft. cbn [app andb].
        rewrite (finish_same (TR sid t (Some e) []) rx e eq_refl Hhd). cbn [tr_clear]. rewrite Hfin. reflexivity.
  Qed.

  Lemma and_soundF sid : forall l k S last, kids_okF l -> incl (flat_map sids l) S -> kstate k S -> k_ft k = [] -> k_lf k = false ->
    match and_raw (rawF fuel) t l k last with
    | (Ret v, k2) => and_exp (exp fuel) sid t l last = (Ret v, [], 0) /\ kstate k2 S /\ k_ft k2 = [] /\ k_lf k2 = false
    | (Exc e, k2) => and_exp (exp fuel) sid t l last = (Exc e, finish (assemble sid t (Some e) k2), e) /\ raised e S end.
  Proof.
    induction l as [|x l IHl]; intros k S last Hk Hi Hs Hft Hlf; cbn [and_raw and_exp].
    - split; [reflexivity|]. split; [exact Hs|]. split; assumption.
    - destruct (Hk x (or_introl eq_refl)) as (Hd & Hw).
      destruct (IH x t Hd Hw) as (Ho & Hex).
      destruct (rawF fuel x t) as [o rx]. destruct (exp fuel x t) as [[o' tx] ex]. cbn [fst snd] in *. subst o'.
      destruct o as [v|e].
      + apply IHl.
        * apply (kids_okF_tail x l Hk).
        * intros y Hy. apply Hi. cbn [flat_map]. apply in_or_app. right. exact Hy.
        * apply kstate_ok.
        * exact Hft.
        * reflexivity.
      + destruct (Hex e eq_refl) as (Hfin & -> & Hhd & Hra).
        assert (Hra' : raised e S).
        { eapply raised_incl; [exact Hra|]. intros y Hy. apply Hi. cbn [flat_map]. apply in_or_app. left. exact Hy. }
        split; [|exact Hra'].
        rewrite above_sameF. f_equal. f_equal.
        unfold assemble, k_fail. cbn [k_has k_ft k_lf k_lr negb]. rewrite Hft. cbn [app andb].
        rewrite (finish_same (TR sid t (Some e) []) rx e eq_refl Hhd). cbn [tr_clear]. rewrite Hfin. reflexivity.
  Qed.

  Lemma alt_soundF : forall l k S, kids_okF l -> incl (flat_map sids l) S -> kstate k S ->
    match alt_raw (rawF fuel) t l k with
    | (Some v, k2) => fst (fst (alt_exp (exp fuel) t l (k_ft k) (k_lf k))) = Some v /\ kstate k2 S /\ k_lf k2 = false
    | (None, k2) => alt_exp (exp fuel) t l (k_ft k) (k_lf k) = (None, k_ft k2, k_lf k2) /\ kstate k2 S end.
  Proof.
    induction l as [|x l IHl]; intros k S Hk Hi Hs; cbn [alt_raw alt_exp].
    - split; [reflexivity|exact Hs].
    - destruct (Hk x (or_introl eq_refl)) as (Hd & Hw).
      destruct (IH x t Hd Hw) as (Ho & Hex).
      destruct (rawF fuel x t) as [o rx]. destruct (exp fuel x t) as [[o' tx] ex]. cbn [fst snd] in *. subst o'.
      assert (Hi' : incl (flat_map sids l) S).
      { intros y Hy. apply Hi. cbn [flat_map]. apply in_or_app. right. exact Hy. }
      destruct o as [v|e].
      + destruct (Nat.eqb v 0).
        * specialize (IHl (k_ok k rx) S (kids_okF_tail x l Hk) Hi' (kstate_ok k S rx)).
          cbn [k_ok k_ft k_lf] in IHl. exact IHl.
        * cbn [fst]. split; [reflexivity|]. split; [apply kstate_ok|reflexivity].
      + destruct (Hex e eq_refl) as (Hfin & _ & Hhd & Hra).
        assert (Hra' : raised e S).
        { eapply raised_incl; [exact Hra|]. intros y Hy. apply Hi. cbn [flat_map]. apply in_or_app. left. exact Hy. }
        specialize (IHl (k_fail k rx) S (kids_okF_tail x l Hk) Hi' (kstate_fail k S rx e Hhd Hra')).
        cbn [k_fail k_ft k_lf] in IHl. rewrite Hfin in IHl. exact IHl.
  Qed.

  Lemma or_soundF : forall l k S last, l <> [] -> kids_okF l -> incl (flat_map sids l) S -> kstate k S ->
    match or_raw (rawF fuel) t l k with
    | (Ret v, k2) => fst (fst (or_exp (exp fuel) t l (k_ft k) last)) = Some v /\ kstate k2 S /\ k_lf k2 = false
    | (Exc e, k2) => or_exp (exp fuel) t l (k_ft k) last = (None, k_ft k2, (e, e)) /\ kstate k2 S /\ k_lf k2 = true /\
                     head_err (k_lr k2) = Some e /\ raised e S end.
  Proof.
    induction l as [|x l IHl]; intros k S last Hne Hk Hi Hs; [congruence|].
    destruct (Hk x (or_introl eq_refl)) as (Hd & Hw).
    destruct (IH x t Hd Hw) as (Ho & Hex).
    assert (Hi' : incl (flat_map sids l) S).
    { intros y Hy. apply Hi. cbn [flat_map]. apply in_or_app. right. exact Hy. }
    assert (Hix : incl (sids x) S).
    { intros y Hy. apply Hi. cbn [flat_map]. apply in_or_app. left. exact Hy. }
    destruct l as [|y l].
    - cbn [or_raw or_exp].
      destruct (rawF fuel x t) as [o rx]. destruct (exp fuel x t) as [[o' tx] ex]. cbn [fst snd] in *. subst o'.
      destruct o as [v|e].
      + cbn [fst]. split; [reflexivity|]. split; [apply kstate_ok|reflexivity].
      + destruct (Hex e eq_refl) as (Hfin & -> & Hhd & Hra).
        pose proof (raised_incl _ _ _ Hra Hix) as Hra'.
        cbn [k_fail k_ft k_lf k_lr]. rewrite Hfin. split; [reflexivity|]. split; [apply (kstate_fail k S rx e Hhd Hra')|].
        split; [reflexivity|]. split; assumption.
    - change (or_raw (rawF fuel) t (x :: y :: l) k) with
        (match rawF fuel x t with (Ret v, rb) => (Ret v, k_ok k rb) | (Exc _, rb) => or_raw (rawF fuel) t (y :: l) (k_fail k rb) end).
      change (or_exp (exp fuel) t (x :: y :: l) (k_ft k) last) with
        (match exp fuel x t with
         | (Ret v, _, _) => (Some v, k_ft k, last)
         | (Exc e, trb, eb) => or_exp (exp fuel) t (y :: l) (k_ft k ++ [trb]) (e, eb) end).
      destruct (rawF fuel x t) as [o rx]. destruct (exp fuel x t) as [[o' tx] ex]. cbn [fst snd] in *. subst o'.
      destruct o as [v|e].
      + cbn [fst]. split; [reflexivity|]. split; [apply kstate_ok|reflexivity].
      + destruct (Hex e eq_refl) as (Hfin & -> & Hhd & Hra).
        pose proof (raised_incl _ _ _ Hra Hix) as Hra'.
        specialize (IHl (k_fail k rx) S (e, e) ltac:(discriminate) (kids_okF_tail x (y :: l) Hk) Hi' (kstate_fail k S rx e Hhd Hra')).
        cbn [k_fail k_ft] in IHl. rewrite Hfin in IHl. exact IHl.
  Qed.
End Loops2F.

Section Chain2F.
  Variable fuel : nat.
  Hypothesis IH : sound2F fuel.

  Lemma chain_soundF : forall steps res done S, kids_okF fuel steps -> incl (flat_map sids steps) S ->
    match chain_raw (rawF fuel) res steps with
    | (Ret v, body) => fst (fst (chain_exp (exp fuel) res done steps)) = Ret v
    | (Exc e, body) => exists trs,
        chain_exp (exp fuel) res done steps = (Exc e, map (fun st => TR (fst st) (snd st) None []) done ++ trs, e) /\
        finish body = trs /\ head_err body = Some e /\ raised e S end.
  Proof.
    induction steps as [|s steps IHs]; intros res done S Hk Hi.
    - cbn [chain_raw chain_exp fst]. reflexivity.
    - destruct (Hk s (or_introl eq_refl)) as (Hd & Hw).
      destruct (IH s res Hd Hw) as (Ho & Hex).
      assert (His : incl (sids s) S) by (intros y Hy; apply Hi; cbn [flat_map]; apply in_or_app; left; exact Hy).
      assert (Hi' : incl (flat_map sids steps) S) by (intros y Hy; apply Hi; cbn [flat_map]; apply in_or_app; right; exact Hy).
      destruct steps as [|s2 rest].
      + cbn [chain_raw chain_exp].
        destruct (rawF fuel s res) as [o rs]. destruct (exp fuel s res) as [[o' ts] es]. cbn [fst snd] in *. subst o'.
        destruct o as [v|e].
        * cbn [fst]. reflexivity.
        * destruct (Hex e eq_refl) as (Hfin & -> & Hhd & Hra). exists ts. split; [reflexivity|]. split; [exact Hfin|]. split; [exact Hhd|].
          apply (raised_incl _ _ _ Hra His).
      + change (chain_raw (rawF fuel) res (s :: s2 :: rest)) with
          (match rawF fuel s res with
           | (Exc e, rs) => (Exc e, rs)
           | (Ret v, _) => match chain_raw (rawF fuel) v (s2 :: rest) with
                           | (r, body) => (r, under (sid_of s) res r body) end end).
        change (chain_exp (exp fuel) res done (s :: s2 :: rest)) with
          (match exp fuel s res with
           | (Ret v, _, _) => chain_exp (exp fuel) v (done ++ [(sid_of s, res)]) (s2 :: rest)
           | (Exc e, trs, es) => (Exc e, map (fun st => TR (fst st) (snd st) None []) done ++ trs, es) end).
        destruct (rawF fuel s res) as [o rs]. destruct (exp fuel s res) as [[o' ts] es]. cbn [fst snd] in *. subst o'.
        destruct o as [v|e].
        * specialize (IHs v (done ++ [(sid_of s, res)]) S (fun y Hy => Hk y (or_intror Hy)) Hi').
          destruct (chain_raw (rawF fuel) v (s2 :: rest)) as [[v2|e] body2].
          -- exact IHs.
          -- destruct IHs as (trs2 & Hce & Hfin2 & Hhd2 & Hra2).
             exists (TR (sid_of s) res None [] :: trs2). split; [|split; [|split]].
             ++ rewrite Hce. rewrite map_app. cbn [map fst snd]. rewrite <- app_assoc. reflexivity.
             ++ cbn [under]. rewrite (finish_same (TR (sid_of s) res (Some e) []) body2 e eq_refl Hhd2). cbn [tr_clear]. rewrite Hfin2. reflexivity.
             ++ reflexivity.
             ++ exact Hra2.
        * destruct (Hex e eq_refl) as (Hfin & -> & Hhd & Hra). exists ts. split; [reflexivity|]. split; [exact Hfin|]. split; [exact Hhd|].
          apply (raised_incl _ _ _ Hra His).
  Qed.

  Definition pairs_okF (cs : list (tspec * tspec)) : Prop :=
    forall key v, In (key, v) cs -> (tdepth key < fuel /\ wf key) /\ (tdepth v < fuel /\ wf v).
  Definition pair_sids (kv : tspec * tspec) : list nat := let '(k, v) := kv in sids k ++ sids v.

  Lemma switch_soundF own t : forall cs k S, pairs_okF cs -> incl (flat_map pair_sids cs) S -> kstate k S ->
    (k_has k = true -> k_lf k = true) ->
    match switch_raw (rawF fuel) own t cs k with
    | (Ret x, k2) => fst (fst (switch_exp (exp fuel) t cs (k_ft k))) = Ret x /\ kstate k2 S /\ k_lf k2 = false
    | (Exc e, k2) =>
        (e = own /\ switch_exp (exp fuel) t cs (k_ft k) = (Exc 0, k_ft k2, None) /\ kstate k2 S /\ (k_has k2 = true -> k_lf k2 = true))
        \/ (switch_exp (exp fuel) t cs (k_ft k) = (Exc e, k_ft k2, Some (e, e)) /\ kstate k2 S /\ k_lf k2 = true /\
            k_has k2 = true /\ head_err (k_lr k2) = Some e /\ raised e S) end.
  Proof.
    induction cs as [|[key v] cs IHc]; intros k S Hk Hi Hs Hhl; cbn [switch_raw switch_exp].
    - left. split; [reflexivity|]. split; [reflexivity|]. split; [exact Hs|exact Hhl].
    - destruct (Hk key v (or_introl eq_refl)) as [[Hdk Hwk] [Hdv Hwv]].
      assert (Hik : incl (sids key) S).
      { intros y Hy. apply Hi. cbn [flat_map pair_sids]. apply in_or_app. left. apply in_or_app. left. exact Hy. }
      assert (Hiv : incl (sids v) S).
      { intros y Hy. apply Hi. cbn [flat_map pair_sids]. apply in_or_app. left. apply in_or_app. right. exact Hy. }
      assert (Hi' : incl (flat_map pair_sids cs) S).
      { intros y Hy. apply Hi. cbn [flat_map]. apply in_or_app. right. exact Hy. }
      destruct (IH key t Hdk Hwk) as (Ho & Hex).
      destruct (rawF fuel key t) as [o rk]. destruct (exp fuel key t) as [[o' tk] ek]. cbn [fst snd] in *. subst o'.
      destruct o as [v0|e].
      + (* the key passes: the value decides *)
        destruct (IH v t Hdv Hwv) as (Hov & Hexv).
        destruct (rawF fuel v t) as [ov rv]. destruct (exp fuel v t) as [[ov' tv] ev]. cbn [fst snd] in *. subst ov'.
        destruct ov as [x|e]; cbn [k_after under].
        * cbn [fst]. split; [reflexivity|]. split; [|reflexivity].
          apply kstate_ok.
        * destruct (Hexv e eq_refl) as (Hfin & -> & Hhd & Hra). right.
          assert (Hfx : finish (TR (sid_of key) t (Some e) [] :: rv) = TR (sid_of key) t None [] :: tv).
          { rewrite (finish_same (TR (sid_of key) t (Some e) []) rv e eq_refl Hhd). cbn [tr_clear]. rewrite Hfin. reflexivity. }
          cbn [k_fail k_ft k_lf k_has k_lr]. rewrite Hfx.
          split; [reflexivity|]. split; [|split; [reflexivity|split; [reflexivity|split; [reflexivity|apply (raised_incl _ _ _ Hra Hiv)]]]].
          apply (kstate_fail k S _ e); [reflexivity|apply (raised_incl _ _ _ Hra Hiv)].
      + destruct (Hex e eq_refl) as (Hfin & _ & Hhd & Hra).
        specialize (IHc (k_fail k rk) S (fun a b H => Hk a b (or_intror H)) Hi'
                        (kstate_fail k S rk e Hhd (raised_incl _ _ _ Hra Hik)) (fun _ => eq_refl)).
        cbn [k_fail k_ft] in IHc. rewrite Hfin in IHc. exact IHc.
  Qed.
End Chain2F.

Lemma kids_okF_of fuel n l :
  S (fold_right (fun x acc => Nat.max (tdepth x) acc) 0 l) < S fuel ->
  NoDup (n :: flat_map sids l) -> Forall (fun m => m < 1000) (n :: flat_map sids l) ->
  kids_okF fuel l.
Proof.
  intros Hd Hn Hf x Hx. destruct (wf_kids n l Hn Hf) as (_ & _ & Hwf & _).
  split; [pose proof (depth_in l x Hx); lia|apply Hwf; exact Hx].
Qed.

Lemma wf_pairs n cs : NoDup (n :: flat_map pair_sids cs) -> Forall (fun m => m < 1000) (n :: flat_map pair_sids cs) ->
  n < 1000 /\ ~ In n (flat_map pair_sids cs) /\ (forall key v, In (key, v) cs -> wf key /\ wf v) /\
  (forall m, In m (flat_map pair_sids cs) -> m < 1000).
Proof.
  intros Hn Hf. inversion Hn as [|? ? Hni Hnd]; subst. inversion Hf as [|? ? Hlt Hfl]; subst.
  split; [exact Hlt|]. split; [exact Hni|]. rewrite Forall_forall in Hfl. split; [|exact Hfl].
  intros key v Hin.
  pose proof (nodup_flat_map pair_sids cs (key, v) Hnd Hin) as Hp. cbn [pair_sids] in Hp.
  destruct (nodup_app_parts _ _ Hp) as [A B].
  assert (Hinc : incl (sids key ++ sids v) (flat_map pair_sids cs)) by apply (incl_flat_map pair_sids cs (key, v) Hin).
  split; (split; [assumption|]); apply Forall_forall; intros m Hm; apply Hfl; apply Hinc; apply in_or_app; [left|right]; exact Hm.
Qed.

Theorem all_sound2F : forall fuel, sound2F fuel.
Proof.
  induction fuel as [|fuel IH]; intros s t Hd Hw; [lia|].
  destruct s as [n ok|n|n l|n l|n l|n l|n cs|n ok kid|n l|n kid|n l].
  - (* Leaf *)
    cbn [rawF exp]. destruct ok; cbn [fst snd].
    + split; [reflexivity|discriminate].
    + split; [reflexivity|]. intros e He. injection He as <-.
      split; [reflexivity|]. split; [reflexivity|]. split; [reflexivity|]. exists n. split; [left; reflexivity|left; reflexivity].
  - (* SkipLeaf *)
    cbn [rawF exp fst snd]. split; [reflexivity|discriminate].
  - (* Nest *)
    destruct Hw as [Hn Hf]. cbn [sids] in Hn, Hf.  cbn [tdepth] in Hd.
    pose proof (kids_okF_of fuel n l Hd Hn Hf) as Hk.
    pose proof (nest_soundF fuel IH t n l k0 (flat_map sids l) Hk (incl_refl _) (kstate_k0 _) eq_refl eq_refl) as H.
    cbn [rawF exp]. destruct (nest_raw (rawF fuel) t l k0) as [[e|] k2].
    + destruct H as [Hexp Hra]. rewrite Hexp. cbn [fst snd]. split; [reflexivity|].
      intros e0 He0. injection He0 as <-. split; [reflexivity|]. split; [reflexivity|]. split; [apply head_err_assemble|].
      eapply raised_incl; [exact Hra|]. cbn [sids]. apply incl_tl. apply incl_refl.
    + destruct H as (Hexp & Hks & Hft & Hlf). rewrite Hexp. cbn [fst snd]. split; [reflexivity|discriminate].
  - (* Chain *)
    destruct Hw as [Hn Hf]. cbn [sids] in Hn, Hf. cbn [tdepth] in Hd.
    pose proof (kids_okF_of fuel n l Hd Hn Hf) as Hk.
    destruct l as [|s0 rest].
    + cbn [rawF exp chain_exp fst snd]. split; [reflexivity|discriminate].
    + pose proof (chain_soundF fuel IH (s0 :: rest) t [] (flat_map sids (s0 :: rest)) Hk (incl_refl _)) as H.
      cbn [rawF].
      change (exp (S fuel) (Chain n (s0 :: rest)) t) with
        (match chain_exp (exp fuel) t [] (s0 :: rest) with
         | (Ret v, _, _) => (Ret v, [], 0)
         | (Exc e, trs, es) => (Exc e, above n t e trs (match trs with TR _ _ None _ :: _ => e | _ => es end), e) end).
      destruct (chain_raw (rawF fuel) t (s0 :: rest)) as [[v|e] body].
      * rename H into H1. destruct (chain_exp (exp fuel) t [] (s0 :: rest)) as [[o trs] es]. cbn [fst] in H1. subst o.
        cbn [fst snd err_of k_after]. split; [reflexivity|discriminate].
      * destruct H as (trs & Hce & Hfin & Hhd & Hra). rewrite Hce. cbn [map app fst snd err_of k_after].
        assert (Hm : match trs with TR _ _ None _ :: _ => e | _ => e end = e) by (destruct trs as [|[? ? [?|] ?] ?]; reflexivity).
        rewrite Hm. rewrite above_sameF.
        split; [reflexivity|]. intros e0 He0. injection He0 as <-.
        unfold assemble, k_fail, k0. cbn [k_has k_ft k_lf k_lr negb andb app].
        split; [rewrite (finish_same (TR n t (Some e) []) body e eq_refl Hhd); cbn [tr_clear]; rewrite Hfin; reflexivity|].
        split; [reflexivity|]. split; [reflexivity|]. eapply raised_incl; [exact Hra|]. cbn [sids]. apply incl_tl. apply incl_refl.
  - (* Alt *)
    destruct Hw as [Hn Hf]. cbn [sids] in Hn, Hf.  cbn [tdepth] in Hd.
    pose proof (kids_okF_of fuel n l Hd Hn Hf) as Hk.
    destruct (wf_kids n l Hn Hf) as (Hn1 & Hni & _ & Hsm).
    pose proof (alt_soundF fuel IH t l k0 (flat_map sids l) Hk (incl_refl _) (kstate_k0 _)) as H.
    cbn [k0 k_ft k_lf] in H.
    cbn [rawF exp].
    (* the literal is folded away: tactics that abstract over the goal re-normalise [5000 + n] at every occurrence *)
    assert (Hraised : raised (5000 + n) (sids (Alt n l))) by (exists n; split; [left; reflexivity|right; left; reflexivity]).
    assert (Hdiff : forall e', raised e' (flat_map sids l) -> 5000 + n <> e')
      by (intros e' Hra; apply (raised_own_differs n (flat_map sids l) e' Hn1 Hni Hsm Hra)).
    remember (5000 + n) as E eqn:HE in *. clear HE.
    destruct (alt_raw (rawF fuel) t l k0) as [[v|] k2].
    + destruct H as (Hexp & Hks & Hlf).
      destruct (alt_exp (exp fuel) t l [] false) as [[o fl] lfl]. cbn [fst] in Hexp. subst o. cbn [fst snd].
      split; [reflexivity|discriminate].
    + destruct H as (Hexp & Hks). rewrite Hexp. destruct Hks as (K1 & K3).
      unfold assemble. destruct (k_has k2) eqn:Hhas; cbn [negb].
      * destruct (k_lf k2) eqn:Hlf.
        -- destruct (K3 eq_refl) as (_ & ft' & e' & Hft & Hhd & Hra). rewrite Hft.
           destruct ft' as [|a r].
           ++ cbn [app andb fst snd]. split; [reflexivity|].
              intros e0 He0. injection He0 as <-.
              split; [|split; [reflexivity|split; [reflexivity|exact Hraised]]].
              apply (finish_diff (TR n t (Some (E)) []) (k_lr k2) (E) e' eq_refl Hhd).
              apply Hdiff. exact Hra.
           ++ assert (E2 : match (a :: r) ++ [finish (k_lr k2)] with [x] => [] | l0 => l0 end = (a :: r) ++ [finish (k_lr k2)])
                by (destruct r; reflexivity).
              rewrite E2.
              assert (E3 : (match (a :: r) ++ [finish (k_lr k2)] with [] => true | _ => false end) = false) by reflexivity.
              rewrite E3. cbn [andb].
              assert (E4 : (match (a :: r) ++ [finish (k_lr k2)] with
                            | [one] => (Exc (E), TR n t (Some (E)) [] :: one, E)
                            | failed => (Exc (E), [TR n t (Some (E)) failed], E) end)
                           = (Exc (E), [TR n t (Some (E)) ((a :: r) ++ [finish (k_lr k2)])], E))
                by (destruct r; reflexivity).
              cbn [fst snd]. split; [destruct r; reflexivity|].
              intros e0 He0. injection He0 as <-.
              split; [destruct r; reflexivity|]. split; [destruct r; reflexivity|]. split; [reflexivity|exact Hraised].
        -- cbn [andb].
           assert (E2 : match k_ft k2 with [x] => [x] | l0 => l0 end = k_ft k2) by (destruct (k_ft k2) as [|x [|y r]]; reflexivity).
           rewrite E2.
           split; [destruct (k_ft k2) as [|x [|y r]]; reflexivity|].
           intros e0 He0. injection He0 as <-.
           split; [|split; [destruct (k_ft k2) as [|x [|y r]]; reflexivity|split; [reflexivity|exact Hraised]]].
           cbn [snd]. rewrite finish_one.
           destruct (k_ft k2) as [|x [|y r]]; reflexivity.
      * destruct (K1 eq_refl) as [Hft Hlf]. rewrite Hft. try rewrite Hlf. cbn [fst snd].
        split; [reflexivity|].
        intros e0 He0. injection He0 as <-. split; [reflexivity|]. split; [reflexivity|]. split; [reflexivity|exact Hraised].
  - (* OrS *)
    destruct Hw as [Hn Hf]. cbn [sids] in Hn, Hf.  cbn [tdepth] in Hd.
    pose proof (kids_okF_of fuel n l Hd Hn Hf) as Hk.
    destruct l as [|b l].
    + cbn [rawF exp or_raw fst snd]. split; [reflexivity|discriminate].
    + pose proof (or_soundF fuel IH t (b :: l) k0 (flat_map sids (b :: l)) (0, 0) ltac:(discriminate) Hk (incl_refl _) (kstate_k0 _)) as H.
      cbn [k0 k_ft] in H.
      cbn [rawF]. change (exp (S fuel) (OrS n (b :: l)) t) with
        (match or_exp (exp fuel) t (b :: l) [] (0, 0) with
         | (Some v, _, _) => (Ret v, [], 0)
         | (None, [one], (e, eb)) => (Exc e, above n t e one eb, e)
         | (None, failed, (e, _)) => (Exc e, [TR n t (Some e) failed], e) end).
      destruct (or_raw (rawF fuel) t (b :: l) k0) as [[v|e] k2].
      * destruct H as (Hexp & Hks & Hlf).
        destruct (or_exp (exp fuel) t (b :: l) [] (0, 0)) as [[o fl] lst]. cbn [fst] in Hexp. subst o. cbn [fst snd].
        split; [reflexivity|discriminate].
      * destruct H as (Hexp & Hks & Hlf & Hhd & Hra). rewrite Hexp.
        destruct Hks as (K1 & K3). destruct (K3 Hlf) as (Hhas & ft' & e' & Hft & _ & _).
        assert (Hraised : raised e (sids (OrS n (b :: l)))).
        { eapply raised_incl; [exact Hra|]. cbn [sids]. apply incl_tl. apply incl_refl. }
        unfold assemble. rewrite Hhas, Hlf, Hft. cbn [negb].
        destruct ft' as [|a r].
        -- cbn [app andb fst snd]. rewrite above_sameF. split; [reflexivity|].
           intros e0 He0. injection He0 as <-.
           split; [|split; [reflexivity|split; [reflexivity|exact Hraised]]].
           rewrite (finish_same (TR n t (Some e) []) (k_lr k2) e eq_refl Hhd). reflexivity.
        -- assert (E2 : match (a :: r) ++ [finish (k_lr k2)] with [x] => [] | l0 => l0 end = (a :: r) ++ [finish (k_lr k2)])
             by (destruct r; reflexivity).
           rewrite E2.
           assert (E3 : (match (a :: r) ++ [finish (k_lr k2)] with [] => true | _ => false end) = false) by reflexivity.
           rewrite E3. cbn [andb fst snd].
           split; [destruct r; reflexivity|].
           intros e0 He0. injection He0 as <-.
           split; [destruct r; reflexivity|]. split; [destruct r; reflexivity|]. split; [reflexivity|exact Hraised].
  - (* Switch *)
    destruct Hw as [Hn Hf]. cbn [sids] in Hn, Hf. cbn [tdepth] in Hd.
    fold pair_sids in Hn, Hf.
    destruct (wf_pairs n cs Hn Hf) as (Hn1 & Hni & Hwp & Hsm).
    assert (Hk : pairs_okF fuel cs).
    { intros key v Hin. pose proof (depth_in_pairs cs key v Hin). destruct (Hwp key v Hin) as [A B]. split; (split; [lia|assumption]). }
    pose proof (switch_soundF fuel IH (5000 + n) t cs k0 (flat_map pair_sids cs) Hk (incl_refl _) (kstate_k0 _) ltac:(discriminate)) as H.
    cbn [k0 k_ft] in H.
    assert (Hraised : raised (5000 + n) (sids (Switch n cs))) by (exists n; split; [left; reflexivity|right; left; reflexivity]).
    assert (Hdiff : forall e', raised e' (flat_map pair_sids cs) -> 5000 + n <> e')
      by (intros e' Hra; apply (raised_own_differs n (flat_map pair_sids cs) e' Hn1 Hni Hsm Hra)).
    cbn [rawF exp].
    remember (5000 + n) as E eqn:HE in *. clear HE.      (* the literal is folded away, see the Alt case *)
    destruct (switch_raw (rawF fuel) E t cs k0) as [[x|e] k2].
    + destruct H as (Hexp & Hks & Hlf).
      destruct (switch_exp (exp fuel) t cs []) as [[o fl] m]. cbn [fst] in Hexp. subst o. cbn [fst snd err_of].
      split; [reflexivity|discriminate].
    + destruct H as [(-> & Hexp & Hks & Hhl)|(Hexp & Hks & Hlf & Hhas & Hhd & Hra)]; rewrite Hexp; cbn [err_of];
        destruct Hks as (K1 & K3); unfold assemble.
      * (* every key failed *)
        destruct (k_has k2) eqn:Hhas; cbn [negb].
        -- rewrite (Hhl eq_refl) in *. destruct (K3 eq_refl) as (_ & ft' & e' & Hft & Hhd & Hra). rewrite Hft.
           destruct ft' as [|a r].
           ++ cbn [app andb fst snd]. split; [reflexivity|].
              intros e0 He0. injection He0 as <-.
              split; [|split; [reflexivity|split; [reflexivity|exact Hraised]]].
              apply (finish_diff (TR n t (Some E) []) (k_lr k2) E e' eq_refl Hhd).
              apply Hdiff. exact Hra.
           ++ assert (E2 : match (a :: r) ++ [finish (k_lr k2)] with [x] => [] | l0 => l0 end = (a :: r) ++ [finish (k_lr k2)])
                by (destruct r; reflexivity).
              rewrite E2.
              assert (E3 : (match (a :: r) ++ [finish (k_lr k2)] with [] => true | _ => false end) = false) by reflexivity.
              rewrite E3. cbn [andb fst snd].
              split; [destruct r; reflexivity|].
              intros e0 He0. injection He0 as <-.
              split; [destruct r; reflexivity|]. split; [destruct r; reflexivity|]. split; [reflexivity|exact Hraised].
        -- destruct (K1 eq_refl) as [Hft Hlf]. rewrite Hft. cbn [fst snd].
           split; [reflexivity|].
           intros e0 He0. injection He0 as <-. split; [reflexivity|]. split; [reflexivity|]. split; [reflexivity|exact Hraised].
      * (* a key passed and its value spec failed *)
        rewrite Hhas, Hlf. cbn [negb]. destruct (K3 Hlf) as (_ & ft' & e' & Hft & _ & _). rewrite Hft.
        assert (Hraised' : raised e (sids (Switch n cs))).
        { eapply raised_incl; [exact Hra|]. cbn [sids]. apply incl_tl. apply incl_refl. }
        destruct ft' as [|a r].
        -- cbn [app andb fst snd]. split; [reflexivity|].
           intros e0 He0. injection He0 as <-.
           split; [|split; [reflexivity|split; [reflexivity|exact Hraised']]].
           rewrite (finish_same (TR n t (Some e) []) (k_lr k2) e eq_refl Hhd). reflexivity.
        -- assert (E2 : match (a :: r) ++ [finish (k_lr k2)] with [x] => [] | l0 => l0 end = (a :: r) ++ [finish (k_lr k2)])
             by (destruct r; reflexivity).
           rewrite E2.
           assert (E3 : (match (a :: r) ++ [finish (k_lr k2)] with [] => true | _ => false end) = false) by reflexivity.
           rewrite E3. cbn [andb fst snd].
           split; [destruct r; reflexivity|].
           intros e0 He0. injection He0 as <-.
           split; [destruct r; reflexivity|]. split; [destruct r; reflexivity|]. split; [reflexivity|exact Hraised'].
  - (* Guard *)
    destruct Hw as [Hn Hf]. cbn [sids] in Hn, Hf.  cbn [tdepth] in Hd.
    inversion Hn as [|? ? Hni Hnd]; subst. inversion Hf as [|? ? Hlt Hfl]; subst.
    assert (Hdk : tdepth kid < fuel) by lia.
    destruct (IH kid t Hdk (conj Hnd Hfl)) as (Ho & Hex).
    cbn [rawF exp]. destruct (rawF fuel kid t) as [o rk]. destruct (exp fuel kid t) as [[o' tk] ek]. cbn [fst snd] in *. subst o'.
    destruct o as [v|e].
    + destruct ok; cbn [fst snd].
      * split; [reflexivity|discriminate].
      * split; [reflexivity|]. intros e0 He0. injection He0 as <-.
        unfold assemble, k_ok, k0. cbn [k_has k_ft k_lf k_lr negb andb].
        split; [apply finish_one|].
        split; [reflexivity|]. split; [reflexivity|]. exists n. split; [left; reflexivity|right; right; reflexivity].
    + destruct (Hex e eq_refl) as (Hfin & -> & Hhd & Hra). cbn [fst snd]. rewrite above_sameF.
      split; [reflexivity|]. intros e0 He0. injection He0 as <-.
      unfold assemble, k_fail, k0. cbn [k_has k_ft k_lf k_lr negb andb app].
      split; [rewrite (finish_same (TR n t (Some e) []) rk e eq_refl Hhd); cbn [tr_clear]; rewrite Hfin; reflexivity|].
      split; [reflexivity|]. split; [reflexivity|]. eapply raised_incl; [exact Hra|]. cbn [sids]. apply incl_tl. apply incl_refl.
  - (* AltD: never fails *)
    destruct Hw as [Hn Hf]. cbn [sids] in Hn, Hf.  cbn [tdepth] in Hd.
    pose proof (kids_okF_of fuel n l Hd Hn Hf) as Hk.
    pose proof (alt_soundF fuel IH t l k0 (flat_map sids l) Hk (incl_refl _) (kstate_k0 _)) as H.
    cbn [k0 k_ft k_lf] in H.
    cbn [rawF exp]. destruct (alt_raw (rawF fuel) t l k0) as [[v|] k2].
    + destruct H as (Hexp & Hks & Hlf).
      destruct (alt_exp (exp fuel) t l [] false) as [[o fl] lfl]. cbn [fst] in Hexp. subst o. cbn [fst snd].
      split; [reflexivity|discriminate].
    + destruct H as (Hexp & Hks). rewrite Hexp. cbn [fst snd]. split; [reflexivity|discriminate].
  - (* NotS *)
    destruct Hw as [Hn Hf]. cbn [sids] in Hn, Hf.  cbn [tdepth] in Hd.
    inversion Hn as [|? ? Hni Hnd]; subst. inversion Hf as [|? ? Hlt Hfl]; subst.
    assert (Hdk : tdepth kid < fuel) by lia.
    destruct (IH kid t Hdk (conj Hnd Hfl)) as (Ho & Hex).
    cbn [rawF exp]. destruct (rawF fuel kid t) as [o rk]. destruct (exp fuel kid t) as [[o' tk] ek]. cbn [fst snd] in *. subst o'.
    destruct o as [v|e]; cbn [fst snd].
    + split; [reflexivity|]. intros e0 He0. injection He0 as <-.
      unfold assemble, k_ok, k0. cbn [k_has k_ft k_lf k_lr negb andb].
      split; [apply finish_one|].
      split; [reflexivity|]. split; [reflexivity|]. exists n. split; [left; reflexivity|right; right; reflexivity].
    + split; [reflexivity|discriminate].
  - (* AndS *)
    destruct Hw as [Hn Hf]. cbn [sids] in Hn, Hf.  cbn [tdepth] in Hd.
    pose proof (kids_okF_of fuel n l Hd Hn Hf) as Hk.
    pose proof (and_soundF fuel IH t n l k0 (flat_map sids l) t Hk (incl_refl _) (kstate_k0 _) eq_refl eq_refl) as H.
    cbn [rawF exp]. destruct (and_raw (rawF fuel) t l k0 t) as [[v|e] k2]; cbn [err_of].
    + destruct H as (Hexp & Hks & Hft & Hlf). rewrite Hexp. cbn [fst snd]. split; [reflexivity|discriminate].
    + destruct H as [Hexp Hra]. rewrite Hexp. cbn [fst snd]. split; [reflexivity|].
      intros e0 He0. injection He0 as <-. split; [reflexivity|]. split; [reflexivity|]. split; [apply head_err_assemble|].
      eapply raised_incl; [exact Hra|]. cbn [sids]. apply incl_tl. apply incl_refl.
Qed.

Lemma WF_root : WF root_store.
Proof. split; [|reflexivity]. intros [|[|i]] Hi; cbn; lia. Qed.

(* the unbounded theorem for every shape of the model *)
Theorem full_reading_lemma s :
  wf s -> fst (run s) = fst (expected s) /\ (forall e, fst (run s) = Exc e -> snd (run s) = snd (expected s)).
Proof.
  intros Hw. unfold run, expected.
  destruct (glom_ (S (tdepth s)) root_store 0 root_target s) as [st r] eqn:E.
  destruct (all_goodF (S (tdepth s)) root_store 0 root_target s st r (Nat.lt_succ_diag_r _) (Nat.lt_0_succ _) WF_root eq_refl E)
    as ((Hlen & _ & Hsb & _ & Hrd & _) & Hr & _).
  cbn [List.length root_store] in Hlen, Hsb, Hrd.
  destruct (all_sound2F (S (tdepth s)) s root_target (Nat.lt_succ_diag_r _) Hw) as (Ho & Hex).
  destruct (exp (S (tdepth s)) s root_target) as [[o' T] es]. cbn [fst snd] in *.
  split; [rewrite Hr; exact Ho|].
  intros e He. subst r.
  assert (Hlast : f_last (get st 0) = Some 1).
  { rewrite (Hsb 0 (Nat.lt_0_succ _)). rewrite (eff_nonopy root_store 0 1 _ (Nat.lt_0_succ _) eq_refl).
    destruct (fst (rawF (S (tdepth s)) s root_target)); reflexivity. }
  rewrite Hlast.
  destruct (List.length st) as [|k] eqn:El; [lia|].
  rewrite render_unfold. rewrite El.
  fold (RD (S k) k st 1).
  rewrite (Hrd st (S k) k (agree_refl _ _ _)) by lia.
  apply (Hex e He).
Qed.

(* non-vacuity: chains inside branches inside chains, a Switch, a guard, a Coalesce that recovers through its default *)
Definition full_example : tspec :=
  Chain 1 [Leaf 2 true;
           Alt 3 [Chain 4 [AltD 21 [Leaf 22 false; SkipLeaf 23]; NotS 24 (Leaf 25 false); AndS 26 [Leaf 27 true; Leaf 28 true]; OrS 6 [Leaf 7 false; Chain 8 [Leaf 9 true; Leaf 10 false]]];
                  Switch 11 [(Leaf 12 false, Leaf 13 true); (Guard 14 true (Leaf 15 true), Chain 16 [Leaf 17 true; Leaf 18 false])];
                  SkipLeaf 19];
           Leaf 20 true].
Lemma full_example_wf : wf full_example.
Proof.
  split.
  - repeat (constructor; [cbn; intuition discriminate|]). constructor.
  - repeat (constructor; [apply Nat.ltb_lt; reflexivity|]). constructor.
Qed.
