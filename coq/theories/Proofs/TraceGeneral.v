(* Proofs/TraceGeneral.v — C05, unbounded: for every spec built from leaves, dict specs, Coalesce, Or and Check-style guards
   (no tuple chains / Switch), of ANY depth and width, the trace the breadcrumb machine renders is the structural reading.
   Stage 1 (this part): the raw descent the machine finds at a frame is [raw], a function of the spec alone. *)
From Coq Require Import Bool Lia List Arith.
From Glom Require Import Model.Trace Spec.TraceSpec Proofs.TraceProofs.
Import ListNotations.
Local Open Scope list_scope.

(* ---------- the presentation steps of _unpack_stack on rendered entries ---------- *)
Definition toTR (g : nat -> list tr) (en : entry) : tr := TR (e_spec en) (e_target en) (e_err en) (map g (e_branches en)).
Definition tr_err (x : tr) : option nat := match x with TR _ _ e _ => e end.
Definition tr_clear (x : tr) : tr := match x with TR s t _ b => TR s t None b end.
Fixpoint push_down_tr (l : list tr) : list tr :=
  match l with
  | a :: ((b :: _) as r) => (if oeq (tr_err a) (tr_err b) then tr_clear a else a) :: push_down_tr r
  | _ => l end.
Fixpoint trim_rev_tr (l : list tr) : list tr :=
  match l with
  | a :: ((_ :: _) as r) => match tr_err a with None => trim_rev_tr r | Some _ => l end
  | _ => l end.
Definition finish (l : list tr) : list tr := rev (trim_rev_tr (rev (push_down_tr l))).

Lemma push_down_map g : forall l, map (toTR g) (push_down l) = push_down_tr (map (toTR g) l).
Proof.
  induction l as [|a r IH]; [reflexivity|].
  destruct r as [|b r']; [reflexivity|].
  change (push_down (a :: b :: r')) with
    ((if oeq (e_err a) (e_err b) then mkE (e_frame a) (e_spec a) (e_target a) None (e_branches a) else a) :: push_down (b :: r')).
  change (map (toTR g) (a :: b :: r')) with (toTR g a :: toTR g b :: map (toTR g) r').
  change (push_down_tr (toTR g a :: toTR g b :: map (toTR g) r')) with
    ((if oeq (tr_err (toTR g a)) (tr_err (toTR g b)) then tr_clear (toTR g a) else toTR g a) :: push_down_tr (toTR g b :: map (toTR g) r')).
  rewrite map_cons. rewrite IH. cbn [tr_err toTR map].
  destruct (oeq (e_err a) (e_err b)); reflexivity.
Qed.

Lemma trim_rev_map g : forall l, map (toTR g) (trim_rev l) = trim_rev_tr (map (toTR g) l).
Proof.
  induction l as [|a r IH]; [reflexivity|].
  destruct r as [|b r']; [reflexivity|].
  change (trim_rev (a :: b :: r')) with (match e_err a with None => trim_rev (b :: r') | Some _ => a :: b :: r' end).
  change (map (toTR g) (a :: b :: r')) with (toTR g a :: toTR g b :: map (toTR g) r').
  change (trim_rev_tr (toTR g a :: toTR g b :: map (toTR g) r')) with
    (match tr_err (toTR g a) with None => trim_rev_tr (toTR g b :: map (toTR g) r') | Some _ => toTR g a :: toTR g b :: map (toTR g) r' end).
  cbn [tr_err toTR]. destruct (e_err a); [reflexivity|]. exact IH.
Qed.

Lemma render_unfold k st f :
  render (S k) st f = finish (map (toTR (render k st)) (descend (List.length st) st f)).
Proof.
  cbn [render]. unfold unpack, finish.
  change (fun en : entry => TR (e_spec en) (e_target en) (e_err en) (map (render k st) (e_branches en))) with (toTR (render k st)).
  rewrite map_rev, trim_rev_map, map_rev, push_down_map. reflexivity.
Qed.

Definition RD (kd kr : nat) (st : store) (f : nat) : list tr := map (toTR (render kr st)) (descend kd st f).

(* ---------- stores ---------- *)
Definition nonopy (st : store) : Prop := forall i, f_nopy (get st i) = false.
Definition agree (lo hi : nat) (a b : store) : Prop := forall i, lo <= i < hi -> get b i = get a i.
Definition closed (st : store) (lo hi : nat) : Prop :=
  forall i, lo <= i < hi ->
    (forall c, f_last (get st i) = Some c -> i < c < hi) /\ (forall c, In c (f_cerrs (get st i)) -> i < c < hi).

Lemma agree_sub lo hi lo' hi' a b : agree lo hi a b -> lo <= lo' -> hi' <= hi -> agree lo' hi' a b.
Proof. intros H H1 H2 i Hi. apply H. lia. Qed.
Lemma agree_trans lo hi a b c : agree lo hi a b -> agree lo hi b c -> agree lo hi a c.
Proof. intros H1 H2 i Hi. rewrite H2 by exact Hi. apply H1. exact Hi. Qed.
Lemma agree_refl lo hi a : agree lo hi a a.
Proof. intros i _. reflexivity. Qed.

Lemma get_upd_ne st i j g : i <> j -> get (upd st i g) j = get st j.
Proof. intros H. rewrite get_upd. replace (Nat.eqb i j) with false by (symmetry; apply Nat.eqb_neq; exact H). reflexivity. Qed.
Lemma get_upd_eq st i g : i < List.length st -> get (upd st i g) i = g (get st i).
Proof.
  intros H. rewrite get_upd. rewrite Nat.eqb_refl.
  replace (i <? List.length st) with true by (symmetry; apply Nat.ltb_lt; exact H). reflexivity.
Qed.
Lemma get_app_old st l i : i < List.length st -> get (st ++ l) i = get st i.
Proof. intros H. unfold get. apply app_nth1. exact H. Qed.
Lemma get_app_new st x : get (st ++ [x]) (List.length st) = x.
Proof. unfold get. rewrite app_nth2 by lia. rewrite Nat.sub_diag. reflexivity. Qed.
Lemma get_beyond st i : List.length st <= i -> get st i = dummy.
Proof. intros H. unfold get. apply nth_overflow. exact H. Qed.

Lemma nonopy_upd st i g : (forall fr, f_nopy (g fr) = f_nopy fr) -> nonopy st -> nonopy (upd st i g).
Proof.
  intros Hg H j. rewrite get_upd. destruct (Nat.eqb i j); [|apply H].
  destruct (j <? List.length st); [rewrite Hg|]; apply H.
Qed.
Lemma nonopy_app st x : f_nopy x = false -> nonopy st -> nonopy (st ++ [x]).
Proof.
  intros Hx H j. destruct (Nat.lt_ge_cases j (List.length st)) as [L|L].
  - rewrite get_app_old by exact L. apply H.
  - destruct (Nat.eq_dec j (List.length st)) as [->|N]; [rewrite get_app_new; exact Hx|].
    rewrite get_beyond; [reflexivity|]. rewrite app_length. cbn. lia.
Qed.

(* ---------- the structural raw descent ---------- *)
Record kids := mkK { k_ft : list (list tr); k_lf : bool; k_has : bool; k_lr : list tr }.
Definition k0 : kids := mkK [] false false [].
Definition k_ok (k : kids) (rb : list tr) : kids := mkK (k_ft k) false true rb.
Definition k_fail (k : kids) (rb : list tr) : kids := mkK (k_ft k ++ [finish rb]) true true rb.
Definition k_after (k : kids) (r : out) (rb : list tr) : kids := match r with Ret _ => k_ok k rb | Exc _ => k_fail k rb end.

(* the entries at a frame: the failed branches (finished) [ft], whether the child tried last is the last of them [lf], the raw
   descent of that child [lr] *)
Definition assemble (sid t : nat) (err : option nat) (k : kids) : list tr :=
  if negb (k_has k) then [TR sid t err []] else
  let branches := match k_ft k with [x] => if k_lf k then [] else [x] | l => l end in
  if k_lf k && (match branches with [] => false | _ => true end)
  then [TR sid t err branches] else TR sid t err branches :: k_lr k.

Section Raw.
  Variable rec : tspec -> nat -> out * list tr.
  Fixpoint nest_raw (t : nat) (l : list tspec) (k : kids) : option nat * kids :=
    match l with
    | [] => (None, k)
    | x :: r => match rec x t with
                | (Ret v, rx) => nest_raw t r (k_ok k rx)
                | (Exc e, rx) => (Some e, k_fail k rx) end end.
  Fixpoint alt_raw (t : nat) (l : list tspec) (k : kids) : option nat * kids :=
    match l with
    | [] => (None, k)
    | b :: r => match rec b t with
                | (Ret v, rb) => if Nat.eqb v 0 then alt_raw t r (k_ok k rb) else (Some v, k_ok k rb)
                | (Exc _, rb) => alt_raw t r (k_fail k rb) end end.
  Fixpoint or_raw (t : nat) (l : list tspec) (k : kids) : out * kids :=
    match l with
    | [] => (Ret t, k)
    | [b] => match rec b t with (Ret v, rb) => (Ret v, k_ok k rb) | (Exc e, rb) => (Exc e, k_fail k rb) end
    | b :: r => match rec b t with (Ret v, rb) => (Ret v, k_ok k rb) | (Exc _, rb) => or_raw t r (k_fail k rb) end end.
End Raw.

Fixpoint raw (fuel : nat) (s : tspec) (t : nat) : out * list tr :=
  match fuel with O => (Exc 0, []) | S fuel =>
  match s with
  | Leaf n ok => if ok then (Ret (2000 + n), [TR n t None []]) else (Exc n, [TR n t (Some n) []])
  | SkipLeaf n => (Ret 0, [TR n t None []])
  | Nest n l => match nest_raw (raw fuel) t l k0 with
                | (None, k) => (Ret (1000 + n), assemble n t None k)
                | (Some e, k) => (Exc e, assemble n t (Some e) k) end
  | Alt n l => match alt_raw (raw fuel) t l k0 with
               | (Some v, k) => (Ret v, assemble n t None k)
               | (None, k) => (Exc (5000 + n), assemble n t (Some (5000 + n)) k) end
  | OrS n l => match or_raw (raw fuel) t l k0 with
               | (Ret v, k) => (Ret v, assemble n t None k)
               | (Exc e, k) => (Exc e, assemble n t (Some e) k) end
  | Guard n ok kid => match raw fuel kid t with
                      | (Ret _, rk) => if ok then (Ret t, assemble n t None (k_ok k0 rk))
                                       else (Exc (6000 + n), assemble n t (Some (6000 + n)) (k_ok k0 rk))
                      | (Exc e, rk) => (Exc e, assemble n t (Some e) (k_fail k0 rk)) end
  | Chain _ _ | Switch _ _ => (Exc 0, [])
  end end.

Fixpoint chainfree (s : tspec) : bool :=
  match s with
  | Leaf _ _ | SkipLeaf _ => true
  | Nest _ l | Alt _ l | OrS _ l => forallb chainfree l
  | Chain _ _ | Switch _ _ => false
  | Guard _ _ k => chainfree k end.

(* ---------- what the machine has recorded at a frame f whose children so far are described by k ---------- *)
Record inv (base : store) (sid t p f : nat) (st : store) (k : kids) (lc : option nat) (fc : list nat) : Prop := mkInv {
  i_len : f < List.length st;
  i_nonopy : nonopy st;
  i_old : forall i, i < f -> get st i = get base i;
  i_f : get st f = mkF sid t p lc fc None false;
  i_closed : closed st (S f) (List.length st);
  i_fc : forall c, In c fc -> f < c < List.length st;
  i_lc : forall c, lc = Some c -> f < c < List.length st;
  i_has : k_has k = match lc with Some _ => true | None => false end;
  i_none : lc = None -> fc = [] /\ k_ft k = [];
  i_lf : forall c, lc = Some c ->
         if k_lf k then exists fc', fc = fc' ++ [c] /\ (forall x, In x fc' -> x < c) else (forall x, In x fc -> x < c);
  i_ft : Forall2 (fun c tr => forall st'' k', agree (S f) (List.length st) st st'' -> List.length st <= List.length st'' ->
                              List.length st - f <= k' -> render k' st'' c = tr) fc (k_ft k);
  i_lr : forall c, lc = Some c -> forall st'' kd kr, agree (S f) (List.length st) st st'' -> List.length st <= List.length st'' ->
         List.length st - S f <= kd -> List.length st - S f <= kr -> RD kd kr st'' c = k_lr k }.

(* what one evaluation guarantees (the induction hypothesis, by fuel) *)
Definition good (fuel : nat) : Prop := forall st p t s st' r,
  chainfree s = true -> tdepth s < fuel -> p < List.length st -> nonopy st ->
  glom_ fuel st p t s = (st', r) ->
  let f := List.length st in
  f < List.length st' /\ nonopy st' /\
  (forall i, i < f -> i <> p -> get st' i = get st i) /\
  get st' p = (match r with Ret _ => set_last f (get st p) | Exc _ => add_cerr f (set_last f (get st p)) end) /\
  closed st' f (List.length st') /\
  r = fst (raw fuel s t) /\
  (forall st'' kd kr, agree f (List.length st') st' st'' -> List.length st' <= List.length st'' ->
                      List.length st' - f <= kd -> List.length st' - f <= kr -> RD kd kr st'' f = snd (raw fuel s t)).

Lemma Forall2_weaken {A B} (R R' : A -> B -> Prop) l1 l2 : (forall a b, R a b -> R' a b) -> Forall2 R l1 l2 -> Forall2 R' l1 l2.
Proof. intros H F. induction F; constructor; auto. Qed.
Lemma Forall2_app_one {A B} (R : A -> B -> Prop) l1 l2 a b : Forall2 R l1 l2 -> R a b -> Forall2 R (l1 ++ [a]) (l2 ++ [b]).
Proof. intros H1 H2. apply Forall2_app; [exact H1|]. constructor; [exact H2|constructor]. Qed.

(* one more child evaluated under f *)
Lemma inv_step fuel (IH : good fuel) base sid t p f st k lc fc b st_b r_b :
  inv base sid t p f st k lc fc -> chainfree b = true -> tdepth b < fuel ->
  glom_ fuel st f t b = (st_b, r_b) ->
  r_b = fst (raw fuel b t) /\
  inv base sid t p f st_b (k_after k r_b (snd (raw fuel b t))) (Some (List.length st))
      (match r_b with Ret _ => fc | Exc _ => fc ++ [List.length st] end).
Proof.
  intros I Hcf Hd E.
  destruct (IH st f t b st_b r_b Hcf Hd (i_len _ _ _ _ _ _ _ _ _ I) (i_nonopy _ _ _ _ _ _ _ _ _ I) E)
    as (Hlen & Hnp & Hold & Hpar & Hcl & Hr & Hrd).
  set (c := List.length st) in *.
  assert (Hfc : f < c) by exact (i_len _ _ _ _ _ _ _ _ _ I).
  split; [exact Hr|].
  assert (Hagree : forall st'', agree (S f) (List.length st_b) st_b st'' -> agree (S f) c st st'').
  { intros st'' Ha i Hi. rewrite Ha by lia. apply Hold; lia. }
  assert (Hf : get st_b f = mkF sid t p (Some c) (match r_b with Ret _ => fc | Exc _ => fc ++ [c] end) None false).
  { rewrite Hpar, (i_f _ _ _ _ _ _ _ _ _ I). destruct r_b; reflexivity. }
  constructor.
  - lia.
  - exact Hnp.
  - intros i Hi. rewrite Hold by lia. apply (i_old _ _ _ _ _ _ _ _ _ I). exact Hi.
  - exact Hf.
  - intros i Hi. destruct (Nat.lt_ge_cases i c) as [L|L].
    + rewrite Hold by lia. destruct (i_closed _ _ _ _ _ _ _ _ _ I i) as [A B]; [lia|]. split; intros x Hx.
      * specialize (A x Hx). lia.
      * specialize (B x Hx). lia.
    + apply Hcl. lia.
  - intros x Hx. destruct r_b.
    + specialize (i_fc _ _ _ _ _ _ _ _ _ I x Hx). lia.
    + apply in_app_or in Hx. destruct Hx as [Hx|[<-|[]]]; [specialize (i_fc _ _ _ _ _ _ _ _ _ I x Hx)|]; lia.
  - intros x Hx. injection Hx as <-. lia.
  - destruct r_b; reflexivity.
  - discriminate.
  - intros x Hx. injection Hx as <-. destruct r_b; cbn [k_after k_ok k_fail k_lf].
    + intros y Hy. specialize (i_fc _ _ _ _ _ _ _ _ _ I y Hy). lia.
    + exists fc. split; [reflexivity|]. intros y Hy. specialize (i_fc _ _ _ _ _ _ _ _ _ I y Hy). lia.
  - assert (Hold2 : Forall2 (fun x tr => forall st'' k', agree (S f) (List.length st_b) st_b st'' ->
                        List.length st_b <= List.length st'' -> List.length st_b - f <= k' -> render k' st'' x = tr) fc (k_ft k)).
    { eapply Forall2_weaken; [|exact (i_ft _ _ _ _ _ _ _ _ _ I)]. cbv beta.
      intros x tr H st'' k' Ha Hl Hk. apply H; [apply Hagree; exact Ha|lia|lia]. }
    destruct r_b; cbn [k_after k_ok k_fail k_ft]; [exact Hold2|].
    apply Forall2_app_one; [exact Hold2|].
    intros st'' k' Ha Hl Hk. destruct k' as [|k'']; [lia|].
    rewrite render_unfold. f_equal. apply Hrd; [eapply agree_sub; [exact Ha|lia|lia]|lia|lia|lia].
  - intros x Hx st'' kd kr Ha Hl Hkd Hkr. injection Hx as <-.
    replace (k_lr (k_after k r_b (snd (raw fuel b t)))) with (snd (raw fuel b t)) by (destruct r_b; reflexivity).
    apply Hrd; [eapply agree_sub; [exact Ha|lia|lia]|lia|lia|lia].
Qed.

Lemma existsb_eqb_false c l : (forall x, In x l -> x < c) -> existsb (Nat.eqb c) l = false.
Proof.
  intros H. induction l as [|a r IH]; [reflexivity|]. cbn [existsb].
  replace (Nat.eqb c a) with false by (symmetry; apply Nat.eqb_neq; specialize (H a (or_introl eq_refl)); lia).
  apply IH. intros x Hx. apply H. right. exact Hx.
Qed.
Lemma existsb_eqb_last c l : existsb (Nat.eqb c) (l ++ [c]) = true.
Proof. rewrite existsb_app. cbn. rewrite Nat.eqb_refl. apply orb_true_iff. right. reflexivity. Qed.

Lemma Forall2_map_eq {A B} (g : A -> B) l1 l2 : Forall2 (fun a b => g a = b) l1 l2 -> map g l1 = l2.
Proof. intros F. induction F as [|a b l1 l2 H F IH]; [reflexivity|]. cbn. rewrite H, IH. reflexivity. Qed.

(* the raw descent at f, once its children are described by k *)
Lemma inv_assemble base sid t p f st k lc fc err st'' kd kr :
  inv base sid t p f st k lc fc ->
  agree (S f) (List.length st) st st'' -> get st'' f = mkF sid t p lc fc err false ->
  List.length st <= List.length st'' -> List.length st - f <= kd -> List.length st - f <= kr ->
  RD kd kr st'' f = assemble sid t err k.
Proof.
  intros I Ha Hf Hl Hkd Hkr.
  pose proof (i_len _ _ _ _ _ _ _ _ _ I) as Hlen.
  destruct kd as [|kd]; [lia|].
  unfold RD. cbn [descend]. rewrite Hf. cbn [f_last f_spec f_target f_err f_cerrs].
  assert (Hbr : map (render kr st'') fc = k_ft k).
  { apply Forall2_map_eq. eapply Forall2_weaken; [|exact (i_ft _ _ _ _ _ _ _ _ _ I)]. cbv beta.
    intros x tr H. apply H; [exact Ha|exact Hl|exact Hkr]. }
  unfold assemble. rewrite (i_has _ _ _ _ _ _ _ _ _ I).
  destruct lc as [child|].
  - cbn [negb].
    assert (Hlr : map (toTR (render kr st'')) (descend kd st'' child) = k_lr k).
    { apply (i_lr _ _ _ _ _ _ _ _ _ I child eq_refl st'' kd kr Ha Hl); lia. }
    pose proof (i_lf _ _ _ _ _ _ _ _ _ I child eq_refl) as Hlf.
    destruct (k_lf k).
    + destruct Hlf as (fc' & -> & Hlt).
      destruct fc' as [|a fc'].
      * (* the single failed branch is the last child: a straight line *)
        cbn [app]. rewrite Nat.eqb_refl. cbn [existsb].
        cbn [app map] in Hbr. destruct (k_ft k) as [|x [|y r]]; try discriminate.
        cbn [andb]. cbn [map]. unfold toTR at 1. cbn [map e_spec e_target e_err e_branches]. rewrite Hlr. reflexivity.
      * (* two or more failed branches, the last child among them *)
        assert (E2 : match (a :: fc') ++ [child] with [c0] => if Nat.eqb c0 child then [] else [c0] | l => l end = (a :: fc') ++ [child]).
        { destruct fc'; reflexivity. }
        rewrite E2. rewrite existsb_eqb_last.
        assert (L2 : 2 <= List.length (k_ft k)).
        { rewrite <- Hbr. rewrite map_length, app_length. cbn. lia. }
        remember ((a :: fc') ++ [child]) as br eqn:Ebr.
        cbn [map]. unfold toTR at 1. cbn [e_spec e_target e_err e_branches]. rewrite Hbr.
        destruct (k_ft k) as [|x [|y r]]; cbn in L2; try lia. reflexivity.
    + pose proof (existsb_eqb_false child fc Hlf) as Hex.
      destruct fc as [|c0 [|c1 r]].
      * cbn [existsb]. cbn [map] in Hbr. rewrite <- Hbr.
        cbn [map]. unfold toTR at 1. cbn [map e_spec e_target e_err e_branches]. rewrite Hlr. reflexivity.
      * replace (Nat.eqb c0 child) with false
          by (symmetry; apply Nat.eqb_neq; specialize (Hlf c0 (or_introl eq_refl)); lia).
        rewrite Hex. cbn [map]. unfold toTR at 1. cbn [e_spec e_target e_err e_branches]. rewrite Hbr, Hlr.
        cbn [map] in Hbr. rewrite <- Hbr. reflexivity.
      * rewrite Hex. cbn [map]. unfold toTR at 1. cbn [e_spec e_target e_err e_branches]. rewrite Hbr, Hlr.
        cbn [map] in Hbr. rewrite <- Hbr. reflexivity.
  - destruct (i_none _ _ _ _ _ _ _ _ _ I eq_refl) as [-> Hft]. cbn [negb]. reflexivity.
Qed.

Section Loops.
  Variable fuel : nat.
  Hypothesis IH : good fuel.
  Variables (base : store) (sid t p f : nat).

  Lemma nest_loop_inv : forall l st k lc fc st' r,
    inv base sid t p f st k lc fc -> forallb chainfree l = true -> (forall x, In x l -> tdepth x < fuel) ->
    nest_loop (glom_ fuel) sid st f t l = (st', r) ->
    exists k' lc' fc', inv base sid t p f st' k' lc' fc' /\
      match nest_raw (raw fuel) t l k with
      | (None, k2) => r = Ret (1000 + sid) /\ k' = k2
      | (Some e, k2) => r = Exc e /\ k' = k2 end.
  Proof.
    induction l as [|x l IHl]; intros st k lc fc st' r I Hcf Hd E; cbn [nest_loop nest_raw] in *.
    - injection E as <- <-. exists k, lc, fc. split; [exact I|split; reflexivity].
    - apply andb_true_iff in Hcf. destruct Hcf as [Hcx Hcl].
      destruct (glom_ fuel st f t x) as [st1 rb] eqn:Ex.
      destruct (inv_step fuel IH _ _ _ _ _ _ _ _ _ _ _ _ I Hcx (Hd x (or_introl eq_refl)) Ex) as [Hr I1].
      destruct (raw fuel x t) as [o rx]. cbn [fst snd] in *. subst o.
      destruct rb as [v|e]; cbn [k_after] in I1.
      + apply (IHl _ _ _ _ _ _ I1 Hcl (fun y Hy => Hd y (or_intror Hy)) E).
      + injection E as <- <-. eexists _, _, _. split; [exact I1|split; reflexivity].
  Qed.

  Lemma alt_loop_inv own : forall l st k lc fc st' r,
    inv base sid t p f st k lc fc -> forallb chainfree l = true -> (forall x, In x l -> tdepth x < fuel) ->
    alt_loop (glom_ fuel) own st f t l = (st', r) ->
    exists k' lc' fc', inv base sid t p f st' k' lc' fc' /\
      match alt_raw (raw fuel) t l k with
      | (Some v, k2) => r = Ret v /\ k' = k2
      | (None, k2) => r = Exc own /\ k' = k2 end.
  Proof.
    induction l as [|x l IHl]; intros st k lc fc st' r I Hcf Hd E; cbn [alt_loop alt_raw] in *.
    - injection E as <- <-. exists k, lc, fc. split; [exact I|split; reflexivity].
    - apply andb_true_iff in Hcf. destruct Hcf as [Hcx Hcl].
      destruct (glom_ fuel st f t x) as [st1 rb] eqn:Ex.
      destruct (inv_step fuel IH _ _ _ _ _ _ _ _ _ _ _ _ I Hcx (Hd x (or_introl eq_refl)) Ex) as [Hr I1].
      destruct (raw fuel x t) as [o rx]. cbn [fst snd] in *. subst o.
      destruct rb as [v|e]; cbn [k_after] in I1.
      + destruct (Nat.eqb v 0).
        * apply (IHl _ _ _ _ _ _ I1 Hcl (fun y Hy => Hd y (or_intror Hy)) E).
        * injection E as <- <-. eexists _, _, _. split; [exact I1|split; reflexivity].
      + apply (IHl _ _ _ _ _ _ I1 Hcl (fun y Hy => Hd y (or_intror Hy)) E).
  Qed.

  Lemma or_loop_inv : forall l st k lc fc st' r,
    inv base sid t p f st k lc fc -> forallb chainfree l = true -> (forall x, In x l -> tdepth x < fuel) ->
    or_loop (glom_ fuel) st f t l = (st', r) ->
    exists k' lc' fc', inv base sid t p f st' k' lc' fc' /\ r = fst (or_raw (raw fuel) t l k) /\ k' = snd (or_raw (raw fuel) t l k).
  Proof.
    induction l as [|x l IHl]; intros st k lc fc st' r I Hcf Hd E.
    - cbn [or_loop or_raw] in *. injection E as <- <-. exists k, lc, fc. split; [exact I|split; reflexivity].
    - apply andb_true_iff in Hcf. destruct Hcf as [Hcx Hcl].
      destruct l as [|y l].
      + cbn [or_loop or_raw] in *.
        destruct (inv_step fuel IH _ _ _ _ _ _ _ _ _ _ _ _ I Hcx (Hd x (or_introl eq_refl)) E) as [Hr I1].
        destruct (raw fuel x t) as [o rx]. cbn [fst snd] in *. subst o.
        eexists _, _, _. split; [exact I1|]. destruct r; split; reflexivity.
      + change (or_loop (glom_ fuel) st f t (x :: y :: l)) with
          (match glom_ fuel st f t x with (st0, Ret v) => (st0, Ret v) | (st0, Exc _) => or_loop (glom_ fuel) st0 f t (y :: l) end) in E.
        change (or_raw (raw fuel) t (x :: y :: l) k) with
          (match raw fuel x t with (Ret v, rb) => (Ret v, k_ok k rb) | (Exc _, rb) => or_raw (raw fuel) t (y :: l) (k_fail k rb) end).
        destruct (glom_ fuel st f t x) as [st1 rb] eqn:Ex.
        destruct (inv_step fuel IH _ _ _ _ _ _ _ _ _ _ _ _ I Hcx (Hd x (or_introl eq_refl)) Ex) as [Hr I1].
        destruct (raw fuel x t) as [o rx]. cbn [fst snd] in *. subst o.
        destruct rb as [v|e]; cbn [k_after] in I1.
        * injection E as <- <-. eexists _, _, _. split; [exact I1|split; reflexivity].
        * apply (IHl _ _ _ _ _ _ I1 Hcl (fun z Hz => Hd z (or_intror Hz)) E).
  Qed.
End Loops.

Definition err_of (r : out) : option nat := match r with Ret _ => None | Exc e => Some e end.

(* the except arm of _glom (no NO_PYFRAME frames in this fragment: the walk does not start) and what the finished frame shows *)
Lemma finalize base sid t p f st k lc fc st_in r :
  inv base sid t p f st k lc fc -> p < f -> f = List.length st_in ->
  get base p = set_last f (get st_in p) -> (forall i, i < f -> i <> p -> get base i = get st_in i) ->
  let st' := match r with Ret _ => st | Exc e => upd (upd st p (add_cerr f)) f (set_err e) end in
  f < List.length st' /\ nonopy st' /\
  (forall i, i < f -> i <> p -> get st' i = get st_in i) /\
  get st' p = (match r with Ret _ => set_last f (get st_in p) | Exc _ => add_cerr f (set_last f (get st_in p)) end) /\
  closed st' f (List.length st') /\
  (forall st'' kd kr, agree f (List.length st') st' st'' -> List.length st' <= List.length st'' ->
                      List.length st' - f <= kd -> List.length st' - f <= kr -> RD kd kr st'' f = assemble sid t (err_of r) k).
Proof.
  intros I Hpf Hf Hbp Hbo st'.
  pose proof (i_len _ _ _ _ _ _ _ _ _ I) as Hlen.
  assert (Hl : List.length st' = List.length st).
  { unfold st'. destruct r; [reflexivity|]. rewrite !upd_length. reflexivity. }
  assert (Hgt : forall i, f < i -> get st' i = get st i).
  { intros i Hi. unfold st'. destruct r; [reflexivity|]. rewrite get_upd_ne by lia. rewrite get_upd_ne by lia. reflexivity. }
  assert (Hff : get st' f = mkF sid t p lc fc (err_of r) false).
  { unfold st'. destruct r as [v|e]; cbn [err_of]; [exact (i_f _ _ _ _ _ _ _ _ _ I)|].
    rewrite get_upd_eq by (rewrite upd_length; exact Hlen). rewrite get_upd_ne by lia.
    rewrite (i_f _ _ _ _ _ _ _ _ _ I). reflexivity. }
  rewrite Hl. split; [|split; [|split; [|split; [|split]]]].
  - exact Hlen.
  - unfold st'. destruct r; [exact (i_nonopy _ _ _ _ _ _ _ _ _ I)|].
    apply nonopy_upd; [reflexivity|]. apply nonopy_upd; [reflexivity|]. exact (i_nonopy _ _ _ _ _ _ _ _ _ I).
  - intros i Hi Hne. rewrite <- Hbo by assumption. rewrite <- (i_old _ _ _ _ _ _ _ _ _ I i Hi).
    unfold st'. destruct r; [reflexivity|]. rewrite get_upd_ne by lia. rewrite get_upd_ne by lia. reflexivity.
  - unfold st'. destruct r as [v|e].
    + rewrite (i_old _ _ _ _ _ _ _ _ _ I p Hpf). exact Hbp.
    + rewrite get_upd_ne by lia. rewrite get_upd_eq by lia. rewrite (i_old _ _ _ _ _ _ _ _ _ I p Hpf). rewrite Hbp. reflexivity.
  - intros i Hi. split; intros c Hc.
    + destruct (Nat.eq_dec i f) as [->|Hne].
      * rewrite Hff in Hc. cbn [f_last] in Hc. apply (i_lc _ _ _ _ _ _ _ _ _ I c Hc).
      * rewrite Hgt in Hc by lia. destruct (i_closed _ _ _ _ _ _ _ _ _ I i) as [A _]; [lia|]. apply (A c Hc).
    + destruct (Nat.eq_dec i f) as [->|Hne].
      * rewrite Hff in Hc. cbn [f_cerrs] in Hc. apply (i_fc _ _ _ _ _ _ _ _ _ I c Hc).
      * rewrite Hgt in Hc by lia. destruct (i_closed _ _ _ _ _ _ _ _ _ I i) as [_ B]; [lia|]. apply (B c Hc).
  - intros st'' kd kr Ha Hl2 Hkd Hkr.
    apply (inv_assemble base sid t p f st k lc fc (err_of r) st'' kd kr I).
    + intros i Hi. rewrite Ha by lia. apply Hgt. lia.
    + rewrite Ha by lia. exact Hff.
    + exact Hl2.
    + exact Hkd.
    + exact Hkr.
Qed.

Lemma depth_in l x : In x l -> tdepth x <= fold_right (fun x acc => Nat.max (tdepth x) acc) 0 l.
Proof.
  induction l as [|a r IH]; intros H; [destruct H|]. cbn [fold_right]. destruct H as [->|H]; [lia|]. specialize (IH H). lia.
Qed.

Lemma except_arm st2 p f (r2 : out) st' r :
  nonopy st2 ->
  (match r2 with
   | Ret v => (st2, Ret v)
   | Exc e =>
       let st3 := upd st2 p (add_cerr f) in
       let st4 := upd st3 f (set_err e) in
       let st5 := if f_nopy (get st4 p) then nopy_walk (List.length st4) st4 p e else st4 in
       (st5, Exc e) end) = (st', r) ->
  r = r2 /\ st' = match r2 with Ret _ => st2 | Exc e => upd (upd st2 p (add_cerr f)) f (set_err e) end.
Proof.
  intros Hnp E. destruct r2 as [v|e].
  - injection E as <- <-. split; reflexivity.
  - cbv zeta in E.
    assert (Hn : f_nopy (get (upd (upd st2 p (add_cerr f)) f (set_err e)) p) = false).
    { apply nonopy_upd; [reflexivity|]. apply nonopy_upd; [reflexivity|]. exact Hnp. }
    rewrite Hn in E. injection E as <- <-. split; reflexivity.
Qed.

Theorem all_good : forall fuel, good fuel.
Proof.
  induction fuel as [|fuel IH]; intros st p t s st' r Hcf Hd Hp Hnp E; [lia|].
  cbn [glom_] in E.
  set (f := List.length st) in *.
  set (st1 := upd (st ++ [new_frame s t p]) p (set_last f)) in *.
  assert (Hl1 : List.length st1 = S f) by (unfold st1; rewrite upd_length, app_length; cbn; lia).
  assert (Hf1 : get st1 f = mkF (sid_of s) t p None [] None false).
  { unfold st1. rewrite get_upd_ne by (unfold f; lia). unfold f. rewrite get_app_new. reflexivity. }
  assert (Hp1 : get st1 p = set_last f (get st p)).
  { unfold st1. rewrite get_upd_eq by (rewrite app_length; cbn; lia). rewrite get_app_old by exact Hp. reflexivity. }
  assert (Ho1 : forall i, i < f -> i <> p -> get st1 i = get st i).
  { intros i Hi Hne. unfold st1. rewrite get_upd_ne by lia. apply get_app_old. exact Hi. }
  assert (Hn1 : nonopy st1).
  { unfold st1. apply nonopy_upd; [reflexivity|]. apply nonopy_app; [reflexivity|exact Hnp]. }
  assert (I0 : inv st1 (sid_of s) t p f st1 k0 None []).
  { constructor.
    - lia.
    - exact Hn1.
    - reflexivity.
    - exact Hf1.
    - intros i Hi. lia.
    - intros c [].
    - intros c Hc. discriminate Hc.
    - reflexivity.
    - intros _. split; reflexivity.
    - intros c Hc. discriminate Hc.
    - constructor.
    - intros c Hc. discriminate Hc. }
  (* the common tail: the body left the frame described by k; the except arm and the descent *)
  assert (Tail : forall st2 r2 k lc fc,
             inv st1 (sid_of s) t p f st2 k lc fc ->
             (match r2 with
              | Ret v => (st2, Ret v)
              | Exc e =>
                  let st3 := upd st2 p (add_cerr f) in
                  let st4 := upd st3 f (set_err e) in
                  let st5 := if f_nopy (get st4 p) then nopy_walk (List.length st4) st4 p e else st4 in
                  (st5, Exc e) end) = (st', r) ->
             raw (S fuel) s t = (r2, assemble (sid_of s) t (err_of r2) k) ->
             f < List.length st' /\ nonopy st' /\
             (forall i, i < f -> i <> p -> get st' i = get st i) /\
             get st' p = (match r with Ret _ => set_last f (get st p) | Exc _ => add_cerr f (set_last f (get st p)) end) /\
             closed st' f (List.length st') /\
             r = fst (raw (S fuel) s t) /\
             (forall st'' kd kr, agree f (List.length st') st' st'' -> List.length st' <= List.length st'' ->
                                 List.length st' - f <= kd -> List.length st' - f <= kr -> RD kd kr st'' f = snd (raw (S fuel) s t))).
  { intros st2 r2 k lc fc I2 E2 Hraw.
    destruct (except_arm _ _ _ _ _ _ (i_nonopy _ _ _ _ _ _ _ _ _ I2) E2) as [-> ->].
    rewrite Hraw. cbn [fst snd].
    destruct (finalize st1 (sid_of s) t p f st2 k lc fc st r2 I2 Hp eq_refl Hp1 Ho1) as (A & B & C & D & F & G).
    split; [exact A|]. split; [exact B|]. split; [exact C|]. split; [exact D|]. split; [exact F|]. split; [reflexivity|exact G]. }
  destruct s as [n ok|n|n l|n l|n l|n l|n cs|n ok kid]; try discriminate Hcf; cbn [sid_of] in *.
  - (* Leaf *)
    destruct ok.
    + apply (Tail st1 (Ret (2000 + n)) k0 None [] I0 E). reflexivity.
    + apply (Tail st1 (Exc n) k0 None [] I0 E). reflexivity.
  - (* SkipLeaf *)
    apply (Tail st1 (Ret 0) k0 None [] I0 E). reflexivity.
  - (* Nest *)
    cbn [chainfree] in Hcf. cbn [tdepth] in Hd.
    assert (Hdl : forall x, In x l -> tdepth x < fuel) by (intros x Hx; pose proof (depth_in l x Hx); lia).
    destruct (nest_loop (glom_ fuel) n st1 f t l) as [st2 r2] eqn:Eb.
    destruct (nest_loop_inv fuel IH st1 n t p f l st1 k0 None [] st2 r2 I0 Hcf Hdl Eb) as (k' & lc' & fc' & I2 & Hm).
    apply (Tail st2 r2 k' lc' fc' I2 E).
    cbn [raw]. destruct (nest_raw (raw fuel) t l k0) as [[e|] k2]; destruct Hm as [-> ->]; reflexivity.
  - (* Alt *)
    cbn [chainfree] in Hcf. cbn [tdepth] in Hd.
    assert (Hdl : forall x, In x l -> tdepth x < fuel) by (intros x Hx; pose proof (depth_in l x Hx); lia).
    destruct (alt_loop (glom_ fuel) (5000 + n) st1 f t l) as [st2 r2] eqn:Eb.
    destruct (alt_loop_inv fuel IH st1 n t p f (5000 + n) l st1 k0 None [] st2 r2 I0 Hcf Hdl Eb) as (k' & lc' & fc' & I2 & Hm).
    apply (Tail st2 r2 k' lc' fc' I2 E).
    cbn [raw]. destruct (alt_raw (raw fuel) t l k0) as [[v|] k2]; destruct Hm as [-> ->]; reflexivity.
  - (* OrS *)
    cbn [chainfree] in Hcf. cbn [tdepth] in Hd.
    assert (Hdl : forall x, In x l -> tdepth x < fuel) by (intros x Hx; pose proof (depth_in l x Hx); lia).
    destruct (or_loop (glom_ fuel) st1 f t l) as [st2 r2] eqn:Eb.
    destruct (or_loop_inv fuel IH st1 n t p f l st1 k0 None [] st2 r2 I0 Hcf Hdl Eb) as (k' & lc' & fc' & I2 & Hr2 & Hk2).
    apply (Tail st2 r2 k' lc' fc' I2 E).
    cbn [raw]. destruct (or_raw (raw fuel) t l k0) as [o k2]. cbn [fst snd] in *. subst o k2. destruct r2; reflexivity.
  - (* Guard *)
    cbn [chainfree] in Hcf. cbn [tdepth] in Hd.
    destruct (glom_ fuel st1 f t kid) as [st2 rb] eqn:Eb.
    destruct (inv_step fuel IH _ _ _ _ _ _ _ _ _ _ _ _ I0 Hcf (ltac:(lia)) Eb) as [Hr I2].
    rewrite Hl1 in I2.
    destruct rb as [v|e].
    + destruct ok.
      * apply (Tail st2 (Ret t) _ _ _ I2 E).
        cbn [raw]. destruct (raw fuel kid t) as [o rk]. cbn [fst snd] in *. subst o. reflexivity.
      * apply (Tail st2 (Exc (6000 + n)) _ _ _ I2 E).
        cbn [raw]. destruct (raw fuel kid t) as [o rk]. cbn [fst snd] in *. subst o. reflexivity.
    + apply (Tail st2 (Exc e) _ _ _ I2 E).
      cbn [raw]. destruct (raw fuel kid t) as [o rk]. cbn [fst snd] in *. subst o. reflexivity.
Qed.

(* ---------- stage 2: the presentation steps applied to the raw descent give the structural reading of Spec/TraceSpec.v ---------- *)
Definition is_some {A} (o : option A) : bool := match o with Some _ => true | None => false end.
Definition has_err (l : list tr) : bool := existsb (fun x => is_some (tr_err x)) l.
Definition all_none (l : list tr) : Prop := Forall (fun x => tr_err x = None) l.
Definition head_err (l : list tr) : option nat := match l with x :: _ => tr_err x | [] => None end.

Lemma oeq_refl o : oeq o o = true.
Proof. destruct o; [apply Nat.eqb_refl|reflexivity]. Qed.

Lemma tr_clear_none x : tr_err x = None -> tr_clear x = x.
Proof. destruct x as [s t e b]. cbn. intros ->. reflexivity. Qed.

Lemma push_down_none : forall l, all_none l -> push_down_tr l = l.
Proof.
  induction l as [|a r IH]; intros H; [reflexivity|]. destruct r as [|b r']; [reflexivity|].
  inversion H as [|? ? Ha Hr]; subst.
  change (push_down_tr (a :: b :: r')) with ((if oeq (tr_err a) (tr_err b) then tr_clear a else a) :: push_down_tr (b :: r')).
  rewrite IH by exact Hr. rewrite (tr_clear_none a Ha). destruct (oeq _ _); reflexivity.
Qed.

Lemma has_err_cons x l : has_err (x :: l) = is_some (tr_err x) || has_err l.
Proof. reflexivity. Qed.

Lemma push_down_has_err : forall l, has_err l = true -> has_err (push_down_tr l) = true.
Proof.
  induction l as [|a r IH]; intros H; [discriminate|]. destruct r as [|b r']; [exact H|].
  change (push_down_tr (a :: b :: r')) with ((if oeq (tr_err a) (tr_err b) then tr_clear a else a) :: push_down_tr (b :: r')).
  rewrite has_err_cons in H. rewrite has_err_cons.
  destruct (has_err (b :: r')) eqn:Hr.
  - rewrite (IH eq_refl). apply orb_true_r.
  - rewrite orb_false_r in H. rewrite has_err_cons in Hr. apply orb_false_iff in Hr. destruct Hr as [Hb _].
    destruct (tr_err a) as [e|] eqn:Ea; [|discriminate]. destruct (tr_err b); [discriminate|].
    cbn [oeq]. rewrite Ea. reflexivity.
Qed.

Lemma has_err_rev l : has_err (rev l) = has_err l.
Proof.
  unfold has_err. induction l as [|a r IH]; [reflexivity|]. cbn [rev existsb]. rewrite existsb_app, IH. cbn [existsb].
  rewrite orb_false_r. apply orb_comm.
Qed.

Lemma trim_keeps_last : forall m z, has_err m = true -> trim_rev_tr (m ++ [z]) = trim_rev_tr m ++ [z].
Proof.
  induction m as [|x m IH]; intros z H; [discriminate|].
  destruct m as [|y m'].
  - rewrite has_err_cons in H. cbn [has_err existsb] in H. rewrite orb_false_r in H. cbn [app trim_rev_tr].
    destruct (tr_err x); [reflexivity|discriminate].
  - change ((x :: y :: m') ++ [z]) with (x :: y :: (m' ++ [z])).
    change (trim_rev_tr (x :: y :: (m' ++ [z]))) with
      (match tr_err x with None => trim_rev_tr (y :: (m' ++ [z])) | Some _ => x :: y :: (m' ++ [z]) end).
    change (trim_rev_tr (x :: y :: m')) with (match tr_err x with None => trim_rev_tr (y :: m') | Some _ => x :: y :: m' end).
    destruct (tr_err x) eqn:Ex; [reflexivity|].
    apply (IH z). rewrite has_err_cons, Ex in H. exact H.
Qed.

Lemma trim_all_none : forall m z, all_none m -> trim_rev_tr (m ++ [z]) = [z].
Proof.
  induction m as [|x m IH]; intros z H; [reflexivity|]. inversion H as [|? ? Hx Hm]; subst.
  destruct m as [|y m'].
  - cbn [app trim_rev_tr]. rewrite Hx. reflexivity.
  - change ((x :: y :: m') ++ [z]) with (x :: y :: (m' ++ [z])).
    change (trim_rev_tr (x :: y :: (m' ++ [z]))) with
      (match tr_err x with None => trim_rev_tr (y :: (m' ++ [z])) | Some _ => x :: y :: (m' ++ [z]) end).
    rewrite Hx. apply (IH z Hm).
Qed.

Lemma finish_one a : finish [a] = [a].
Proof. reflexivity. Qed.

(* an entry above a failing continuation that carries the same error: the error is shown below only *)
Lemma finish_same a l e : tr_err a = Some e -> head_err l = Some e -> finish (a :: l) = tr_clear a :: finish l.
Proof.
  intros Ha Hl. destruct l as [|b r]; [discriminate|]. cbn [head_err] in Hl.
  unfold finish.
  change (push_down_tr (a :: b :: r)) with ((if oeq (tr_err a) (tr_err b) then tr_clear a else a) :: push_down_tr (b :: r)).
  rewrite Ha, Hl, oeq_refl. cbn [rev].
  rewrite trim_keeps_last.
  - rewrite rev_app_distr. reflexivity.
  - rewrite has_err_rev. apply push_down_has_err. rewrite has_err_cons, Hl. reflexivity.
Qed.

(* ... a different error: both are shown *)
Lemma finish_diff a l e e' : tr_err a = Some e -> head_err l = Some e' -> e <> e' -> finish (a :: l) = a :: finish l.
Proof.
  intros Ha Hl Hne. destruct l as [|b r]; [discriminate|]. cbn [head_err] in Hl.
  unfold finish.
  change (push_down_tr (a :: b :: r)) with ((if oeq (tr_err a) (tr_err b) then tr_clear a else a) :: push_down_tr (b :: r)).
  rewrite Ha, Hl. cbn [oeq]. replace (Nat.eqb e e') with false by (symmetry; apply Nat.eqb_neq; exact Hne). cbn [rev].
  rewrite trim_keeps_last.
  - rewrite rev_app_distr. reflexivity.
  - rewrite has_err_rev. apply push_down_has_err. rewrite has_err_cons, Hl. reflexivity.
Qed.

(* an entry with an error above a descent through frames that did not fail: only the entry remains *)
Lemma finish_above_ok a l e : tr_err a = Some e -> all_none l -> finish (a :: l) = [a].
Proof.
  intros Ha Hl. destruct l as [|b r]; [reflexivity|].
  unfold finish.
  change (push_down_tr (a :: b :: r)) with ((if oeq (tr_err a) (tr_err b) then tr_clear a else a) :: push_down_tr (b :: r)).
  inversion Hl as [|? ? Hb Hr]; subst. rewrite Ha, Hb. cbn [oeq]. rewrite (push_down_none (b :: r) Hl).
  change (rev (a :: b :: r)) with (rev (b :: r) ++ [a]).
  rewrite trim_all_none; [reflexivity|].
  apply Forall_rev. exact Hl.
Qed.

(* spec occurrences are numbered apart, below 1000: then a leaf's error n, a Coalesce's own error 5000 + n and a guard's own
   error 6000 + n are different errors for different occurrences (in glom they are different exception objects) *)
Fixpoint sids (s : tspec) : list nat :=
  match s with
  | Leaf n _ | SkipLeaf n => [n]
  | Nest n l | Chain n l | Alt n l | OrS n l => n :: flat_map sids l
  | Switch n cs => n :: flat_map (fun kv => let '(k, v) := kv in sids k ++ sids v) cs
  | Guard n _ k => n :: sids k end.
Definition wf (s : tspec) : Prop := NoDup (sids s) /\ Forall (fun n => n < 1000) (sids s).
Definition raised (e : nat) (l : list nat) : Prop := exists n, In n l /\ (e = n \/ e = 5000 + n \/ e = 6000 + n).

Lemma raised_incl e l1 l2 : raised e l1 -> incl l1 l2 -> raised e l2.
Proof. intros (n & Hn & He) Hi. exists n. split; [apply Hi; exact Hn|exact He]. Qed.

Lemma nodup_app_parts {A} : forall (l1 l2 : list A), NoDup (l1 ++ l2) -> NoDup l1 /\ NoDup l2.
Proof.
  induction l1 as [|a r IH]; intros l2 H; [split; [constructor|exact H]|].
  cbn [app] in H. inversion H as [|? ? Hni Hnd]; subst. destruct (IH l2 Hnd) as [A1 A2]. split; [|exact A2].
  constructor; [|exact A1]. intros Hin. apply Hni. apply in_or_app. left. exact Hin.
Qed.

Lemma nodup_flat_map {A} (f : A -> list nat) : forall l x, NoDup (flat_map f l) -> In x l -> NoDup (f x).
Proof.
  induction l as [|a r IH]; intros x Hn Hx; [destruct Hx|]. cbn [flat_map] in Hn.
  destruct (nodup_app_parts _ _ Hn) as [A1 A2]. destruct Hx as [->|Hx]; [exact A1|apply (IH x A2 Hx)].
Qed.

Lemma incl_flat_map {A} (f : A -> list nat) l x : In x l -> incl (f x) (flat_map f l).
Proof. intros Hx y Hy. apply in_flat_map. exists x. split; assumption. Qed.

Lemma wf_kids n l : NoDup (n :: flat_map sids l) -> Forall (fun m => m < 1000) (n :: flat_map sids l) ->
  n < 1000 /\ ~ In n (flat_map sids l) /\ (forall x, In x l -> wf x) /\ (forall m, In m (flat_map sids l) -> m < 1000).
Proof.
  intros Hn Hf. inversion Hn as [|? ? Hni Hnd]; subst. inversion Hf as [|? ? Hlt Hfl]; subst.
  split; [exact Hlt|]. split; [exact Hni|]. split.
  - intros x Hx. split; [apply (nodup_flat_map sids l x Hnd Hx)|].
    apply Forall_forall. intros m Hm. rewrite Forall_forall in Hfl. apply Hfl. apply (incl_flat_map sids l x Hx). exact Hm.
  - rewrite Forall_forall in Hfl. exact Hfl.
Qed.

Definition sound2 (fuel : nat) : Prop := forall s t,
  chainfree s = true -> tdepth s < fuel -> wf s ->
  fst (raw fuel s t) = fst (fst (exp fuel s t)) /\
  (forall v, fst (raw fuel s t) = Ret v -> all_none (snd (raw fuel s t))) /\
  (forall e, fst (raw fuel s t) = Exc e ->
     finish (snd (raw fuel s t)) = snd (fst (exp fuel s t)) /\ snd (exp fuel s t) = e /\
     head_err (snd (raw fuel s t)) = Some e /\ raised e (sids s)).

(* the children of a frame so far, seen from the structural side *)
Definition kstate (k : kids) (S : list nat) : Prop :=
  (k_has k = false -> k_ft k = [] /\ k_lf k = false) /\
  (k_lf k = false -> all_none (k_lr k)) /\
  (k_lf k = true -> k_has k = true /\ exists ft' e, k_ft k = ft' ++ [finish (k_lr k)] /\ head_err (k_lr k) = Some e /\ raised e S).

Lemma kstate_k0 S : kstate k0 S.
Proof. split; [intros _; split; reflexivity|]. split; [intros _; constructor|discriminate]. Qed.

Lemma kstate_ok k S rb : all_none rb -> kstate (k_ok k rb) S.
Proof. intros H. split; [discriminate|]. split; [intros _; exact H|discriminate]. Qed.

Lemma kstate_fail k S rb e : head_err rb = Some e -> raised e S -> kstate (k_fail k rb) S.
Proof.
  intros H1 H2. split; [discriminate|]. split; [discriminate|]. intros _. split; [reflexivity|].
  exists (k_ft k), e. split; [reflexivity|]. split; assumption.
Qed.

Lemma head_err_assemble sid t err k : head_err (assemble sid t err k) = err.
Proof. unfold assemble. destruct (negb (k_has k)); [reflexivity|]. destruct (k_lf k && _); reflexivity. Qed.

(* a frame that did not fail above children the last of which did not fail *)
Lemma assemble_all_none sid t k S : kstate k S -> k_lf k = false -> all_none (assemble sid t None k).
Proof.
  intros (H1 & H2 & _) Hlf. unfold assemble. destruct (k_has k); cbn [negb].
  - rewrite Hlf. cbn [andb]. constructor; [reflexivity|]. apply H2. exact Hlf.
  - constructor; [reflexivity|constructor].
Qed.

Section Loops2.
  Variable fuel : nat.
  Hypothesis IH : sound2 fuel.
  Variable t : nat.

  Definition kids_ok (l : list tspec) : Prop := forall x, In x l -> chainfree x = true /\ tdepth x < fuel /\ wf x.

  Lemma kids_ok_tail x l : kids_ok (x :: l) -> kids_ok l.
  Proof. intros H y Hy. apply H. right. exact Hy. Qed.

  Lemma above_same sid e trk : above sid t e trk e = TR sid t None [] :: trk.
  Proof. unfold above. rewrite Nat.eqb_refl. reflexivity. Qed.

  Lemma nest_sound sid : forall l k S, kids_ok l -> incl (flat_map sids l) S -> kstate k S -> k_ft k = [] -> k_lf k = false ->
    match nest_raw (raw fuel) t l k with
    | (None, k2) => nest_exp (exp fuel) sid t l = (Ret (1000 + sid), [], 0) /\ kstate k2 S /\ k_ft k2 = [] /\ k_lf k2 = false
    | (Some e, k2) => nest_exp (exp fuel) sid t l = (Exc e, finish (assemble sid t (Some e) k2), e) /\ raised e S end.
  Proof.
    induction l as [|x l IHl]; intros k S Hk Hi Hs Hft Hlf; cbn [nest_raw nest_exp].
    - split; [reflexivity|]. split; [exact Hs|]. split; assumption.
    - destruct (Hk x (or_introl eq_refl)) as (Hc & Hd & Hw).
      destruct (IH x t Hc Hd Hw) as (Ho & Hok & Hex).
      destruct (raw fuel x t) as [o rx]. destruct (exp fuel x t) as [[o' tx] ex]. cbn [fst snd] in *. subst o'.
      destruct o as [v|e].
      + apply IHl.
        * apply (kids_ok_tail x l Hk).
        * intros y Hy. apply Hi. cbn [flat_map]. apply in_or_app. right. exact Hy.
        * apply kstate_ok. apply (Hok v eq_refl).
        * exact Hft.
        * reflexivity.
      + destruct (Hex e eq_refl) as (Hfin & -> & Hhd & Hra).
        assert (Hra' : raised e S).
        { eapply raised_incl; [exact Hra|]. intros y Hy. apply Hi. cbn [flat_map]. apply in_or_app. left. exact Hy. }
        split; [|exact Hra'].
        rewrite above_same. f_equal. f_equal.
        unfold assemble, k_fail. cbn [k_has k_ft k_lf k_lr negb]. rewrite Hft. cbn [app andb].
        rewrite (finish_same (TR sid t (Some e) []) rx e eq_refl Hhd). cbn [tr_clear]. rewrite Hfin. reflexivity.
  Qed.

  Lemma alt_sound : forall l k S, kids_ok l -> incl (flat_map sids l) S -> kstate k S ->
    match alt_raw (raw fuel) t l k with
    | (Some v, k2) => fst (fst (alt_exp (exp fuel) t l (k_ft k) (k_lf k))) = Some v /\ kstate k2 S /\ k_lf k2 = false
    | (None, k2) => alt_exp (exp fuel) t l (k_ft k) (k_lf k) = (None, k_ft k2, k_lf k2) /\ kstate k2 S end.
  Proof.
    induction l as [|x l IHl]; intros k S Hk Hi Hs; cbn [alt_raw alt_exp].
    - split; [reflexivity|exact Hs].
    - destruct (Hk x (or_introl eq_refl)) as (Hc & Hd & Hw).
      destruct (IH x t Hc Hd Hw) as (Ho & Hok & Hex).
      destruct (raw fuel x t) as [o rx]. destruct (exp fuel x t) as [[o' tx] ex]. cbn [fst snd] in *. subst o'.
      assert (Hi' : incl (flat_map sids l) S).
      { intros y Hy. apply Hi. cbn [flat_map]. apply in_or_app. right. exact Hy. }
      destruct o as [v|e].
      + destruct (Nat.eqb v 0).
        * specialize (IHl (k_ok k rx) S (kids_ok_tail x l Hk) Hi' (kstate_ok k S rx (Hok v eq_refl))).
          cbn [k_ok k_ft k_lf] in IHl. exact IHl.
        * cbn [fst]. split; [reflexivity|]. split; [apply kstate_ok; apply (Hok v eq_refl)|reflexivity].
      + destruct (Hex e eq_refl) as (Hfin & _ & Hhd & Hra).
        assert (Hra' : raised e S).
        { eapply raised_incl; [exact Hra|]. intros y Hy. apply Hi. cbn [flat_map]. apply in_or_app. left. exact Hy. }
        specialize (IHl (k_fail k rx) S (kids_ok_tail x l Hk) Hi' (kstate_fail k S rx e Hhd Hra')).
        cbn [k_fail k_ft k_lf] in IHl. rewrite Hfin in IHl. exact IHl.
  Qed.

  Lemma or_sound : forall l k S last, l <> [] -> kids_ok l -> incl (flat_map sids l) S -> kstate k S ->
    match or_raw (raw fuel) t l k with
    | (Ret v, k2) => fst (fst (or_exp (exp fuel) t l (k_ft k) last)) = Some v /\ kstate k2 S /\ k_lf k2 = false
    | (Exc e, k2) => or_exp (exp fuel) t l (k_ft k) last = (None, k_ft k2, (e, e)) /\ kstate k2 S /\ k_lf k2 = true /\
                     head_err (k_lr k2) = Some e /\ raised e S end.
  Proof.
    induction l as [|x l IHl]; intros k S last Hne Hk Hi Hs; [congruence|].
    destruct (Hk x (or_introl eq_refl)) as (Hc & Hd & Hw).
    destruct (IH x t Hc Hd Hw) as (Ho & Hok & Hex).
    assert (Hi' : incl (flat_map sids l) S).
    { intros y Hy. apply Hi. cbn [flat_map]. apply in_or_app. right. exact Hy. }
    assert (Hix : incl (sids x) S).
    { intros y Hy. apply Hi. cbn [flat_map]. apply in_or_app. left. exact Hy. }
    destruct l as [|y l].
    - cbn [or_raw or_exp].
      destruct (raw fuel x t) as [o rx]. destruct (exp fuel x t) as [[o' tx] ex]. cbn [fst snd] in *. subst o'.
      destruct o as [v|e].
      + cbn [fst]. split; [reflexivity|]. split; [apply kstate_ok; apply (Hok v eq_refl)|reflexivity].
      + destruct (Hex e eq_refl) as (Hfin & -> & Hhd & Hra).
        pose proof (raised_incl _ _ _ Hra Hix) as Hra'.
        cbn [k_fail k_ft k_lf k_lr]. rewrite Hfin. split; [reflexivity|]. split; [apply (kstate_fail k S rx e Hhd Hra')|].
        split; [reflexivity|]. split; assumption.
    - change (or_raw (raw fuel) t (x :: y :: l) k) with
        (match raw fuel x t with (Ret v, rb) => (Ret v, k_ok k rb) | (Exc _, rb) => or_raw (raw fuel) t (y :: l) (k_fail k rb) end).
      change (or_exp (exp fuel) t (x :: y :: l) (k_ft k) last) with
        (match exp fuel x t with
         | (Ret v, _, _) => (Some v, k_ft k, last)
         | (Exc e, trb, eb) => or_exp (exp fuel) t (y :: l) (k_ft k ++ [trb]) (e, eb) end).
      destruct (raw fuel x t) as [o rx]. destruct (exp fuel x t) as [[o' tx] ex]. cbn [fst snd] in *. subst o'.
      destruct o as [v|e].
      + cbn [fst]. split; [reflexivity|]. split; [apply kstate_ok; apply (Hok v eq_refl)|reflexivity].
      + destruct (Hex e eq_refl) as (Hfin & -> & Hhd & Hra).
        pose proof (raised_incl _ _ _ Hra Hix) as Hra'.
        specialize (IHl (k_fail k rx) S (e, e) ltac:(discriminate) (kids_ok_tail x (y :: l) Hk) Hi' (kstate_fail k S rx e Hhd Hra')).
        cbn [k_fail k_ft] in IHl. rewrite Hfin in IHl. exact IHl.
  Qed.
End Loops2.

Lemma kids_ok_of fuel n l :
  forallb chainfree l = true -> S (fold_right (fun x acc => Nat.max (tdepth x) acc) 0 l) < S fuel ->
  NoDup (n :: flat_map sids l) -> Forall (fun m => m < 1000) (n :: flat_map sids l) ->
  kids_ok fuel l.
Proof.
  intros Hc Hd Hn Hf x Hx. destruct (wf_kids n l Hn Hf) as (_ & _ & Hwf & _).
  split; [rewrite forallb_forall in Hc; apply Hc; exact Hx|]. split; [pose proof (depth_in l x Hx); lia|apply Hwf; exact Hx].
Qed.

(* numerals from 5000 on are not unary terms (Coq abstracts them): what the proofs need of them, by computation *)
Lemma lit_facts : 1000 <= 5000 /\ 5000 + 1000 <= 6000.
Proof. split; apply Nat.leb_le; vm_compute; reflexivity. Qed.

Lemma raised_own_differs n l e : n < 1000 -> ~ In n l -> (forall m, In m l -> m < 1000) -> raised e l -> 5000 + n <> e.
Proof.
  intros Hn Hni Hl (m & Hm & He). specialize (Hl m Hm). assert (m <> n) by (intros ->; exact (Hni Hm)).
  destruct lit_facts as [L1 L2]. set (A := 5000) in *. set (B := 6000) in *. clearbody A B. lia.
Qed.

Theorem all_sound2 : forall fuel, sound2 fuel.
Proof.
  induction fuel as [|fuel IH]; intros s t Hc Hd Hw; [lia|].
  destruct s as [n ok|n|n l|n l|n l|n l|n cs|n ok kid]; try discriminate Hc.
  - (* Leaf *)
    cbn [raw exp]. destruct ok; cbn [fst snd].
    + split; [reflexivity|]. split; [intros v _; constructor; [reflexivity|constructor]|discriminate].
    + split; [reflexivity|]. split; [discriminate|]. intros e He. injection He as <-.
      split; [reflexivity|]. split; [reflexivity|]. split; [reflexivity|]. exists n. split; [left; reflexivity|left; reflexivity].
  - (* SkipLeaf *)
    cbn [raw exp fst snd]. split; [reflexivity|]. split; [intros v _; constructor; [reflexivity|constructor]|discriminate].
  - (* Nest *)
    destruct Hw as [Hn Hf]. cbn [sids] in Hn, Hf. cbn [chainfree] in Hc. cbn [tdepth] in Hd.
    pose proof (kids_ok_of fuel n l Hc Hd Hn Hf) as Hk.
    pose proof (nest_sound fuel IH t n l k0 (flat_map sids l) Hk (incl_refl _) (kstate_k0 _) eq_refl eq_refl) as H.
    cbn [raw exp]. destruct (nest_raw (raw fuel) t l k0) as [[e|] k2].
    + destruct H as [Hexp Hra]. rewrite Hexp. cbn [fst snd]. split; [reflexivity|]. split; [discriminate|].
      intros e0 He0. injection He0 as <-. split; [reflexivity|]. split; [reflexivity|]. split; [apply head_err_assemble|].
      eapply raised_incl; [exact Hra|]. cbn [sids]. apply incl_tl. apply incl_refl.
    + destruct H as (Hexp & Hks & Hft & Hlf). rewrite Hexp. cbn [fst snd]. split; [reflexivity|].
      split; [intros v _; apply (assemble_all_none n t k2 _ Hks Hlf)|discriminate].
  - (* Alt *)
    destruct Hw as [Hn Hf]. cbn [sids] in Hn, Hf. cbn [chainfree] in Hc. cbn [tdepth] in Hd.
    pose proof (kids_ok_of fuel n l Hc Hd Hn Hf) as Hk.
    destruct (wf_kids n l Hn Hf) as (Hn1 & Hni & _ & Hsm).
    pose proof (alt_sound fuel IH t l k0 (flat_map sids l) Hk (incl_refl _) (kstate_k0 _)) as H.
    cbn [k0 k_ft k_lf] in H.
    cbn [raw exp]. destruct (alt_raw (raw fuel) t l k0) as [[v|] k2].
    + destruct H as (Hexp & Hks & Hlf).
      destruct (alt_exp (exp fuel) t l [] false) as [[o fl] lfl]. cbn [fst] in Hexp. subst o. cbn [fst snd].
      split; [reflexivity|]. split; [intros v0 _; apply (assemble_all_none n t k2 _ Hks Hlf)|discriminate].
    + destruct H as (Hexp & Hks). rewrite Hexp. destruct Hks as (K1 & K2 & K3).
      assert (Hraised : raised (5000 + n) (sids (Alt n l))) by (exists n; split; [left; reflexivity|right; left; reflexivity]).
      unfold assemble. destruct (k_has k2) eqn:Hhas; cbn [negb].
      * destruct (k_lf k2) eqn:Hlf.
        -- destruct (K3 eq_refl) as (_ & ft' & e' & Hft & Hhd & Hra). rewrite Hft.
           destruct ft' as [|a r].
           ++ cbn [app andb fst snd]. split; [reflexivity|]. split; [discriminate|].
              intros e0 He0. injection He0 as <-.
              split; [|split; [reflexivity|split; [reflexivity|exact Hraised]]].
              apply (finish_diff (TR n t (Some (5000 + n)) []) (k_lr k2) (5000 + n) e' eq_refl Hhd).
              apply (raised_own_differs n (flat_map sids l) e' Hn1 Hni Hsm Hra).
           ++ assert (E2 : match (a :: r) ++ [finish (k_lr k2)] with [x] => [] | l0 => l0 end = (a :: r) ++ [finish (k_lr k2)])
                by (destruct r; reflexivity).
              rewrite E2.
              assert (E3 : (match (a :: r) ++ [finish (k_lr k2)] with [] => false | _ => true end) = true) by reflexivity.
              rewrite E3. cbn [andb].
              assert (E4 : (match (a :: r) ++ [finish (k_lr k2)] with
                            | [one] => (Exc (5000 + n), TR n t (Some (5000 + n)) [] :: one, 5000 + n)
                            | failed => (Exc (5000 + n), [TR n t (Some (5000 + n)) failed], 5000 + n) end)
                           = (Exc (5000 + n), [TR n t (Some (5000 + n)) ((a :: r) ++ [finish (k_lr k2)])], 5000 + n))
                by (destruct r; reflexivity).
              cbn [fst snd]. split; [destruct r; reflexivity|]. split; [discriminate|].
              intros e0 He0. injection He0 as <-.
              split; [destruct r; reflexivity|]. split; [destruct r; reflexivity|]. split; [reflexivity|exact Hraised].
        -- cbn [andb]. pose proof (K2 eq_refl) as Hnone.
           assert (E2 : match k_ft k2 with [x] => [x] | l0 => l0 end = k_ft k2) by (destruct (k_ft k2) as [|x [|y r]]; reflexivity).
           rewrite E2.
           split; [destruct (k_ft k2) as [|x [|y r]]; reflexivity|]. split; [discriminate|].
           intros e0 He0. injection He0 as <-.
           split; [|split; [destruct (k_ft k2) as [|x [|y r]]; reflexivity|split; [reflexivity|exact Hraised]]].
           cbn [snd]. rewrite (finish_above_ok (TR n t (Some (5000 + n)) (k_ft k2)) (k_lr k2) (5000 + n) eq_refl Hnone).
           destruct (k_ft k2) as [|x [|y r]]; reflexivity.
      * destruct (K1 eq_refl) as [Hft Hlf]. rewrite Hft. try rewrite Hlf. cbn [fst snd].
        split; [reflexivity|]. split; [discriminate|].
        intros e0 He0. injection He0 as <-. split; [reflexivity|]. split; [reflexivity|]. split; [reflexivity|exact Hraised].
  - (* OrS *)
    destruct Hw as [Hn Hf]. cbn [sids] in Hn, Hf. cbn [chainfree] in Hc. cbn [tdepth] in Hd.
    pose proof (kids_ok_of fuel n l Hc Hd Hn Hf) as Hk.
    destruct l as [|b l].
    + cbn [raw exp or_raw fst snd]. split; [reflexivity|]. split; [intros v _; constructor; [reflexivity|constructor]|discriminate].
    + pose proof (or_sound fuel IH t (b :: l) k0 (flat_map sids (b :: l)) (0, 0) ltac:(discriminate) Hk (incl_refl _) (kstate_k0 _)) as H.
      cbn [k0 k_ft] in H.
      cbn [raw]. change (exp (S fuel) (OrS n (b :: l)) t) with
        (match or_exp (exp fuel) t (b :: l) [] (0, 0) with
         | (Some v, _, _) => (Ret v, [], 0)
         | (None, [one], (e, eb)) => (Exc e, above n t e one eb, e)
         | (None, failed, (e, _)) => (Exc e, [TR n t (Some e) failed], e) end).
      destruct (or_raw (raw fuel) t (b :: l) k0) as [[v|e] k2].
      * destruct H as (Hexp & Hks & Hlf).
        destruct (or_exp (exp fuel) t (b :: l) [] (0, 0)) as [[o fl] lst]. cbn [fst] in Hexp. subst o. cbn [fst snd].
        split; [reflexivity|]. split; [intros v0 _; apply (assemble_all_none n t k2 _ Hks Hlf)|discriminate].
      * destruct H as (Hexp & Hks & Hlf & Hhd & Hra). rewrite Hexp.
        destruct Hks as (K1 & K2 & K3). destruct (K3 Hlf) as (Hhas & ft' & e' & Hft & _ & _).
        assert (Hraised : raised e (sids (OrS n (b :: l)))).
        { eapply raised_incl; [exact Hra|]. cbn [sids]. apply incl_tl. apply incl_refl. }
        unfold assemble. rewrite Hhas, Hlf, Hft. cbn [negb].
        destruct ft' as [|a r].
        -- cbn [app andb fst snd]. rewrite above_same. split; [reflexivity|]. split; [discriminate|].
           intros e0 He0. injection He0 as <-.
           split; [|split; [reflexivity|split; [reflexivity|exact Hraised]]].
           rewrite (finish_same (TR n t (Some e) []) (k_lr k2) e eq_refl Hhd). reflexivity.
        -- assert (E2 : match (a :: r) ++ [finish (k_lr k2)] with [x] => [] | l0 => l0 end = (a :: r) ++ [finish (k_lr k2)])
             by (destruct r; reflexivity).
           rewrite E2.
           assert (E3 : (match (a :: r) ++ [finish (k_lr k2)] with [] => false | _ => true end) = true) by reflexivity.
           rewrite E3. cbn [andb fst snd].
           split; [destruct r; reflexivity|]. split; [discriminate|].
           intros e0 He0. injection He0 as <-.
           split; [destruct r; reflexivity|]. split; [destruct r; reflexivity|]. split; [reflexivity|exact Hraised].
  - (* Guard *)
    destruct Hw as [Hn Hf]. cbn [sids] in Hn, Hf. cbn [chainfree] in Hc. cbn [tdepth] in Hd.
    inversion Hn as [|? ? Hni Hnd]; subst. inversion Hf as [|? ? Hlt Hfl]; subst.
    destruct (IH kid t Hc ltac:(lia) (conj Hnd Hfl)) as (Ho & Hok & Hex).
    cbn [raw exp]. destruct (raw fuel kid t) as [o rk]. destruct (exp fuel kid t) as [[o' tk] ek]. cbn [fst snd] in *. subst o'.
    destruct o as [v|e].
    + pose proof (Hok v eq_refl) as Hnone. destruct ok; cbn [fst snd].
      * split; [reflexivity|]. split; [|discriminate]. intros v0 _.
        unfold assemble, k_ok, k0. cbn [k_has k_ft k_lf k_lr negb andb]. constructor; [reflexivity|exact Hnone].
      * split; [reflexivity|]. split; [discriminate|]. intros e0 He0. injection He0 as <-.
        unfold assemble, k_ok, k0. cbn [k_has k_ft k_lf k_lr negb andb].
        split; [apply (finish_above_ok (TR n t (Some (6000 + n)) []) rk (6000 + n) eq_refl Hnone)|].
        split; [reflexivity|]. split; [reflexivity|]. exists n. split; [left; reflexivity|right; right; reflexivity].
    + destruct (Hex e eq_refl) as (Hfin & -> & Hhd & Hra). cbn [fst snd]. rewrite above_same.
      split; [reflexivity|]. split; [discriminate|]. intros e0 He0. injection He0 as <-.
      unfold assemble, k_fail, k0. cbn [k_has k_ft k_lf k_lr negb andb app].
      split; [rewrite (finish_same (TR n t (Some e) []) rk e eq_refl Hhd); cbn [tr_clear]; rewrite Hfin; reflexivity|].
      split; [reflexivity|]. split; [reflexivity|]. eapply raised_incl; [exact Hra|]. cbn [sids]. apply incl_tl. apply incl_refl.
Qed.

Lemma nonopy_root : nonopy root_store.
Proof. intros [|[|i]]; reflexivity. Qed.

(* the unbounded theorem: any depth, any width *)
Theorem chainfree_reading_lemma s :
  chainfree s = true -> wf s ->
  fst (run s) = fst (expected s) /\ (forall e, fst (run s) = Exc e -> snd (run s) = snd (expected s)).
Proof.
  intros Hc Hw. unfold run, expected.
  destruct (glom_ (S (tdepth s)) root_store 0 root_target s) as [st r] eqn:E.
  destruct (all_good (S (tdepth s)) root_store 0 root_target s st r Hc (Nat.lt_succ_diag_r _) (Nat.lt_0_succ _) nonopy_root E)
    as (Hlen & _ & _ & Hp & _ & Hr & Hrd).
  cbn [List.length root_store] in Hlen, Hp, Hrd.
  destruct (all_sound2 (S (tdepth s)) s root_target Hc (Nat.lt_succ_diag_r _) Hw) as (Ho & _ & Hex).
  destruct (exp (S (tdepth s)) s root_target) as [[o' T] es]. cbn [fst snd] in *.
  split; [rewrite Hr; exact Ho|].
  intros e He. subst r.
  assert (Hlast : f_last (get st 0) = Some 1).
  { rewrite Hp. destruct (fst (raw (S (tdepth s)) s root_target)); reflexivity. }
  rewrite Hlast.
  destruct (List.length st) as [|k] eqn:El; [lia|].
  rewrite render_unfold. rewrite El.
  fold (RD (S k) k st 1).
  rewrite (Hrd st (S k) k (agree_refl _ _ _)) by lia.
  apply (Hex e He).
Qed.

(* non-vacuity: a nest of branches inside branches, four levels deep, meets the hypotheses *)
Definition deep_example : tspec :=
  Alt 1 [Nest 2 [OrS 3 [Guard 4 false (Leaf 5 true); Alt 6 [Leaf 7 false; SkipLeaf 8]]]; Guard 9 true (Nest 10 [Leaf 11 true; Leaf 12 false])].
Lemma deep_example_ok : chainfree deep_example = true /\ wf deep_example.
Proof.
  split; [reflexivity|]. split.
  - repeat (constructor; [cbn; intuition discriminate|]). constructor.
  - repeat (constructor; [apply Nat.ltb_lt; reflexivity|]). constructor.
Qed.
