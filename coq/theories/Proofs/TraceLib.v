(* Proofs/TraceLib.v — C05: what the proofs about the trace share: the presentation steps of _unpack_stack on rendered entries,
   stores, the description of a frame's children (kids) and the entries they give (assemble), list lemmas about push-down and
   trim, occurrence numbering. *)
From Coq Require Import Bool Lia List Arith.
From Glom Require Import Model.Trace Spec.TraceSpec Proofs.TraceProofs.
Import ListNotations.
Local Open Scope list_scope.


(* ---------- the presentation steps of _unpack_stack on rendered entries ---------- *)
Definition toTR (g : nat -> list tr) (en : entry) : tr := TR (e_spec en) (e_target en) (e_err en) (map g (e_branches en)).
Definition tr_err (x : tr) : option nat := match x with TR _ _ e _ => e end.
Definition tr_clear (x : tr) : tr := match x with TR s t _ b => TR s t None b end.
Fixpoint push_down_tr (l : list tr) : list tr :=
  match l with
  | a :: ((b :: _) as r) => (if oeq (tr_err a) (tr_err b) then tr_clear a else a) :: push_down_tr r
  | _ => l end.
Fixpoint trim_rev_tr (l : list tr) : list tr :=
  match l with
  | a :: ((_ :: _) as r) => match tr_err a with None => trim_rev_tr r | Some _ => l end
  | _ => l end.
Definition finish (l : list tr) : list tr := rev (trim_rev_tr (rev (push_down_tr l))).

Lemma push_down_map g : forall l, map (toTR g) (push_down l) = push_down_tr (map (toTR g) l).
Proof.
  induction l as [|a r IH]; [reflexivity|].
  destruct r as [|b r']; [reflexivity|].
  change (push_down (a :: b :: r')) with
    ((if oeq (e_err a) (e_err b) then mkE (e_frame a) (e_spec a) (e_target a) None (e_branches a) else a) :: push_down (b :: r')).
  change (map (toTR g) (a :: b :: r')) with (toTR g a :: toTR g b :: map (toTR g) r').
  change (push_down_tr (toTR g a :: toTR g b :: map (toTR g) r')) with
    ((if oeq (tr_err (toTR g a)) (tr_err (toTR g b)) then tr_clear (toTR g a) else toTR g a) :: push_down_tr (toTR g b :: map (toTR g) r')).
  rewrite map_cons. rewrite IH. cbn [tr_err toTR map].
  destruct (oeq (e_err a) (e_err b)); reflexivity.
Qed.

Lemma trim_rev_map g : forall l, map (toTR g) (trim_rev l) = trim_rev_tr (map (toTR g) l).
Proof.
  induction l as [|a r IH]; [reflexivity|].
  destruct r as [|b r']; [reflexivity|].
  change (trim_rev (a :: b :: r')) with (match e_err a with None => trim_rev (b :: r') | Some _ => a :: b :: r' end).
  change (map (toTR g) (a :: b :: r')) with (toTR g a :: toTR g b :: map (toTR g) r').
  change (trim_rev_tr (toTR g a :: toTR g b :: map (toTR g) r')) with
    (match tr_err (toTR g a) with None => trim_rev_tr (toTR g b :: map (toTR g) r') | Some _ => toTR g a :: toTR g b :: map (toTR g) r' end).
  cbn [tr_err toTR]. destruct (e_err a); [reflexivity|]. exact IH.
Qed.

Lemma render_unfold k st f :
  render (S k) st f = finish (map (toTR (render k st)) (descend (List.length st) st f)).
Proof.
  cbn [render]. unfold unpack, finish.
  change (fun en : entry => TR (e_spec en) (e_target en) (e_err en) (map (render k st) (e_branches en))) with (toTR (render k st)).
  rewrite map_rev, trim_rev_map, map_rev, push_down_map. reflexivity.
Qed.

Definition RD (kd kr : nat) (st : store) (f : nat) : list tr := map (toTR (render kr st)) (descend kd st f).

(* ---------- stores ---------- *)
Definition nonopy (st : store) : Prop := forall i, f_nopy (get st i) = false.
Definition agree (lo hi : nat) (a b : store) : Prop := forall i, lo <= i < hi -> get b i = get a i.
Definition closed (st : store) (lo hi : nat) : Prop :=
  forall i, lo <= i < hi ->
    (forall c, f_last (get st i) = Some c -> i < c < hi) /\ (forall c, In c (f_cerrs (get st i)) -> i < c < hi).

Lemma agree_sub lo hi lo' hi' a b : agree lo hi a b -> lo <= lo' -> hi' <= hi -> agree lo' hi' a b.
Proof. intros H H1 H2 i Hi. apply H. lia. Qed.
Lemma agree_trans lo hi a b c : agree lo hi a b -> agree lo hi b c -> agree lo hi a c.
Proof. intros H1 H2 i Hi. rewrite H2 by exact Hi. apply H1. exact Hi. Qed.
Lemma agree_refl lo hi a : agree lo hi a a.
Proof. intros i _. reflexivity. Qed.

Lemma get_upd_ne st i j g : i <> j -> get (upd st i g) j = get st j.
Proof. intros H. rewrite get_upd. replace (Nat.eqb i j) with false by (symmetry; apply Nat.eqb_neq; exact H). reflexivity. Qed.
Lemma get_upd_eq st i g : i < List.length st -> get (upd st i g) i = g (get st i).
Proof.
  intros H. rewrite get_upd. rewrite Nat.eqb_refl.
  replace (i <? List.length st) with true by (symmetry; apply Nat.ltb_lt; exact H). reflexivity.
Qed.
Lemma get_app_old st l i : i < List.length st -> get (st ++ l) i = get st i.
Proof. intros H. unfold get. apply app_nth1. exact H. Qed.
Lemma get_app_new st x : get (st ++ [x]) (List.length st) = x.
Proof. unfold get. rewrite app_nth2 by lia. rewrite Nat.sub_diag. reflexivity. Qed.
Lemma get_beyond st i : List.length st <= i -> get st i = dummy.
Proof. intros H. unfold get. apply nth_overflow. exact H. Qed.

Lemma nonopy_upd st i g : (forall fr, f_nopy (g fr) = f_nopy fr) -> nonopy st -> nonopy (upd st i g).
Proof.
  intros Hg H j. rewrite get_upd. destruct (Nat.eqb i j); [|apply H].
  destruct (j <? List.length st); [rewrite Hg|]; apply H.
Qed.
Lemma nonopy_app st x : f_nopy x = false -> nonopy st -> nonopy (st ++ [x]).
Proof.
  intros Hx H j. destruct (Nat.lt_ge_cases j (List.length st)) as [L|L].
  - rewrite get_app_old by exact L. apply H.
  - destruct (Nat.eq_dec j (List.length st)) as [->|N]; [rewrite get_app_new; exact Hx|].
    rewrite get_beyond; [reflexivity|]. rewrite app_length. cbn. lia.
Qed.

(* ---------- the structural raw descent ---------- *)

Record kids := mkK { k_ft : list (list tr); k_lf : bool; k_has : bool; k_lr : list tr }.
Definition k0 : kids := mkK [] false false [].
Definition k_ok (k : kids) (rb : list tr) : kids := mkK (k_ft k) false true rb.
Definition k_fail (k : kids) (rb : list tr) : kids := mkK (k_ft k ++ [finish rb]) true true rb.
Definition k_after (k : kids) (r : out) (rb : list tr) : kids := match r with Ret _ => k_ok k rb | Exc _ => k_fail k rb end.

(* the entries at a frame: the failed branches (finished) [ft], whether the child tried last is the last of them [lf], the raw
   descent of that child [lr].  The descent goes on below the frame only into a last child that failed and is not shown as a
   branch; a last child that did not fail ends it. *)
Definition assemble (sid t : nat) (err : option nat) (k : kids) : list tr :=
  if negb (k_has k) then [TR sid t err []] else
  let branches := match k_ft k with [x] => if k_lf k then [] else [x] | l => l end in
  if k_lf k && (match branches with [] => true | _ => false end)
  then TR sid t err branches :: k_lr k else [TR sid t err branches].


Section Raw.
  Variable rec : tspec -> nat -> out * list tr.
  Fixpoint nest_raw (t : nat) (l : list tspec) (k : kids) : option nat * kids :=
    match l with
    | [] => (None, k)
    | x :: r => match rec x t with
                | (Ret v, rx) => nest_raw t r (k_ok k rx)
                | (Exc e, rx) => (Some e, k_fail k rx) end end.
  Fixpoint and_raw (t : nat) (l : list tspec) (k : kids) (last : nat) : out * kids :=
    match l with
    | [] => (Ret last, k)
    | x :: r => match rec x t with
                | (Ret v, rx) => and_raw t r (k_ok k rx) v
                | (Exc e, rx) => (Exc e, k_fail k rx) end end.
  Fixpoint alt_raw (t : nat) (l : list tspec) (k : kids) : option nat * kids :=
    match l with
    | [] => (None, k)
    | b :: r => match rec b t with
                | (Ret v, rb) => if Nat.eqb v 0 then alt_raw t r (k_ok k rb) else (Some v, k_ok k rb)
                | (Exc _, rb) => alt_raw t r (k_fail k rb) end end.
  Fixpoint or_raw (t : nat) (l : list tspec) (k : kids) : out * kids :=
    match l with
    | [] => (Ret t, k)
    | [b] => match rec b t with (Ret v, rb) => (Ret v, k_ok k rb) | (Exc e, rb) => (Exc e, k_fail k rb) end
    | b :: r => match rec b t with (Ret v, rb) => (Ret v, k_ok k rb) | (Exc _, rb) => or_raw t r (k_fail k rb) end end.
End Raw.

Lemma Forall2_weaken {A B} (R R' : A -> B -> Prop) l1 l2 : (forall a b, R a b -> R' a b) -> Forall2 R l1 l2 -> Forall2 R' l1 l2.
Proof. intros H F. induction F; constructor; auto. Qed.
Lemma Forall2_app_one {A B} (R : A -> B -> Prop) l1 l2 a b : Forall2 R l1 l2 -> R a b -> Forall2 R (l1 ++ [a]) (l2 ++ [b]).
Proof. intros H1 H2. apply Forall2_app; [exact H1|]. constructor; [exact H2|constructor]. Qed.


Lemma existsb_eqb_false c l : (forall x, In x l -> x < c) -> existsb (Nat.eqb c) l = false.
Proof.
  intros H. induction l as [|a r IH]; [reflexivity|]. cbn [existsb].
  replace (Nat.eqb c a) with false by (symmetry; apply Nat.eqb_neq; specialize (H a (or_introl eq_refl)); lia).
  apply IH. intros x Hx. apply H. right. exact Hx.
Qed.
Lemma existsb_eqb_last c l : existsb (Nat.eqb c) (l ++ [c]) = true.
Proof. rewrite existsb_app. cbn. rewrite Nat.eqb_refl. apply orb_true_iff. right. reflexivity. Qed.

Lemma Forall2_map_eq {A B} (g : A -> B) l1 l2 : Forall2 (fun a b => g a = b) l1 l2 -> map g l1 = l2.
Proof. intros F. induction F as [|a b l1 l2 H F IH]; [reflexivity|]. cbn. rewrite H, IH. reflexivity. Qed.


Definition err_of (r : out) : option nat := match r with Ret _ => None | Exc e => Some e end.

Lemma depth_in l x : In x l -> tdepth x <= fold_right (fun x acc => Nat.max (tdepth x) acc) 0 l.
Proof.
  induction l as [|a r IH]; intros H; [destruct H|]. cbn [fold_right]. destruct H as [->|H]; [lia|]. specialize (IH H). lia.
Qed.

Definition is_some {A} (o : option A) : bool := match o with Some _ => true | None => false end.
Definition has_err (l : list tr) : bool := existsb (fun x => is_some (tr_err x)) l.
Definition all_none (l : list tr) : Prop := Forall (fun x => tr_err x = None) l.
Definition head_err (l : list tr) : option nat := match l with x :: _ => tr_err x | [] => None end.

Lemma oeq_refl o : oeq o o = true.
Proof. destruct o; [apply Nat.eqb_refl|reflexivity]. Qed.

Lemma tr_clear_none x : tr_err x = None -> tr_clear x = x.
Proof. destruct x as [s t e b]. cbn. intros ->. reflexivity. Qed.

Lemma push_down_none : forall l, all_none l -> push_down_tr l = l.
Proof.
  induction l as [|a r IH]; intros H; [reflexivity|]. destruct r as [|b r']; [reflexivity|].
  inversion H as [|? ? Ha Hr]; subst.
  change (push_down_tr (a :: b :: r')) with ((if oeq (tr_err a) (tr_err b) then tr_clear a else a) :: push_down_tr (b :: r')).
  rewrite IH by exact Hr. rewrite (tr_clear_none a Ha). destruct (oeq _ _); reflexivity.
Qed.

Lemma has_err_cons x l : has_err (x :: l) = is_some (tr_err x) || has_err l.
Proof. reflexivity. Qed.

Lemma push_down_has_err : forall l, has_err l = true -> has_err (push_down_tr l) = true.
Proof.
  induction l as [|a r IH]; intros H; [discriminate|]. destruct r as [|b r']; [exact H|].
  change (push_down_tr (a :: b :: r')) with ((if oeq (tr_err a) (tr_err b) then tr_clear a else a) :: push_down_tr (b :: r')).
  rewrite has_err_cons in H. rewrite has_err_cons.
  destruct (has_err (b :: r')) eqn:Hr.
  - rewrite (IH eq_refl). apply orb_true_r.
  - rewrite orb_false_r in H. rewrite has_err_cons in Hr. apply orb_false_iff in Hr. destruct Hr as [Hb _].
    destruct (tr_err a) as [e|] eqn:Ea; [|discriminate]. destruct (tr_err b); [discriminate|].
    cbn [oeq]. rewrite Ea. reflexivity.
Qed.

Lemma has_err_rev l : has_err (rev l) = has_err l.
Proof.
  unfold has_err. induction l as [|a r IH]; [reflexivity|]. cbn [rev existsb]. rewrite existsb_app, IH. cbn [existsb].
  rewrite orb_false_r. apply orb_comm.
Qed.

Lemma trim_keeps_last : forall m z, has_err m = true -> trim_rev_tr (m ++ [z]) = trim_rev_tr m ++ [z].
Proof.
  induction m as [|x m IH]; intros z H; [discriminate|].
  destruct m as [|y m'].
  - rewrite has_err_cons in H. cbn [has_err existsb] in H. rewrite orb_false_r in H. cbn [app trim_rev_tr].
    destruct (tr_err x); [reflexivity|discriminate].
  - change ((x :: y :: m') ++ [z]) with (x :: y :: (m' ++ [z])).
    change (trim_rev_tr (x :: y :: (m' ++ [z]))) with
      (match tr_err x with None => trim_rev_tr (y :: (m' ++ [z])) | Some _ => x :: y :: (m' ++ [z]) end).
    change (trim_rev_tr (x :: y :: m')) with (match tr_err x with None => trim_rev_tr (y :: m') | Some _ => x :: y :: m' end).
    destruct (tr_err x) eqn:Ex; [reflexivity|].
    apply (IH z). rewrite has_err_cons, Ex in H. exact H.
Qed.

Lemma trim_all_none : forall m z, all_none m -> trim_rev_tr (m ++ [z]) = [z].
Proof.
  induction m as [|x m IH]; intros z H; [reflexivity|]. inversion H as [|? ? Hx Hm]; subst.
  destruct m as [|y m'].
  - cbn [app trim_rev_tr]. rewrite Hx. reflexivity.
  - change ((x :: y :: m') ++ [z]) with (x :: y :: (m' ++ [z])).
    change (trim_rev_tr (x :: y :: (m' ++ [z]))) with
      (match tr_err x with None => trim_rev_tr (y :: (m' ++ [z])) | Some _ => x :: y :: (m' ++ [z]) end).
    rewrite Hx. apply (IH z Hm).
Qed.

Lemma finish_one a : finish [a] = [a].
Proof. reflexivity. Qed.

(* an entry above a failing continuation that carries the same error: the error is shown below only *)
Lemma finish_same a l e : tr_err a = Some e -> head_err l = Some e -> finish (a :: l) = tr_clear a :: finish l.
Proof.
  intros Ha Hl. destruct l as [|b r]; [discriminate|]. cbn [head_err] in Hl.
  unfold finish.
  change (push_down_tr (a :: b :: r)) with ((if oeq (tr_err a) (tr_err b) then tr_clear a else a) :: push_down_tr (b :: r)).
  rewrite Ha, Hl, oeq_refl. cbn [rev].
  rewrite trim_keeps_last.
  - rewrite rev_app_distr. reflexivity.
  - rewrite has_err_rev. apply push_down_has_err. rewrite has_err_cons, Hl. reflexivity.
Qed.

(* ... a different error: both are shown *)
Lemma finish_diff a l e e' : tr_err a = Some e -> head_err l = Some e' -> e <> e' -> finish (a :: l) = a :: finish l.
Proof.
  intros Ha Hl Hne. destruct l as [|b r]; [discriminate|]. cbn [head_err] in Hl.
  unfold finish.
  change (push_down_tr (a :: b :: r)) with ((if oeq (tr_err a) (tr_err b) then tr_clear a else a) :: push_down_tr (b :: r)).
  rewrite Ha, Hl. cbn [oeq]. replace (Nat.eqb e e') with false by (symmetry; apply Nat.eqb_neq; exact Hne). cbn [rev].
  rewrite trim_keeps_last.
  - rewrite rev_app_distr. reflexivity.
  - rewrite has_err_rev. apply push_down_has_err. rewrite has_err_cons, Hl. reflexivity.
Qed.

(* an entry with an error above a descent through frames that did not fail: only the entry remains *)
Lemma finish_above_ok a l e : tr_err a = Some e -> all_none l -> finish (a :: l) = [a].
Proof.
  intros Ha Hl. destruct l as [|b r]; [reflexivity|].
  unfold finish.
  change (push_down_tr (a :: b :: r)) with ((if oeq (tr_err a) (tr_err b) then tr_clear a else a) :: push_down_tr (b :: r)).
  inversion Hl as [|? ? Hb Hr]; subst. rewrite Ha, Hb. cbn [oeq]. rewrite (push_down_none (b :: r) Hl).
  change (rev (a :: b :: r)) with (rev (b :: r) ++ [a]).
  rewrite trim_all_none; [reflexivity|].
  apply Forall_rev. exact Hl.
Qed.

(* spec occurrences are numbered apart, below 1000: then a leaf's error n, a Coalesce's own error 5000 + n and a guard's own
   error 6000 + n are different errors for different occurrences (in glom they are different exception objects) *)
Fixpoint sids (s : tspec) : list nat :=
  match s with
  | Leaf n _ | SkipLeaf n => [n]
  | Nest n l | Chain n l | Alt n l | OrS n l | AltD n l | AndS n l => n :: flat_map sids l
  | Switch n cs => n :: flat_map (fun kv => let '(k, v) := kv in sids k ++ sids v) cs
  | Guard n _ k | NotS n k => n :: sids k end.
Definition wf (s : tspec) : Prop := NoDup (sids s) /\ Forall (fun n => n < 1000) (sids s).
Definition raised (e : nat) (l : list nat) : Prop := exists n, In n l /\ (e = n \/ e = 5000 + n \/ e = 6000 + n).

Lemma raised_incl e l1 l2 : raised e l1 -> incl l1 l2 -> raised e l2.
Proof. intros (n & Hn & He) Hi. exists n. split; [apply Hi; exact Hn|exact He]. Qed.

Lemma nodup_app_parts {A} : forall (l1 l2 : list A), NoDup (l1 ++ l2) -> NoDup l1 /\ NoDup l2.
Proof.
  induction l1 as [|a r IH]; intros l2 H; [split; [constructor|exact H]|].
  cbn [app] in H. inversion H as [|? ? Hni Hnd]; subst. destruct (IH l2 Hnd) as [A1 A2]. split; [|exact A2].
  constructor; [|exact A1]. intros Hin. apply Hni. apply in_or_app. left. exact Hin.
Qed.

Lemma nodup_flat_map {A} (f : A -> list nat) : forall l x, NoDup (flat_map f l) -> In x l -> NoDup (f x).
Proof.
  induction l as [|a r IH]; intros x Hn Hx; [destruct Hx|]. cbn [flat_map] in Hn.
  destruct (nodup_app_parts _ _ Hn) as [A1 A2]. destruct Hx as [->|Hx]; [exact A1|apply (IH x A2 Hx)].
Qed.

Lemma incl_flat_map {A} (f : A -> list nat) l x : In x l -> incl (f x) (flat_map f l).
Proof. intros Hx y Hy. apply in_flat_map. exists x. split; assumption. Qed.

Lemma wf_kids n l : NoDup (n :: flat_map sids l) -> Forall (fun m => m < 1000) (n :: flat_map sids l) ->
  n < 1000 /\ ~ In n (flat_map sids l) /\ (forall x, In x l -> wf x) /\ (forall m, In m (flat_map sids l) -> m < 1000).
Proof.
  intros Hn Hf. inversion Hn as [|? ? Hni Hnd]; subst. inversion Hf as [|? ? Hlt Hfl]; subst.
  split; [exact Hlt|]. split; [exact Hni|]. split.
  - intros x Hx. split; [apply (nodup_flat_map sids l x Hnd Hx)|].
    apply Forall_forall. intros m Hm. rewrite Forall_forall in Hfl. apply Hfl. apply (incl_flat_map sids l x Hx). exact Hm.
  - rewrite Forall_forall in Hfl. exact Hfl.
Qed.


(* the children of a frame so far, seen from the structural side *)
Definition kstate (k : kids) (S : list nat) : Prop :=
  (k_has k = false -> k_ft k = [] /\ k_lf k = false) /\
  (k_lf k = true -> k_has k = true /\ exists ft' e, k_ft k = ft' ++ [finish (k_lr k)] /\ head_err (k_lr k) = Some e /\ raised e S).

Lemma kstate_k0 S : kstate k0 S.
Proof. split; [intros _; split; reflexivity|discriminate]. Qed.

Lemma kstate_ok k S rb : kstate (k_ok k rb) S.
Proof. split; discriminate. Qed.

Lemma kstate_fail k S rb e : head_err rb = Some e -> raised e S -> kstate (k_fail k rb) S.
Proof.
  intros H1 H2. split; [discriminate|]. intros _. split; [reflexivity|].
  exists (k_ft k), e. split; [reflexivity|]. split; assumption.
Qed.

Lemma head_err_assemble sid t err k : head_err (assemble sid t err k) = err.
Proof. unfold assemble. destruct (negb (k_has k)); [reflexivity|]. destruct (k_lf k && _); reflexivity. Qed.


Lemma lit_facts : 1000 <= 5000 /\ 5000 + 1000 <= 6000.
Proof. split; apply Nat.leb_le; vm_compute; reflexivity. Qed.

Lemma raised_own_differs n l e : n < 1000 -> ~ In n l -> (forall m, In m l -> m < 1000) -> raised e l -> 5000 + n <> e.
Proof.
  intros Hn Hni Hl (m & Hm & He). specialize (Hl m Hm). assert (m <> n) by (intros ->; exact (Hni Hm)).
  destruct lit_facts as [L1 L2]. set (A := 5000) in *. set (B := 6000) in *. clearbody A B. lia.
Qed.
