(* Proofs/TraceProofs.v — C05 *)
From Coq Require Import Bool Lia List Arith String Ascii.
From Glom Require Import Model.Trace Spec.TraceSpec.
Import ListNotations.
Local Open Scope list_scope.

(* ---------- _format_trace_value: the width is respected ---------- *)
Lemma take_length : forall n s, String.length (take n s) = Nat.min n (String.length s).
Proof.
  induction n as [|n IH]; intros s; [reflexivity|]. destruct s as [|c r]; [reflexivity|]. cbn. rewrite IH. reflexivity.
Qed.

Lemma append_length : forall a b, String.length (String.append a b) = String.length a + String.length b.
Proof. induction a as [|c a IH]; intros b; cbn; [reflexivity|rewrite IH; reflexivity]. Qed.

Lemma trace_value_width_lemma s suffix maxlen :
  String.length suffix <= maxlen -> String.length (format_trace_value s suffix maxlen) <= maxlen.
Proof.
  intros H. unfold format_trace_value.
  destruct (Nat.ltb_spec maxlen (String.length s)); [|lia].
  replace (maxlen <? String.length suffix) with false by (symmetry; apply Nat.ltb_ge; lia).
  rewrite append_length, take_length. lia.
Qed.

Fixpoint is_prefix (p s : string) : bool :=
  match p, s with
  | EmptyString, _ => true
  | String a p', String b s' => Ascii.eqb a b && is_prefix p' s'
  | _, _ => false end.

Lemma take_is_prefix : forall n s rest, is_prefix (take n s) (String.append s rest) = true.
Proof.
  induction n as [|n IH]; intros s rest; [reflexivity|]. destruct s as [|c r]; [reflexivity|].
  cbn. rewrite Ascii.eqb_refl. apply IH.
Qed.

(* a short value is shown in full; a long one is a prefix of it followed by the suffix *)
Lemma trace_value_shape_lemma s suffix maxlen :
  (String.length s <= maxlen -> format_trace_value s suffix maxlen = s) /\
  (maxlen < String.length s -> exists keep, format_trace_value s suffix maxlen = String.append (take keep s) suffix).
Proof.
  unfold format_trace_value. split; intros H.
  - replace (maxlen <? String.length s) with false by (symmetry; apply Nat.ltb_ge; lia). reflexivity.
  - replace (maxlen <? String.length s) with true by (symmetry; apply Nat.ltb_lt; lia). eexists. reflexivity.
Qed.

(* ---------- frames record the spec occurrence and the target it received, and never change them ---------- *)
Definition ids (f : frame) : nat * nat * nat := (f_spec f, f_target f, f_up f).
Definition keeps (st st' : store) : Prop :=
  List.length st <= List.length st' /\ forall i, i < List.length st -> ids (get st' i) = ids (get st i).

Lemma keeps_refl st : keeps st st.
Proof. split; auto. Qed.
Lemma keeps_trans a b c : keeps a b -> keeps b c -> keeps a c.
Proof. intros [H1 H2] [H3 H4]. split; [lia|]. intros i Hi. rewrite H4 by lia. apply H2. exact Hi. Qed.

Lemma upd_length : forall st i g, List.length (upd st i g) = List.length st.
Proof. induction st as [|f r IH]; intros [|i] g; cbn; auto. Qed.

Lemma get_upd : forall st i j g, get (upd st i g) j = if Nat.eqb i j then (if Nat.ltb j (List.length st) then g (get st j) else get st j) else get st j.
Proof.
  induction st as [|f r IH]; intros i j g.
  - cbn. destruct (Nat.eqb i j); destruct j; reflexivity.
  - destruct i as [|i], j as [|j]; cbn; try reflexivity.
    unfold get in IH. rewrite IH. destruct (Nat.eqb i j); [|reflexivity].
    change (S j <? S (List.length r)) with (j <? List.length r). reflexivity.
Qed.

Lemma upd_keeps st i g : (forall f, ids (g f) = ids f) -> keeps st (upd st i g).
Proof.
  intros Hg. split; [rewrite upd_length; lia|]. intros j Hj. rewrite get_upd.
  destruct (Nat.eqb i j); [|reflexivity]. destruct (j <? List.length st); [apply Hg|reflexivity].
Qed.

Lemma app_keeps st l : keeps st (st ++ l).
Proof. split; [rewrite app_length; lia|]. intros i Hi. unfold get. rewrite app_nth1 by exact Hi. reflexivity. Qed.

Lemma chain_child_keeps st cur : keeps st (fst (chain_child st cur)).
Proof. unfold chain_child. destruct (f_last (get st cur)); [apply upd_keeps; reflexivity|apply keeps_refl]. Qed.

Lemma nopy_walk_keeps : forall fuel st cur e, keeps st (nopy_walk fuel st cur e).
Proof.
  induction fuel as [|fuel IH]; intros st cur e; cbn [nopy_walk]; [apply keeps_refl|].
  destruct (f_nopy (get st cur)); [|apply keeps_refl].
  eapply keeps_trans; [|apply IH].
  eapply keeps_trans; apply upd_keeps; reflexivity.
Qed.

Definition rec_keeps (rec : recfn) : Prop := forall st p t s, keeps st (fst (rec st p t s)).

Section LoopsKeep.
  Variable rec : recfn.
  Hypothesis Hrec : rec_keeps rec.

  Lemma and_loop_keeps : forall kids st f t last, keeps st (fst (and_loop rec st f t kids last)).
  Proof.
    induction kids as [|k r IH]; intros st f t last; cbn [and_loop]; [apply keeps_refl|].
    pose proof (Hrec st f t k) as H. destruct (rec st f t k) as [st1 [v|e]]; cbn in H; [|exact H].
    eapply keeps_trans; [exact H|apply IH].
  Qed.

  Lemma nest_loop_keeps sid : forall kids st f t, keeps st (fst (nest_loop rec sid st f t kids)).
  Proof.
    induction kids as [|k r IH]; intros st f t; cbn [nest_loop]; [apply keeps_refl|].
    pose proof (Hrec st f t k) as H. destruct (rec st f t k) as [st1 [v|e]]; cbn in H.
    - eapply keeps_trans; [exact H|apply IH].
    - exact H.
  Qed.

  Lemma chain_loop_keeps : forall steps st cur res, keeps st (fst (chain_loop rec st cur res steps)).
  Proof.
    induction steps as [|s r IH]; intros st cur res; cbn [chain_loop]; [apply keeps_refl|].
    pose proof (chain_child_keeps st cur) as Hc. destruct (chain_child st cur) as [st0 cur']. cbn in Hc.
    pose proof (Hrec st0 cur' res s) as H. destruct (rec st0 cur' res s) as [st1 [v|e]]; cbn in H.
    - eapply keeps_trans; [exact Hc|]. eapply keeps_trans; [exact H|apply IH].
    - eapply keeps_trans; eassumption.
  Qed.

  Lemma alt_loop_keeps own : forall bs st f t, keeps st (fst (alt_loop rec own st f t bs)).
  Proof.
    induction bs as [|b r IH]; intros st f t; cbn [alt_loop]; [apply keeps_refl|].
    pose proof (Hrec st f t b) as H. destruct (rec st f t b) as [st1 [v|e]]; cbn in H.
    - destruct (Nat.eqb v 0); [eapply keeps_trans; [exact H|apply IH]|exact H].
    - eapply keeps_trans; [exact H|apply IH].
  Qed.

  Lemma or_loop_keeps : forall bs st f t, keeps st (fst (or_loop rec st f t bs)).
  Proof.
    induction bs as [|b r IH]; intros st f t; cbn [or_loop]; [apply keeps_refl|].
    destruct r as [|b2 r2]; [apply Hrec|].
    pose proof (Hrec st f t b) as H. destruct (rec st f t b) as [st1 [v|e]]; cbn in H; [exact H|].
    eapply keeps_trans; [exact H|apply IH].
  Qed.

  Lemma switch_loop_keeps own : forall cs st f t, keeps st (fst (switch_loop rec own st f t cs)).
  Proof.
    induction cs as [|[k v] r IH]; intros st f t; cbn [switch_loop]; [apply keeps_refl|].
    pose proof (Hrec st f t k) as H. destruct (rec st f t k) as [st1 [x|e]]; cbn in H.
    - pose proof (chain_child_keeps st1 f) as Hc. destruct (chain_child st1 f) as [st2 cur']. cbn in Hc.
      eapply keeps_trans; [exact H|]. eapply keeps_trans; [exact Hc|apply Hrec].
    - eapply keeps_trans; [exact H|apply IH].
  Qed.
End LoopsKeep.

Lemma except_keeps st2 p f r :
  keeps st2 (fst (match r with
                  | Ret v => (st2, Ret v)
                  | Exc e =>
                      if same_err (f_err (get st2 p)) e then (upd st2 f (set_err e), Exc e) else
                      let st3 := upd st2 p (add_cerr f) in
                      let st4 := upd st3 f (set_err e) in
                      let st5 := if f_nopy (get st4 p) then nopy_walk (List.length st4) st4 p e else st4 in
                      (st5, Exc e) end)).
Proof.
  destruct r as [v|e]; cbn [fst]; [apply keeps_refl|]. cbv zeta.
  destruct (same_err (f_err (get st2 p)) e); cbn [fst]; [apply upd_keeps; reflexivity|].
  eapply keeps_trans; [apply (upd_keeps st2 p (add_cerr f)); reflexivity|].
  eapply keeps_trans; [apply (upd_keeps (upd st2 p (add_cerr f)) f (set_err e)); reflexivity|].
  destruct (f_nopy _); [apply nopy_walk_keeps|apply keeps_refl].
Qed.

Lemma glom_keeps : forall fuel, rec_keeps (glom_ fuel).
Proof.
  induction fuel as [|fuel IH]; intros st p t s; cbn [glom_]; [apply keeps_refl|].
  set (st1 := upd (st ++ [new_frame s t p]) p (set_last (List.length st))).
  assert (H1 : keeps st st1).
  { eapply keeps_trans; [apply app_keeps|]. apply upd_keeps. reflexivity. }
  assert (Hbody : forall st2 r, keeps st1 st2 ->
            keeps st (fst (match r with
                           | Ret v => (st2, Ret v)
                           | Exc e =>
                               if same_err (f_err (get st2 p)) e then (upd st2 (List.length st) (set_err e), Exc e) else
                               let st3 := upd st2 p (add_cerr (List.length st)) in
                               let st4 := upd st3 (List.length st) (set_err e) in
                               let st5 := if f_nopy (get st4 p) then nopy_walk (List.length st4) st4 p e else st4 in
                               (st5, Exc e) end))).
  { intros st2 r Hk. eapply keeps_trans; [exact H1|]. eapply keeps_trans; [exact Hk|]. apply except_keeps. }
  destruct s as [n ok|n|n kids|n steps|n bs|n bs|n cs|n ok kid|n bs|n kid|n kids].
  - destruct ok; [apply (Hbody st1 (Ret (2000 + n)) (keeps_refl st1)) | apply (Hbody st1 (Exc n) (keeps_refl st1))].
  - apply (Hbody st1 (Ret 0) (keeps_refl st1)).
  - pose proof (nest_loop_keeps (glom_ fuel) IH n kids st1 (List.length st) t) as H.
    destruct (nest_loop (glom_ fuel) n st1 (List.length st) t kids) as [st2 r]. apply Hbody. exact H.
  - pose proof (chain_loop_keeps (glom_ fuel) IH steps st1 (List.length st) t) as H.
    destruct (chain_loop (glom_ fuel) st1 (List.length st) t steps) as [st2 r]. apply Hbody. exact H.
  - pose proof (alt_loop_keeps (glom_ fuel) IH (5000 + n) bs st1 (List.length st) t) as H.
    destruct (alt_loop (glom_ fuel) (5000 + n) st1 (List.length st) t bs) as [st2 r]. apply Hbody. exact H.
  - pose proof (or_loop_keeps (glom_ fuel) IH bs st1 (List.length st) t) as H.
    destruct (or_loop (glom_ fuel) st1 (List.length st) t bs) as [st2 r]. apply Hbody. exact H.
  - pose proof (switch_loop_keeps (glom_ fuel) IH (5000 + n) cs st1 (List.length st) t) as H.
    destruct (switch_loop (glom_ fuel) (5000 + n) st1 (List.length st) t cs) as [st2 r]. apply Hbody. exact H.
  - pose proof (IH st1 (List.length st) t kid) as H.
    destruct (glom_ fuel st1 (List.length st) t kid) as [st2 [v|e]]; cbn [fst] in H;
      [destruct ok; [apply (Hbody st2 (Ret t) H)|apply (Hbody st2 (Exc (6000 + n)) H)]|apply (Hbody st2 (Exc e) H)].
  - pose proof (alt_loop_keeps (glom_ fuel) IH 0 bs st1 (List.length st) t) as H.
    destruct (alt_loop (glom_ fuel) 0 st1 (List.length st) t bs) as [st2 [v|e]]; cbn [fst] in H;
      [apply (Hbody st2 (Ret v) H)|apply (Hbody st2 (Ret (3000 + n)) H)].
  - pose proof (IH st1 (List.length st) t kid) as H.
    destruct (glom_ fuel st1 (List.length st) t kid) as [st2 [v|e]]; cbn [fst] in H;
      [apply (Hbody st2 (Exc (6000 + n)) H)|apply (Hbody st2 (Ret t) H)].
  - pose proof (and_loop_keeps (glom_ fuel) IH kids st1 (List.length st) t t) as H.
    destruct (and_loop (glom_ fuel) st1 (List.length st) t kids t) as [st2 r]. apply Hbody. exact H.
Qed.

(* the frame an evaluation creates names its spec occurrence, the target it was called with and the frame it was called from —
   and keeps naming them whatever happens afterwards *)
Lemma frame_records_entry_lemma fuel st p t s :
  p < List.length st ->
  let st' := fst (glom_ (S fuel) st p t s) in
  List.length st < List.length st' /\ ids (get st' (List.length st)) = (sid_of s, t, p) /\
  (forall i, i < List.length st -> ids (get st' i) = ids (get st i)).
Proof.
  intros Hp st'.
  set (st1 := upd (st ++ [new_frame s t p]) p (set_last (List.length st))).
  assert (Hlen : List.length st1 = S (List.length st)) by (unfold st1; rewrite upd_length, app_length; cbn; lia).
  assert (Hid : ids (get st1 (List.length st)) = (sid_of s, t, p)).
  { unfold st1. rewrite get_upd. replace (Nat.eqb p (List.length st)) with false by (symmetry; apply Nat.eqb_neq; lia).
    unfold get. rewrite app_nth2 by lia. rewrite Nat.sub_diag. reflexivity. }
  assert (Hk : keeps st1 st').
  { unfold st'. cbn [glom_]. fold st1.
    assert (Hbody : forall st2 r, keeps st1 st2 ->
              keeps st1 (fst (match r with
                             | Ret v => (st2, Ret v)
                             | Exc e =>
                                 if same_err (f_err (get st2 p)) e then (upd st2 (List.length st) (set_err e), Exc e) else
                                 let st3 := upd st2 p (add_cerr (List.length st)) in
                                 let st4 := upd st3 (List.length st) (set_err e) in
                                 let st5 := if f_nopy (get st4 p) then nopy_walk (List.length st4) st4 p e else st4 in
                                 (st5, Exc e) end))).
    { intros st2 r Hk2. eapply keeps_trans; [exact Hk2|]. apply except_keeps. }
    destruct s as [n ok|n|n kids|n steps|n bs|n bs|n cs|n ok kid|n bs|n kid|n kids].
    - destruct ok; [apply (Hbody st1 (Ret (2000 + n)) (keeps_refl st1)) | apply (Hbody st1 (Exc n) (keeps_refl st1))].
    - apply (Hbody st1 (Ret 0) (keeps_refl st1)).
    - pose proof (nest_loop_keeps (glom_ fuel) (glom_keeps fuel) n kids st1 (List.length st) t) as H.
      destruct (nest_loop (glom_ fuel) n st1 (List.length st) t kids) as [st2 r]. apply Hbody. exact H.
    - pose proof (chain_loop_keeps (glom_ fuel) (glom_keeps fuel) steps st1 (List.length st) t) as H.
      destruct (chain_loop (glom_ fuel) st1 (List.length st) t steps) as [st2 r]. apply Hbody. exact H.
    - pose proof (alt_loop_keeps (glom_ fuel) (glom_keeps fuel) (5000 + n) bs st1 (List.length st) t) as H.
      destruct (alt_loop (glom_ fuel) (5000 + n) st1 (List.length st) t bs) as [st2 r]. apply Hbody. exact H.
    - pose proof (or_loop_keeps (glom_ fuel) (glom_keeps fuel) bs st1 (List.length st) t) as H.
      destruct (or_loop (glom_ fuel) st1 (List.length st) t bs) as [st2 r]. apply Hbody. exact H.
    - pose proof (switch_loop_keeps (glom_ fuel) (glom_keeps fuel) (5000 + n) cs st1 (List.length st) t) as H.
      destruct (switch_loop (glom_ fuel) (5000 + n) st1 (List.length st) t cs) as [st2 r]. apply Hbody. exact H.
    - pose proof (glom_keeps fuel st1 (List.length st) t kid) as H.
      destruct (glom_ fuel st1 (List.length st) t kid) as [st2 [v|e]]; cbn [fst] in H;
        [destruct ok; [apply (Hbody st2 (Ret t) H)|apply (Hbody st2 (Exc (6000 + n)) H)]|apply (Hbody st2 (Exc e) H)].
    - pose proof (alt_loop_keeps (glom_ fuel) (glom_keeps fuel) 0 bs st1 (List.length st) t) as H.
      destruct (alt_loop (glom_ fuel) 0 st1 (List.length st) t bs) as [st2 [v|e]]; cbn [fst] in H;
        [apply (Hbody st2 (Ret v) H)|apply (Hbody st2 (Ret (3000 + n)) H)].
    - pose proof (glom_keeps fuel st1 (List.length st) t kid) as H.
      destruct (glom_ fuel st1 (List.length st) t kid) as [st2 [v|e]]; cbn [fst] in H;
        [apply (Hbody st2 (Exc (6000 + n)) H)|apply (Hbody st2 (Ret t) H)].
    - pose proof (and_loop_keeps (glom_ fuel) (glom_keeps fuel) kids st1 (List.length st) t t) as H.
      destruct (and_loop (glom_ fuel) st1 (List.length st) t kids t) as [st2 r]. apply Hbody. exact H. }
  destruct Hk as [Hk1 Hk2]. split; [lia|]. split.
  - rewrite Hk2 by lia. exact Hid.
  - intros i Hi. rewrite Hk2 by lia. unfold st1. rewrite get_upd.
    destruct (Nat.eqb p i) eqn:E.
    + rewrite app_length.
      replace (i <? List.length st + List.length [new_frame s t p]) with true by (symmetry; apply Nat.ltb_lt; cbn [List.length]; lia).
      unfold get. rewrite app_nth1 by lia. reflexivity.
    + unfold get. rewrite app_nth1 by lia. reflexivity.
Qed.

(* every entry of _unpack_stack shows a frame's own spec occurrence and target *)
Lemma descend_shows_frames : forall fuel st cur en, In en (descend fuel st cur) ->
  e_spec en = f_spec (get st (e_frame en)) /\ e_target en = f_target (get st (e_frame en)).
Proof.
  induction fuel as [|fuel IH]; intros st cur en H; cbn [descend] in H; [destruct H|].
  destruct (f_last (get st cur)) as [child|].
  - destruct (existsb _ _).
    + destruct H as [<-|[]]. split; reflexivity.
    + destruct (f_err (get st child)).
      * destruct H as [<-|H]; [split; reflexivity|]. apply (IH _ _ _ H).
      * destruct H as [<-|[]]. split; reflexivity.
  - destruct H as [<-|[]]. split; reflexivity.
Qed.

(* ---------- bounded companion: every shape of nesting depth <= 2 with at most two children per node ---------- *)
Lemma bounded_agreement : forallb (fun s => agrees (numbered s)) shapes2 = true.
Proof. vm_compute. reflexivity. Qed.
