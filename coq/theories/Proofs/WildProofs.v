(* Proofs/WildProofs.v — C14: the '**' work list terminates on every heap, expands every location at most
   once, in breadth-first order; entries after a wildcard are independent. *)
From Coq Require Import String ZArith Bool List Lia.
From Glom Require Import Base.PyVal Base.Heap Model.Wild.
Import ListNotations.
Local Open Scope list_scope.

Definition kids (h : heap) (l : nat) : list gval := children h (GR l).
Definition inb (l : nat) (s : list nat) : bool := existsb (Nat.eqb l) s.

Lemma inb_In l s : inb l s = true <-> In l s.
Proof. unfold inb. rewrite existsb_exists. split; [intros [x [H E]]; apply Nat.eqb_eq in E; subst; exact H|intro H; exists l; split; [exact H|apply Nat.eqb_refl]]. Qed.

(* ---------- termination ---------- *)
(* weight of the locations not yet expanded *)
Fixpoint weight (h : heap) (sofar : list nat) (ls : list nat) : nat :=
  match ls with
  | [] => 0
  | l :: r => (if inb l sofar then 0 else S (length (kids h l))) + weight h sofar r end.
Definition W (h : heap) (sofar : list nat) : nat := weight h sofar (seq 0 (length h)).

Lemma weight_mark_out h sofar l ls : ~ In l ls -> weight h (l :: sofar) ls = weight h sofar ls.
Proof.
  induction ls as [|x r IH]; intro H; cbn [weight]; [reflexivity|].
  rewrite IH by (intro; apply H; right; assumption).
  unfold inb at 1. cbn [existsb]. destruct (Nat.eqb_spec x l); [exfalso; apply H; left; auto|]. reflexivity.
Qed.

Lemma weight_mark_in h sofar l ls : NoDup ls -> In l ls -> inb l sofar = false ->
  weight h (l :: sofar) ls + S (length (kids h l)) = weight h sofar ls.
Proof.
  induction ls as [|x r IH]; intros ND Hin Hs; [contradiction|]. inversion ND as [|? ? Hx ND']; subst.
  cbn [weight]. destruct Hin as [->|Hin].
  - rewrite weight_mark_out by exact Hx. unfold inb at 1. cbn [existsb]. rewrite Nat.eqb_refl. cbn [orb]. rewrite Hs. lia.
  - specialize (IH ND' Hin Hs). unfold inb at 1. cbn [existsb].
    destruct (Nat.eqb_spec x l); [subst; contradiction|]. cbn [orb]. fold (inb x sofar). lia.
Qed.

Lemma kids_invalid h l : length h <= l -> kids h l = [].
Proof. intro H. unfold kids, children, node_at. rewrite (proj2 (nth_error_None h l) H). reflexivity. Qed.

Lemma W_mark h sofar l : inb l sofar = false -> W h (l :: sofar) + (if l <? length h then S (length (kids h l)) else 0) = W h sofar.
Proof.
  intro Hs. unfold W. destruct (Nat.ltb_spec l (length h)).
  - apply weight_mark_in; [apply seq_NoDup|apply in_seq; lia|exact Hs].
  - rewrite weight_mark_out; [lia|]. rewrite in_seq. lia.
Qed.

Lemma bfs_terminates_gen h : forall fuel todo sofar acc,
  length todo + W h sofar < fuel -> bfs fuel h todo sofar acc <> None.
Proof.
  induction fuel as [|fuel IH]; intros todo sofar acc Hf; [lia|]. cbn [bfs].
  destruct todo as [|item rest]; [discriminate|]. cbn [length] in Hf.
  destruct (seen sofar item) eqn:Es.
  - apply IH. lia.
  - destruct item as [a|l]; cbn [mark].
    + cbn [children]. rewrite app_nil_r. apply IH. lia.
    + apply IH. rewrite app_length. cbn [seen] in Es. fold (inb l sofar) in Es.
      pose proof (W_mark h sofar l Es) as HW. change (children h (GR l)) with (kids h l).
      destruct (l <? length h) eqn:El; [lia|]. apply Nat.ltb_ge in El. rewrite kids_invalid by lia. cbn [length]. lia.
Qed.

Lemma weight_le h sofar ls : weight h sofar ls <= weight h [] ls.
Proof. induction ls as [|x r IH]; cbn [weight]; [lia|]. destruct (inb x sofar); cbn; lia. Qed.

Lemma children_single h l n : nth_error h l = Some n -> children h (GR l) = children [n] (GR 0).
Proof. intro H. unfold children, node_at. rewrite H. reflexivity. Qed.

Lemma weight_all h : forall base rest, h = base ++ rest ->
  weight h [] (seq (length base) (length rest)) = length rest + edges rest.
Proof.
  intros base rest. revert base. induction rest as [|n r IH]; intros base E; cbn [length seq weight edges fold_right]; [reflexivity|].
  assert (Hn : nth_error h (length base) = Some n) by (subst h; rewrite nth_error_app2 by lia; rewrite Nat.sub_diag; reflexivity).
  unfold kids. rewrite (children_single h _ n Hn).
  specialize (IH (base ++ [n])). rewrite app_length in IH. cbn [length] in IH. replace (length base + 1) with (S (length base)) in IH by lia.
  rewrite IH by (subst h; rewrite <- app_assoc; reflexivity). unfold edges. cbn [inb existsb]. lia.
Qed.

Lemma W_bound h sofar : W h sofar <= length h + edges h.
Proof. unfold W. etransitivity; [apply weight_le|]. pose proof (weight_all h [] h eq_refl) as E. change (length (@nil gnode)) with 0 in E. rewrite E. lia. Qed.

Lemma kids_le_edges h l : length (kids h l) <= edges h.
Proof.
  destruct (nth_error h l) as [n|] eqn:E.
  - unfold kids. rewrite (children_single h l n E). clear -E. revert l E.
    induction h as [|m r IH]; intros [|l] E; cbn in E; try discriminate.
    + injection E as ->. unfold edges. cbn [fold_right]. lia.
    + specialize (IH l E). unfold edges in *. cbn [fold_right]. lia.
  - rewrite kids_invalid by (apply nth_error_None; exact E). cbn. lia.
Qed.

Lemma starstar_terminates_lemma h cur : starstar h cur <> None.
Proof.
  unfold starstar. destruct (bfs (bfs_fuel h) h (children h cur) (mark [] cur) []) eqn:E; [discriminate|].
  exfalso. revert E. apply bfs_terminates_gen. unfold bfs_fuel.
  pose proof (W_bound h (mark [] cur)). destruct cur as [a|l]; [cbn [children length]; lia|].
  pose proof (kids_le_edges h l). change (children h (GR l)) with (kids h l). lia.
Qed.

(* ---------- exactly-once expansion, breadth first ---------- *)
Definition locs (vs : list gval) : list nat :=
  flat_map (fun v => match v with GR l => [l] | GA _ => [] end) vs.
(* first occurrences, in order *)
Fixpoint dedupe_from (seen0 : list nat) (ls : list nat) : list nat :=
  match ls with
  | [] => []
  | l :: r => if inb l seen0 then dedupe_from seen0 r else l :: dedupe_from (l :: seen0) r end.

Lemma locs_app a b : locs (a ++ b) = locs a ++ locs b.
Proof. unfold locs. apply flat_map_app. Qed.

Lemma dedupe_from_app s a b :
  dedupe_from s (a ++ b) = dedupe_from s a ++ dedupe_from (rev (dedupe_from s a) ++ s) b.
Proof.
  revert s. induction a as [|x r IH]; intro s; cbn [dedupe_from app rev]; [reflexivity|].
  destruct (inb x s) eqn:E.
  - apply IH.
  - cbn [app rev]. rewrite IH. f_equal. rewrite <- app_assoc. reflexivity.
Qed.

(* the invariant of the work list *)
Record bfs_inv (h : heap) (cur : gval) (todo : list gval) (sofar : list nat) (acc : list gval) : Prop := {
  inv_nodup : NoDup sofar;
  inv_order : rev sofar = dedupe_from [] (locs (cur :: rev acc));
  inv_seen  : forall l, In l sofar <-> In l (locs (cur :: rev acc));
  inv_queue : rev acc ++ todo = concat (map (kids h) (rev sofar))
}.

Lemma dedupe_snoc_seen s ls l : In l ls \/ In l s -> dedupe_from s (ls ++ [l]) = dedupe_from s ls.
Proof.
  revert s. induction ls as [|x r IH]; intros s H; cbn [app dedupe_from].
  - destruct H as [[]|H]. apply inb_In in H. rewrite H. reflexivity.
  - destruct (inb x s) eqn:E.
    + apply IH. destruct H as [[->|H]|H]; auto. right. apply inb_In. exact E.
    + f_equal. apply IH. destruct H as [[->|H]|H]; [right; left; reflexivity|left; exact H|right; right; exact H].
Qed.

Lemma dedupe_snoc_new s ls l : ~ In l ls -> ~ In l s -> dedupe_from s (ls ++ [l]) = dedupe_from s ls ++ [l].
Proof.
  revert s. induction ls as [|x r IH]; intros s H1 H2; cbn [app dedupe_from].
  - destruct (inb l s) eqn:E; [apply inb_In in E; contradiction|reflexivity].
  - destruct (inb x s) eqn:E.
    + apply IH; [intro; apply H1; right; assumption|exact H2].
    + cbn [app]. f_equal. apply IH; [intro; apply H1; right; assumption|].
      intros [->|H]; [apply H1; left; reflexivity|contradiction].
Qed.

Lemma bfs_inv_step h cur item rest sofar acc :
  bfs_inv h cur (item :: rest) sofar acc ->
  if seen sofar item then bfs_inv h cur rest sofar (item :: acc)
  else bfs_inv h cur (rest ++ children h item) (mark sofar item) (item :: acc).
Proof.
  intros [ND ORD SEEN Q].
  assert (Q' : rev (item :: acc) ++ rest = concat (map (kids h) (rev sofar))).
  { cbn [rev]. rewrite <- app_assoc. exact Q. }
  assert (L : locs (cur :: rev (item :: acc)) = locs (cur :: rev acc) ++ locs [item]).
  { cbn [rev]. change (cur :: rev acc ++ [item]) with ((cur :: rev acc) ++ [item]). apply locs_app. }
  destruct item as [a|l].
  - (* atoms: never seen, never marked, no children *)
    cbn [seen mark children]. rewrite app_nil_r. constructor; auto.
    + rewrite L. cbn [locs flat_map]. rewrite app_nil_r. exact ORD.
    + intro x. rewrite L. cbn [locs flat_map]. rewrite app_nil_r. apply SEEN.
  - cbn [seen mark]. fold (inb l sofar). destruct (inb l sofar) eqn:E.
    + apply inb_In in E. constructor; auto.
      * rewrite L. cbn [locs flat_map app]. rewrite dedupe_snoc_seen; [exact ORD|]. left. apply SEEN. exact E.
      * intro x. rewrite L. cbn [locs flat_map app]. rewrite in_app_iff. cbn [In]. rewrite <- SEEN.
        split; [auto|]. intros [H|[<-|[]]]; auto.
    + assert (N : ~ In l sofar) by (intro H; apply inb_In in H; congruence).
      constructor.
      * constructor; assumption.
      * rewrite L. cbn [rev]. cbn [locs flat_map app]. rewrite dedupe_snoc_new; [rewrite ORD; reflexivity| |intros []].
        intro H. apply N. apply SEEN. exact H.
      * intro x. rewrite L. cbn [locs flat_map app In]. rewrite in_app_iff. cbn [In]. rewrite <- SEEN. tauto.
      * cbn [rev]. rewrite map_app, concat_app. cbn [map concat]. rewrite app_nil_r.
        rewrite <- Q. rewrite <- !app_assoc. reflexivity.
Qed.

Lemma bfs_result h cur : forall fuel todo sofar acc res,
  bfs_inv h cur todo sofar acc -> bfs fuel h todo sofar acc = Some res ->
  exists sofar', bfs_inv h cur [] sofar' (rev res).
Proof.
  induction fuel as [|fuel IH]; intros todo sofar acc res I H; [discriminate|]. cbn [bfs] in H.
  destruct todo as [|item rest].
  - injection H as <-. rewrite rev_involutive. exists sofar. exact I.
  - pose proof (bfs_inv_step h cur item rest sofar acc I) as S. destruct (seen sofar item); eapply IH; eauto.
Qed.

Lemma bfs_inv_init h cur : bfs_inv h cur (children h cur) (mark [] cur) [].
Proof.
  destruct cur as [a|l]; cbn [mark children].
  - constructor; [constructor|reflexivity|intro; cbn; tauto|reflexivity].
  - constructor; [constructor; [intros []|constructor]|reflexivity|intro; cbn; tauto|cbn; rewrite app_nil_r; reflexivity].
Qed.

(* '**' = the value itself, then the children of every location of the result, each location expanded exactly once,
   in order of first occurrence (breadth first) *)
Lemma starstar_is_bfs_once_lemma h cur res :
  starstar h cur = Some res ->
  exists tail order,
    res = cur :: tail /\ NoDup order /\
    order = dedupe_from [] (locs (cur :: tail)) /\
    tail = concat (map (kids h) order).
Proof.
  unfold starstar. destruct (bfs (bfs_fuel h) h (children h cur) (mark [] cur) []) as [tail|] eqn:E; [|discriminate].
  intro H; injection H as <-.
  destruct (bfs_result h cur _ _ _ _ _ (bfs_inv_init h cur) E) as [sofar' [ND ORD SEEN Q]].
  rewrite rev_involutive in *. rewrite app_nil_r in Q.
  exists tail, (rev sofar'). repeat split; auto. apply NoDup_rev. exact ND.
Qed.

(* every reachable value occurs, and only reachable ones *)
Inductive reach (h : heap) : gval -> gval -> Prop :=
| reach_refl v : reach h v v
| reach_step a b c : reach h a b -> In c (children h b) -> reach h a c.

Lemma in_dedupe_iff s ls l : In l (dedupe_from s ls) <-> In l ls /\ ~ In l s.
Proof.
  revert s. induction ls as [|x r IH]; intro s; cbn [dedupe_from In]; [tauto|].
  destruct (inb x s) eqn:E.
  - rewrite IH. apply inb_In in E. split; [tauto|]. intros [[->|H] N]; [contradiction|auto].
  - assert (N : ~ In x s) by (intro H; apply inb_In in H; congruence).
    cbn [In]. rewrite IH. cbn [In]. split.
    + intros [->|[H1 H2]]; [split; [left; reflexivity|exact N]|split; [right; exact H1|intro; apply H2; right; assumption]].
    + intros [[->|H] N2]; [left; reflexivity|].
      destruct (Nat.eq_dec x l) as [->|Hne]; [left; reflexivity|right; split; [exact H|intros [?|?]; contradiction]].
Qed.

Lemma in_locs l vs : In l (locs vs) <-> In (GR l) vs.
Proof. unfold locs. rewrite in_flat_map. split.
  - intros [v [Hv Hl]]. destruct v; cbn in Hl; [contradiction|]. destruct Hl as [->|[]]. exact Hv.
  - intro H. exists (GR l). split; [exact H|left; reflexivity]. Qed.

Lemma starstar_complete_lemma h cur res v : starstar h cur = Some res -> reach h cur v -> In v res.
Proof.
  intros H R. destruct (starstar_is_bfs_once_lemma h cur res H) as (tail & order & -> & ND & ORD & Q).
  induction R as [|a b c R IH Hc]; [left; reflexivity|].
  destruct b as [x|l]; [cbn in Hc; contradiction|].
  right. rewrite Q. apply in_concat. exists (kids h l). split; [|exact Hc].
  apply in_map. rewrite ORD. apply in_dedupe_iff. split; [|intros []]. apply in_locs. apply IH; auto.
Qed.

Lemma bfs_sound h cur : forall fuel todo sofar acc res,
  (forall v, In v todo \/ In v acc -> reach h cur v) ->
  bfs fuel h todo sofar acc = Some res -> forall v, In v res -> reach h cur v.
Proof.
  induction fuel as [|fuel IH]; intros todo sofar acc res R H v Hv; [discriminate|]. cbn [bfs] in H.
  destruct todo as [|item rest].
  - injection H as <-. apply R. right. apply in_rev. exact Hv.
  - assert (Ri : reach h cur item) by (apply R; left; left; reflexivity).
    destruct (seen sofar item).
    + eapply IH; [|exact H|exact Hv]. intros w [Hw|[<-|Hw]]; auto. apply R. left. right. exact Hw.
    + eapply IH; [|exact H|exact Hv]. intros w [Hw|[<-|Hw]]; auto.
      apply in_app_iff in Hw. destruct Hw as [Hw|Hw]; [apply R; left; right; exact Hw|].
      eapply reach_step; eauto.
Qed.

Lemma starstar_sound_lemma h cur res v : starstar h cur = Some res -> In v res -> reach h cur v.
Proof.
  unfold starstar. destruct (bfs (bfs_fuel h) h (children h cur) (mark [] cur) []) as [tail|] eqn:E; [|discriminate].
  intro H; injection H as <-. intros [<-|Hv]; [constructor|].
  eapply (bfs_sound h cur _ _ _ _ _ _ E); eauto.
  Unshelve. intros w [Hw|[]]. eapply reach_step; [constructor|exact Hw].
Qed.

(* ---------- entries after a wildcard are evaluated independently; failing ones are dropped, order kept ---------- *)
Definition keep (r : res wres) : option (option wres) :=
  match r with Ok v => Some (Some v) | Raise e => if is_pae e then Some None else None | _ => None end.

Lemma each_independent rec ks :
  (forall k, In k ks -> keep (rec k) <> None) ->
  each rec ks = Ok (flat_map (fun k => match rec k with Ok v => [v] | _ => [] end) ks).
Proof.
  induction ks as [|k r IH]; intro H; cbn [each flat_map]; [reflexivity|].
  assert (Hk := H k (or_introl eq_refl)). unfold keep in Hk.
  destruct (rec k) as [v|e|t|]; try contradiction.
  - rewrite IH by (intros; apply H; right; assumption). reflexivity.
  - destruct (is_pae e); [|contradiction]. rewrite IH by (intros; apply H; right; assumption). reflexivity.
Qed.

(* every wildcard adds one level of list nesting *)
Fixpoint shape (n : nat) (r : wres) : Prop :=
  match n, r with
  | O, WVal _ => True
  | S n, WList xs => (fix all (l : list wres) := match l with [] => True | x :: r => shape n x /\ all r end) xs
  | _, _ => False end.
Definition wild_count (steps : list wstep) : nat :=
  length (filter (fun s => match s with WP _ => false | _ => true end) steps).

Lemma each_shape n rec : (forall k v, rec k = Ok v -> shape n v) ->
  forall ks vs, each rec ks = Ok vs -> shape (S n) (WList vs).
Proof.
  intros Hr. induction ks as [|k r IH]; intros vs H; cbn [each] in H.
  - injection H as <-. exact I.
  - destruct (rec k) as [v|e|t|] eqn:E; try discriminate.
    + destruct (each rec r) as [ws| | |]; try discriminate. injection H as <-.
      cbn [shape]. split; [eapply Hr; eauto|]. apply (IH ws eq_refl).
    + destruct (is_pae e); [|discriminate]. apply IH. exact H.
Qed.

Lemma wildcards_nest_lists_lemma h steps : forall k cur r, weval h steps k cur = Ok r -> shape (wild_count steps) r.
Proof.
  induction steps as [|s rest IH]; intros k cur r H; cbn [weval] in H.
  - injection H as <-. exact I.
  - destruct s as [seg| |]; unfold wild_count; cbn [filter length]; fold (wild_count rest).
    + destruct (hget h cur seg); try discriminate. eapply IH; eauto.
    + destruct (each (weval h rest 0) (children h cur)) as [vs| | |] eqn:E; try discriminate. injection H as <-.
      eapply each_shape; [|exact E]. intros; eapply IH; eauto.
    + destruct (starstar h cur) as [nxt|]; [|discriminate].
      destruct (each (weval h rest 0) nxt) as [vs| | |] eqn:E; try discriminate. injection H as <-.
      eapply each_shape; [|exact E]. intros; eapply IH; eauto.
Qed.
