(* Properties/C01.v — path access returns the addressed object or pinpoints the failing segment.
   ONLY property theorems, each closed by [exact lemma], with Print Assumptions beneath. *)
From Coq Require Import String ZArith Bool List.
From Glom Require Import Base.PyVal Model.TEval Model.Exc Spec.PathSpec Proofs.TEvalProofs.
Import ListNotations.
Local Open Scope string_scope.
Local Open Scope list_scope.

(* the flat-tuple loop of _t_eval (index i += loop_step from loop_start, part index from the generated
   expression) on Path(s1, ..., sn) is the left fold of the per-type access with a running index *)
Theorem path_refines_access : forall fuel target segs,
  t_eval (S fuel) target (path_of_parts (map PVal segs)) = access segs 0 target.
Proof. exact path_refines_access_lemma. Qed.
Print Assumptions path_refines_access.

(* 'a.b.c' = Path('a', 'b', 'c') for wildcard-free text, whatever PATH_STAR says *)
Theorem text_path_refines_access : forall fuel star target text,
  no_star (split_dots text) ->
  t_eval (S fuel) target (from_text star text) = access (map VStr (split_dots text)) 0 target.
Proof. exact text_path_refines_access_lemma. Qed.
Print Assumptions text_path_refines_access.

(* Path(...) mixing plain segments and T steps is the T expression with the steps concatenated *)
Theorem path_mixture_is_concatenation : forall parts, path_of_parts parts = flat RT (parts_steps parts).
Proof. exact path_of_parts_flat. Qed.
Print Assumptions path_mixture_is_concatenation.

(* success returns the very object stored in the target (same label), reached through the containers *)
Theorem path_returns_identity : forall segs k cur v, access segs k cur = Ok v -> reaches cur v.
Proof. exact path_returns_identity_lemma. Qed.
Print Assumptions path_returns_identity.

(* if segment |pre| is the first that cannot be accessed, the error carries exactly that index and the
   class of the underlying lookup error; the segments after it have no influence on the outcome *)
Theorem path_first_failure : forall pre bad rest target c e,
  access pre 0 target = Ok c -> access1 c (rebuild bad) = Raise e ->
  access (pre ++ bad :: rest) 0 target = Raise (pae (ecls e) (length pre)).
Proof. exact path_first_failure_lemma. Qed.
Print Assumptions path_first_failure.

(* conversely every error raised is a PathAccessError for the first inaccessible segment *)
Theorem path_error_is_first_failure : forall segs k cur e,
  access segs k cur = Raise e ->
  exists pre bad rest c e0, segs = pre ++ bad :: rest /\ access pre k cur = Ok c /\ access1 c (rebuild bad) = Raise e0
                            /\ e = pae (ecls e0) (k + length pre).
Proof. exact access_raise_position. Qed.
Print Assumptions path_error_is_first_failure.

(* PathAccessError is a GlomError and catchable as KeyError, IndexError, AttributeError (regenerated class table) *)
Theorem pae_class_lattice :
  forallb (exc_isa "PathAccessError") ["GlomError"; "KeyError"; "IndexError"; "AttributeError"; "LookupError"; "Exception"] = true.
Proof. exact pae_class_lattice_lemma. Qed.
Print Assumptions pae_class_lattice.

(* non-vacuity: a 4-level mixed target, success and failure at k = 2 *)
Definition ex_target : val :=
  VDict 1 false [(VStr "a", VList 2 [VObj 3 0 [("b", VTuple 4 [VInt 7; VDict 5 true [(VStr "c", VNone)]])]])].
Example ex_success : t_eval 3 ex_target (from_text true "a.0.b.1.c") = Ok VNone.
Proof. vm_compute. reflexivity. Qed.
Example ex_identity : t_eval 3 ex_target (from_text true "a.0.b.1") = Ok (VDict 5 true [(VStr "c", VNone)]).
Proof. vm_compute. reflexivity. Qed.
Example ex_failure_at_2 : t_eval 3 ex_target (from_text true "a.0.zz.1.c") = Raise (pae "AttributeError" 2).
Proof. vm_compute. reflexivity. Qed.
Example ex_hyp_first_failure :
  access [VStr "a"; VStr "0"] 0 ex_target = Ok (VObj 3 0 [("b", VTuple 4 [VInt 7; VDict 5 true [(VStr "c", VNone)]])])
  /\ access1 (VObj 3 0 [("b", VTuple 4 [VInt 7; VDict 5 true [(VStr "c", VNone)]])]) (VStr "zz") = Raise (simple_exn "AttributeError").
Proof. split; vm_compute; reflexivity. Qed.
