(* Properties/C02.v — T expressions replay exactly the recorded operations on the target. *)
From Coq Require Import String ZArith Bool List.
From Glom Require Import Base.PyVal Generated.TOpTable Model.TEval Spec.TSpec Proofs.TEvalProofs Proofs.TSpecProofs.
Import ListNotations.
Local Open Scope string_scope.
Local Open Scope list_scope.

(* recording the operations through the overloads (generated table) and evaluating the flat tuple with
   _t_eval's loop = applying, left to right, the Python operation each overload denotes; nested T
   arguments are evaluated (by glom, at lower fuel) against the ORIGINAL target, other arguments literally *)
Theorem texpr_denotes : forall fuel target ops,
  all_denote ops ->
  exists cells, record ops = Some cells /\ t_eval (S fuel) target cells = replay (t_eval fuel) target ops 0 target.
Proof. exact texpr_denotes_lemma. Qed.
Print Assumptions texpr_denotes.

(* no recorded operation is silently dropped: a successful evaluation applied all of them *)
Theorem texpr_no_drop : forall rec target ops k cur v,
  replay rec target ops k cur = Ok v -> replay_count rec target ops cur = Some (length ops).
Proof. exact replay_count_all. Qed.
Print Assumptions texpr_no_drop.

(* the first failing attribute / item / arithmetic operation k surfaces as PathAccessError(.., k);
   an exception raised by a called object leaves with its own class; a failing argument evaluation propagates *)
Theorem texpr_failure_position : forall rec target ops k cur e,
  replay rec target ops k cur = Raise e ->
  (exists pre d a rest p c ea e0,
      ops = pre ++ (d, a) :: rest /\ denotes d = Some p /\ replay rec target pre k cur = Ok c /\
      arg_val rec target a = Ok ea /\ apply_pyop p c ea = Raise e0 /\
      e = (if failure_is_pae p then pae (ecls e0) (k + length pre) else e0))
  \/ (exists pre d a rest c, ops = pre ++ (d, a) :: rest /\ replay rec target pre k cur = Ok c /\ arg_val rec target a = Raise e).
Proof. exact replay_failure_position. Qed.
Print Assumptions texpr_failure_position.

(* the arguments of a recorded call are evaluated in Python's order: positional arguments left to right, then the keyword
   arguments in the order written; so the first failing positional argument is the failure reported whatever the
   keywords hold, and a keyword argument can only fail once every positional one has a value *)
Theorem call_arguments_in_python_order : forall rec target args kw,
  arg_val rec target (ACall args kw) =
  match eval_pos rec target args with
  | Ok vs => match eval_kws rec target kw with
             | Ok kvs => Ok (ECall vs kvs)
             | Raise e => Raise e | Unmodelled t => Unmodelled t | OutOfFuel => OutOfFuel end
  | Raise e => Raise e | Unmodelled t => Unmodelled t | OutOfFuel => OutOfFuel end.
Proof. exact call_args_order_lemma. Qed.
Print Assumptions call_arguments_in_python_order.

Theorem call_positional_failure_reported_first : forall rec target pre x post kw vs e,
  eval_pos rec target pre = Ok vs -> eval_one rec target x = Raise e ->
  arg_val rec target (ACall (pre ++ x :: post) kw) = Raise e.
Proof. exact call_positional_failure_first_lemma. Qed.
Print Assumptions call_positional_failure_reported_first.

Theorem call_keyword_failure_after_positionals : forall rec target args pre k x post vs kvs e,
  eval_pos rec target args = Ok vs -> eval_kws rec target pre = Ok kvs -> eval_one rec target x = Raise e ->
  arg_val rec target (ACall args (pre ++ (k, x) :: post)) = Raise e.
Proof. exact call_keyword_failure_lemma. Qed.
Print Assumptions call_keyword_failure_after_positionals.

(* obligations about the regenerated tables *)
Theorem overload_dispatch_total_thm :
  forallb (fun dc => code_has_arm (snd dc)) (binary_overloads ++ unary_overloads) = true.
Proof. exact overload_dispatch_total. Qed.
Print Assumptions overload_dispatch_total_thm.
Theorem overload_dispatch_sound : forallb bin_ok bin_dunders = true /\ forallb un_ok un_dunders = true.
Proof. exact (conj overload_dispatch_sound_bin overload_dispatch_sound_un). Qed.
Print Assumptions overload_dispatch_sound.

(* non-vacuity *)
Definition ex_t : val := VDict 1 false [(VStr "a", VList 2 [VInt 7; VInt 9]); (VStr "i", VInt 1)].
Definition ex_ops : list (string * arg) :=
  [("__getitem__", ALit (VStr "a")); ("__getitem__", AT [("__getitem__", ALit (VStr "i"))]);
   ("__floordiv__", ALit (VInt 2)); ("__neg__", ANoArg)].
Example ex_all_denote : all_denote ex_ops.
Proof. intros d a H. cbn in H. repeat (destruct H as [H|H]; [injection H as <- <-; vm_compute; discriminate|]). contradiction. Qed.
Example ex_eval : glom_t ex_t ex_ops = Ok (VInt (-4)).
Proof. vm_compute. reflexivity. Qed.
Example ex_fail : glom_t ex_t [("__getitem__", ALit (VStr "a")); ("__getitem__", ALit (VInt 5)); ("__neg__", ANoArg)] = Raise (pae "IndexError" 1).
Proof. vm_compute. reflexivity. Qed.

Example ex_kw_order : glom_t (VDict 1 false [(VStr "f", VFun FRec); (VStr "p", VInt 1)])
    [("__getitem__", ALit (VStr "f")); ("call", ACall [AT [("__getitem__", ALit (VStr "zz"))]] [("k", AT [("__getitem__", ALit (VStr "qq"))])])]
  = Raise (pae "KeyError" 0).
Proof. vm_compute. reflexivity. Qed.
