(* Properties/C03.v — auto-mode restructuring is compositional in its sub-specs. *)
From Coq Require Import String ZArith Bool List.
From Glom Require Import Base.PyVal Model.TEval Model.Interp Proofs.InterpProofs Proofs.InvokeProofs.
Import ListNotations.
Local Open Scope string_scope.
Local Open Scope list_scope.

(* glom(t, (a, b)) = glom(glom(t, a), b) for every first step a that is not itself a scope binder (it may contain
   binders, mode wrappers, anything): the second step is evaluated exactly as if it stood alone, in the chain's own
   mode; a SKIP result omits the step, STOP ends the chain.  Stated one level down so that both sides run with the
   same fuel; [own] is the chain's own frame. *)
Theorem tuple_compose : forall fuel own sc t a b,
  is_binder a = false -> farg own = false ->
  eqM (chain_loop true (glom_ true (S fuel)) (fmode own) [a; b] (own :: sc) t)
      (let! (v, _) := glom_ true (S fuel) (own :: sc) t a in
       match v with
       | VStop => ret t
       | VSkip => let! (w, _) := glom_ true (S fuel) (own :: sc) t b in ret (keep_if_signal t w)
       | _ => let! (w, _) := glom_ true (S fuel) (own :: sc) v b in ret (keep_if_signal v w) end).
Proof. exact tuple_compose_lemma. Qed.
Print Assumptions tuple_compose.

(* a dict spec: every value spec evaluated once, left to right, on the same target under the same scope; the result
   carries the spec's keys in the spec's order, SKIP results dropped *)
Theorem dict_spec_law : forall rec sc t ks ss acc, length ks = length ss ->
  eqM (dict_loop rec sc t (combine (map SStr ks) ss) acc)
      (let! vs := each_loop rec sc t ss in ret (dict_build ks vs acc)).
Proof. exact dict_spec_law. Qed.
Print Assumptions dict_spec_law.

(* a list spec: the sub-spec mapped over the target's items in order, SKIP dropped, STOP ends the iteration *)
Theorem list_spec_law : forall rec sc sub items acc,
  eqM (list_loop rec sc sub items acc) (let! vs := list_ref rec sc sub items in ret (rev acc ++ vs)).
Proof. exact list_spec_law. Qed.
Print Assumptions list_spec_law.

(* Coalesce: the first alternative that is neither skipped by exception nor by value wins, and the state (call log)
   afterwards is the one right after that alternative — later alternatives are not evaluated *)
Theorem coalesce_first_success : forall rec sc t skip sx pre s post st st1 st2 v f,
  all_skipped rec sc t skip sx pre st st1 ->
  rec sc t s st1 = (Ok (v, f), st2) -> skip_fn skip v = false ->
  coalesce_loop rec sc t (pre ++ s :: post) skip sx st = (Ok (Some v), st2).
Proof. exact coalesce_first_success_lemma. Qed.
Print Assumptions coalesce_first_success.

Theorem coalesce_all_skipped : forall rec sc t skip sx ss st st1,
  all_skipped rec sc t skip sx ss st st1 -> coalesce_loop rec sc t ss skip sx st = (Ok None, st1).
Proof. exact coalesce_all_skipped_lemma. Qed.
Print Assumptions coalesce_all_skipped.

(* the whole interpreter: the outcome of any spec depends on the scope only through the head frame's mode flags and
   the lookup functions — the lemma behind the composition laws *)
Theorem glom_respects_scope : forall fixed fuel, rec_respects (glom_ fixed fuel).
Proof. exact glom_respects_scope. Qed.
Print Assumptions glom_respects_scope.

(* Invoke combines its parts as documented.  (1) positional specs() parts are ONE left-to-right evaluation of all their specs,
   spliced in the order given; (2) a keyword name given again by a later constants() / specs() call is evaluated only there: the
   whole evaluation — result, errors and call log — is the one of the spec with the superseded keyword entries removed, whatever
   stands before, between and after (star parts included) *)
Theorem invoke_positional_parts : forall rec sc t sss accA accK,
  eqM (invoke_loop rec sc t (map (fun ss => (1, ss, [])) sss) accA accK)
      (let! xs := each_loop rec sc t (concat sss) in ret (accA ++ xs, accK)).
Proof. exact invoke_positional_lemma. Qed.
Print Assumptions invoke_positional_parts.

Theorem invoke_later_keyword_wins : forall rec sc t pre tag ss kw r accA accK, tag < 2 ->
  eqM (invoke_loop rec sc t (pre ++ (tag, ss, kw) :: r) accA accK)
      (invoke_loop rec sc t (pre ++ (tag, ss, live_kw (later_names r) kw) :: r) accA accK).
Proof. exact invoke_superseded_lemma. Qed.
Print Assumptions invoke_later_keyword_wins.

(* star parts: the args / kwargs spec is evaluated whenever it is given — nothing about the spec OBJECT (an empty chain is falsy
   to Python) decides that — and the sequence / mapping it evaluates to is spliced in where the part stands *)
Theorem invoke_star_kwargs_spliced : forall rec sc t tag name a r accA accK st i od kvs f st1 l,
  2 <= tag -> rec sc t a st = (Ok (VDict i od kvs, f), st1) -> kw_of_dict kvs = Some l ->
  invoke_loop rec sc t ((tag, [], [(name, a)]) :: r) accA accK st = invoke_loop rec sc t r accA (kw_update accK l) st1.
Proof. exact invoke_star_kwargs_lemma. Qed.
Print Assumptions invoke_star_kwargs_spliced.

Theorem invoke_star_args_spliced : forall rec sc t tag a r accA accK st i xs f st1,
  2 <= tag -> rec sc t a st = (Ok (VList i xs, f), st1) ->
  invoke_loop rec sc t ((tag, [a], []) :: r) accA accK st = invoke_loop rec sc t r (accA ++ xs) accK st1.
Proof. exact invoke_star_args_lemma. Qed.
Print Assumptions invoke_star_args_spliced.

(* non-vacuity *)
Definition ex_t : val := VDict 1 false [(VStr "a", VDict 2 false [(VStr "b", VInt 7)]); (VStr "l", VList 3 [VInt 1; VInt 2; VInt 3])].
Example ex_tuple : fst (glom_top true [] ex_t (STuple [SStr "a"; SStr "b"])) = Ok (VInt 7).
Proof. vm_compute. reflexivity. Qed.
Example ex_dict_skip : fst (glom_top true [] ex_t (SDict false [(SStr "x", SStr "a.b"); (SStr "y", STuple [SStr "l"; SList [SFn FSkipIfOdd]])]))
  = Ok (VDict 0 false [(VStr "x", VInt 7); (VStr "y", VList 0 [VInt 2])]).
Proof. vm_compute. reflexivity. Qed.
(* Invoke(rec).specs(1-probe, a=2-probe).constants(10, b='cb').specs(a=3-probe): 'a' is evaluated once, at its last position *)
Definition ex_invoke : spec :=
  SInvoke (SFn FRec) [(1, [STuple [SFn (FProbe 1); SVal (VInt 1)]], [("a", STuple [SFn (FProbe 2); SVal (VInt 2)])]);
                      (0, [SLit (VInt 10)], [("b", SLit (VStr "cb"))]);
                      (1, [], [("a", STuple [SFn (FProbe 3); SVal (VInt 3)])])].
Example ex_invoke_run :
  let '(r, st) := glom_top true [] (VInt 0) ex_invoke in
  r = Ok (VTuple 0 [VTuple 0 [VInt 1; VInt 10]; VDict 0 false [(VStr "b", VStr "cb"); (VStr "a", VInt 3)]]) /\
  map fst (log st) = [1; 3].
Proof. vm_compute. split; reflexivity. Qed.
Example ex_star_empty_chain : fst (glom_top true [] (VDict 1 false [(VStr "x", VInt 1); (VStr "y", VInt 2)])
    (SInvoke (SFn FRec) [(2, [], [("", STuple [])])]))
  = Ok (VTuple 0 [VTuple 0 []; VDict 0 false [(VStr "x", VInt 1); (VStr "y", VInt 2)]]).
Proof. vm_compute. reflexivity. Qed.
