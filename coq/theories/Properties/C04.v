(* Properties/C04.v — exceptions keep their class; glom failures are GlomErrors; default is selective. *)
From Coq Require Import String ZArith Bool List.
From Glom Require Import Base.PyVal Model.Exc Model.Exit Proofs.ExitProofs.
Import ListNotations.
Local Open Scope string_scope.
Local Open Scope list_scope.

(* For every exception object (any class of the lattice, any constructor behaviour) and every option set: whatever leaves
   glom() is an instance of every class the original exception was an instance of — callers' except clauses keep working *)
Theorem exit_class_preserved : forall o e c, exc_isa (x_cls e) c = true ->
  match exit o e with FDefault | FValue _ => True | f => final_isa e f c = true end.
Proof. exact exit_class_preserved_lemma. Qed.
Print Assumptions exit_class_preserved.

(* ... and when it is a new object it has the original's class name, args and every attribute of the original *)
Theorem exit_args_and_attributes_preserved : forall o e w c a at_,
  exit o e = FNew w c a at_ -> NoDup (map fst (x_attrs e)) ->
  c = x_cls e /\ a = x_args e /\ forall k v, str_assoc k (x_attrs e) = Some v -> str_assoc k at_ = Some v.
Proof. exact exit_args_attrs_lemma. Qed.
Print Assumptions exit_args_and_attributes_preserved.

Theorem exit_is_glomerror_when_recreatable : forall o e attrs,
  exc_isa (x_cls e) "Exception" = true -> x_rebuild e = Some attrs -> o_debug o = false -> exit o e <> FDefault ->
  exists w a at_, exit o e = FNew w (x_cls e) a at_ /\ final_isa e (exit o e) "GlomError" = true.
Proof. exact exit_is_glomerror_lemma. Qed.
Print Assumptions exit_is_glomerror_when_recreatable.

Theorem glomerror_stays_glomerror : forall o e, exc_isa (x_cls e) "GlomError" = true ->
  match exit o e with FDefault | FValue _ => True | f => final_isa e f "GlomError" = true end.
Proof. exact glomerror_stays_lemma. Qed.
Print Assumptions glomerror_stays_glomerror.

(* the default object is returned exactly when a default is in force and the ORIGINAL class matches skip_exc *)
Theorem default_selective : forall o e,
  exit o e = FDefault <-> (exists d, eff_default o = Some d) /\ existsb (exc_isa (x_cls e)) (eff_skip o) = true.
Proof. exact default_selective_lemma. Qed.
Print Assumptions default_selective.

Theorem option_defaults_table : forall o,
  (o_default o = None -> o_skip o = None -> eff_default o = None /\ eff_skip o = []) /\
  (forall d, o_default o = Some d -> o_skip o = None -> eff_default o = Some d /\ eff_skip o = ["GlomError"]) /\
  (forall l, o_default o = None -> o_skip o = Some l -> eff_default o = Some VNone /\ eff_skip o = l) /\
  (forall d l, o_default o = Some d -> o_skip o = Some l -> eff_default o = Some d /\ eff_skip o = l).
Proof. exact option_defaults. Qed.
Print Assumptions option_defaults_table.

Theorem debug_propagates_original : forall o e, o_debug o = true -> exit o e <> FDefault -> exit o e = FSame.
Proof. exact debug_propagates_original_lemma. Qed.
Print Assumptions debug_propagates_original.

Theorem baseexception_passes_untouched : forall o e, exc_isa (x_cls e) "Exception" = false -> exit o e <> FDefault -> exit o e = FSame.
Proof. exact baseexception_untouched_lemma. Qed.
Print Assumptions baseexception_passes_untouched.

(* every class glom raises itself derives from GlomError — an obligation about the table regenerated from the class
   headers of core.py / matching.py / mutation.py / reduction.py on every run *)
Theorem glom_detected_errors_are_GlomErrors :
  forallb (fun p => exc_isa (fst p) "GlomError") Generated.ExcTable.glom_exc_bases = true.
Proof. exact glom_classes_are_GlomErrors. Qed.
Print Assumptions glom_detected_errors_are_GlomErrors.

(* non-vacuity *)
Example ex_wrap : exit (mkO None None false) (mkX "UAttr" [VStr "boom"] [("detail", VInt 3)] (Some [])) =
                  FNew true "UAttr" [VStr "boom"] [("detail", VInt 3)].
Proof. vm_compute. reflexivity. Qed.
Example ex_default_selective :
  exit (mkO (Some VNone) None false) (mkX "ValueError" [] [] (Some [])) <> FDefault /\
  exit (mkO (Some VNone) None false) (mkX "GPlain" [] [] (Some [])) = FDefault /\
  exit (mkO None (Some ["LookupError"]) false) (mkX "UKeySub" [] [] (Some [])) = FDefault.
Proof. vm_compute. repeat split; discriminate. Qed.
Example ex_unrecreatable : exit (mkO None None false) (mkX "UKwOnly" [] [("code", VInt 3)] None) = FSame.
Proof. vm_compute. reflexivity. Qed.
