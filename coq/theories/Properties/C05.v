(* Properties/C05.v — error messages carry a faithful target-spec trace down to the failing spec. *)
From Coq Require Import Bool Lia List Arith String Ascii.
From Glom Require Import Model.Trace Spec.TraceSpec Proofs.TraceProofs Proofs.TraceLib Proofs.TraceFull.
Import ListNotations.
Local Open Scope list_scope.

(* Every frame an evaluation creates records the spec occurrence, the target that spec actually received and the frame it
   was called from, and nothing that happens afterwards (later siblings, chain re-wiring, failure walks, branches) changes
   that — for every spec shape, at every depth, in every store.  The trace is read off these frames. *)
Theorem trace_shows_received_target : forall fuel st p t s,
  p < List.length st ->
  let st' := fst (glom_ (S fuel) st p t s) in
  List.length st < List.length st' /\ ids (get st' (List.length st)) = (sid_of s, t, p) /\
  (forall i, i < List.length st -> ids (get st' i) = ids (get st i)).
Proof. exact frame_records_entry_lemma. Qed.
Print Assumptions trace_shows_received_target.

Theorem trace_entries_are_frames : forall fuel st cur en, In en (descend fuel st cur) ->
  e_spec en = f_spec (get st (e_frame en)) /\ e_target en = f_target (get st (e_frame en)).
Proof. exact descend_shows_frames. Qed.
Print Assumptions trace_entries_are_frames.

(* _format_trace_value never exceeds the width it is given (whenever the width can hold the suffix at all): a value is shown
   in full or as a prefix followed by '...' / '... (len=N)' *)
Theorem trace_value_width : forall s suffix maxlen,
  String.length suffix <= maxlen -> String.length (format_trace_value s suffix maxlen) <= maxlen.
Proof. exact trace_value_width_lemma. Qed.
Print Assumptions trace_value_width.

Theorem trace_value_shape : forall s suffix maxlen,
  (String.length s <= maxlen -> format_trace_value s suffix maxlen = s) /\
  (maxlen < String.length s -> exists keep, format_trace_value s suffix maxlen = String.append (take keep s) suffix).
Proof. exact trace_value_shape_lemma. Qed.
Print Assumptions trace_value_shape.

(* THE GENERAL THEOREM — unbounded, every shape of the model: for EVERY spec built from leaves, dict specs, tuple chains, Coalesce
   (with skipped values, with and without a default that recovers), Or, Switch, Not, And and Check-style guards — any nesting depth, any number of children, every success / failure
   pattern — whose occurrences are numbered apart below 1000 (so that different errors are different numbers, as they are different
   objects in glom), the outcome and the trace the breadcrumb machine renders ARE the structural reading of Spec/TraceSpec.v:
   the spec at every level from the root down to the innermost spec that failed, each with the target it received; for a chain the
   steps already done, in order, their own abandoned branches forgiven; for a branching spec every attempted branch with its own
   failure trace, a single failed attempt that was also the last one as a straight line; a Switch value under its key; each
   error shown where it was raised; a failure that was recovered from (a Coalesce default, a skipped value, an earlier Or branch)
   not in the straight line at all — _unpack_stack goes down only while the frame below still records an error.  The machine side is everything _glom, chain_child, the NO_PYFRAME walk, _unpack_stack do
   (frames re-wired under each other, top frames of finished steps overwritten, the error walking up the marked frames).
   Proofs/TraceFull.v: (1) by induction on the evaluation, with a frame-locality invariant and an exact account of what an
   evaluation does to the frames that existed before it, the raw descent _unpack_stack finds at a frame is a function of the
   spec alone; (2) push-down and trim applied to that function give the reading. *)
Theorem trace_is_structural_reading : forall s,
  wf s -> fst (run s) = fst (expected s) /\ (forall e, fst (run s) = Exc e -> snd (run s) = snd (expected s)).
Proof. exact full_reading_lemma. Qed.
Print Assumptions trace_is_structural_reading.
Example ex_general_hypotheses : wf full_example /\ fst (run full_example) = Exc 5003.
Proof. split; [exact full_example_wf|vm_compute; reflexivity]. Qed.

(* bounded companion, by evaluation (kept as a cross-check of the definitions: it does not need the numbering hypothesis' proof): for EVERY spec shape of nesting depth <= 2 with at most
   two children per node over leaf / dict / chain / Coalesce / Coalesce-with-default / Or / Switch / Check-style guard (152958 shapes, every success / failure pattern
   of the leaves), the trace the breadcrumb machine produces is exactly the structural reading of the property
   (Spec/TraceSpec.v: ancestors in order with the targets received, chain steps done, every attempted branch with its own
   failure trace, abandoned branches absent, errors where they were raised).  The unbounded statement is validated on every
   run by the correspondence, which compares the implementation with both. *)
Theorem trace_is_structural_reading_depth2 : forall s, In s shapes2 -> agrees (numbered s) = true.
Proof. intros s H. exact (proj1 (forallb_forall _ _) bounded_agreement s H). Qed.
Print Assumptions trace_is_structural_reading_depth2.

(* non-vacuity: a recovered branch inside a chain does not leak; all branches of a failing Coalesce are listed *)
Example ex_recovered_branch :
  run (Chain 1 [Alt 2 [Leaf 3 false; Leaf 4 true]; Leaf 5 true; Leaf 6 false])
  = (Exc 6, [TR 1 7 None []; TR 2 7 None []; TR 5 2004 None []; TR 6 2005 (Some 6) []]).
Proof. vm_compute. reflexivity. Qed.
Example ex_branches_listed :
  run (Chain 1 [Leaf 2 true; Alt 3 [Chain 4 [Leaf 5 true; Leaf 6 false]; Chain 7 [Leaf 8 true; Leaf 9 false]]])
  = (Exc 5003, [TR 1 7 None []; TR 2 7 None [];
                TR 3 2002 (Some 5003) [[TR 4 2002 None []; TR 5 2002 None []; TR 6 2005 (Some 6) []];
                                       [TR 7 2002 None []; TR 8 2002 None []; TR 9 2008 (Some 9) []]]]).
Proof. vm_compute. reflexivity. Qed.
(* a guard that refuses after its sub-spec succeeded, recorded as the ONLY failed branch of a Coalesce whose last attempt (a chain
   ending in a skipped value) is a different frame: both appear as they should — the refusal as a branch, the Coalesce's own error on top *)
Example ex_guard_branch :
  run (Alt 1 [Guard 2 false (Leaf 3 true); Chain 4 [SkipLeaf 5]])
  = (Exc 5001, [TR 1 7 (Some 5001) [[TR 2 7 (Some 6002) []]]]).
Proof. vm_compute. reflexivity. Qed.
(* a failure that was recovered from is not in the straight line: the Coalesce below recovered through its default, the chain went on
   and failed later — the trace shows the Coalesce as a finished step and the step that failed, nothing of the recovered branches *)
Example ex_recovered_default :
  run (Chain 1 [AltD 2 [Leaf 3 false; Leaf 4 false]; Leaf 5 false])
  = (Exc 5, [TR 1 7 None []; TR 2 7 None []; TR 5 3002 (Some 5) []]).
Proof. vm_compute. reflexivity. Qed.
(* the last thing evaluated under a failing Coalesce was a chain that ENDED in success (a skipped value) after recovering inside: the
   only failed branch is listed as a branch, and the recovered chain does not appear *)
Example ex_recovered_last_child :
  run (Alt 1 [Leaf 2 false; Chain 3 [AltD 4 [Leaf 5 false]; SkipLeaf 6]])
  = (Exc 5001, [TR 1 7 (Some 5001) [[TR 2 7 (Some 2) []]]]).
Proof. vm_compute. reflexivity. Qed.
(* Not: a sub-spec that failed is forgiven (nothing of it shows when a later step fails); one that passed makes the Not refuse, alone *)
Example ex_not_recovers :
  run (Chain 1 [NotS 2 (Leaf 3 false); Leaf 4 false]) = (Exc 4, [TR 1 7 None []; TR 2 7 None []; TR 4 7 (Some 4) []]).
Proof. vm_compute. reflexivity. Qed.
Example ex_not_refuses :
  run (Alt 1 [NotS 2 (Leaf 3 true); Leaf 4 false])
  = (Exc 5001, [TR 1 7 (Some 5001) [[TR 2 7 (Some 6002) []]; [TR 4 7 (Some 4) []]]]).
Proof. vm_compute. reflexivity. Qed.
(* And: children on the same target, the first failure propagates (the And's frame above it), the value is the last child's *)
Example ex_and_fails :
  run (Chain 1 [AndS 2 [Leaf 3 true; Leaf 4 false; Leaf 5 false]; Leaf 6 true])
  = (Exc 4, [TR 1 7 None []; TR 2 7 None []; TR 4 7 (Some 4) []]).
Proof. vm_compute. reflexivity. Qed.
Example ex_and_value :
  run (Chain 1 [AndS 2 [Leaf 3 true; Leaf 4 true]; Leaf 5 false])
  = (Exc 5, [TR 1 7 None []; TR 2 7 None []; TR 5 2004 (Some 5) []]).
Proof. vm_compute. reflexivity. Qed.
