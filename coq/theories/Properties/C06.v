(* Properties/C06.v — non-mutating specs are pure: outcome independent of history. *)
From Coq Require Import String ZArith Bool List.
From Glom Require Import Base.PyVal Generated.CacheOps Model.Cache Proofs.CacheProofs.
Import ListNotations.
Local Open Scope string_scope.
Local Open Scope list_scope.

Section C06.
  Context {V : Type}.
  Variable create : bool -> string -> V.   (* the Path a text denotes under a PATH_STAR setting *)

  (* whatever the memo holds (as long as it was only ever filled by from_text), from_text returns what create() returns *)
  Theorem path_memo_never_changes_an_answer : forall star c text,
    Inv create c -> fst (from_text create path_cache_max star c text) = create star text /\
                    Inv create (snd (from_text create path_cache_max star c text)).
  Proof. intros star c text H. split; [apply from_text_pure | apply from_text_inv]; exact H. Qed.

  (* entries are never replaced or evicted, and a table stops growing one entry past _MAX_CACHE (the code tests
     len(cache) > _MAX_CACHE before storing): warming or overflowing the cache changes no answer and the memory is bounded *)
  Theorem path_memo_monotone : forall star c text star' text' p,
    str_assoc text' (sel star' c) = Some p ->
    str_assoc text' (sel star' (snd (from_text create path_cache_max star c text))) = Some p.
  Proof. exact (from_text_monotone create path_cache_max). Qed.

  Theorem path_memo_bounded : forall star c text star',
    (Z.of_nat (List.length (sel star' c)) <= path_cache_max + 1)%Z ->
    (Z.of_nat (List.length (sel star' (snd (from_text create path_cache_max star c text)))) <= path_cache_max + 1)%Z.
  Proof. exact (from_text_bounded create path_cache_max). Qed.

  (* a call is any program that consults the memo any number of times; in ANY history of calls under ANY sequence of
     PATH_STAR settings, started from a fresh interpreter, every call returns what it returns with no memo at all *)
  Theorem history_independence : forall A (h : list (bool * prog A)),
    fst (run_history create path_cache_max empty h) = map (fun sp => run_pure create (fst sp) (snd sp)) h.
  Proof. intros A h. apply (history_independence_lemma create path_cache_max h empty (empty_inv create)). Qed.

  Theorem call_position_irrelevant : forall A (h1 h2 h1' h2' : list (bool * prog A)) star p,
    nth_error (fst (run_history create path_cache_max empty (h1 ++ (star, p) :: h2))) (List.length h1) =
    nth_error (fst (run_history create path_cache_max empty (h1' ++ (star, p) :: h2'))) (List.length h1').
  Proof. intros A. exact (call_position_irrelevant_lemma create path_cache_max). Qed.
End C06.
Print Assumptions path_memo_never_changes_an_answer.
Print Assumptions path_memo_monotone.
Print Assumptions path_memo_bounded.
Print Assumptions history_independence.
Print Assumptions call_position_irrelevant.

(* non-vacuity: a history that hits, misses, toggles PATH_STAR and overflows a (small) table *)
Example ex_history :
  let create := fun (star : bool) (t : string) => (star, t) in
  let '(l, c) := run_history create 1 empty
     [(true, Ask "a" (fun p => Ret p)); (false, Ask "a" (fun p => Ret p)); (true, Ask "b" (fun _ => Ask "c" (fun p => Ret p)));
      (true, Ask "d" (fun p => Ret p)); (true, Ask "a" (fun p => Ret p))] in
  l = [(true, "a"); (false, "a"); (true, "c"); (true, "d"); (true, "a")] /\ map fst (c_star c) = ["a"; "b"] /\ map fst (c_plain c) = ["a"].
Proof. vm_compute. repeat split. Qed.
