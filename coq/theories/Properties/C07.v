(* Properties/C07.v — scope bindings are lexically scoped, chain forward, never outlive the call. *)
From Coq Require Import String ZArith Bool List.
From Glom Require Import Base.PyVal Model.TEval Model.Interp Proofs.InterpProofs.
Import ListNotations.
Local Open Scope string_scope.
Local Open Scope list_scope.

(* non-interference: two scopes that agree on the head frame's mode flags and on every lookup are indistinguishable for
   every spec — so a binder can influence a reader only through the frames on the reader's scope chain, which the
   handlers build as: the frames of the enclosing specs, plus (chain_child) the final frames of the earlier steps of the
   enclosing tuples / Pipes (and of the Switch / match-dict key for its own value spec) *)
Theorem scope_noninterference : forall fixed fuel, rec_respects (glom_ fixed fuel).
Proof. exact glom_respects_scope. Qed.
Print Assumptions scope_noninterference.

(* S(k=Val v) followed by S.k in the same chain yields v *)
Theorem binding_chains_forward : forall fuel own sc t k v st,
  k <> "globals" -> not_signal t -> not_signal v ->
  chain_loop true (glom_ true (S (S fuel))) (fmode own) [SBind [(k, SVal v)]; ST RS [(".", SStr k)]] (own :: sc) t st = (Ok v, st).
Proof. exact binding_chains_forward_lemma. Qed.
Print Assumptions binding_chains_forward.

(* a reader sees the nearest binding on its scope chain (inner shadows outer) or fails with PathAccessError(KeyError, 0) *)
Theorem reader_sees_nearest_binding : forall fixed fuel sc t k st, k <> "globals" ->
  glom_ fixed (S fuel) sc t (ST RS [(".", SStr k)]) st
  = match lookup k sc with
    | Some v => (Ok (v, mkFrame [] (head_mode sc) false []), st)
    | None => (Raise (pae "KeyError" 0), st) end.
Proof. exact eval_read. Qed.
Print Assumptions reader_sees_nearest_binding.

(* the final frame of any spec that is not itself a binder carries no bindings: whatever was bound inside it (nested
   tuples, dict values, branches ...) is invisible to the enclosing spec and to later steps *)
Theorem nonbinder_leaves_no_bindings : forall fixed rec sc t s st v child st',
  glom_body fixed rec sc t s st = (Ok (v, child), st') -> is_binder s = false -> binds child = [] /\ frefs child = [].
Proof. intros fixed rec sc t s st v child st' H NB. exact (proj2 (glom_body_frame fixed rec sc t s st v child st' H) NB). Qed.
Print Assumptions nonbinder_leaves_no_bindings.

(* sibling dict values (and list elements, Coalesce / And / Or branches: see their loops) are evaluated under the same
   scope: a binding made in one is not visible in the next *)
Theorem dict_values_share_scope : forall rec sc t ks ss acc, length ks = length ss ->
  eqM (dict_loop rec sc t (combine (map SStr ks) ss) acc)
      (let! vs := each_loop rec sc t ss in ret (dict_build ks vs acc)).
Proof. exact dict_spec_law. Qed.
Print Assumptions dict_values_share_scope.

(* non-vacuity, and the shapes of test_scope_vars: the inner binding does not leak *)
Definition ex_t : val := VDict 1 false [(VStr "a", VInt 1)].
Example ex_no_leak :
  fst (glom_top true [] ex_t (STuple [SBind [("k", SVal (VStr "outer"))]; STuple [SBind [("k", SVal (VStr "inner"))]]; ST RS [(".", SStr "k")]]))
  = Ok (VStr "outer").
Proof. vm_compute. reflexivity. Qed.
Example ex_sibling :
  fst (glom_top true [] ex_t (SDict false [(SStr "x", SBind [("k", SVal (VInt 5))]); (SStr "y", ST RS [(".", SStr "k")])]))
  = Raise (pae "KeyError" 0).
Proof. vm_compute. reflexivity. Qed.
Example ex_user_scope : fst (glom_top true [("u", VInt 9)] ex_t (ST RS [(".", SStr "u")])) = Ok (VInt 9).
Proof. vm_compute. reflexivity. Qed.
