(* Properties/C08.v — modes apply exactly to the wrapped spec; Fill and argument mode keep shape. *)
From Coq Require Import String ZArith Bool List.
From Glom Require Import Base.PyVal Model.TEval Model.Interp Proofs.InterpProofs.
Import ListNotations.
Local Open Scope string_scope.
Local Open Scope list_scope.

(* a mode wrapper in a chain affects its own step only: (w, b) evaluates b exactly as glom(glom(t, w), b) does, in the
   chain's own mode, whatever mode w switched to inside (Fill, Auto, Match are not binders) *)
Theorem mode_ends_with_its_wrapper : forall fuel own sc t w b,
  (exists s, w = SFill s \/ w = SAuto s \/ exists d, w = SMatch s d) -> farg own = false ->
  eqM (chain_loop true (glom_ true (S fuel)) (fmode own) [w; b] (own :: sc) t)
      (let! (v, _) := glom_ true (S fuel) (own :: sc) t w in
       match v with
       | VStop => ret t
       | VSkip => let! (x, _) := glom_ true (S fuel) (own :: sc) t b in ret (keep_if_signal t x)
       | _ => let! (x, _) := glom_ true (S fuel) (own :: sc) v b in ret (keep_if_signal v x) end).
Proof.
  intros fuel own sc t w b [s [->|[->|[d ->]]]] Ha; apply tuple_compose_lemma; auto.
Qed.
Print Assumptions mode_ends_with_its_wrapper.

(* the law is FALSE for the pinned chain_child (MODE copied from the previous link): the Coq image of the defect *)
Theorem mode_leak_refuted_on_pinned :
  exists t w b, fst (glom_top false [] t (STuple [w; b]))
             <> match fst (glom_top false [] t w) with Ok v => fst (glom_top false [] v b) | r => r end.
Proof.
  exists (VDict 1 false [(VStr "a", VStr "one")]), (SFill (ST RT [])), (SStr "a"). vm_compute. discriminate.
Qed.
Print Assumptions mode_leak_refuted_on_pinned.

(* inside a wrapper everything is evaluated in the wrapper's mode: the child frame inherits the parent's mode *)
Theorem wrapper_sets_mode_for_subspec : forall fixed rec sc t s,
  glom_body fixed rec sc t (SFill s)
  = (let own' := mkFrame [] FILL false [] in let! (v, _) := rec (own' :: sc) t s in ret (v, own')).
Proof. exact wrapper_sets_mode. Qed.
Print Assumptions wrapper_sets_mode_for_subspec.

(* Fill mode and argument position rebuild containers with the same type and length ... *)
Theorem fill_keeps_list_shape : forall fixed rec sc t ss st v f st',
  head_arg sc = false -> head_mode sc = FILL ->
  glom_body fixed rec sc t (SList ss) st = (Ok (v, f), st') -> exists vs, v = VList 0 vs /\ length vs = length ss.
Proof. exact fill_list_shape. Qed.
Print Assumptions fill_keeps_list_shape.
Theorem fill_keeps_tuple_shape : forall fixed rec sc t ss st v f st',
  head_arg sc = false -> head_mode sc = FILL ->
  glom_body fixed rec sc t (STuple ss) st = (Ok (v, f), st') -> exists vs, v = VTuple 0 vs /\ length vs = length ss.
Proof. exact fill_tuple_shape. Qed.
Print Assumptions fill_keeps_tuple_shape.
Theorem argmode_keeps_list_shape : forall fixed rec sc t ss st v f st',
  head_arg sc = true ->
  glom_body fixed rec sc t (SList ss) st = (Ok (v, f), st') -> exists vs, v = VList 0 vs /\ length vs = length ss.
Proof. exact arg_list_shape. Qed.
Print Assumptions argmode_keeps_list_shape.

(* ... strings are literals in both, callables are literals in argument position *)
Theorem fill_strings_are_literal : forall fixed rec sc t k st, head_arg sc = false -> head_mode sc = FILL ->
  fst (glom_body fixed rec sc t (SStr k) st) = Ok (VStr k, mkFrame [] FILL false []).
Proof. exact fill_string_literal. Qed.
Print Assumptions fill_strings_are_literal.
Theorem argmode_strings_are_literal : forall fixed rec sc t k st, head_arg sc = true ->
  fst (glom_body fixed rec sc t (SStr k) st) = Ok (VStr k, mkFrame [] (head_mode sc) true []).
Proof. exact arg_string_literal. Qed.
Print Assumptions argmode_strings_are_literal.
Theorem argmode_callables_are_literal : forall fixed rec sc t g st, head_arg sc = true ->
  fst (glom_body fixed rec sc t (SFn g) st) = Ok (VFun g, mkFrame [] (head_mode sc) true []).
Proof. exact arg_callable_literal. Qed.
Print Assumptions argmode_callables_are_literal.

(* non-vacuity *)
Definition ex_t : val := VDict 1 false [(VStr "a", VStr "one")].
Example ex_fixed : fst (glom_top true [] ex_t (STuple [SFill (ST RT []); SStr "a"])) = Ok (VStr "one").
Proof. vm_compute. reflexivity. Qed.
Example ex_fill : fst (glom_top true [] ex_t (SFill (STuple [SStr "a"; ST RT [("[", SStr "a")]]))) = Ok (VTuple 0 [VStr "a"; VStr "one"]).
Proof. vm_compute. reflexivity. Qed.
