(* Properties/C09.v — Match succeeds exactly on conforming targets and returns them unchanged. *)
From Coq Require Import String ZArith Bool List.
From Glom Require Import Base.PyVal Model.TEval Model.Exc Model.Interp Proofs.InterpProofs Proofs.MatchProofs.
Import ListNotations.
Local Open Scope string_scope.
Local Open Scope list_scope.

(* [mres p v] is the documented rule set written as a structural recursion on the pattern (Some r: v conforms and r is
   returned).  For every pattern built from == constants, types (isinstance), lists (each item against the first
   accepting alternative), tuples (positionally, same length) and dicts (every target key, in the target's order, against
   the FIRST spec key that accepts it — an == constant, a type, Required(type) or Optional(constant) — its value against
   that entry's value pattern with no fall-through; Optional defaults filled in; every required key must have accepted
   some target key), at any nesting; every target (whose dict keys are hashable, as every Python dict's are), every scope in
   match mode and any sufficient fuel: the evaluation leaves the state untouched, returns r when the target conforms and
   raises MatchError / TypeMatchError when it does not — soundness and completeness at once.
   Outside this pattern language (and covered by the correspondence only): callables, Regex and the And / Or / Not / M
   combinators as sub-patterns (their own laws are C10's), set patterns. *)
Theorem match_decides_conformance : forall fixed p fuel sc v st,
  pdepth p < fuel -> keys_hashable v = true -> head_mode sc = MATCH -> head_arg sc = false ->
  decides (glom_ fixed fuel sc v (to_spec p)) st (mres p v).
Proof. exact match_decides_lemma. Qed.
Print Assumptions match_decides_conformance.

(* dict patterns: per target key the spec keys are tried in spec order and the first accepting one selects the value spec *)
Theorem dict_key_first_match : forall rec own sc key value pre k vs post i st st1 key' child st2,
  speckeys_rejected rec own sc key pre st st1 -> rec (own :: sc) key (spec_key k) st1 = (Ok (key', child), st2) ->
  match_key_loop true rec own sc key value (pre ++ (k, vs) :: post) i st
  = (let! (v, _) := rec (set_mode (fmode own) child :: own :: sc) value vs in ret (Some (i + length pre, key', v))) st2.
Proof. exact match_key_first. Qed.
Print Assumptions dict_key_first_match.

Theorem dict_key_no_match : forall rec own sc key value es i st st1,
  speckeys_rejected rec own sc key es st st1 -> match_key_loop true rec own sc key value es i st = (Ok None, st1).
Proof. exact match_key_none. Qed.
Print Assumptions dict_key_no_match.

Theorem required_key_rules : forall k v ty s d,
  is_required (SStr k) = true /\ is_required (SLit v) = true /\ is_required (SType ty) = false /\
  is_required (SOptional v d) = false /\ is_required (SRequired s) = true /\ is_required SM = false.
Proof. exact required_rules. Qed.
Print Assumptions required_key_rules.

(* MatchError is a GlomError; TypeMatchError is a MatchError and a TypeError (regenerated class table) *)
Theorem match_error_classes :
  exc_isa "MatchError" "GlomError" = true /\ exc_isa "TypeMatchError" "MatchError" = true /\
  exc_isa "TypeMatchError" "TypeError" = true /\ exc_isa "CheckError" "GlomError" = true.
Proof. exact match_error_lattice. Qed.
Print Assumptions match_error_classes.

(* non-vacuity *)
Definition ex_p : pat := PList [PTuple [PType TyInt; PLit (VStr "a")]; PType TyStr].
Definition ex_good : val := VList 1 [VTuple 2 [VInt 3; VStr "a"]; VStr "z"].
Definition ex_bad : val := VList 1 [VTuple 2 [VInt 3; VStr "b"]].
Example ex_conforms : mres ex_p ex_good = Some (VList 0 [VTuple 0 [VInt 3; VStr "a"]; VStr "z"]).
Proof. vm_compute. reflexivity. Qed.
Example ex_rejects : mres ex_p ex_bad = None.
Proof. vm_compute. reflexivity. Qed.
Example ex_run : fst (glom_top true [] ex_good (SMatch (to_spec ex_p) None)) = Ok (VList 0 [VTuple 0 [VInt 3; VStr "a"]; VStr "z"]).
Proof. vm_compute. reflexivity. Qed.
(* a dict pattern: 'id' required, any other string key must hold an int, Optional('n') defaults to 0; spec order decides *)
Definition ex_d : pat := PDict [(KLit (VStr "id"), PType TyStr); (KOpt (VStr "n") (Some (VInt 0)), PType TyInt); (KType TyStr, PType TyInt)].
Example ex_dict_conforms : mres ex_d (VDict 1 false [(VStr "x", VInt 5); (VStr "id", VStr "k")])
  = Some (VDict 0 false [(VStr "x", VInt 5); (VStr "id", VStr "k"); (VStr "n", VInt 0)]).
Proof. vm_compute. reflexivity. Qed.
Example ex_dict_missing_required : mres ex_d (VDict 1 false [(VStr "x", VInt 5)]) = None.
Proof. vm_compute. reflexivity. Qed.
Example ex_dict_no_fallthrough : mres ex_d (VDict 1 false [(VStr "id", VInt 3)]) = None.      (* 'id' is claimed by the literal key: str required *)
Proof. vm_compute. reflexivity. Qed.
Example ex_dict_run : fst (glom_top true [] (VDict 1 false [(VStr "x", VInt 5); (VStr "id", VStr "k")]) (SMatch (to_spec ex_d) None))
  = Ok (VDict 0 false [(VStr "x", VInt 5); (VStr "id", VStr "k"); (VStr "n", VInt 0)]).
Proof. vm_compute. reflexivity. Qed.
