(* placeholder; theorems follow *)
From Coq Require Import String List.
From Glom Require Import Base.PyVal Model.Interp.
Theorem head_mode_nil_C10 : head_mode nil = AUTO.
Proof. reflexivity. Qed.
Print Assumptions head_mode_nil_C10.
