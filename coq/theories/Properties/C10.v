(* Properties/C10.v — M, And, Or, Not, Switch and Check decide like the boolean expressions denoted. *)
From Coq Require Import String ZArith Bool List.
From Glom Require Import Base.PyVal Model.TEval Model.Exc Model.Interp Proofs.InterpProofs Proofs.MatchProofs.
Import ListNotations.
Local Open Scope string_scope.
Local Open Scope list_scope.

(* And passes iff all children pass, yielding the last result ... *)
Theorem and_yields_last : forall rec sc t ss res st res' st',
  all_pass rec sc t ss res st res' st' -> and_loop rec sc t ss res st = (Ok res', st').
Proof. exact and_all_pass. Qed.
Print Assumptions and_yields_last.
(* ... and stops at the first failing child (the children after it are not evaluated) *)
Theorem and_stops_at_first_failure : forall rec sc t pre s post res st v st1 e st2,
  all_pass rec sc t pre res st v st1 -> rec sc t s st1 = (Raise e, st2) ->
  and_loop rec sc t (pre ++ s :: post) res st = (Raise e, st2).
Proof. exact and_first_failure. Qed.
Print Assumptions and_stops_at_first_failure.

(* Or yields the first passing child's result without evaluating later children; it fails iff all are rejected *)
Theorem or_yields_first_passing : forall rec sc t pre s post st st1 v f st2,
  all_rejected rec sc t pre st st1 -> rec sc t s st1 = (Ok (v, f), st2) ->
  or_loop rec sc t (pre ++ s :: post) st = (Ok v, st2).
Proof. exact or_first_pass. Qed.
Print Assumptions or_yields_first_passing.
Theorem or_fails_iff_all_rejected : forall rec sc t pre s st st1 e st2,
  all_rejected rec sc t pre st st1 -> rec sc t s st1 = (Raise e, st2) ->
  or_loop rec sc t (pre ++ [s]) st = (Raise e, st2).
Proof. exact or_all_rejected. Qed.
Print Assumptions or_fails_iff_all_rejected.

(* Not inverts, yields the target, and its own rejection is a MatchError *)
Theorem not_yields_target : forall fixed rec sc t s st,
  glom_body fixed rec sc t (SNot s) st =
  match rec (mkFrame [] (head_mode sc) false [] :: sc) t s st with
  | (Ok _, st') => (Raise (simple_exn "MatchError"), st')
  | (Raise e, st') => if is_glom_error e then (Ok (t, mkFrame [] (head_mode sc) false []), st') else (Raise e, st')
  | (Unmodelled u, st') => (Unmodelled u, st')
  | (OutOfFuel, st') => (OutOfFuel, st') end.
Proof. exact not_inverts. Qed.
Print Assumptions not_yields_target.

(* M op c passes exactly when the Python comparison is true (returning the target), otherwise MatchError *)
Theorem m_comparison_decides : forall fixed rec sc t op c st,
  glom_body fixed rec sc t (SMExpr SM op (SLit c)) st =
  match m_compare op t c with
  | Ok true => (Ok (t, mkFrame [] (head_mode sc) false []), st)
  | Ok false => (Raise (simple_exn "MatchError"), st)
  | Raise e => if String.eqb (ecls e) "TypeError" then (Raise (simple_exn "MatchError"), st) else (Raise e, st)
  | Unmodelled u => (Unmodelled u, st)
  | OutOfFuel => (OutOfFuel, st) end.
Proof. exact m_expr_decides. Qed.
Print Assumptions m_comparison_decides.
Theorem m_alone_is_truthiness : forall fixed rec sc t st,
  glom_body fixed rec sc t SM st =
  if truthy t then (Ok (t, mkFrame [] (head_mode sc) false []), st) else (Raise (simple_exn "MatchError"), st).
Proof. exact m_truthy_decides. Qed.
Print Assumptions m_alone_is_truthiness.

(* Switch evaluates only the value spec of the first case whose key passes; no passing key is a MatchError (None here) *)
Theorem switch_first_matching_case_only : forall rec own sc t pre k v post st st1 x child st2,
  keys_rejected rec own sc t pre st st1 -> rec (own :: sc) t k st1 = (Ok (x, child), st2) ->
  switch_loop true rec own sc t (pre ++ (k, v) :: post) st
  = (let! (res, _) := rec (set_mode (fmode own) child :: own :: sc) t v in ret (Some res)) st2.
Proof. exact switch_first_match. Qed.
Print Assumptions switch_first_matching_case_only.
Theorem switch_no_case : forall rec own sc t cases st st1,
  keys_rejected rec own sc t cases st st1 -> switch_loop true rec own sc t cases st = (Ok None, st1).
Proof. exact switch_no_match. Qed.
Print Assumptions switch_no_case.

(* defaults are honoured *)
Theorem and_default : forall fixed rec sc t ss d st e st1,
  let own := set_arg false (mkFrame [] (head_mode sc) (head_arg sc) []) in
  and_loop rec (own :: sc) t ss t st = (Raise e, st1) -> is_glom_error e = true ->
  glom_body fixed rec sc t (SAnd ss (Some d)) st = (let! v := arg_val_i rec own sc t d in ret (v, own)) st1.
Proof. exact and_default_honoured. Qed.
Print Assumptions and_default.

(* Check (no default, no validators): passes iff every given condition holds; no condition = truthiness *)
Theorem check_enforces_conditions : forall fixed rec sc t types vals inst st,
  glom_body fixed rec sc t (SCheck None types vals [] inst None) st =
  let own := mkFrame [] (head_mode sc) false [] in
  let bad_type := match types with [] => false | _ => negb (existsb (pytype_eqb (type_of t)) types) end in
  let bad_val := match vals with [] => false | _ => negb (mem py_eqb t vals) end in
  let bad_inst := match inst with [] => false | _ => negb (existsb (isinstance t) inst) end in
  let implicit := match types, vals, inst with [], [], [] => true | _, _, _ => false end in
  if bad_type || bad_val || bad_inst || (implicit && negb (truthy t))
  then (Raise (simple_exn "CheckError"), st) else (Ok (t, own), st).
Proof. exact check_decides. Qed.
Print Assumptions check_enforces_conditions.

(* the six comparisons are Python's own relations: on sets they are inclusion tests — a PARTIAL order, where >= is its own
   relation and not the negation of < (both are false for sets none of which contains the other); on totally ordered operands
   (numbers with numbers, strings with strings) >= does coincide with "not <" *)
Theorem m_ge_on_sets_is_superset : forall i f a j g b, m_compare "g" (VSet i f a) (VSet j g b) = Ok (set_subset b a).
Proof. exact m_ge_sets_lemma. Qed.
Print Assumptions m_ge_on_sets_is_superset.
Theorem m_le_on_sets_is_subset : forall i f a j g b, m_compare "l" (VSet i f a) (VSet j g b) = Ok (set_subset a b).
Proof. exact m_le_sets_lemma. Qed.
Print Assumptions m_le_on_sets_is_subset.
Theorem m_ge_is_not_lt_on_total_orders : forall a b x, m_compare "<" a b = Ok x ->
  (match a, b with VSet _ _ _, VSet _ _ _ => False | _, _ => True end) -> m_compare "g" a b = Ok (negb x).
Proof. exact m_ge_total_lemma. Qed.
Print Assumptions m_ge_is_not_lt_on_total_orders.

(* non-vacuity *)
Example ex_or : fst (glom_top true [] (VInt 0) (SOr [SM; SVal VNone] None)) = Ok VNone.
Proof. vm_compute. reflexivity. Qed.
Example ex_and_default : fst (glom_top true [] (VInt 1) (SAnd [SAnd [SMExpr SM ">" (SLit (VInt 5))] (Some (SLit (VInt 7))); SMatch (SType TyInt) None] None)) = Ok (VInt 1).
Proof. vm_compute. reflexivity. Qed.
Example ex_sets_unordered :
  m_compare "g" (VSet 0 false [VInt 1; VInt 2]) (VSet 0 false [VInt 3]) = Ok false /\
  m_compare "<" (VSet 0 false [VInt 1; VInt 2]) (VSet 0 false [VInt 3]) = Ok false /\
  fst (glom_top true [] (VSet 1 false [VInt 1; VInt 2]) (SMExpr SM "g" (SLit (VSet 0 false [VInt 3])))) = Raise (simple_exn "MatchError").
Proof. vm_compute. repeat split. Qed.
