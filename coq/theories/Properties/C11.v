(* Properties/C11.v — assign obeys the lens laws and fails atomically. *)
From Coq Require Import String ZArith Bool List.
From Glom Require Import Base.PyVal Base.Heap Model.Wild Model.Mutate Proofs.MutateProofs.
Import ListNotations.
Local Open Scope string_scope.
Local Open Scope list_scope.

(* get-after-set: reading the final segment at the destination yields the assigned value — for every heap (shared,
   cyclic), destination, addressing style and value *)
Theorem get_after_assign : forall h dest final v h',
  final_ok final -> assign_op h dest final v = Ok h' -> mstep h' dest final = Ok v.
Proof. exact get_after_assign_op. Qed.
Print Assumptions get_after_assign.

(* frame: only the destination container's cell changes (everything not on the path is untouched), no cell is added or lost *)
Theorem assign_frame : forall h dest final v h',
  assign_op h dest final v = Ok h' ->
  exists l, dest = GR l /\ length h' = length h /\ forall l', l' <> l -> node_at h' l' = node_at h l'.
Proof. exact assign_op_frame. Qed.
Print Assumptions assign_frame.

(* the whole assign() on a wildcard-free path, with or without missing=: at most ONE original cell changes (the
   attachment is a single, last write; existing intermediate values are never replaced), and the number of cells created
   equals the number of factory calls — one per absent segment *)
Theorem missing_creates_only_absent : forall h t path v missing h' k,
  has_wild path = false -> assign h t path v missing = Ok (h', k) ->
  (exists l, agree_except (length h) l h h') /\ length h' = length h + k.
Proof. exact assign_one_cell_lemma. Qed.
Print Assumptions missing_creates_only_absent.

(* the absent tail is built in fresh cells only, before anything is attached *)
Theorem missing_tail_is_fresh : forall fuel h lt n path v f h' k,
  node_at h lt = Some n -> empty_node n -> has_wild path = false ->
  assign_ fuel h (GR lt) path v (Some f) = Ok (h', k) ->
  agree_except (length h) lt h h' /\ length h' = length h + k.
Proof. exact assign_into_empty. Qed.
Print Assumptions missing_tail_is_fresh.

(* atomicity: a failing assignment leaves the state exactly as it was *)
Theorem assign_atomic : forall h t path v missing,
  snd (assign_st h t path v missing) = false -> fst (assign_st h t path v missing) = h.
Proof. exact assign_atomic_lemma. Qed.
Print Assumptions assign_atomic.

(* non-vacuity: assign({'a': 'a'}, 'c.d', v, missing=dict) creates exactly one dict and attaches it under 'c' *)
Definition ex_h : heap := [NDict false [(AStr "a", GA (AStr "a"))]].
Example ex_missing : assign ex_h (GR 0) [MP (AStr "c"); MP (AStr "d")] (GA (AInt 5)) (Some FacDict)
  = Ok ([NDict false [(AStr "a", GA (AStr "a")); (AStr "c", GR 1)]; NDict false [(AStr "d", GA (AInt 5))]], 1).
Proof. vm_compute. reflexivity. Qed.
Example ex_atomic : assign ex_h (GR 0) [MP (AStr "a"); MP (AStr "d")] (GA (AInt 5)) None = Raise path_assign_error.
Proof. vm_compute. reflexivity. Qed.
