(* Properties/C12.v — delete removes exactly the addressed element, or nothing. *)
From Coq Require Import String ZArith Bool List.
From Glom Require Import Base.PyVal Base.Heap Model.Wild Model.Mutate Proofs.MutateProofs.
Import ListNotations.
Local Open Scope string_scope.
Local Open Scope list_scope.

(* frame: a successful deletion either changes nothing (ignore_missing) or changes the destination's cell only *)
Theorem delete_frame : forall h dest final ign h',
  del_one h dest final ign = Ok h' ->
  h' = h \/ exists l, dest = GR l /\ length h' = length h /\ forall l', l' <> l -> node_at h' l' = node_at h l'.
Proof. exact del_one_frame. Qed.
Print Assumptions delete_frame.

(* a present dict key: exactly that entry disappears, the order of the others is kept (Python's del d[k]) *)
Theorem delete_is_python_del_dict : forall h l od kvs a v ign,
  node_at h l = Some (NDict od kvs) -> akv_lookup a kvs = Some v ->
  del_one h (GR l) (MP a) ign = Ok (put h l (NDict od (akv_remove a kvs))).
Proof. exact delete_present_key. Qed.
Print Assumptions delete_is_python_del_dict.

(* sequence deletion shifts the later items *)
Theorem delete_shifts_later_items : forall (A : Type) (xs : list A) i, i < length xs ->
  remove_nth i xs = firstn i xs ++ skipn (S i) xs.
Proof. exact @remove_nth_spec. Qed.
Print Assumptions delete_shifts_later_items.

(* a missing final key raises PathDeleteError — for plain AND T[...] addressing — or is silently ignored *)
Theorem delete_missing_final : forall h l od kvs a ign,
  node_at h l = Some (NDict od kvs) -> akv_lookup a kvs = None ->
  del_one h (GR l) (MP a) ign = (if ign then Ok h else Raise path_delete_error) /\
  del_one h (GR l) (MIdx a) ign = (if ign then Ok h else Raise path_delete_error).
Proof. exact delete_missing_key. Qed.
Print Assumptions delete_missing_final.

(* a missing parent raises the parent path's PathAccessError, or is ignored; the heap is untouched *)
Theorem delete_missing_parent_thm : forall h t parent final e ign,
  has_wild parent = false -> mpath h parent 0 t = Raise e -> ecls e = "PathAccessError" ->
  delete h t (parent ++ [final]) ign = (if ign then Ok h else Raise e).
Proof. exact delete_missing_parent. Qed.
Print Assumptions delete_missing_parent_thm.

(* non-vacuity *)
Definition ex_h : heap := [NDict false [(AStr "l", GR 1)]; NList [GA (AInt 5); GA (AInt 6); GA (AInt 7)]].
Example ex_del : delete ex_h (GR 0) [MP (AStr "l"); MP (AStr "1")] false
  = Ok [NDict false [(AStr "l", GR 1)]; NList [GA (AInt 5); GA (AInt 7)]].
Proof. vm_compute. reflexivity. Qed.
Example ex_del_missing : delete ex_h (GR 0) [MIdx (AStr "k")] false = Raise path_delete_error.
Proof. vm_compute. reflexivity. Qed.
