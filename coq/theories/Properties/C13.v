(* Properties/C13.v — handlers are chosen by nearest registered type, immediately and in isolation. *)
From Coq Require Import String Bool List Arith.
From Glom Require Import Model.Registry Proofs.RegistryProofs.
Import ListNotations.
Local Open Scope list_scope.

(* registration keeps the subtype tree well formed (every child is a subtype of its parent), for any issubclass
   relation whatsoever, any tree and any type: induction over the rose tree and the snapshot loop *)
Theorem insert_wf : forall sub new f, wff sub f -> wff sub (insert sub new f).
Proof. exact insert_wf_lemma. Qed.
Print Assumptions insert_wf.

(* the lookup returns a registered type that matches the object, and it is at least as good (real base before duck
   match, earlier MRO position first) as every most-specific registered matching type; it fails only when no
   registered type matches.  Hypothesis: isinstance is upward closed along the tree's subtype edges (checked on
   every concrete universe by the correspondence). *)
Theorem lookup_nearest : forall sub inst mro,
  (forall t d c, inst t d = true -> sub d c = true -> inst t c = true) ->
  forall t f, wff sub f ->
  match closest inst mro t f with
  | None => forall d, In d (flabels f) -> inst t d = false
  | Some m =>
      In m (flabels f) /\ inst t m = true /\
      (forall tr n, In tr f -> node_in tr n -> inst t (root_of n) = true ->
                    (forall k, In k (kids_of n) -> inst t (root_of k) = false) ->
                    le_rank mro t m (root_of n)) end.
Proof. exact lookup_nearest_lemma. Qed.
Print Assumptions lookup_nearest.

(* when only real bases match, the type chosen is the registered class that comes first in type(obj).__mro__:
   a more specific registered type is never overridden by a less specific one *)
Theorem lookup_first_registered_in_mro : forall sub inst mro,
  (forall t d c, inst t d = true -> sub d c = true -> inst t c = true) ->
  (forall t d c, In d (mro t) -> In c (mro t) -> sub d c = true -> le_rank mro t d c) ->
  forall t f m, wff sub f ->
  (forall d, inst t d = true -> In d (mro t)) ->
  closest inst mro t f = Some m ->
  In m (flabels f) /\ inst t m = true /\ forall b, In b (flabels f) -> inst t b = true -> le_rank mro t m b.
Proof. exact lookup_first_in_mro_lemma. Qed.
Print Assumptions lookup_first_registered_in_mro.

(* ... hence the choice depends on the SET of registered types only, not on registration order or tree shape *)
Theorem registration_order_irrelevant : forall sub inst mro,
  (forall t d c, inst t d = true -> sub d c = true -> inst t c = true) ->
  (forall t d c, In d (mro t) -> In c (mro t) -> sub d c = true -> le_rank mro t d c) ->
  forall t f1 f2 m1 m2, wff sub f1 -> wff sub f2 ->
  (forall d, inst t d = true -> In d (mro t)) ->
  (forall d, In d (flabels f1) <-> In d (flabels f2)) ->
  closest inst mro t f1 = Some m1 -> closest inst mro t f2 = Some m2 -> m1 = m2.
Proof. exact registration_order_irrelevant_lemma. Qed.
Print Assumptions registration_order_irrelevant.

(* the memo never changes an answer; register() empties it, so a registration takes effect for the very next lookup *)
Theorem lookup_history_irrelevant : forall inst mro r op t, cache_ok inst mro r ->
  fst (get_handler inst mro r op t) = lookup inst mro r op t /\ cache_ok inst mro (snd (get_handler inst mro r op t)).
Proof. exact get_handler_ok. Qed.
Print Assumptions lookup_history_irrelevant.

Theorem register_takes_effect_immediately : forall sub inst mro auto r tg kw ex,
  cache_ok inst mro (register sub auto r tg kw ex).
Proof. exact register_cache_ok. Qed.
Print Assumptions register_takes_effect_immediately.

(* non-vacuity: the F19 hierarchy  X(W), Y(X, N), Z(Y); register X, Y, N, W in that order; look up Z *)
Definition ex_sub (a b : nat) : bool :=       (* 0 W, 1 N, 2 X, 3 Y, 4 Z *)
  Nat.eqb a b || match a, b with 2, 0 | 3, 2 | 3, 1 | 3, 0 | 4, 3 | 4, 2 | 4, 1 | 4, 0 => true | _, _ => false end.
Definition ex_mro (t : nat) : list nat := match t with 4 => [4; 3; 2; 0; 1] | 3 => [3; 2; 0; 1] | 2 => [2; 0] | n => [n] end.
Definition ex_forest : forest := fold_left (fun f n => insert ex_sub n f) [2; 3; 1; 0] [].
Example ex_wf : wffb ex_sub ex_forest = true.
Proof. vm_compute. reflexivity. Qed.
Example ex_lookup : closest ex_sub ex_mro 4 ex_forest = Some 3.
Proof. vm_compute. reflexivity. Qed.
