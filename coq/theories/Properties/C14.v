(* Properties/C14.v — wildcards enumerate children / descendants once, tolerate misses, terminate. *)
From Coq Require Import String ZArith Bool List.
From Glom Require Import Base.PyVal Base.Heap Model.Wild Proofs.WildProofs.
Import ListNotations.
Local Open Scope list_scope.

(* termination on EVERY heap (cyclic, shared, dangling): the fuel the model supplies, |h| + 2*edges + 2, always suffices.
   A real termination proof (measure: work-list length + weight of the unexpanded locations), not a fuel assumption. *)
Theorem starstar_terminates : forall h cur, starstar h cur <> None.
Proof. exact starstar_terminates_lemma. Qed.
Print Assumptions starstar_terminates.

(* ** = the value itself followed by the children of every container of the result, each container expanded exactly
   once (NoDup), in order of first occurrence — i.e. breadth first *)
Theorem starstar_is_bfs_once : forall h cur res,
  starstar h cur = Some res ->
  exists tail order,
    res = cur :: tail /\ NoDup order /\
    order = dedupe_from [] (locs (cur :: tail)) /\
    tail = concat (map (kids h) order).
Proof. exact starstar_is_bfs_once_lemma. Qed.
Print Assumptions starstar_is_bfs_once.

Theorem starstar_complete : forall h cur res v, starstar h cur = Some res -> reach h cur v -> In v res.
Proof. exact starstar_complete_lemma. Qed.
Print Assumptions starstar_complete.

Theorem starstar_sound : forall h cur res v, starstar h cur = Some res -> In v res -> reach h cur v.
Proof. exact starstar_sound_lemma. Qed.
Print Assumptions starstar_sound.

(* steps after a wildcard are applied to each entry independently: failing entries are dropped, order is kept *)
Theorem after_wildcard_independent : forall rec ks,
  (forall k, In k ks -> keep (rec k) <> None) ->
  each rec ks = Ok (flat_map (fun k => match rec k with Ok v => [v] | _ => [] end) ks).
Proof. exact each_independent. Qed.
Print Assumptions after_wildcard_independent.

(* every wildcard adds exactly one level of list nesting *)
Theorem wildcards_nest_lists : forall h steps k cur r, weval h steps k cur = Ok r -> shape (wild_count steps) r.
Proof. exact wildcards_nest_lists_lemma. Qed.
Print Assumptions wildcards_nest_lists.

(* non-vacuity: a self-referential dict and a shared list *)
Definition ex_heap : heap := [NDict false [(AStr "self", GR 0); (AStr "l", GR 1); (AStr "m", GR 1)]; NList [GA (AInt 1); GR 0]].
Example ex_cyclic : weval ex_heap [WStarStar] 0 (GR 0)
  = Ok (WList (map WVal [GR 0; GR 0; GR 1; GR 1; GA (AInt 1); GR 0])).
Proof. vm_compute. reflexivity. Qed.
Example ex_after : weval ex_heap [WStar; WP (AStr "l")] 0 (GR 0) = Ok (WList [WVal (GR 1)]).
Proof. vm_compute. reflexivity. Qed.
