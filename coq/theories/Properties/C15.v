(* Properties/C15.v — Fold, Sum, Flatten, Merge equal plain-Python reductions and mutate no input. *)
From Coq Require Import String ZArith Bool List.
From Glom Require Import Base.PyVal Model.TEval Model.Reduce Proofs.ReduceProofs.
Import ListNotations.
Local Open Scope string_scope.
Local Open Scope list_scope.

(* Fold(subspec, init, op) = functools.reduce(op, items, init()): the loop is the left fold, exceptions propagating *)
Theorem fold_is_reduce : forall o items ret, fold_loop o ret items = reduce_ref o ret items.
Proof. exact fold_is_reduce_lemma. Qed.
Print Assumptions fold_is_reduce.

(* Flatten: eager and lazy agree, both are the concatenation of the items' iterations, and the eager result is the
   list allocated by init() (label 0): no input object is aliased into it, inputs are never written (the model is
   functional; the correspondence compares labelled results) *)
Theorem flatten_eager_equals_lazy : forall t,
  fold IList OIadd t =
  match flatten_lazy t with
  | Ok l => Ok (VList 0 l)
  | Raise e => Raise e | Unmodelled u => Unmodelled u | OutOfFuel => OutOfFuel end.
Proof. exact flatten_lazy_eager. Qed.
Print Assumptions flatten_eager_equals_lazy.

Theorem flatten_result_is_fresh : forall items acc r, fold_loop OIadd (VList 0 acc) items = Ok r -> ident r = 0.
Proof. exact flatten_result_fresh. Qed.
Print Assumptions flatten_result_is_fresh.

(* flatten(levels = n + 2) is one chain.from_iterable level followed by flatten(levels = n + 1) *)
Theorem flatten_levels_is_n_fold : forall n k t, flatten_levels (S (S n)) k t =
  match flatten_lazy t with
  | Ok items => flatten_levels (S n) k (VList 0 items)
  | Raise e => Raise e | Unmodelled u => Unmodelled u | OutOfFuel => OutOfFuel end.
Proof. exact flatten_levels_step. Qed.
Print Assumptions flatten_levels_is_n_fold.

(* Merge / merge(): successive dict.update with the last writer winning *)
Theorem merge_last_writer_wins : forall k, atom_key k -> forall kvs acc,
  Forall (fun kv => atom_key (fst kv)) kvs -> Forall (fun kv => atom_key (fst kv)) acc ->
  kv_lookup py_eqb k (kv_update acc kvs) = last_binding k kvs (kv_lookup py_eqb k acc).
Proof. exact merge_last_writer_wins_lemma. Qed.
Print Assumptions merge_last_writer_wins.

(* Sum / Fold with iadd over strings: the start value comes first, then every item in order (a start value is never
   a separator: the round-9 seed `ret.join(iterator)` refutes exactly this statement) *)
Theorem str_fold_is_concatenation : forall strs s,
  fold_loop OIadd (VStr s) (map VStr strs) = Ok (VStr (s ++ String.concat "" strs)).
Proof. exact str_fold_concat_lemma. Qed.
Print Assumptions str_fold_is_concatenation.

(* Sum() over integers: the start value plus the arithmetic sum *)
Theorem int_fold_is_sum : forall zs a,
  fold_loop OIadd (VInt a) (map VInt zs) = Ok (VInt (a + fold_right Z.add 0%Z zs)).
Proof. exact int_fold_sum_lemma. Qed.
Print Assumptions int_fold_is_sum.

(* Flatten / Sum(init=list) over lists: the accumulator allocated by init() (label i) extended by every item's
   elements in order; it stays that object (label kept) and no item is aliased into it *)
Theorem list_fold_is_concatenation : forall (ls : list (nat * list val)) i acc,
  fold_loop OIadd (VList i acc) (map (fun p => VList (fst p) (snd p)) ls) = Ok (VList i (acc ++ List.concat (map snd ls))).
Proof. exact list_fold_concat_lemma. Qed.
Print Assumptions list_fold_is_concatenation.

(* a non-iterable target raises FoldError *)
Theorem fold_noniterable_is_FoldError : forall k o t,
  (match t with VNone | VBool _ | VInt _ | VStr _ | VObj _ _ _ | VFun _ => True | _ => False end) ->
  fold k o t = Raise (simple_exn "FoldError").
Proof. exact fold_noniterable. Qed.
Print Assumptions fold_noniterable_is_FoldError.

(* non-vacuity *)
Example ex_flatten : fold IList OIadd (VList 1 [VList 2 [VInt 1]; VTuple 3 [VInt 2; VInt 3]]) = Ok (VList 0 [VInt 1; VInt 2; VInt 3]).
Proof. vm_compute. reflexivity. Qed.
Example ex_merge : fold (IDict false) OUpdate (VList 1 [VDict 2 false [(VStr "a", VInt 1)]; VDict 3 false [(VStr "a", VInt 2); (VStr "b", VInt 3)]])
  = Ok (VDict 0 false [(VStr "a", VInt 2); (VStr "b", VInt 3)]).
Proof. vm_compute. reflexivity. Qed.
Example ex_str_start : fold (IStrOf ">") OIadd (VList 1 [VStr "a"; VStr "b"; VStr "c"]) = Ok (VStr ">abc").
Proof. vm_compute. reflexivity. Qed.
