(* Properties/C16.v — Group builds exactly the buckets and aggregates of a hand-written loop. *)
From Coq Require Import String ZArith Bool List.
From Glom Require Import Base.PyVal Model.TEval Model.Reduce Model.Group Spec.GroupSpec Proofs.GroupProofs.
Import ListNotations.
Local Open Scope list_scope.

(* For every spec of the family "any number of nested single-key {key_spec: ...} levels ending in [value function] or in
   Count / Sum / Max / Min" and every item sequence on which the key and value functions are defined (keys are ints or
   SKIP; no STOP-producing function), feeding the items one by one through the GROUP dispatcher with its accumulator
   tree yields exactly [ref_of]: per level, keys in order of first occurrence, each bucket holding the level below
   applied to the items routed to it in encounter order, an item whose key is SKIP dropped at that level. *)
Theorem group_is_bucket_loop : forall b items,
  wf_b b -> ok_of b items ->
  group_loop (to_g b) (empty_tree (to_g b)) items (group_init (to_g b))
  = Ok (match items with [] => group_init (to_g b) | _ => ref_of b items end).
Proof. exact group_is_bucket_loop_lemma. Qed.
Print Assumptions group_is_bucket_loop.

(* the induction step of that theorem: one dict level over ANY sub-spec that tracks a reference tracks the bucketed reference *)
Theorem dict_level_over_tracked_subspec : forall k v refv okv,
  tracks v refv okv -> prefix_closed okv ->
  tracks (GDict k v) (fun l => VDict 0 false (dict_ref k refv l)) (okd k okv).
Proof. exact dict_level_tracks. Qed.
Print Assumptions dict_level_over_tracked_subspec.

(* a top-level Limit(n, sub) is sub fed with the first n items *)
Theorem limit_law : forall n v items c sub ret,
  group_loop (GLimit n v) (TLimit c sub) items ret = group_loop v sub (firstn (n - c) items) ret.
Proof. exact limit_law_lemma. Qed.
Print Assumptions limit_law.

(* leaf aggregators equal their Python references over the routed items *)
Theorem leaf_aggregators_track_references : forall a, simple_agg a -> tracks (GAgg a) (agg_val a) all_ints.
Proof. exact agg_tracks. Qed.
Print Assumptions leaf_aggregators_track_references.
Theorem value_list_leaf_tracks_map : forall f, tracks (GList (GFn f)) (fun l => VList 0 (filter nonskip (map (fval f) l))) (fn_ok f).
Proof. exact list_leaf_tracks. Qed.
Print Assumptions value_list_leaf_tracks_map.

(* accumulation state lives for one evaluation only: [group] always starts from the empty tree of the spec, so its result is
   a function of (spec, target) alone — by construction of the model; the correspondence evaluates every spec object twice
   and nested to check the implementation allocates its ACC_TREE per evaluation *)
Theorem group_state_is_per_evaluation : forall s t, group s t =
  match target_items t with
  | Ok items => group_loop s (empty_tree s) items (group_init s)
  | Raise e => Raise (simple_exn "UnregisteredTarget")
  | Unmodelled u => Unmodelled u | OutOfFuel => OutOfFuel end.
Proof. reflexivity. Qed.
Print Assumptions group_state_is_per_evaluation.

(* non-vacuity: two levels; and the recorded finding F18 is visible as a difference between model and reference *)
Definition ex_b : bspec := BDict KParity (BDict (KDiv 2) (BList FId)).
Definition ex_items : list val := map VInt [1; 2; 3; 4; 5]%Z.
Definition ex_b1 : bspec := BDict KParity (BAgg ACount).
Example ex_hyp : wf_b ex_b1 /\ ok_of ex_b1 ex_items.
Proof.
  split; [left; reflexivity|]. split.
  - unfold ex_items. cbn [map]. repeat (constructor; [left; eexists; reflexivity|]). constructor.
  - intro key. split; [left; reflexivity|]. apply Forall_forall. intros x Hx.
    unfold bucket in Hx. apply in_map_iff in Hx. destruct Hx as [[k0 x0] [<- Hx]]. apply filter_In in Hx. destruct Hx as [Hx _]. cbn in Hx.
    repeat (destruct Hx as [Hx|Hx]; [injection Hx as <- <-; eexists; reflexivity|]). contradiction.
Qed.
Example ex_value : group (to_g ex_b) (VList 1 ex_items)
  = Ok (VDict 0 false [(VInt 1, VDict 0 false [(VInt 0, VList 0 [VInt 1]); (VInt 1, VList 0 [VInt 3]); (VInt 2, VList 0 [VInt 5])]);
                       (VInt 0, VDict 0 false [(VInt 1, VList 0 [VInt 2]); (VInt 2, VList 0 [VInt 4])])]).
Proof. vm_compute. reflexivity. Qed.
Example ex_ref : ref_of ex_b ex_items
  = VDict 0 false [(VInt 1, VDict 0 false [(VInt 0, VList 0 [VInt 1]); (VInt 1, VList 0 [VInt 3]); (VInt 2, VList 0 [VInt 5])]);
                   (VInt 0, VDict 0 false [(VInt 1, VList 0 [VInt 2]); (VInt 2, VList 0 [VInt 4])])].
Proof. vm_compute. reflexivity. Qed.
Example f18_model_differs_from_reference :
  group (GDict (KDiv 4) (GAgg AFirst)) (VList 1 (map VInt [9; 2; 1; 5]%Z)) = Ok (VDict 0 false [(VInt 2, VInt 9); (VInt 0, VInt 2)])
  /\ group_ref (GDict (KDiv 4) (GAgg AFirst)) (map VInt [9; 2; 1; 5]%Z) = Ok (VDict 0 false [(VInt 2, VInt 9); (VInt 0, VInt 2); (VInt 1, VInt 5)]).
Proof. split; vm_compute; reflexivity. Qed.
