(* Properties/C17.v — Iter pipelines equal the itertools composition, stay lazy, never mutate specs. *)
From Coq Require Import String ZArith Bool List Lia.
From Glom Require Import Base.PyVal Model.TEval Model.Reduce Model.Iter Spec.IterSpec Proofs.IterProofs.
Import ListNotations.
Local Open Scope string_scope.
Local Open Scope list_scope.

(* The depth-first machine (nested lazy iterators: an output of a stage travels through all later stages before the stage
   produces its next one) equals the composition of the stages, applied in list order, as functions on streams that end
   normally or with an exception — for every stage list, every state, every input, errors and early stops included. *)
Theorem pipeline_is_composition_of_stages : forall stages sts inp,
  List.length sts = List.length stages -> machine stages sts inp = den stages sts inp.
Proof. exact machine_is_den. Qed.
Print Assumptions pipeline_is_composition_of_stages.

(* ... hence draining glom(source, Iter-spec) over a finite source yields exactly the composition's stream *)
Theorem pipeline_is_composition : forall stages items,
  first_stopped0 stages = None ->
  let '(outs, e) := den0 stages items in
  fst (run 0 stages (SrcList items) None) = (outs, ending_of e).
Proof. exact pipeline_is_composition_lemma. Qed.
Print Assumptions pipeline_is_composition.

(* the stages are the familiar list functions when the callbacks do not raise *)
Theorem base_honours_skip_stop_sentinel : forall sub sentinel g xs,
  (forall x, In x xs -> apply_cb sub x = Ok (g x)) ->
  fst (fst (stage_run (SBase sub sentinel) XNone xs)) =
  filter (fun y => negb (is_skip y)) (take_while (base_keep sentinel) (map g xs)).
Proof. exact base_den. Qed.
Print Assumptions base_honours_skip_stop_sentinel.

Theorem map_stage_is_map : forall c g xs, (forall x, In x xs -> apply_cb c x = Ok (g x)) ->
  stage_run (SMap c) XNone xs = (map g xs, Cont, XNone).
Proof. exact map_den. Qed.
Print Assumptions map_stage_is_map.

Theorem filter_stage_is_filter : forall c g xs,
  (forall x, In x xs -> apply_cb c x = Ok (g x)) -> (forall x, In x xs -> is_skip x = false) ->
  stage_run (SFilter c) XNone xs = (filter (fun x => truthy (g x)) xs, Cont, XNone).
Proof. exact filter_den. Qed.
Print Assumptions filter_stage_is_filter.

Theorem takewhile_stage_is_takewhile : forall c g xs, (forall x, In x xs -> apply_cb c x = Ok (g x)) ->
  fst (fst (stage_run (STakeWhile c) XNone xs)) = take_while (fun x => truthy (g x)) xs.
Proof. exact takewhile_den. Qed.
Print Assumptions takewhile_stage_is_takewhile.

Theorem dropwhile_stage_is_dropwhile : forall c g xs, (forall x, In x xs -> apply_cb c x = Ok (g x)) ->
  fst (fst (stage_run (SDropWhile c) (XFlag false) xs)) = drop_while (fun x => truthy (g x)) xs.
Proof. exact dropwhile_den. Qed.
Print Assumptions dropwhile_stage_is_dropwhile.

Theorem limit_stage_is_firstn : forall n xs, 0 < n ->
  fst (fst (stage_run (SSlice 0 (Some n) 1) (XSlice 0 0) xs)) = firstn n xs.
Proof. intros n xs H. rewrite (limit_den n xs 0 H). rewrite Nat.sub_0_r. reflexivity. Qed.
Print Assumptions limit_stage_is_firstn.

Theorem flatten_stage_is_concat : forall g xs, (forall x, In x xs -> iter_items x = Ok (g x)) ->
  stage_run SFlatten XNone xs = (concat (map g xs), Cont, XNone).
Proof. exact flatten_den. Qed.
Print Assumptions flatten_stage_is_concat.

Theorem unique_stage_keeps_first_occurrences : forall c g xs seen,
  (forall x, In x xs -> apply_cb c x = Ok (g x)) -> (forall x, In x xs -> hashable (g x) = true) ->
  fst (fst (stage_run (SUnique c) (XBuf seen) xs)) = uniq_by g seen xs.
Proof. exact unique_den. Qed.
Print Assumptions unique_stage_keeps_first_occurrences.

Theorem chunked_stage_partitions : forall n, n <> 0 -> forall xs buf, List.length buf < n ->
  exists cs buf', stage_run (SChunked n None) (XBuf buf) xs = (map (VList 0) cs, Cont, XBuf buf') /\
                  buf ++ xs = concat cs ++ buf' /\ Forall (fun c => List.length c = n) cs /\ List.length buf' < n.
Proof. exact chunked_run. Qed.
Print Assumptions chunked_stage_partitions.

(* Laziness.  A run that ends otherwise than by running out of the items made available never looked beyond them: whatever
   follows them in the source — nothing, more items, infinitely many — the outputs, the ending and the pull count are the
   same.  So obtaining k outputs pulls a bounded prefix and infinite sources work. *)
Theorem outputs_from_consumed_prefix : forall stages xs sts k acc pulls o e n,
  drive stages sts xs false k acc pulls = (o, e, n) -> e <> EFuel ->
  forall ys fin, drive stages sts (xs ++ ys) fin k acc pulls = (o, e, n).
Proof. exact drive_prefix. Qed.
Print Assumptions outputs_from_consumed_prefix.

Theorem lazy_on_any_source : forall stages src k fuel o e n,
  run fuel stages src k = (o, e, n) -> e <> EFuel ->
  forall extra, run (fuel + extra) stages src k = (o, e, n).
Proof. exact lazy_on_any_source_lemma. Qed.
Print Assumptions lazy_on_any_source.

(* no over-pull: every pulled item was needed — with one item fewer the k outputs are not there *)
Theorem no_overpull : forall stages xs sts k acc pulls o n,
  drive stages sts xs false k acc pulls = (o, EGotK, n) -> pulls < n ->
  exists o' n', drive stages sts (firstn (n - pulls - 1) xs) false k acc pulls = (o', EFuel, n').
Proof. exact drive_minimal. Qed.
Print Assumptions no_overpull.

Theorem pulls_bounded_by_items : forall stages xs sts fin k acc pulls,
  pulls <= snd (drive stages sts xs fin k acc pulls) <= pulls + List.length xs.
Proof. exact drive_pulls_bound. Qed.
Print Assumptions pulls_bounded_by_items.

(* Builders.  _add_op allocates a new stack list and a new Iter: every existing heap cell is unchanged, every existing spec
   denotes the pipeline it denoted, and the derived spec runs the stages in chaining order behind the same base generator
   (same subspec, same sentinel). *)
Theorem builders_do_not_mutate : forall h self entry h' i,
  add_op h self entry = Some (h', i) ->
  (forall j, j < List.length h -> nth_error h' j = nth_error h j) /\ i = S (List.length h) /\ List.length h' = S (S (List.length h)).
Proof. exact add_op_frame. Qed.
Print Assumptions builders_do_not_mutate.

Theorem derived_spec_extends_base : forall h self entry h' i st,
  add_op h self entry = Some (h', i) -> stages_of h self = Some st -> stages_of h' i = Some (st ++ [entry]).
Proof. exact stages_of_new. Qed.
Print Assumptions derived_spec_extends_base.

Theorem chained_stages_run_in_chaining_order : forall entries h self st,
  stages_of h self = Some st ->
  exists h' i, chain_ops h self entries = Some (h', i) /\ stages_of h' i = Some (st ++ entries) /\
               (forall j s0, stages_of h j = Some s0 -> stages_of h' j = Some s0).
Proof. exact chain_ops_stages. Qed.
Print Assumptions chained_stages_run_in_chaining_order.

(* non-vacuity *)
Example ex_pipeline :
  run 0 [SBase CT VStop; SMap (CFn FInc); SFilter (CFn FEven); SChunked 2 None] (SrcList [VInt 1; VInt 2; VInt 3; VInt 5; VInt 7]) None
  = ([VList 0 [VInt 2; VInt 4]; VList 0 [VInt 6; VInt 8]], EExhausted, 5).
Proof. vm_compute. reflexivity. Qed.
Example ex_lazy : run 50 [SBase CT VStop; SMap (CFn FDbl); STakeWhile (CLt 7)] (SrcCount 1 1) None
  = ([VInt 2; VInt 4; VInt 6], EExhausted, 4).
Proof. vm_compute. reflexivity. Qed.
Example ex_sentinel : run 0 [SBase CT VNone; SMap (CFn FInc)] (SrcList [VInt 1; VNone; VInt 3]) None = ([VInt 2], EExhausted, 2).
Proof. vm_compute. reflexivity. Qed.
Example ex_error_order :
  (* the item 1 reaches the raising map before the second inner list is even looked at *)
  run 0 [SBase CT VStop; SFlatten; SMap (CRaiseAt 1)] (SrcList [VList 0 [VInt 1]; VInt 5]) None
  = ([], ERaised (simple_exn "ValueError"), 1).
Proof. vm_compute. reflexivity. Qed.
Example ex_builder :
  let '(h0, i0) := new_iter [] CT VNone in
  match add_op h0 i0 (SMap (CFn FInc)) with
  | Some (h1, i1) => stages_of h1 i0 = Some [SBase CT VNone] /\ stages_of h1 i1 = Some [SBase CT VNone; SMap (CFn FInc)]
  | None => False end.
Proof. vm_compute. split; reflexivity. Qed.
