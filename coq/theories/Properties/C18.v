(* Properties/C18.v — T and Path are faithful values: sequence laws of Path over the regenerated slice
   expressions, pickling state round trip, concatenation composes. *)
From Coq Require Import String ZArith Bool List.
From Glom Require Import Base.PyVal Base.PySlice Generated.PathOps Model.TEval Model.PathSeq Model.TRepr Spec.PathSpec
     Proofs.PathSeqProofs Proofs.TReprProofs Proofs.ReprRoundTrip.
Import ListNotations.
Local Open Scope list_scope.
Local Open Scope string_scope.

(* For every representation A of roots / opcodes / arguments, every root r and every list of steps, the
   expressions Path's methods apply to the flat tuple r :: c1 :: a1 :: c2 :: a2 ... (regenerated from the
   source on every run) agree with the same operations on the tuple of steps. *)
Theorem path_len_spec : forall (A : Type) (r : A) steps, path_len (mk_ops r steps) = Z.of_nat (length steps).
Proof. exact @len_spec. Qed.
Print Assumptions path_len_spec.

Theorem path_values_spec : forall (A : Type) (r : A) steps, path_values (mk_ops r steps) = map snd steps.
Proof. exact @values_spec. Qed.
Print Assumptions path_values_spec.

Theorem path_items_spec : forall (A : Type) (r : A) steps, path_items (mk_ops r steps) = steps.
Proof. exact @items_spec. Qed.
Print Assumptions path_items_spec.

(* p[i]: IndexError exactly when i is outside [-n, n), otherwise the one-step path holding step i *)
Theorem path_getitem_int_spec : forall (A : Type) (r : A) steps i,
  path_getitem_int (mk_ops r steps) i =
  match seq_index steps i with Some (c, a) => Some (mk_ops r [(c, a)]) | None => None end.
Proof. exact @getitem_int_spec. Qed.
Print Assumptions path_getitem_int_spec.

Theorem path_getitem_int_error : forall (A : Type) (r : A) steps i,
  path_getitem_int (mk_ops r steps) i = None <-> (i < - Z.of_nat (length steps) \/ Z.of_nat (length steps) <= i)%Z.
Proof. exact @getitem_int_error. Qed.
Print Assumptions path_getitem_int_error.

(* p[a:b:c] = tuple slicing of the steps, for ALL triples (None / negative / out of range / any step) *)
Theorem path_getitem_slice_spec : forall (A : Type) (r : A) steps a b c,
  path_getitem_slice (mk_ops r steps) a b c = option_map (mk_ops r) (py_slice steps a b c).
Proof. exact @getitem_slice_spec. Qed.
Print Assumptions path_getitem_slice_spec.

Theorem path_eq_spec : forall (A : Type) (eqb : A -> A -> bool), (forall x y, eqb x y = true <-> x = y) ->
  forall o1 o2, path_eq eqb o1 o2 = true <-> o1 = o2.
Proof. exact @eq_spec. Qed.
Print Assumptions path_eq_spec.

Theorem path_startswith_spec : forall (A : Type) (eqb : A -> A -> bool), (forall x y, eqb x y = true <-> x = y) ->
  forall ops o, path_startswith eqb ops o = true <-> firstn (length o) ops = o.
Proof. exact @startswith_spec. Qed.
Print Assumptions path_startswith_spec.

Theorem path_startswith_prefix : forall (A : Type) (eqb : A -> A -> bool), (forall x y, eqb x y = true <-> x = y) ->
  forall (r : A) s p, path_startswith eqb (mk_ops r (p ++ s)) (mk_ops r p) = true.
Proof. exact @startswith_steps. Qed.
Print Assumptions path_startswith_prefix.

Theorem path_concat_spec : forall (A : Type) (r r2 : A) s1 s2, path_concat (mk_ops r s1) (mk_ops r2 s2) = mk_ops r (s1 ++ s2).
Proof. exact @concat_spec. Qed.
Print Assumptions path_concat_spec.

(* pickling: __setstate__ (__getstate__ x) = x for T, S and A rooted expressions *)
Theorem setstate_getstate_id : forall e : texpr, setstate (getstate e) = Some e.
Proof. exact setstate_getstate_lemma. Qed.
Print Assumptions setstate_getstate_id.

(* glom(t, Path(p, q)) = glom(glom(t, p), q) for wildcard-free plain segments *)
Theorem path_concat_composes : forall p q target v,
  access (p ++ q) 0 target = Ok v <-> exists c, access p 0 target = Ok c /\ access q (length p) c = Ok v.
Proof. exact path_concat_composes_lemma. Qed.
Print Assumptions path_concat_composes.

(* eval(repr(x)) = x.  print = the token-level model of _format_t / _format_path / _format_slice / format_invocation (bbrepr of
   the arguments), read = the token-level model of what eval does with TType's overloads and Path.__init__; both are the very
   functions the correspondence runs against the implementation's repr() / eval().  For EVERY T expression rooted at T, S or A, of
   any length and nesting, whose steps are attribute access (no dunder names), item access (an expression, a slice with any of
   its three parts absent, a tuple of expressions and slices, a one-slice tuple), a call with positional and keyword arguments,
   or a wildcard, over literal, tuple and nested-T arguments, reading back what is printed gives the expression itself — hence an
   object with the same repr, evaluating identically. *)
Theorem t_repr_roundtrip : forall r steps,
  wfa (GT r steps) -> forall fuel, 4 * tsize (GT r steps) + 5 <= fuel ->
  parse_top fuel (fmt_t true (r, steps)) = Some (r, steps).
Proof. exact t_repr_roundtrip_lemma. Qed.
Print Assumptions t_repr_roundtrip.

(* the same for every Path: plain-key segments (literal or tuple keys) interleaved with T chunks, rooted at T, S or A — the root is
   carried by the leading chunk (an empty one when the first segment is a plain key), later chunks are rooted at T, and
   Path.__init__ puts the segments back in order.  (For all sufficiently large reading fuel; the bound is linear in the size.) *)
Theorem path_repr_roundtrip : forall r steps,
  Forall wfp steps -> exists n, forall fuel, n <= fuel -> parse_top fuel (fmt_path true (r, steps)) = Some (r, steps).
Proof. exact path_repr_roundtrip_lemma. Qed.
Print Assumptions path_repr_roundtrip.

(* non-vacuity: S.a['b'](1, k=T.c)[1:, ::2].__star__()  and  Path(S.a, 'b', T[1:2]) *)
Example ex_t_wf :
  wfa (GT RS [(".", GLit (LStr "a")); ("[", GLit (LStr "b"));
              ("(", GCall [GLit (LInt 1)] [("k", GT RT [(".", GLit (LStr "c"))])]);
              ("[", GTup [GSlice (Some (GLit (LInt 1))) None None; GSlice None None (Some (GLit (LInt 2)))]); ("x", GNoArg)]).
Proof.
  apply wfa_t; [reflexivity|]. repeat constructor.
Qed.
Example ex_path_reads_back :
  parse_top 40 (fmt_path true (RS, [(".", GLit (LStr "a")); ("P", GLit (LStr "b")); ("[", GSlice (Some (GLit (LInt 1))) (Some (GLit (LInt 2))) None)]))
  = Some (RS, [(".", GLit (LStr "a")); ("P", GLit (LStr "b")); ("[", GSlice (Some (GLit (LInt 1))) (Some (GLit (LInt 2))) None)]).
Proof. vm_compute. reflexivity. Qed.

(* bounded companion by computation, bound stated: all n <= 4, all indexes in [-6, 6] agree with tuple indexing *)
Definition steps_n (n : nat) : list (nat * nat) := map (fun i => (i, i + 100)) (seq 0 n).
Definition zrange (lo : Z) (n : nat) : list Z := map (fun i => (lo + Z.of_nat i)%Z) (seq 0 n).
Example getitem_int_bounded :
  forallb (fun n => forallb (fun i =>
     match path_getitem_int (mk_ops 0 (steps_n n)) i, seq_index (steps_n n) i with
     | Some [r; c; a], Some (c', a') => Nat.eqb c c' && Nat.eqb a a' && Nat.eqb r 0
     | None, None => true | _, _ => false end) (zrange (-6) 13)) (seq 0 5) = true.
Proof. vm_compute. reflexivity. Qed.
