(* Properties/C19.v — the CLI prints what the library computes; default-format specs never execute. *)
From Coq Require Import String Ascii ZArith Bool List Sorting.Sorted.
From Glom Require Import Base.PyVal Model.Exc Model.TEval Model.Interp Model.Cli Proofs.CliProofs Proofs.LiteralProofs Proofs.JsonProofs.
Import ListNotations.
Local Open Scope list_scope.
Local Open Scope string_scope.

(* the command's answer is a function of the delivered spec and target only ... *)
Theorem cli_is_function_of_spec_and_target : forall w f posargs, List.length posargs <= 2 ->
  cli w f posargs = answer f (get_spec w f posargs) (get_target w f posargs).
Proof. exact cli_is_answer. Qed.
Print Assumptions cli_is_function_of_spec_and_target.

(* ... and every channel delivers the same text to the same loader: argument, --target-file, standard input, "-" *)
Theorem target_channels_agree : forall w f s c t,
  (no_file (f_target_file f) -> String c t <> "-" ->
     get_target w f [s; String c t] = handle_target w (Some (String c t)) (f_target_format f)) /\
  (forall p, f_target_file f = Some p -> p <> "" -> p <> "-" -> str_assoc p (w_files w) = Some (String c t) ->
     get_target w f [s] = handle_target w (Some (String c t)) (f_target_format f)) /\
  (no_file (f_target_file f) -> w_stdin w = Some (String c t) ->
     get_target w f [s] = handle_target w (Some (String c t)) (f_target_format f)) /\
  (no_file (f_target_file f) -> w_stdin w = Some (String c t) ->
     get_target w f [s; "-"] = handle_target w (Some (String c t)) (f_target_format f)) /\
  (f_target_file f = Some "-" -> w_stdin w = Some (String c t) ->
     get_target w f [s] = handle_target w (Some (String c t)) (f_target_format f)).
Proof.
  intros w f s c t. repeat split.
  - apply target_by_argument.
  - intros p. apply target_by_file.
  - apply target_by_stdin.
  - apply target_by_dash_argument.
  - apply target_by_dash_file.
Qed.
Print Assumptions target_channels_agree.

Theorem spec_channels_agree : forall w f c s,
  (forall rest, no_file (f_spec_file f) -> get_spec w f (String c s :: rest) = spec_of_text w f (String c s)) /\
  (forall p, f_spec_file f = Some p -> p <> "" -> str_assoc p (w_files w) = Some (String c s) ->
     get_spec w f [] = spec_of_text w f (String c s)).
Proof. intros w f c s. split; [intros rest; apply spec_by_argument | intros p; apply spec_by_file]. Qed.
Print Assumptions spec_channels_agree.

(* an exception from the library is status 1 with a message naming it, never a result *)
Theorem cli_glomerror_exit_1 : forall f target spec e,
  fst (glom_top true [] target spec) = Raise e -> exc_isa (ecls e) "Exception" = true ->
  exists cls, evaluate f target spec = CGlomError cls.
Proof. exact glomerror_is_status_1. Qed.
Print Assumptions cli_glomerror_exit_1.

(* malformed, unknown-format or unreadable targets are usage errors, not results *)
Theorem cli_bad_target_is_usage_error : forall w fmt c t cls,
  known_format fmt = true -> lookup2 (if String.eqb fmt "yml" then "yaml" else fmt) (String c t) (w_target_parse w) = Some (PBad cls) ->
  handle_target w (Some (String c t)) fmt = Halt CUsage.
Proof. exact bad_target_is_usage_error. Qed.
Print Assumptions cli_bad_target_is_usage_error.

Theorem cli_unknown_format_is_usage_error : forall w fmt c t,
  known_format fmt = false -> handle_target w (Some (String c t)) fmt = Halt CUsage.
Proof. exact unknown_format_is_usage_error. Qed.
Print Assumptions cli_unknown_format_is_usage_error.

Theorem cli_unreadable_target_is_usage_error : forall w f s p,
  f_target_file f = Some p -> p <> "" -> p <> "-" -> str_assoc p (w_files w) = None -> get_target w f [s] = Halt CUsage.
Proof. exact unreadable_target_is_usage_error. Qed.
Print Assumptions cli_unreadable_target_is_usage_error.

(* in the default formats the spec is Path(), the text itself as a path string, or exactly what the literal parser returned *)
Theorem default_formats_yield_only_literals : forall w f posargs s,
  (f_spec_format f = "python" \/ f_spec_format f = "json") -> get_spec w f posargs = Go s ->
  s = ST RT [] \/ (exists text, s = SStr text) \/ (exists fmt text, lookup2 fmt text (w_spec_parse w) = Some (PGood s)).
Proof. exact default_formats_never_execute. Qed.
Print Assumptions default_formats_yield_only_literals.

(* and evaluating a literal spec — for every target and every nesting — calls no callable and writes no store *)
Theorem literal_spec_never_invokes : forall target s, lit s -> snd (glom_top true [] target s) = init_state.
Proof. exact literal_spec_never_invokes_lemma. Qed.
Print Assumptions literal_spec_never_invokes.

(* sort_keys=True: printed keys strictly increase in code-point order, are exactly the dict's keys, and keep their values *)
Theorem dumps_keys_sorted : forall l, StronglySorted str_lt (map fst (sort_keys l)).
Proof. exact sort_keys_sorted_lemma. Qed.
Print Assumptions dumps_keys_sorted.

Theorem dumps_keys_complete : forall l x, In x (map fst (sort_keys l)) <-> In x (map fst l).
Proof. exact sort_keys_same_keys_lemma. Qed.
Print Assumptions dumps_keys_complete.

Theorem dumps_values_follow_keys : forall l k v, NoDup (map fst l) -> str_assoc k l = Some v -> str_assoc k (sort_keys l) = Some v.
Proof. exact sort_keys_lookup_lemma. Qed.
Print Assumptions dumps_values_follow_keys.

(* non-vacuity *)
Example ex_cli :
  cli (mkWorld [] (Some "{""b"": 1, ""a"": [1, 2]}") []
         [(("json", "{""b"": 1, ""a"": [1, 2]}"), PGood (VDict 1 false [(VStr "b", VInt 1); (VStr "a", VList 2 [VInt 1; VInt 2])]))])
      (mkFlags None "json" None "python" 0 false) ["a"]
  = COut ("[1, 2]" ++ newline).
Proof. vm_compute. reflexivity. Qed.
Example ex_sorted :
  json_dumps None (VDict 1 false [(VStr "b", VInt 1); (VStr "a", VList 2 [VInt 1; VStr "q""t"])]) = Some "{""a"": [1, ""q\""t""], ""b"": 1}".
Proof. vm_compute. reflexivity. Qed.
Example ex_literal : lit (SDict false [(SStr "x", STuple [SStr "a.b"; SList [SStr "c"]])]).
Proof. repeat (constructor; cbn; intros; repeat match goal with H : _ \/ _ |- _ => destruct H | H : False |- _ => destruct H
                                                  | H : (_, _) = (_, _) |- _ => inversion H; subst; clear H | H : _ = _ |- _ => subst end; eauto). Qed.
