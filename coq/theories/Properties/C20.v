(* Properties/C20.v — concurrent and re-entrant glom calls behave exactly as when run alone. *)
From Coq Require Import String ZArith Bool List.
From Glom Require Import Base.PyVal Generated.CacheOps Model.Cache Model.Sched Proofs.CacheProofs Proofs.SchedProofs.
Import ListNotations.
Local Open Scope string_scope.
Local Open Scope list_scope.

Section C20.
  Context {V A : Type}.
  Variable create : bool -> string -> V.
  Variable star : bool.

  (* Any number of calls, each any program over the shared path memo; any schedule, switching between the individual dict
     operations of Path.from_text; started from any memo state reachable by from_text: every call that has finished holds
     exactly the answer it computes alone, every unfinished call still denotes it, and the memo keeps its invariant. *)
  Theorem interleaving_equals_isolation : forall (ps : list (@prog V A)) c schedule, Inv create c ->
    let '(ths, c') := run_schedule create path_cache_max star (map (@TRun V A) ps, c) schedule in
    Inv create c' /\ Forall2 (fun ts p => denote create star ts = Some (run_pure create star p)) ths ps.
  Proof. exact (interleaving_equals_isolation_lemma create path_cache_max star). Qed.

  Theorem finished_calls_hold_isolated_answers : forall (ps : list (@prog V A)) schedule i a,
    nth_error (fst (run_schedule create path_cache_max star (map (@TRun V A) ps, empty) schedule)) i = Some (TDone a) ->
    exists p, nth_error ps i = Some p /\ a = run_pure create star p.
  Proof. exact (done_threads_hold_isolated_answers create path_cache_max star). Qed.

  (* `return cache[text]` never fails under any interleaving *)
  Theorem no_call_fails_on_the_shared_memo : forall (ps : list (@prog V A)) schedule i,
    nth_error (fst (run_schedule create path_cache_max star (map (@TRun V A) ps, empty) schedule)) i <> Some TKeyError.
  Proof. exact (no_thread_fails create path_cache_max star). Qed.
End C20.
Print Assumptions interleaving_equals_isolation.
Print Assumptions finished_calls_hold_isolated_answers.
Print Assumptions no_call_fails_on_the_shared_memo.

(* a call made from inside a running call (from a callable or a custom spec) is part of the same sequential program: the
   outer call continues with exactly the nested call's isolated outcome, to any nesting depth (pbind nests) *)
Theorem reentrant_equals_isolation : forall V (create : bool -> string -> V) A B star c (inner : @prog V A) (outer : A -> @prog V B),
  Inv create c ->
  fst (run create path_cache_max star c (pbind inner outer)) = run_pure create star (outer (run_pure create star inner)).
Proof. intros V create A B. exact (reentrant_equals_isolation_lemma create path_cache_max). Qed.
Print Assumptions reentrant_equals_isolation.

(* non-vacuity: two threads racing for the same text; thread 1 stores between thread 0's membership test and its store *)
Example ex_race :
  let create := fun (s : bool) (t : string) => (s, t) in
  let p := Ask "a" (fun v => Ret v) in
  let '(ths, c) := run_schedule create 5 true ([TRun p; TRun p], empty) [0; 1; 1; 1; 0; 0; 0; 0; 1; 1] in
  ths = [TDone (true, "a"); TDone (true, "a")] /\ map fst (c_star c) = ["a"].
Proof. vm_compute. split; reflexivity. Qed.
