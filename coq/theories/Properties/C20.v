(* Properties/C20.v — concurrent and re-entrant glom calls behave exactly as when run alone. *)
From Coq Require Import String ZArith Bool List.
From Glom Require Import Base.PyVal Generated.CacheOps Model.Cache Model.Sched Proofs.CacheProofs Proofs.SchedProofs.
Import ListNotations.
Local Open Scope string_scope.
Local Open Scope list_scope.

Section C20.
  Context {V A : Type}.
  Variable create : bool -> string -> V.
  Variable star : bool.

  (* Any number of calls, each any program over the shared path memo; any schedule, switching between the individual dict
     operations of Path.from_text; started from any memo state reachable by from_text: every call that has finished holds
     exactly the answer it computes alone, every unfinished call still denotes it, and the memo keeps its invariant. *)
  (* The theorems hold for BOTH memos glom shares between calls — they are stated for any capacity, with or without the length
     test, and for any rule about which created values are stored:
       Path._CACHE             capacity path_cache_max, length test, every Path stored;
       registry._type_cache    no length test, a failed lookup (UnregisteredTarget) is not stored. *)
  Variable maxc : Z.
  Variable lencheck : bool.
  Variable storable : V -> bool.

  Theorem interleaving_equals_isolation : forall (ps : list (@prog V A)) c schedule, Inv create c ->
    let '(ths, c') := run_schedule create maxc star lencheck storable (map (@TRun V A) ps, c) schedule in
    Inv create c' /\ Forall2 (fun ts p => denote create star ts = Some (run_pure create star p)) ths ps.
  Proof. exact (interleaving_equals_isolation_lemma create maxc star lencheck storable). Qed.

  Theorem finished_calls_hold_isolated_answers : forall (ps : list (@prog V A)) schedule i a,
    nth_error (fst (run_schedule create maxc star lencheck storable (map (@TRun V A) ps, empty) schedule)) i = Some (TDone a) ->
    exists p, nth_error ps i = Some p /\ a = run_pure create star p.
  Proof. exact (done_threads_hold_isolated_answers create maxc star lencheck storable). Qed.

  (* `return cache[key]` never fails under any interleaving *)
  Theorem no_call_fails_on_the_shared_memo : forall (ps : list (@prog V A)) schedule i,
    nth_error (fst (run_schedule create maxc star lencheck storable (map (@TRun V A) ps, empty) schedule)) i <> Some TKeyError.
  Proof. exact (no_thread_fails create maxc star lencheck storable). Qed.
End C20.
Print Assumptions interleaving_equals_isolation.
Print Assumptions finished_calls_hold_isolated_answers.
Print Assumptions no_call_fails_on_the_shared_memo.

(* a call made from inside a running call (from a callable or a custom spec) is part of the same sequential program: the
   outer call continues with exactly the nested call's isolated outcome, to any nesting depth (pbind nests) *)
Theorem reentrant_equals_isolation : forall V (create : bool -> string -> V) A B star c (inner : @prog V A) (outer : A -> @prog V B),
  Inv create c ->
  fst (run create path_cache_max star c (pbind inner outer)) = run_pure create star (outer (run_pure create star inner)).
Proof. intros V create A B. exact (reentrant_equals_isolation_lemma create path_cache_max). Qed.
Print Assumptions reentrant_equals_isolation.

(* non-vacuity: two threads racing for the same text; thread 1 stores between thread 0's membership test and its store *)
Example ex_race :
  let create := fun (s : bool) (t : string) => (s, t) in
  let p := Ask "a" (fun v => Ret v) in
  let '(ths, c) := run_schedule create 5 true true (fun _ => true) ([TRun p; TRun p], empty) [0; 1; 1; 1; 0; 0; 0; 0; 1; 1] in
  ths = [TDone (true, "a"); TDone (true, "a")] /\ map fst (c_star c) = ["a"].
Proof. vm_compute. split; reflexivity. Qed.
(* the registry protocol: a failed lookup is answered without being stored *)
Example ex_registry :
  let create := fun (_ : bool) (k : string) => if String.eqb k "int|iterate" then None else Some k in
  let p := Ask "int|iterate" (fun v => Ask "dict|get" (fun w => Ret (v, w))) in
  let '(ths, c) := run_schedule create 0 true false (fun v => match v with Some _ => true | None => false end)
                     ([TRun p; TRun p], empty) [0; 1; 0; 1; 0; 1; 1; 0; 0; 1; 1; 0] in
  ths = [TDone (None, Some "dict|get"); TDone (None, Some "dict|get")] /\ map fst (c_star c) = ["dict|get"].
Proof. vm_compute. split; reflexivity. Qed.
