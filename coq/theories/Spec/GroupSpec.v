(* Spec/GroupSpec.v — the hand-written bucketing loop Group is compared with (C16): level by level,
   keys by first occurrence, items in encounter order, an item whose key is SKIP dropped at that level,
   leaves = the aggregator's Python reference over the items routed to the leaf. *)
From Coq Require Import String ZArith Bool List.
From Glom Require Import Base.PyVal Model.TEval Model.Reduce Model.Group.
Import ListNotations.
Local Open Scope list_scope.

(* keys of the items, in order, paired with the item; SKIP keys dropped *)
Fixpoint keyed (k : keyfn) (items : list val) : res (list (val * val)) :=
  match items with
  | [] => Ok []
  | x :: r => match apply_key k x with
              | Ok VSkip => keyed k r
              | Ok VStop => Unmodelled "stop-key"     (* STOP-producing key functions are outside the property *)
              | Ok key => match keyed k r with Ok l => Ok ((key, x) :: l) | e => e end
              | Raise e => Raise e | Unmodelled u => Unmodelled u | OutOfFuel => OutOfFuel end
  end.

(* distinct keys in order of first occurrence *)
Fixpoint first_keys (l : list (val * val)) (seen : list val) : list val :=
  match l with
  | [] => []
  | (k, _) :: r => if mem py_eqb k seen then first_keys r seen else k :: first_keys r (k :: seen) end.
Definition bucket (k : val) (l : list (val * val)) : list val :=
  map snd (filter (fun kv => py_eqb (fst kv) k) l).

(* Python references of the leaf aggregators over the routed items (non-empty for leaves under keys) *)
Definition agg_ref (a : agg) (items : list val) : res val :=
  match a, items with
  | _, [] => Ok VNone
  | AFirst, x :: _ => Ok x
  | ACount, _ => Ok (VInt (Z.of_nat (length items)))
  | _, _ =>
      (* the running aggregate after the last item *)
      (fix go (st : option aggst) (l : list val) (last : val) : res val :=
         match l with
         | [] => Ok last
         | x :: r => match agg_step a st x with
                     | Ok (v, st') => go st' r v
                     | Raise e => Raise e | Unmodelled u => Unmodelled u | OutOfFuel => OutOfFuel end
         end) None items VNone
  end.

Fixpoint map_res {A B} (f : A -> res B) (l : list A) : res (list B) :=
  match l with [] => Ok [] | x :: r => match f x with
                                       | Ok y => match map_res f r with Ok ys => Ok (y :: ys) | Raise e => Raise e | Unmodelled u => Unmodelled u | OutOfFuel => OutOfFuel end
                                       | Raise e => Raise e | Unmodelled u => Unmodelled u | OutOfFuel => OutOfFuel end end.

Fixpoint group_ref (s : gspec) (items : list val) : res val :=
  match s with
  | GDict k v =>
      match keyed k items with
      | Ok l =>
          match map_res (fun key => match group_ref v (bucket key l) with
                                    | Ok r => Ok (key, r) | Raise e => Raise e | Unmodelled u => Unmodelled u | OutOfFuel => OutOfFuel end)
                        (first_keys l []) with
          | Ok kvs => Ok (VDict 0 false (filter (fun kv => match snd kv with VSkip => false | _ => true end) kvs))
          | Raise e => Raise e | Unmodelled u => Unmodelled u | OutOfFuel => OutOfFuel end
      | Raise e => Raise e | Unmodelled u => Unmodelled u | OutOfFuel => OutOfFuel end
  | GList (GFn f) =>
      match map_res (apply_fn1 f) items with
      | Ok vs => Ok (VList 0 (filter (fun v => match v with VSkip => false | _ => true end) vs))
      | Raise e => Raise e | Unmodelled u => Unmodelled u | OutOfFuel => OutOfFuel end
  | GList _ => Unmodelled "list-of-non-value"
  | GAgg a => agg_ref a items
  | GFn f => Unmodelled "bare-callable-leaf"      (* neither [value_spec] nor an aggregator: outside the property *)
  | GLimit n v => match firstn n items with [] => Ok VNone | l => group_ref v l end     (* nothing consumed: Group's initial None *)
  end.

(* ---------- the reference in closed form for the family "single-key dict levels over [value function] or Count/Sum/Max/Min" ---------- *)
Definition pkeyed (k : keyfn) (l : list val) : list (val * val) :=
  flat_map (fun x => match apply_key k x with Ok VSkip => [] | Ok key => [(key, x)] | _ => [] end) l.
Definition dict_ref (k : keyfn) (refv : list val -> val) (l : list val) : list (val * val) :=
  map (fun key => (key, refv (bucket key (pkeyed k l)))) (first_keys (pkeyed k l) []).
Definition fval (f : fn) (x : val) : val := match apply_fn1 f x with Ok r => r | _ => VNone end.
Definition nonskip (v : val) : bool := match v with VSkip => false | _ => true end.
Definition unint (x : val) : Z := match x with VInt z => z | _ => 0%Z end.
Definition agg_val (a : agg) (l : list val) : val :=
  match a with
  | ACount => VInt (Z.of_nat (length l))
  | ASum => VInt (fold_left Z.add (map unint l) 0%Z)
  | AMax => match map unint l with [] => VNone | z :: r => VInt (fold_left Z.max r z) end
  | AMin => match map unint l with [] => VNone | z :: r => VInt (fold_left Z.min r z) end
  | _ => VNone end.

Inductive bspec := BList (f : fn) | BAgg (a : agg) | BDict (k : keyfn) (b : bspec).
Fixpoint to_g (b : bspec) : gspec :=
  match b with BList f => GList (GFn f) | BAgg a => GAgg a | BDict k b' => GDict k (to_g b') end.
Fixpoint ref_of (b : bspec) : list val -> val :=
  match b with
  | BList f => fun l => VList 0 (filter nonskip (map (fval f) l))
  | BAgg a => agg_val a
  | BDict k b' => fun l => VDict 0 false (dict_ref k (ref_of b') l) end.
Fixpoint of_g (s : gspec) : option bspec :=
  match s with
  | GList (GFn f) => Some (BList f)
  | GAgg a => match a with ACount | ASum | AMax | AMin => Some (BAgg a) | _ => None end
  | GDict k v => option_map (BDict k) (of_g v)
  | _ => None end.
