(* Spec/IterSpec.v — the reference reading of an Iter pipeline (C17): every stage is a function from a finite stream
   with an end marker (ended normally / raised e) to such a stream, and a pipeline is the composition of its stages in
   chaining order.  For error-free callbacks the stage functions are the familiar list functions. *)
From Coq Require Import String ZArith Bool List Lia.
From Glom Require Import Base.PyVal Model.TEval Model.Reduce Model.Iter.
Import ListNotations.
Local Open Scope list_scope.

(* a stage run alone over a list of inputs *)
Fixpoint stage_run (st : stage) (s : sstate) (xs : list val) : list val * status * sstate :=
  match xs with
  | [] => ([], Cont, s)
  | x :: r => let '(o, e, s') := feed st s x in
              match e with
              | Cont => let '(o2, e2, s2) := stage_run st s' r in (o ++ o2, e2, s2)
              | _ => (o, e, s') end
  end.

(* a stream: the items and how it ends — Stop: ended normally; Err / Unm: raised; Cont: still open *)
Definition stream : Type := list val * status.

Definition stage_den (st : stage) (s : sstate) (inp : stream) : stream :=
  let '(xs, ein) := inp in
  let '(o, e, s') := stage_run st s xs in
  match e with
  | Cont => match ein with
            | Stop => (o ++ flush1 st s', Stop)
            | other => (o, other) end
  | _ => (o, e) end.

(* the composition, stages applied in list order *)
Fixpoint den (stages : list stage) (sts : list sstate) (inp : stream) : stream :=
  match stages, sts with
  | st :: rest, s :: ss => den rest ss (stage_den st s inp)
  | _, _ => inp end.

Definition den0 (stages : list stage) (xs : list val) : stream := den stages (map init_state stages) (xs, Stop).

(* the push machine drained over a finite input *)
Definition machine (stages : list stage) (sts : list sstate) (inp : stream) : stream :=
  let '(xs, ein) := inp in
  let '(f, e, ss) := push_list (push stages) sts xs in
  match e with
  | Cont => match ein with
            | Stop => let '(f2, e2, _) := flush stages ss in (f ++ f2, e2)
            | other => (f, other) end
  | _ => (f, e) end.

(* ---------- the familiar list functions ---------- *)
Fixpoint take_while (p : val -> bool) (l : list val) : list val :=
  match l with [] => [] | x :: r => if p x then x :: take_while p r else [] end.
Fixpoint drop_while (p : val -> bool) (l : list val) : list val :=
  match l with [] => [] | x :: r => if p x then drop_while p r else l end.
Fixpoint chunks_from (n : nat) (buf : list val) (l : list val) : list (list val) * list val :=
  match l with
  | [] => ([], buf)
  | x :: r => let buf' := buf ++ [x] in
              if Nat.eqb (List.length buf') n then let '(cs, b) := chunks_from n [] r in (buf' :: cs, b)
              else chunks_from n buf' r end.
Fixpoint uniq_by (key : val -> val) (seen : list val) (l : list val) : list val :=
  match l with
  | [] => []
  | x :: r => if mem py_eqb (key x) seen then uniq_by key seen r else x :: uniq_by key (seen ++ [key x]) r end.

(* _iterate's rule on the values the subspec produced *)
Definition base_keep (sentinel y : val) : bool := negb (negb (is_skip y) && (is_same y sentinel || is_same y VStop)).
