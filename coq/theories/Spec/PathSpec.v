(* Spec/PathSpec.v — property-shaped reference definitions for C01 (no proofs here; independent of the
   generated opcode tables except through the primitive accessors of Model/TEval.v) *)
From Coq Require Import String Ascii ZArith Bool List.
From Glom Require Import Base.PyVal Model.TEval.
Import ListNotations.
Local Open Scope string_scope.
Local Open Scope list_scope.

Definition part_steps (p : part) : list (string * arg) :=
  match p with PVal v => [("P", ALit v)] | PT steps => steps end.
Definition parts_steps (ps : list part) : list (string * arg) := concat (map part_steps ps).

(* ---------- Spec layer for C01: left fold of the per-type access with a running index ---------- *)
Definition access1 (cur seg : val) : res val := get_handler_get cur (EVal seg).

Fixpoint access (segs : list val) (k : nat) (cur : val) : res val :=
  match segs with
  | [] => Ok cur
  | s :: r => match access1 cur (rebuild s) with
              | Ok v => access r (S k) v
              | Raise e => Raise (pae (ecls e) k)
              | Unmodelled t => Unmodelled t
              | OutOfFuel => OutOfFuel end
  end.

Definition no_star (segs : list string) : Prop := forall s, In s segs -> s <> "*" /\ s <> "**".


(* the segments of a spec, when it consists of plain segments only *)
Fixpoint plain_segments (ps : list part) : option (list val) :=
  match ps with
  | [] => Some []
  | PVal v :: r => option_map (cons v) (plain_segments r)
  | PT _ :: _ => None end.
Definition text_segments (star : bool) (text : string) : option (list val) :=
  let segs := split_dots text in
  if existsb (fun s => String.eqb s "*" || String.eqb s "**") segs then None else Some (map VStr segs).
