(* Spec/TSpec.v — what a recorded T expression denotes (C02): the Python operation behind each overload,
   applied left to right; the first failing attribute / item / arithmetic operation k surfaces as
   PathAccessError(.., k); a failing *call* raises the callee's own exception. *)
From Coq Require Import String Ascii ZArith Bool List.
From Glom Require Import Base.PyVal Model.TEval.
Import ListNotations.
Local Open Scope string_scope.
Local Open Scope list_scope.

Inductive pyop := PGetattr | PGetitem | PCall | PBin (o : binop) | PUn (o : unop).

Definition denotes (d : string) : option pyop :=
  if String.eqb d "__getattr__" then Some PGetattr
  else if String.eqb d "__getitem__" then Some PGetitem
  else if String.eqb d "call" then Some PCall
  else match binop_of_dunder d with
       | Some o => Some (PBin o)
       | None => option_map PUn (unop_of_dunder d) end.

Definition apply_pyop (p : pyop) (cur : val) (a : earg) : res val :=
  match p, a with
  | PGetattr, EVal (VStr n) => getattr_val cur (VStr n)
  | PGetitem, _ => getitem_val cur a
  | PCall, ECall vs kw => call_kw cur vs kw
  | PBin o, EVal y => apply_binop o cur y
  | PUn o, _ => apply_unop o cur
  | _, _ => Unmodelled "arg-shape" end.

Definition failure_is_pae (p : pyop) : bool := match p with PCall => false | _ => true end.

Fixpoint replay (rec : evalfn) (target : val) (ops : list (string * arg)) (k : nat) (cur : val) : res val :=
  match ops with
  | [] => Ok cur
  | (d, a) :: r =>
      match denotes d with
      | None => Unmodelled "op"
      | Some p =>
          do ea <- arg_val rec target a;
          match apply_pyop p cur ea with
          | Ok v => replay rec target r (S k) v
          | Raise e => if failure_is_pae p then Raise (pae (ecls e) k) else Raise e
          | Unmodelled t => Unmodelled t
          | OutOfFuel => OutOfFuel end
      end
  end.

(* number of operations applied on a successful run = number recorded (no operation is dropped) *)
Fixpoint replay_count (rec : evalfn) (target : val) (ops : list (string * arg)) (cur : val) : option nat :=
  match ops with
  | [] => Some 0
  | (d, a) :: r =>
      match denotes d with
      | None => None
      | Some p => match arg_val rec target a with
                  | Ok ea => match apply_pyop p cur ea with
                             | Ok v => option_map S (replay_count rec target r v)
                             | _ => None end
                  | _ => None end
      end
  end.

Definition t_spec (fuel : nat) (target : val) (ops : list (string * arg)) : res val :=
  replay (t_eval fuel) target ops 0 target.
