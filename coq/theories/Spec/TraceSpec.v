(* Spec/TraceSpec.v — what the trace of a failing evaluation SHOULD be (C05), by recursion on the spec alone, with no
   breadcrumbs: the spec at every level from the root down to the innermost spec that failed, each with the target it
   received; for a chain, the steps already done, in order; for a branching spec, every attempted branch with the trace of
   its failure, unless a single attempt makes it a straight line; errors shown where they were raised. *)
From Coq Require Import Bool Lia List Arith.
From Glom Require Import Model.Trace.
Import ListNotations.
Local Open Scope list_scope.

(* the error a failing trace ends with / a branch list shows: the error of the last entry *)
Definition top_err (trs : list tr) : option nat := match trs with TR _ _ e _ :: _ => e | [] => None end.

(* an entry above a continuation: its own error is dropped when the entry below carries the same one *)
Definition above (sid t : nat) (own : nat) (below : list tr) (below_err : nat) : list tr :=
  TR sid t (if Nat.eqb own below_err then None else Some own) [] :: below.

Section Exp.
  Variable rec : tspec -> nat -> out * list tr * nat.   (* outcome, trace (when failing), the error every line of it carried before push-down *)

  (* dict: the first failing value spec *)
  Fixpoint nest_exp (sid t : nat) (kids : list tspec) : out * list tr * nat :=
    match kids with
    | [] => (Ret (1000 + sid), [], 0)
    | k :: r => match rec k t with
                | (Ret _, _, _) => nest_exp sid t r
                | (Exc e, trk, ek) => (Exc e, above sid t e trk ek, e) end end.

  (* And: the first failing child, like a dict spec; the value of the last child otherwise *)
  Fixpoint and_exp (sid t : nat) (kids : list tspec) (last : nat) : out * list tr * nat :=
    match kids with
    | [] => (Ret last, [], 0)
    | k :: r => match rec k t with
                | (Ret v, _, _) => and_exp sid t r v
                | (Exc e, trk, ek) => (Exc e, above sid t e trk ek, e) end end.

  (* tuple: steps done so far hang under each other, top frames only; [done] lists them (newest last) *)
  Fixpoint chain_exp (cur : nat) (done : list (nat * nat)) (steps : list tspec) : out * list tr * nat :=
    match steps with
    | [] => (Ret cur, [], 0)
    | s :: r => match rec s cur with
                | (Ret v, _, _) => chain_exp v (done ++ [(sid_of s, cur)]) r
                | (Exc e, trs, es) =>
                    (Exc e, map (fun st => TR (fst st) (snd st) None []) done ++ trs, es) end end.

  (* Coalesce: every alternative until one succeeds with a value that is not skipped; none -> its own error, the FAILED
     attempts as branches ([last_failed]: whether the attempt made last was a failing one) *)
  Fixpoint alt_exp (t : nat) (bs : list tspec) (failed : list (list tr)) (last_failed : bool) : option nat * list (list tr) * bool :=
    match bs with
    | [] => (None, failed, last_failed)
    | b :: r => match rec b t with
                | (Ret v, _, _) => if Nat.eqb v 0 then alt_exp t r failed false else (Some v, failed, last_failed)
                | (Exc _, trb, _) => alt_exp t r (failed ++ [trb]) true end end.

  Fixpoint or_exp (t : nat) (bs : list tspec) (failed : list (list tr)) (last : nat * nat) : option nat * list (list tr) * (nat * nat) :=
    match bs with
    | [] => (None, failed, last)
    | b :: r => match rec b t with
                | (Ret v, _, _) => (Some v, failed, last)
                | (Exc e, trb, eb) => or_exp t r (failed ++ [trb]) (e, eb) end end.

  (* Switch: keys in order; the first key that matches decides — its value spec runs chained under the key *)
  Fixpoint switch_exp (t : nat) (cs : list (tspec * tspec)) (failed : list (list tr)) : out * list (list tr) * option (nat * nat) :=
    match cs with
    | [] => (Exc 0, failed, None)                        (* every key failed *)
    | (k, v) :: r => match rec k t with
                     | (Exc _, trk, _) => switch_exp t r (failed ++ [trk])
                     | (Ret _, _, _) =>
                         match rec v t with
                         | (Ret x, _, _) => (Ret x, failed, None)
                         | (Exc e, trv, ev) => (Exc e, failed ++ [TR (sid_of k) t None [] :: trv], Some (e, ev)) end end end.
End Exp.

Definition line_err (trs : list tr) (default : nat) : nat :=
  match trs with TR _ _ (Some e) _ :: _ => e | _ => default end.

Fixpoint exp (fuel : nat) (s : tspec) (t : nat) : out * list tr * nat :=
  match fuel with O => (Exc 0, [], 0) | S fuel =>
  match s with
  | Leaf n ok => if ok then (Ret (2000 + n), [], 0) else (Exc n, [TR n t (Some n) []], n)
  | SkipLeaf _ => (Ret 0, [], 0)
  | Nest n kids => nest_exp (exp fuel) n t kids
  | Chain n steps =>
      match chain_exp (exp fuel) t [] steps with
      | (Ret v, _, _) => (Ret v, [], 0)
      | (Exc e, trs, es) => (Exc e, above n t e trs (match trs with TR _ _ None _ :: _ => e | _ => es end), e) end
  | Alt n bs =>
      match alt_exp (exp fuel) t bs [] false with
      | (Some v, _, _) => (Ret v, [], 0)
      (* a single failed attempt that was also the last one is a straight line; otherwise the failed attempts are branches *)
      | (None, [one], true) => (Exc (5000 + n), TR n t (Some (5000 + n)) [] :: one, 5000 + n)
      | (None, failed, _) => (Exc (5000 + n), [TR n t (Some (5000 + n)) failed], 5000 + n) end
  | OrS n bs =>
      match bs with
      | [] => (Ret t, [], 0)
      | _ =>
      match or_exp (exp fuel) t bs [] (0, 0) with
      | (Some v, _, _) => (Ret v, [], 0)
      | (None, [one], (e, eb)) => (Exc e, above n t e one eb, e)
      | (None, failed, (e, _)) => (Exc e, [TR n t (Some e) failed], e) end end
  | Switch n cs =>
      match switch_exp (exp fuel) t cs [] with
      | (Ret v, _, _) => (Ret v, [], 0)
      | (Exc _, [one], None) => (Exc (5000 + n), TR n t (Some (5000 + n)) [] :: one, 5000 + n)
      | (Exc _, failed, None) => (Exc (5000 + n), [TR n t (Some (5000 + n)) failed], 5000 + n)
      | (Exc e, [one], Some (_, ev)) => (Exc e, TR n t None [] :: one, e)
      | (Exc e, failed, Some _) => (Exc e, [TR n t (Some e) failed], e) end
  (* a guard: the failing sub-spec below it — or, when the sub-spec succeeded and the guard itself refuses, the guard alone *)
  (* Coalesce with a default factory never fails: nothing of it shows in a trace *)
  | AltD n bs =>
      match alt_exp (exp fuel) t bs [] false with
      | (Some v, _, _) => (Ret v, [], 0)
      | (None, _, _) => (Ret (3000 + n), [], 0) end
  | Guard n ok kid =>
      match exp fuel kid t with
      | (Ret _, _, _) => if ok then (Ret t, [], 0) else (Exc (6000 + n), [TR n t (Some (6000 + n)) []], 6000 + n)
      | (Exc e, trk, ek) => (Exc e, above n t e trk ek, e) end
  (* Not: a sub-spec that failed is forgiven and nothing of it shows; one that passed makes the Not refuse, alone *)
  | NotS n kid =>
      match exp fuel kid t with
      | (Ret _, _, _) => (Exc (6000 + n), [TR n t (Some (6000 + n)) []], 6000 + n)
      | (Exc _, _, _) => (Ret t, [], 0) end
  | AndS n kids => and_exp (exp fuel) n t kids t
  end end.

Definition expected (s : tspec) : out * list tr := let '(o, trs, _) := exp (S (tdepth s)) s root_target in (o, trs).

(* ---------- exact comparison and a finite family of shapes for the bounded companion ---------- *)
Fixpoint tr_same (fuel : nat) (a b : tr) : bool :=
  match fuel with O => false | S fuel =>
  match a, b with TR s1 t1 e1 b1, TR s2 t2 e2 b2 =>
    Nat.eqb s1 s2 && Nat.eqb t1 t2 && oeq e1 e2 &&
    (fix bl (x y : list (list tr)) := match x, y with [], [] => true | p :: x, q :: y =>
       (fix tl (u v : list tr) := match u, v with [], [] => true | c :: u, d :: v => tr_same fuel c d && tl u v | _, _ => false end) p q && bl x y
       | _, _ => false end) b1 b2 end end.
Fixpoint trs_same (a b : list tr) : bool :=
  match a, b with [], [] => true | x :: a, y :: b => tr_same 50 x y && trs_same a b | _, _ => false end.
Definition out_same (a b : out) : bool :=
  match a, b with Ret x, Ret y => Nat.eqb x y | Exc x, Exc y => Nat.eqb x y | _, _ => false end.

(* the breadcrumb machine shows what the structural reading says *)
Definition agrees (s : tspec) : bool :=
  let '(o1, t1) := run s in let '(o2, t2) := expected s in
  out_same o1 o2 && match o1 with Ret _ => true | Exc _ => trs_same t1 t2 end.

(* number the occurrences in pre-order *)
Fixpoint relabel (fuel : nat) (s : tspec) (n : nat) : tspec * nat :=
  match fuel with O => (s, n) | S fuel =>
  let many := fix many (l : list tspec) (n : nat) : list tspec * nat :=
      match l with [] => ([], n) | x :: r => let '(x', n1) := relabel fuel x n in let '(r', n2) := many r n1 in (x' :: r', n2) end in
  match s with
  | Leaf _ ok => (Leaf n ok, S n)
  | SkipLeaf _ => (SkipLeaf n, S n)
  | Nest _ l => let '(l', m) := many l (S n) in (Nest n l', m)
  | Chain _ l => let '(l', m) := many l (S n) in (Chain n l', m)
  | Alt _ l => let '(l', m) := many l (S n) in (Alt n l', m)
  | OrS _ l => let '(l', m) := many l (S n) in (OrS n l', m)
  | Switch _ cs =>
      let '(cs', m) := (fix pairs (l : list (tspec * tspec)) (n : nat) : list (tspec * tspec) * nat :=
          match l with [] => ([], n)
          | (k, v) :: r => let '(k', n1) := relabel fuel k n in let '(v', n2) := relabel fuel v n1 in
                           let '(r', n3) := pairs r n2 in ((k', v') :: r', n3) end) cs (S n) in
      (Switch n cs', m)
  | Guard _ ok k => let '(k', m) := relabel fuel k (S n) in (Guard n ok k', m)
  | AltD _ l => let '(l', m) := many l (S n) in (AltD n l', m)
  | NotS _ k => let '(k', m) := relabel fuel k (S n) in (NotS n k', m)
  | AndS _ l => let '(l', m) := many l (S n) in (AndS n l', m)
  end end.
Definition numbered (s : tspec) : tspec := fst (relabel 10 s 1).

Definition lists12 {A} (l : list A) : list (list A) := map (fun x => [x]) l ++ flat_map (fun x => map (fun y => [x; y]) l) l.
Definition level (prev : list tspec) : list tspec :=
  prev ++ map (Guard 0 false) prev ++ map (Guard 0 true) prev
       ++ flat_map (fun ks => [Nest 0 ks; Chain 0 ks; Alt 0 ks; OrS 0 ks; AltD 0 ks]) (lists12 prev)
       ++ map (fun kv => Switch 0 [kv]) (list_prod prev prev).
Definition leaves : list tspec := [Leaf 0 true; Leaf 0 false; SkipLeaf 0].
Definition shapes1 : list tspec :=
  level leaves ++ map (fun kvs => Switch 0 kvs) (flat_map (fun a => map (fun b => [a; b]) (list_prod leaves leaves)) (list_prod leaves leaves)).
Definition shapes2 : list tspec := level shapes1.
