#!/venv/bin/python
"""./check Cxx [--tier quick|thorough] [--replay file]   — one property check (DESIGN.md section 5)."""
import argparse
import importlib
import json
import os
import signal
import sys
import time
import traceback

HERE = os.path.dirname(os.path.abspath(__file__))
sys.path.insert(0, HERE)
import lib  # noqa: E402

os.environ.setdefault('PYTHONHASHSEED', '0')
sys.path.insert(0, lib.REPO)          # the implementation under test: /repo's working tree


class CaseTimeout(Exception):
    pass


def _alarm(signum, frame):
    raise CaseTimeout()


def run_with_timeout(fn, arg, secs=5.0):
    signal.signal(signal.SIGALRM, _alarm)
    signal.setitimer(signal.ITIMER_REAL, secs)
    try:
        return fn(arg)
    finally:
        signal.setitimer(signal.ITIMER_REAL, 0)


def main():
    ap = argparse.ArgumentParser()
    ap.add_argument('prop')
    ap.add_argument('--tier', default=os.environ.get('VERIF_TIER', 'quick'), choices=['quick', 'thorough'])
    ap.add_argument('--replay')
    ap.add_argument('--seed', type=int, default=int(os.environ.get('VERIF_SEED', '20260101')))
    args = ap.parse_args()
    pid = args.prop.upper()
    mod = importlib.import_module('props.' + pid.lower())
    t0 = time.time()
    seed = args.seed
    rng = lib.Rng(seed)
    violations = []        # (what, replay_path, no_input)
    notes = []
    known_lines = []

    # 1-2. translate + build ------------------------------------------------------------------
    tstatus, build_ok, build_log = lib.translate_and_build()
    tie_broken = []
    for dep in getattr(mod, 'GENERATED_DEPS', []):
        if tstatus.get(dep):
            tie_broken.append('translator refused %s: %s' % (dep, tstatus[dep]))
    model_ok = all(lib.vo_ok(m) for m in mod.MODEL_FILES)
    if not model_ok:
        tie_broken.append('model does not compile against the regenerated tables: ' +
                          ', '.join(m for m in mod.MODEL_FILES if not lib.vo_ok(m)))
    # 3. proof obligations ---------------------------------------------------------------------
    if model_ok:
        assum = lib.check_assumptions(mod.PROPERTY_FILE)
    else:
        assum = dict(obligations=0, discharged=0, axioms=[], theorems=[], ok=False, log=build_log[-3000:], rc=1)
    proof_ok = assum['ok']
    if not proof_ok:
        tie_broken.append('proof obligations of %s no longer check (rc=%s, %d/%d closed, axioms=%s)'
                          % (mod.PROPERTY_FILE, assum.get('rc'), assum['discharged'], assum['obligations'], assum['axioms']))
    gate = lib.grep_gate()
    if gate:
        tie_broken.append('forbidden vernacular in the development: ' + '; '.join(gate[:5]))

    # replay mode ------------------------------------------------------------------------------
    if args.replay:
        payload = json.load(open(args.replay))
        case = payload.get('case')
        if case is None:
            print('replay file names a broken obligation, not an input:', payload.get('what'))
            print(json.dumps(payload, indent=1)[:3000])
            return 1
        out = run_with_timeout(mod.run_impl, case)
        print('case:', json.dumps(case))
        print('implementation outcome:', json.dumps(out, default=str))
        if model_ok:
            term = mod.coq_case(case, out)
            mism, errs = lib.run_shards(pid + '_replay', mod.COQ_HEADER, mod.CHECK_FN, [term])
            print('model agrees:', not mism and not errs)
            print(lib.eval_terms(pid + '_replay', mod.COQ_HEADER, [mod.model_dump_term(case)]))
            return 1 if (mism or errs) else 0
        return 1

    # 4-5. cases -------------------------------------------------------------------------------
    tier = args.tier
    search_mode = bool(tie_broken)
    gen_tier = 'thorough' if search_mode else tier     # a broken tie/proof triggers the search
    cases = list(mod.corpus()) + list(mod.generate(rng, gen_tier))
    outcomes = []
    impl_errors = 0
    for c in cases:
        try:
            outcomes.append(run_with_timeout(mod.run_impl, c))
        except CaseTimeout:
            outcomes.append({'harness_timeout': True})
            impl_errors += 1
        except Exception as e:   # the harness itself could not drive the implementation
            outcomes.append({'harness_error': '%s: %s' % (type(e).__name__, e)})
            impl_errors += 1
    dist = {}
    nontrivial = set()
    for c, o in zip(cases, outcomes):
        k = mod.classify(c, o)
        dist[k] = dist.get(k, 0) + 1
        if mod.nontrivial(c, o):
            nontrivial.add(lib.stable_hash(c))
    mism, errs = [], []
    unmodelled = 0
    if model_ok:
        terms = [mod.coq_case(c, o) for c, o in zip(cases, outcomes)]
        mism, errs = lib.run_shards(pid, mod.COQ_HEADER, mod.CHECK_FN, terms,
                                    shard_size=getattr(mod, 'SHARD', 400),
                                    unm_fn=getattr(mod, 'UNMODELLED_FN', '(fun _ => false)'))
        unmodelled = lib.LAST['unmodelled']
        if errs:
            tie_broken.append('correspondence could not be evaluated: ' + ' | '.join(e[:600] for e in errs[:3]))
    # python-side direct oracles (supporting search; see each props module)
    direct = []
    if hasattr(mod, 'direct_oracle'):
        for i, (c, o) in enumerate(zip(cases, outcomes)):
            try:
                msg = mod.direct_oracle(c, o)
            except Exception as e:
                msg = 'oracle crashed: %r' % e
            if msg:
                direct.append((i, msg))
    # 6. verdict -------------------------------------------------------------------------------
    kf = lib.known_findings()
    seen_known = set()
    bad = {}
    for i in mism:
        bad[i] = 'model/implementation mismatch'
    for i, msg in direct:
        bad.setdefault(i, 'direct oracle: ' + msg)
    reported = 0
    for i in sorted(bad):
        c, o = cases[i], outcomes[i]
        fid = None
        for f in kf.get('findings', []):
            if f['property'] == pid and hasattr(mod, 'matches_finding') and mod.matches_finding(f, c, o):
                fid = f
                break
        if fid:
            if fid['id'] not in seen_known:
                seen_known.add(fid['id'])
                known_lines.append('KNOWN-FINDING: property=%s %s' % (pid, fid['what']))
            continue
        if reported >= 5:
            reported += 1
            continue
        small = c
        if hasattr(mod, 'shrink') and model_ok:
            try:
                small = mod.shrink(c, lambda cc: _still_fails(mod, pid, cc))
            except Exception:
                small = c
        so = run_with_timeout(mod.run_impl, small) if small is not c else o
        model_out = ''
        if model_ok:
            try:
                model_out = lib.eval_terms(pid + '_dump', mod.COQ_HEADER, [mod.model_dump_term(small)])[-3000:]
            except Exception as e:
                model_out = 'could not dump: %r' % e
        path = lib.write_replay(pid, {
            'property': pid, 'what': bad[i], 'seed': seed, 'case': small, 'implementation_outcome': so,
            'model_outcome_coq': model_out, 'original_case': c if small is not c else None,
            'python': mod.python_snippet(small) if hasattr(mod, 'python_snippet') else None,
            'repo_fingerprint': lib.repo_fingerprint()})
        violations.append((bad[i], path, False))
        reported += 1
    if tie_broken and not violations:
        path = lib.write_replay(pid, {
            'property': pid, 'what': 'tie or proof obligation broken; search found no failing input',
            'broken': tie_broken, 'theorems': assum.get('theorems'), 'coq_log': assum.get('log', '')[-3000:],
            'translate': tstatus, 'cases_searched': len(cases), 'seed': seed,
            'repo_fingerprint': lib.repo_fingerprint()})
        violations.append(('; '.join(tie_broken)[:300], path, True))

    # 7. evidence ------------------------------------------------------------------------------
    samples = []
    for c, o in list(zip(cases, outcomes))[:3] + list(zip(cases, outcomes))[-2:]:
        samples.append({'case': c, 'implementation_outcome': o})
    coverage = {
        'obligations': max(assum['obligations'], 1),
        'discharged': assum['discharged'] if proof_ok else min(assum['discharged'], max(assum['obligations'] - 1, 0)),
        'checker_cmd': 'cd /verif/coq && make && coqc -Q theories Glom theories/%s.v  (Print Assumptions under every theorem)' % mod.PROPERTY_FILE,
        'trusted_base': lib.TRUSTED_BASE + getattr(mod, 'TRUSTED_EXTRA', []),
        'theorems': assum['theorems'],
        'axioms': assum['axioms'],
        'evaluations': len(cases) - unmodelled,
        'unmodelled_cases_not_counted': unmodelled,
        'distinct_nontrivial': len(nontrivial),
        'rule': mod.RULE,
        'samples': samples,
        'distribution': dist,
        'mismatches': len(mism),
        'harness_errors': impl_errors,
        'traces_validated_against_impl': len(cases) - len(mism) if model_ok and not errs else 0,
        'exhaustive': bool(getattr(mod, 'EXHAUSTIVE', {}).get(gen_tier, False)),
        'translator': {k: ('ok' if v is None else v) for k, v in tstatus.items()},
        'search_mode': search_mode,
        'repo_fingerprint': lib.repo_fingerprint(),
    }
    if hasattr(mod, 'extra_coverage'):
        coverage.update(mod.extra_coverage())
    lib.write_evidence(pid, tier, seed, coverage, mod.ASSUMPTIONS, time.time() - t0, len(violations))
    for line in known_lines:
        print(line)
    print('%s tier=%s cases=%d nontrivial=%d mismatches=%d obligations=%d/%d wall=%.1fs'
          % (pid, tier, len(cases), len(nontrivial), len(mism), assum['discharged'], assum['obligations'], time.time() - t0))
    if violations:
        for what, path, noinput in violations:
            print('VIOLATION property=%s replay=%s%s' % (pid, path, ' no-failing-input-found' if noinput else ''))
        return 1
    return 0


def _still_fails(mod, pid, case):
    try:
        out = run_with_timeout(mod.run_impl, case)
    except Exception:
        return False
    term = mod.coq_case(case, out)
    mism, errs = lib.run_shards(pid + '_shrink', mod.COQ_HEADER, mod.CHECK_FN, [term])
    return bool(mism) and not errs


if __name__ == '__main__':
    try:
        sys.exit(main())
    except SystemExit:
        raise
    except Exception:
        traceback.print_exc()
        sys.exit(2)
