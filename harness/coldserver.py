"""A zygote that answers 'what does this glom call return in a fresh interpreter?': the server imports glom and the
harness but never evaluates anything itself; every request is evaluated in a forked child, whose caches are those of a
process that has never called glom.  Protocol: one JSON request per line on stdin, one JSON answer per line on stdout."""
import json
import os
import sys


def serve():
    sys.path.insert(0, '/verif/harness')
    repo = os.environ.get('GLOM_REPO', '/repo')
    sys.path.insert(0, repo)
    import glom  # noqa: F401
    import glom.core
    import pyspec
    import warnings
    warnings.simplefilter('ignore')
    for line in sys.stdin:
        req = json.loads(line)
        r, w = os.pipe()
        pid = os.fork()
        if pid == 0:
            os.close(r)
            try:
                glom.core.PATH_STAR = req.get('star', True)
                if 'scenario' in req:
                    import props.c06 as c06
                    out = c06.scenario_outcome(req['scenario'])
                else:
                    out = pyspec.run_glom(req['case'])
            except BaseException as e:  # noqa: B036
                out = {'cold_error': '%s: %s' % (type(e).__name__, e)}
            with os.fdopen(w, 'w') as f:
                f.write(json.dumps(out))
            os._exit(0)
        os.close(w)
        with os.fdopen(r) as f:
            data = f.read()
        os.waitpid(pid, 0)
        sys.stdout.write(data + '\n')
        sys.stdout.flush()


class Cold:
    def __init__(self):
        import subprocess
        env = dict(os.environ)
        env['PYTHONHASHSEED'] = '0'
        self.p = subprocess.Popen([sys.executable, os.path.abspath(__file__)], stdin=subprocess.PIPE, stdout=subprocess.PIPE,
                                  text=True, env=env)

    def ask_scenario(self, name, star=True):
        self.p.stdin.write(json.dumps({'scenario': name, 'star': star}) + '\n')
        self.p.stdin.flush()
        return json.loads(self.p.stdout.readline())

    def ask(self, case, star=True):
        self.p.stdin.write(json.dumps({'case': case, 'star': star}) + '\n')
        self.p.stdin.flush()
        return json.loads(self.p.stdout.readline())

    def close(self):
        try:
            self.p.stdin.close()
            self.p.wait(timeout=5)
        except Exception:
            self.p.kill()


if __name__ == '__main__':
    serve()
