"""The exception-class catalogue for C04 fault injection: builtins, user classes with attributes, keyword-only /
arity-changing / argument-transforming constructors, user-defined GlomError subclasses, BaseException subclasses.
The user-defined names are also listed (with their bases) in coq/theories/Model/Exc.v."""
import builtins

RAISED = []          # every instance raised by a planted raiser, in order

_USER = {}


def _define():
    import glom

    class UPlain(Exception):
        pass

    class UAttr(Exception):
        """attributes are attached after construction"""

    class UInitAttr(Exception):
        def __init__(self, msg):
            super().__init__(msg)
            self.size = len(msg)

    class UKwOnly(Exception):
        def __init__(self, *, code):
            super().__init__()
            self.code = code

    class UArity(Exception):
        def __init__(self, a, b):
            super().__init__(a + b)

    class UPrefix(Exception):
        def __init__(self, msg):
            super().__init__('prefix ' + msg)

    class UKeySub(KeyError):
        pass

    class UMulti(ValueError, KeyError):
        pass

    class UTypeSub(TypeError):
        pass

    class UBase(BaseException):
        pass

    class GPlain(glom.GlomError):
        pass

    class GAttr(glom.GlomError):
        pass

    class GArity(glom.GlomError):
        def __init__(self, a, b):
            super().__init__(a + b)

    class GPrefix(glom.GlomError):
        def __init__(self, msg):
            super().__init__('G:' + msg)

    class GKwOnly(glom.GlomError):
        def __init__(self, *, code):
            super().__init__()
            self.code = code

    class GPathSub(glom.PathAccessError):
        pass

    class GMatchSub(glom.MatchError):
        pass

    # three different classes that share one __name__ (two libraries' ValidationError; a class made by a factory or re-created
    # by a reload): the class of an error is the class object, never its name
    def twin(base):
        class UTwin(base):
            pass
        return UTwin
    _USER['UTwinA'], _USER['UTwinB'], _USER['UTwinK'] = twin(Exception), twin(Exception), twin(KeyError)

    class UFlaky(Exception):
        """whether type(e)(*e.args) works depends on the INSTANCE: with status= the args no longer fit the constructor"""
        def __init__(self, msg, *, status=None):
            if status is None:
                super().__init__(msg)
            else:
                super().__init__(msg, status)
            self.status = status
    _USER['UFlaky'] = UFlaky

    class UFalsy(Exception):
        """an exception object that is falsy (a container-like error with __len__)"""
        def __len__(self):
            return 0

    class GFalsy(glom.GlomError):
        def __bool__(self):
            return False

    class GTypeMatchSub(glom.matching.TypeMatchError):
        pass
    _USER['UFalsy'], _USER['GFalsy'], _USER['GTypeMatchSub'] = UFalsy, GFalsy, GTypeMatchSub

    for c in (UPlain, UAttr, UInitAttr, UKwOnly, UArity, UPrefix, UKeySub, UMulti, UTypeSub, UBase,
              GPlain, GAttr, GArity, GPrefix, GKwOnly, GPathSub, GMatchSub):
        _USER[c.__name__] = c


BUILTIN_NAMES = ['ValueError', 'KeyError', 'TypeError', 'IndexError', 'AttributeError', 'ZeroDivisionError', 'RuntimeError',
                 'AssertionError', 'OSError', 'LookupError', 'ArithmeticError', 'KeyboardInterrupt', 'SystemExit', 'GeneratorExit',
                 'Exception', 'BaseException']
GLOM_NAMES = ['GlomError', 'PathAccessError', 'PathAssignError', 'CoalesceError', 'BadSpec', 'UnregisteredTarget', 'MatchError',
              'TypeMatchError', 'CheckError', 'PathDeleteError', 'FoldError']
USER_NAMES = ['UPlain', 'UAttr', 'UInitAttr', 'UKwOnly', 'UArity', 'UPrefix', 'UKeySub', 'UMulti', 'UTypeSub', 'UBase',
              'GPlain', 'GAttr', 'GArity', 'GPrefix', 'GKwOnly', 'GPathSub', 'GMatchSub', 'UTwinA', 'UTwinB', 'UTwinK', 'UFlaky', 'UFalsy', 'GFalsy', 'GTypeMatchSub']
CATALOGUE = BUILTIN_NAMES + GLOM_NAMES + USER_NAMES
# the classes a planted fault raises
PLANTABLE = ['ValueError', 'KeyError', 'TypeError', 'IndexError', 'AttributeError', 'ZeroDivisionError', 'RuntimeError',
             'AssertionError', 'OSError', 'KeyboardInterrupt', 'SystemExit', 'GeneratorExit'] + USER_NAMES + ['UFlakyBad']


def cls(name):
    if not _USER:
        _define()
    if name == 'UFlakyBad':          # not a class of its own: an instance of UFlaky that cannot be rebuilt from its args
        return _USER['UFlaky']
    if name in _USER:
        return _USER[name]
    import glom
    return getattr(glom, name, None) or getattr(glom.core, name, None) or getattr(glom.matching, name, None) or getattr(builtins, name)


def name_of(c):
    """catalogue name of a class object (its __name__ when it is not a catalogue class)"""
    if not _USER:
        _define()
    for n, k in _USER.items():
        if k is c:
            return n
    return c.__name__


def is_user(name):
    return name in USER_NAMES


def make(name):
    c = cls(name)
    if name in ('UKwOnly', 'GKwOnly'):
        e = c(code=3)
    elif name in ('UArity', 'GArity'):
        e = c('bo', 'om')
    elif name == 'UFlakyBad':
        e = c('boom', status=503)
    elif name == 'GPathSub':
        e = c(KeyError('k'), 'a.b', 1)
    elif name == 'GTypeMatchSub':
        e = c(int, str)
    elif name == 'GMatchSub':
        e = c('{} does not match {}', 1, 2)
    else:
        e = c('boom')
    if name in ('UAttr', 'GAttr'):
        e.detail = 3
    return e


def raiser(name):
    def raise_planted(*a):
        e = make(name)
        RAISED.append(e)
        raise e
    raise_planted.__name__ = 'raise_' + name
    return raise_planted
