"""Common machinery for all checks: translation, Coq build, correspondence runs, verdicts, evidence."""
import fcntl
import hashlib
import json
import os
import random
import re
import subprocess
import sys
import time

VERIF = os.path.dirname(os.path.dirname(os.path.abspath(__file__)))
REPO = os.environ.get('GLOM_REPO', '/repo')
COQ = os.path.join(VERIF, 'coq')
WORK = os.path.join(VERIF, '_work')
EVID = os.path.join(VERIF, 'evidence')
REPLAYS = os.path.join(VERIF, 'replays')
NPROC = min(16, os.cpu_count() or 4)

sys.path.insert(0, os.path.join(VERIF, 'harness'))
import translate  # noqa: E402


# ----------------------------------------------------------------------------------------
# Gallina printing
def cstr(s):
    if not isinstance(s, str):
        raise TypeError(s)
    if any((ord(c) > 126 or ord(c) < 32) and c != '\n' for c in s):      # a raw newline is fine inside a Coq string literal
        raise ValueError('non-printable / non-ascii string in a Coq literal: %r' % s)
    return '"%s"' % s.replace('"', '""')


def cz(n):
    return '(%d)%%Z' % n


def cnat(n):
    assert 0 <= n < 5000, n
    return '%d%%nat' % n


def cbool(b):
    return 'true' if b else 'false'


def clist(items):
    return '[' + '; '.join(items) + ']'


def copt(x, f):
    return 'None' if x is None else '(Some %s)' % f(x)


# ----------------------------------------------------------------------------------------
class BuildError(Exception):
    pass


def _lock():
    os.makedirs(WORK, exist_ok=True)
    f = open(os.path.join(WORK, 'build.lock'), 'w')
    fcntl.flock(f, fcntl.LOCK_EX)
    return f


def ensure_makefile():
    mk = os.path.join(COQ, 'Makefile')
    proj = os.path.join(COQ, '_CoqProject')
    if not os.path.exists(mk) or os.path.getmtime(mk) < os.path.getmtime(proj):
        subprocess.run(['coq_makefile', '-f', '_CoqProject', '-o', 'Makefile'], cwd=COQ, check=True,
                       stdout=subprocess.DEVNULL)


def translate_and_build(targets=None, timeout=3000):
    """Regenerate Generated/*.v from /repo, then make the requested .vo targets (default: all).
    Returns (translate_status, build_ok, build_log)."""
    lock = _lock()
    try:
        st = translate.run()
        ensure_makefile()
        cmd = ['make', '-j%d' % NPROC, '-k']
        if targets:
            cmd += targets
        p = subprocess.run(['timeout', str(timeout)] + cmd, cwd=COQ, stdout=subprocess.PIPE, stderr=subprocess.STDOUT,
                           text=True)
        return st, p.returncode == 0, p.stdout
    finally:
        lock.close()


def vo_ok(rel):
    """is theories/<rel>.vo present and newer than its source?"""
    v = os.path.join(COQ, 'theories', rel + '.v')
    vo = os.path.join(COQ, 'theories', rel + '.vo')
    return os.path.exists(vo) and os.path.getmtime(vo) >= os.path.getmtime(v)


def coqc_file(path, timeout=900):
    """compile one scratch .v against the built theories; returns (rc, output)"""
    p = subprocess.run(['timeout', str(timeout), 'coqc', '-Q', os.path.join(COQ, 'theories'), 'Glom',
                        '-w', '-notation-overridden,-deprecated-hint-without-locality,-ambiguous-paths', path],
                       cwd=os.path.dirname(path), stdout=subprocess.PIPE, stderr=subprocess.STDOUT, text=True)
    return p.returncode, p.stdout


ALLOWED_AXIOMS = set()   # every property theorem is expected to be closed under the global context


def check_assumptions(prop_rel):
    """Re-compile Properties/<Cxx>.v unconditionally and parse its Print Assumptions output.
    Returns dict(obligations=n, discharged=n, axioms=[...], theorems=[...], ok=bool, log=str)."""
    src = os.path.join(COQ, 'theories', prop_rel + '.v')
    text = open(src).read()
    theorems = re.findall(r'^\s*(?:Theorem|Lemma|Corollary)\s+([A-Za-z0-9_\']+)', text, re.M)
    wanted = re.findall(r'^\s*Print Assumptions\s+([A-Za-z0-9_\'.]+)\s*\.', text, re.M)
    lock = _lock()
    try:
        rc, out = coqc_file_inplace(prop_rel)
    finally:
        lock.close()
    closed = out.count('Closed under the global context')
    axioms = []
    for m in re.finditer(r'Axioms:\n((?:.+\n?)+?)(?:\n|\Z)', out):
        for line in m.group(1).splitlines():
            mm = re.match(r'^([A-Za-z0-9_.\']+)\s*:', line)
            if mm:
                axioms.append(mm.group(1))
    bad_ax = [a for a in axioms if a not in ALLOWED_AXIOMS]
    ok = rc == 0 and closed + (1 if axioms and not bad_ax else 0) * 0 == len(wanted) and not bad_ax and len(wanted) > 0
    return dict(obligations=len(wanted), discharged=closed if rc == 0 else 0, axioms=sorted(set(axioms)),
                theorems=wanted, ok=ok, log=out[-4000:], rc=rc)


def coqc_file_inplace(rel, timeout=1800):
    p = subprocess.run(['timeout', str(timeout), 'coqc', '-Q', 'theories', 'Glom',
                        '-w', '-notation-overridden,-deprecated-hint-without-locality,-ambiguous-paths',
                        os.path.join('theories', rel + '.v')],
                       cwd=COQ, stdout=subprocess.PIPE, stderr=subprocess.STDOUT, text=True)
    return p.returncode, p.stdout


FORBIDDEN = re.compile(r'\b(Admitted|admit|Axiom|Axioms|Parameter|Parameters|Conjecture|Abort All)\b|Unset\s+Guard|'
                       r'bypass_check|type-in-type|Unset\s+Positivity|Unset\s+Universe')


def grep_gate():
    """no Admitted / admit / Axiom / Parameter / ... anywhere in the development (outside comments)"""
    bad = []
    for root, _, files in os.walk(os.path.join(COQ, 'theories')):
        for f in files:
            if not f.endswith('.v'):
                continue
            text = open(os.path.join(root, f)).read()
            text = strip_comments(text)
            for i, line in enumerate(text.splitlines(), 1):
                if FORBIDDEN.search(line):
                    bad.append('%s:%d: %s' % (os.path.join(root, f), i, line.strip()))
                if re.match(r'^\s*(Variable|Variables|Hypothesis|Hypotheses)\b', line) and not _in_section(text, i):
                    bad.append('%s:%d: top-level %s' % (os.path.join(root, f), i, line.strip()))
    return bad


def strip_comments(text):
    out, depth, i = [], 0, 0
    while i < len(text):
        if text.startswith('(*', i):
            depth += 1
            i += 2
        elif text.startswith('*)', i) and depth:
            depth -= 1
            i += 2
        else:
            if depth == 0:
                out.append(text[i])
            elif text[i] == '\n':
                out.append('\n')
            i += 1
    return ''.join(out)


def _in_section(text, lineno):
    depth = 0
    for i, line in enumerate(text.splitlines(), 1):
        if i >= lineno:
            break
        if re.match(r'^\s*Section\b', line):
            depth += 1
        if re.match(r'^\s*End\b', line) and depth:
            depth -= 1
    return depth > 0


# ----------------------------------------------------------------------------------------
LAST = {'unmodelled': 0}


# correspondence: write shards, run coqc in parallel, parse mismatch indexes
RESULT_RE = re.compile(r'=\s*\(\s*(\d+)\s*,\s*\[([0-9;\s]*)\]\s*,\s*(\d+)\s*\)')


def run_shards(pid, header, check_fn, case_terms, shard_size=400, timeout=900, unm_fn='(fun _ => false)'):
    """case_terms: list of Gallina terms (strings).  Each shard is
         Definition cases := [...]. Eval vm_compute in (length cases, mismatches check_fn cases).
       Returns (list of mismatching global indexes, errors)."""
    d = os.path.join(WORK, pid)
    os.makedirs(d, exist_ok=True)
    for f in os.listdir(d):
        if f.startswith('cases_'):
            os.unlink(os.path.join(d, f))
    shards = [case_terms[i:i + shard_size] for i in range(0, len(case_terms), shard_size)]
    paths = []
    for k, sh in enumerate(shards):
        path = os.path.join(d, 'cases_%s_%d.v' % (pid, k))
        with open(path, 'w') as f:
            f.write(header + '\n')
            f.write('Definition cases := [\n  ' + ';\n  '.join(sh) + '\n].\n')
            f.write('Eval vm_compute in (List.length cases, mismatches %s cases, count_if %s cases).\n' % (check_fn, unm_fn))
        paths.append(path)
    procs = []
    results = [None] * len(paths)
    errors = []
    running = []
    idx = 0

    def reap(block):
        for item in list(running):
            k, p = item
            if block or p.poll() is not None:
                out, _ = p.communicate()
                results[k] = (p.returncode, out)
                running.remove(item)
                if block:
                    return
    while idx < len(paths) or running:
        while idx < len(paths) and len(running) < NPROC:
            p = subprocess.Popen(['timeout', str(timeout), 'coqc', '-Q', os.path.join(COQ, 'theories'), 'Glom',
                                  '-w', '-notation-overridden,-deprecated-hint-without-locality,-ambiguous-paths', paths[idx]],
                                 cwd=d, stdout=subprocess.PIPE, stderr=subprocess.STDOUT, text=True)
            running.append((idx, p))
            idx += 1
        reap(False)
        if running:
            time.sleep(0.05)
    mism = []
    LAST['unmodelled'] = 0
    for k, (rc, out) in enumerate(results):
        m = RESULT_RE.search(out.replace('\n', ' '))
        if rc != 0 or not m:
            errors.append('shard %d: rc=%s: %s' % (k, rc, out[-1500:]))
            continue
        n = int(m.group(1))
        if n != len(shards[k]):
            errors.append('shard %d: evaluated %d of %d cases' % (k, n, len(shards[k])))
        LAST['unmodelled'] += int(m.group(3))
        for tok in m.group(2).split(';'):
            tok = tok.strip()
            if tok:
                mism.append(k * shard_size + int(tok))
    return mism, errors


def eval_terms(pid, header, terms, timeout=300):
    """print the model's own outcome for a few terms (for replay files); returns raw coq output per term"""
    d = os.path.join(WORK, pid)
    os.makedirs(d, exist_ok=True)
    path = os.path.join(d, 'dump_%s.v' % pid)
    with open(path, 'w') as f:
        f.write(header + '\n')
        for t in terms:
            f.write('Eval vm_compute in (%s).\n' % t)
    rc, out = coqc_file(path, timeout)
    return out


# ----------------------------------------------------------------------------------------
def known_findings():
    p = os.path.join(VERIF, 'known_findings.json')
    try:
        return json.load(open(p))
    except FileNotFoundError:
        return {'findings': [], 'fixed': []}


def write_replay(pid, payload):
    d = os.path.join(REPLAYS, pid)
    os.makedirs(d, exist_ok=True)
    blob = json.dumps(payload, indent=1, sort_keys=True, default=str)
    h = hashlib.sha1(blob.encode()).hexdigest()[:12]
    path = os.path.join(d, h + '.json')
    with open(path, 'w') as f:
        f.write(blob)
    return path


def write_evidence(pid, tier, seed, coverage, assumptions, wall, violations):
    os.makedirs(EVID, exist_ok=True)
    ev = {
        'property_id': pid, 'tier': tier, 'seed': seed, 'level': 'proof',
        'coverage': coverage, 'assumptions': assumptions, 'wall_s': round(wall, 2), 'violations': violations,
    }
    tmp = os.path.join(EVID, pid + '.json.tmp')
    with open(tmp, 'w') as f:
        json.dump(ev, f, indent=1, default=str)
    os.replace(tmp, os.path.join(EVID, pid + '.json'))


TRUSTED_BASE = [
    'Coq 8.16.1 kernel via coqc (full .vo builds), vm_compute for finite sweeps and model evaluation; no native_compute',
    'no axioms: every property theorem prints "Closed under the global context"',
    'harness/translate.py (AST table translator, fail-closed)',
    'correspondence harness: Python realiser and Coq printer of the same case IR (differential testing, not proof)',
    'CPython 3.12 semantics of builtins restated in the model (dict/list/tuple/getattr/int()/comparisons/integer arithmetic)',
]


class Rng(random.Random):
    pass


def stable_hash(obj):
    return hashlib.sha1(json.dumps(obj, sort_keys=True, default=str).encode()).hexdigest()


def repo_fingerprint():
    h = hashlib.sha1()
    for root, _, files in sorted(os.walk(os.path.join(REPO, 'glom'))):
        if 'test' in root or '__pycache__' in root:
            continue
        for f in sorted(files):
            if f.endswith('.py'):
                h.update(open(os.path.join(root, f), 'rb').read())
    return h.hexdigest()[:16]
