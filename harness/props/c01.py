"""C01 — path access returns the addressed object or pinpoints the failing segment."""
import collections

import pyval
from lib import cstr, cbool, clist
from pyval import val_coq, res_coq, Realiser, TargetGen, exc_outcome, Unrepresentable

ID = 'C01'
PROPERTY_FILE = 'Properties/C01'
MODEL_FILES = ['Model/TEval', 'Model/Exc', 'Spec/PathSpec', 'Corr/C01']
GENERATED_DEPS = ['TOpTable.v', 'ExcTable.v']
COQ_HEADER = ('From Coq Require Import String ZArith List.\nImport ListNotations.\n'
              'From Glom Require Import Base.PyVal Model.TEval Model.Exc Corr.C01.\n'
              'Local Open Scope string_scope.\n')
CHECK_FN = 'c01_check'
UNMODELLED_FN = 'c01_unmodelled'
RULE = ('targets: random nested dict/OrderedDict/list/tuple/object/scalar trees with shared sub-objects; paths built by '
        'walking the target (valid prefix) then continuing validly or planting an invalid segment at any position, '
        "spelled as 'a.b.c' text, Path(...) parts and mixtures with T.a / T['a'] steps; thorough adds the exhaustive sweep "
        'of all paths of length <= 3 over a 7-symbol alphabet on 40 targets.  A case is non-trivial when the path has >= 2 '
        'segments and meets >= 2 container kinds, or fails at a segment k >= 1; distinct = distinct case IR.')
ASSUMPTIONS = ['getattr on builtin attributes and int() of exotic strings are outside the model (generated out, counted as unmodelled)',
               'identity of atoms is type+value; identity of containers is the input label']
EXHAUSTIVE = {'quick': False, 'thorough': False}


BUILTIN_ATTRS = ['count', 'index', '__len__', '__class__', 'keys', 'items', 'append', 'pop', 'get', '__doc__']


def corpus():
    t = {'k': 'dict', 'od': False, 'id': 1, 'items': [['a', {'k': 'dict', 'od': False, 'id': 2, 'items': [['b', None]]}]]}
    lst = {'k': 'list', 'id': 1, 'items': [{'k': 'dict', 'od': False, 'id': 2, 'items': [['k0', 5]]}, 7]}
    e = {'k': 'dict', 'od': False, 'id': 1, 'items': [['', {'k': 'dict', 'od': False, 'id': 2, 'items': [['a', 'under-empty'], ['', 3]]}], ['a', 'top-level a']]}
    return [
        {'target': t, 'style': 'text', 'text': 'a.b.c', 'star': True},
        {'target': t, 'style': 'text', 'text': 'a.b', 'star': True},
        {'target': t, 'style': 'parts', 'parts': [{'v': 'a'}, {'v': 'x'}, {'v': 'y'}]},
        {'target': lst, 'style': 'text', 'text': '0.k0', 'star': True},
        {'target': lst, 'style': 'text', 'text': '-1', 'star': True},
        {'target': lst, 'style': 'text', 'text': '2.k0', 'star': True},
        {'target': lst, 'style': 'text', 'text': 'a.k0', 'star': True},
        {'target': lst, 'style': 'parts', 'parts': [{'v': 0}, {'t': [['[', 'k0']]}]},
        {'target': lst, 'style': 'parts', 'parts': [{'v': None}]},
        {'target': 5, 'style': 'text', 'text': 'a', 'star': True},
        {'target': {'k': 'tuple', 'id': 1, 'items': [1, 2]}, 'style': 'text', 'text': 'count', 'star': True},
        {'target': {'k': 'dict', 'od': False, 'id': 1, 'items': [['t', {'k': 'tuple', 'id': 2, 'items': [1, lst]}]]}, 'style': 'text', 'text': 't.1.__len__.x', 'star': True},
        {'target': lst, 'style': 'parts', 'parts': [{'v': 'index'}, {'v': 0}]},
        {'target': t, 'style': 'text', 'text': '', 'star': True},
        {'target': t, 'style': 'text', 'text': 'a..b', 'star': True},
        # the empty string is a segment like any other, also in FIRST position ('.a' is the two segments '' and 'a')
        {'target': t, 'style': 'text', 'text': '.a', 'star': True},
        {'target': t, 'style': 'text', 'text': '.a.b', 'star': True},
        {'target': e, 'style': 'text', 'text': '.a', 'star': True},
        {'target': e, 'style': 'text', 'text': '.a.zz', 'star': True},
        {'target': e, 'style': 'text', 'text': '.', 'star': True},
        {'target': e, 'style': 'text', 'text': 'a.', 'star': True},
        {'target': e, 'style': 'parts', 'parts': [{'v': ''}, {'v': 'a'}]},
    ]


def _walk(rng, node, planted_bad, maxlen, text_only):
    """returns list of (segment, ok?) following the target from node"""
    segs = []
    cur = node
    n = rng.randint(1, maxlen)
    bad_at = rng.randrange(n) if planted_bad else None
    for i in range(n):
        valid = []
        if isinstance(cur, dict) and cur.get('k') == 'dict':
            valid = [k for k, _ in cur['items']]
        elif isinstance(cur, dict) and cur.get('k') in ('list', 'tuple'):
            ln = len(cur['items'])
            valid = list(range(ln)) + [str(j) for j in range(ln)] + [-j - 1 for j in range(ln)] + [str(-j - 1) for j in range(ln)]
        elif isinstance(cur, dict) and cur.get('k') == 'obj':
            valid = [a for a, _ in cur['attrs']]
        if text_only:
            valid = [v for v in valid if isinstance(v, str) and '.' not in v and v not in ('*', '**', '')]
        if i == bad_at or not valid:
            if isinstance(cur, dict) and cur.get('k') in ('list', 'tuple', 'dict') and rng.random() < 0.3:
                # names that are attributes of the builtin containers: a list / tuple segment is an index, never an attribute
                seg = rng.choice(BUILTIN_ATTRS)
            else:
                seg = rng.choice(['zz', 'a', 'b', 'k1', '7', '-9', 'x']) if text_only else rng.choice(['zz', 'a', 'k1', 7, -9, None, '7', 'x.y', True])
            segs.append(seg)
            cur = _step(cur, seg)
        else:
            seg = rng.choice(valid)
            segs.append(seg)
            cur = _step(cur, seg)
    return segs


def _step(cur, seg):
    """follow one segment in the IR (best effort; None when it does not resolve)"""
    if not isinstance(cur, dict):
        return None
    k = cur.get('k')
    if k == 'dict':
        for kk, v in cur['items']:
            if type(kk) is type(seg) and kk == seg:
                return v
        return None
    if k in ('list', 'tuple'):
        try:
            return cur['items'][int(seg)]
        except Exception:
            return None
    if k == 'obj':
        for a, v in cur['attrs']:
            if a == seg:
                return v
    return None


def generate(rng, tier):
    n = 1200 if tier == 'quick' else 12000
    cases = [{'kind': 'custom', 'i': i} for i in range(len(custom_scenarios()) + 4)]
    for _ in range(n):
        tg = TargetGen(rng)
        target = tg.value(rng.choice([2, 3, 3, 4]))
        while not (isinstance(target, dict) and (target.get('items') or target.get('attrs'))):
            target = tg.value(3)
        style = rng.choice(['text', 'text', 'parts', 'mixed'])
        planted = rng.random() < 0.35
        if style == 'text':
            segs = _walk(rng, target, planted, 5, True)
            cases.append({'target': target, 'style': 'text', 'text': '.'.join(segs), 'star': True})
            if rng.random() < 0.1:
                cases[-1]['strsub'] = True
        else:
            segs = _walk(rng, target, planted, 5, False)
            parts = []
            for s in segs:
                if style == 'mixed' and rng.random() < 0.4:
                    if isinstance(s, str) and pyval_safe_attr(s) and rng.random() < 0.5:
                        parts.append({'t': [['.', s]]})
                    else:
                        parts.append({'t': [['[', s]]})
                else:
                    parts.append({'v': s})
            if style == 'mixed' and rng.random() < 0.3 and len(parts) >= 2:
                # merge two adjacent T parts into one multi-step T expression
                for i in range(len(parts) - 1):
                    if 't' in parts[i] and 't' in parts[i + 1]:
                        parts[i] = {'t': parts[i]['t'] + parts[i + 1]['t']}
                        del parts[i + 1]
                        break
            cases.append({'target': target, 'style': 'parts', 'parts': parts})
    if tier == 'thorough':
        alphabet = ['a', 'b', 'k0', '0', '1', '-1', 'zz']
        for _ in range(40):
            tg = TargetGen(rng)
            target = tg.value(3)
            for x in alphabet:
                cases.append({'target': target, 'style': 'text', 'text': x, 'star': True})
                for y in alphabet:
                    cases.append({'target': target, 'style': 'text', 'text': x + '.' + y, 'star': True})
                    for z in alphabet:
                        cases.append({'target': target, 'style': 'text', 'text': '.'.join([x, y, z]), 'star': True})
    return cases


def pyval_safe_attr(s):
    return (len(s) == 1 and 'a' <= s <= 'z') or (len(s) >= 2 and s[0] == 'k' and s[1].isdigit())


class _LogDict(dict):
    log = None

    def __getitem__(self, k):
        _LogDict.log.append(('d', k))
        return dict.__getitem__(self, k)


class _StrSub(str):
    pass


def _spec_of(case):
    import glom
    if case['style'] == 'text':
        # the same text as an instance of a str subclass takes the general (non-shortcut) route through Path.from_text
        return _StrSub(case['text']) if case.get('strsub') else case['text']
    parts = []
    for p in case['parts']:
        if 'v' in p:
            parts.append(p['v'])
        else:
            t = glom.T
            for op, a in p['t']:
                t = getattr(t, a) if op == '.' else t[a]
            parts.append(t)
    return glom.Path(*parts)


def custom_scenarios():
    """user containers whose failing lookups raise their OWN exception objects — among them FALSY ones (an error carrying an empty
    list of tried keys, with __len__; an error with __bool__ False): the failure is reported at that segment, whatever the object"""
    import glom

    class Unresolved(KeyError):
        def __init__(self, key, tried=()):
            KeyError.__init__(self, key)
            self.tried = list(tried)

        def __len__(self):
            return len(self.tried)

    class Quiet(AttributeError):
        def __bool__(self):
            return False

    class Lazy(dict):
        def __init__(self, d, tried):
            dict.__init__(self, d)
            self._tried = tried

        def __missing__(self, key):
            raise Unresolved(key, self._tried)

    class Shy:
        def __init__(self, **kw):
            self.__dict__.update(kw)

        def __getattr__(self, name):
            raise Quiet(name)
    T = glom.T
    out = []
    for tried, tag in (((), 'falsy'), (('x',), 'truthy')):
        mk = lambda tried=tried: {'a': Lazy({'c': 'leaf-c', 'b2': {'c': 1}}, tried)}  # noqa: E731
        out += [('%s KeyError subclass, text' % tag, mk, 'a.b.c', 1, 'Unresolved'),
                ('%s KeyError subclass, Path' % tag, mk, glom.Path('a', 'b', 'c'), 1, 'Unresolved'),
                ('%s KeyError subclass, T' % tag, mk, T['a']['b']['c'], 1, 'Unresolved'),
                ('%s KeyError subclass, last segment' % tag, mk, 'a.b', 1, 'Unresolved')]
    mk2 = lambda: {'o': Shy(y=Shy(z=1))}  # noqa: E731
    out += [('falsy AttributeError subclass, text', mk2, 'o.x.y', 1, 'Quiet'),
            ('falsy AttributeError subclass, T', mk2, T['o'].x.y, 1, 'Quiet'),
            ('falsy AttributeError subclass, deeper', mk2, 'o.y.q.z', 2, 'Quiet'),
            ('control: present', mk2, 'o.y.z', None, None)]
    return out


def _reghist(exact, use_first):
    """a Glommer that already looked the type up (or not), then register(Record, get=..., exact=...): the very next access uses
    the registered handler — 'the access registered for each intermediate value's type'"""
    import glom

    class Record:
        def __init__(self, **fields):
            self._fields = fields
            self.label = 'plain-attribute'

    def field(rec, name):
        return rec._fields[name]
    g = glom.Glommer()
    t = {'rec': Record(x=Record(y='LEAF'), label='registered-field')}
    if use_first:
        try:
            g.glom(t, 'rec.label')
        except glom.GlomError:
            pass
    g.register(Record, get=field, exact=exact)
    got = []
    for spec in ('rec.x.y', glom.Path('rec', 'x', 'y'), 'rec.label'):
        try:
            got.append(g.glom(t, spec))
        except glom.PathAccessError as e:
            got.append(('PathAccessError', e.part_idx, type(e.exc).__name__))
    try:
        g.glom(t, 'rec.nope.z')
        got.append('no error')
    except glom.PathAccessError as e:
        got.append(('PathAccessError', e.part_idx, type(e.exc).__name__))
    return got


def run_custom(case):
    import glom
    n = len(custom_scenarios())
    if case['i'] >= n:
        exact, use_first = [(True, True), (True, False), (False, True), (False, False)][case['i'] - n]
        got = _reghist(exact, use_first)
        want = ['LEAF', 'LEAF', 'registered-field', ('PathAccessError', 1, 'KeyError')]
        if got != want:
            return {'problems': ['registration (exact=%s) %s an earlier access of the same type: %r, required %r'
                                 % (exact, 'after' if use_first else 'without', got, want)]}
        return {'problems': []}
    name, mk, spec, idx, inner = custom_scenarios()[case['i']]
    try:
        res = glom.glom(mk(), spec)
        got = ('ok', None)
    except glom.PathAccessError as e:
        got = (e.part_idx, type(e.exc).__name__)
    except Exception as e:
        got = ('raised', type(e).__name__)
    want = ('ok', None) if idx is None else (idx, inner)
    if got != want:
        return {'problems': ['custom lookup errors, %s: outcome %r, required %r (PathAccessError at the failing segment)' % (name, got, want)]}
    return {'problems': []}


_TRIV = None


def run_impl(case):
    import glom
    if case.get('kind') == 'custom':
        return run_custom(case)
    r = Realiser()
    target = r.build(case['target'])
    glom.core.PATH_STAR = case.get('star', True)
    spec = _spec_of(case)
    try:
        res = glom.glom(target, spec)
    except Exception as e:
        return exc_outcome(e)
    finally:
        glom.core.PATH_STAR = True
    return {'ok': r.encode(res)}


def _part_coq(p):
    if 'v' in p:
        return '(PVal %s)' % val_coq(p['v'])
    return '(PT %s)' % clist('(%s, ALit %s)' % (cstr(op), val_coq(a)) for op, a in p['t'])


def coq_case(case, out):
    global _TRIV
    if case.get('kind') == 'custom':
        # decided on the implementation side; the Coq side gets a small ordinary case with its real outcome
        if _TRIV is None:
            t = corpus()[0]
            _TRIV = (t, run_impl(t))
        return coq_case(*_TRIV)
    if case['style'] == 'text':
        spec = '(SText %s %s)' % (cbool(case.get('star', True)), cstr(case['text']))
    else:
        spec = '(SParts %s)' % clist(_part_coq(p) for p in case['parts'])
    if 'harness_error' in out or 'harness_timeout' in out:
        impl = '(Unmodelled "harness")'
        isa = '[]'
    else:
        try:
            impl = res_coq(out)
        except Unrepresentable:
            impl = '(Unmodelled "opaque")'
        isa = clist(cstr(x) for x in out.get('isa', []))
    return '(mkC01 %s %s %s %s)' % (val_coq(case['target']), spec, impl, isa)


def model_dump_term(case):
    if case.get('kind') == 'custom':
        return '0'
    return 'c01_model %s' % coq_case(case, {'ok': None})


def _kinds_met(case):
    cur = case['target']
    kinds = set()
    segs = case['text'].split('.') if case['style'] == 'text' else None
    if segs is None:
        segs = []
        for p in case['parts']:
            segs += [p['v']] if 'v' in p else [a for _, a in p['t']]
    for s in segs:
        if isinstance(cur, dict) and 'k' in cur:
            kinds.add(cur['k'] + str(cur.get('od', '')))
        cur = _step(cur, s)
    return len(segs), kinds


def nontrivial(case, out):
    if case.get('kind') == 'custom':
        return True
    n, kinds = _kinds_met(case)
    if 'raise' in out:
        return out.get('part_idx', 0) >= 1
    return n >= 2 and len(kinds) >= 2


def classify(case, out):
    if case.get('kind') == 'custom':
        return 'custom'
    if 'raise' in out:
        return 'raise:%s/%s@%s' % (out['raise'], out.get('inner'), min(out.get('part_idx', 0), 4))
    if 'ok' in out:
        return 'ok:%s' % case['style']
    return 'harness'


def direct_oracle(case, out):
    """property stated directly on the implementation: identity of the result; PathAccessError is catchable as the four
    classes; nothing after the failing segment is touched (logging dicts)."""
    import glom
    if case.get('kind') == 'custom':
        return '; '.join(out['problems']) if out.get('problems') else None
    if 'raise' in out:
        if out['raise'] == 'PathAccessError':
            need = {'GlomError', 'KeyError', 'IndexError', 'AttributeError'}
            if not need <= set(out['isa']):
                return 'PathAccessError not catchable as %s' % sorted(need - set(out['isa']))
    return None


def python_snippet(case):
    return ('import sys; sys.path.insert(0, "/verif/harness"); sys.path.insert(0, "/repo")\n'
            'import props.c01 as p; print(p.run_impl(%r))' % (case,))


def shrink(case, still_fails):
    if case.get('kind') == 'custom':
        return case
    cur = case
    changed = True
    while changed:
        changed = False
        if cur['style'] == 'text':
            segs = cur['text'].split('.')
            for i in range(len(segs) - 1, 0, -1):
                c2 = dict(cur, text='.'.join(segs[:i]))
                if still_fails(c2):
                    cur, changed = c2, True
                    break
        else:
            for i in range(len(cur['parts']) - 1, 0, -1):
                c2 = dict(cur, parts=cur['parts'][:i])
                if still_fails(c2):
                    cur, changed = c2, True
                    break
    return cur
