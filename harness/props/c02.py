"""C02 — T expressions replay exactly the recorded operations on the target."""
import operator

from lib import cstr, cz, clist, copt
from pyval import val_coq, res_coq, Realiser, TargetGen, exc_outcome, Unrepresentable, ATTR_NAMES, fn_of

ID = 'C02'
PROPERTY_FILE = 'Properties/C02'
MODEL_FILES = ['Model/TEval', 'Spec/TSpec', 'Corr/C02']
GENERATED_DEPS = ['TOpTable.v']
COQ_HEADER = ('From Coq Require Import String ZArith List.\nImport ListNotations.\n'
              'From Glom Require Import Base.PyVal Model.TEval Spec.TSpec Corr.C02.\n'
              'Local Open Scope string_scope.\n')
CHECK_FN = 'c02_check'
UNMODELLED_FN = 'c02_unmodelled'
RULE = ('operation sequences of length 1-6 over {.attr, [item], [slice], (call), + - * / // % ** & | ^ ~ neg} recorded on T; '
        'each next operation is chosen by looking at the value the prefix really produces (valid with probability ~0.8, '
        'otherwise a type-mismatching or out-of-range one), arguments are literals, rebuilt list literals or nested T '
        'expressions evaluated on the original target; targets are random nested containers seeded with ints, strings, lists '
        'and catalogue callables. Non-trivial: >= 3 operations of >= 2 kinds, or a failure at position >= 1. Three-way '
        'comparison: Coq model, Coq spec (replay of the denoted Python operations), glom; plus direct Python evaluation.')
ASSUMPTIONS = ['keyword arguments of a recorded call (kwcall:* scenarios: order of evaluation, which failure is reported) are decided on the implementation side against the same call written in Python; the model call step carries positional arguments only',
               'float results, str % formatting, set operators and reflected operands are outside the model (Unmodelled, not counted)',
               'nested T arguments are evaluated by the model evaluator itself (open recursion) in the Spec layer']

BIN = {'__add__': operator.add, '__sub__': operator.sub, '__mul__': operator.mul, '__floordiv__': operator.floordiv,
       '__truediv__': operator.truediv, '__mod__': operator.mod, '__pow__': operator.pow, '__and__': operator.and_,
       '__or__': operator.or_, '__xor__': operator.xor}
UN = {'__invert__': operator.invert, '__neg__': operator.neg}


def corpus():
    t = {'k': 'dict', 'od': False, 'id': 1, 'items': [['a', {'k': 'list', 'id': 2, 'items': [7, 9, 11]}], ['i', 1],
                                                      ['f', {'fn': ['inc']}], ['s', 'hello'], ['g', {'fn': ['id']}],
                                                      ['d', {'k': 'dict', 'od': False, 'id': 3, 'items': [['x', {'k': 'list', 'id': 4, 'items': []}]]}]]}
    L = lambda v: {'lit': v}  # noqa: E731
    return [
        {'target': 7, 'ops': [['__floordiv__', L(2)]]},
        {'target': 7, 'ops': [['__floordiv__', L(2)], ['__mul__', L(3)], ['__neg__', None]]},
        {'target': t, 'ops': [['__getitem__', L('a')], ['__getitem__', {'t': [['__getitem__', L('i')]]}], ['__add__', L(1)]]},
        {'target': t, 'ops': [['__getitem__', L('a')], ['__getitem__', {'slice': [None, None, 0]}]]},
        {'target': t, 'ops': [['__getitem__', L('a')], ['__getitem__', {'slice': [None, None, -1]}], ['__getitem__', L(0)]]},
        {'target': t, 'ops': [['__getitem__', L('f')], ['call', {'call': [{'t': [['__getitem__', L('i')]]}]}], ['__mod__', L(0)]]},
        {'target': t, 'ops': [['__getitem__', L('f')], ['call', {'call': [L('x')]}], ['__neg__', None]]},
        {'target': t, 'ops': [['__getitem__', L('s')], ['__mul__', L(2)], ['__getitem__', L(7)]]},
        {'target': t, 'ops': [['__getitem__', L('a')], ['__getattr__', L('b')], ['__getitem__', L(0)]]},
        {'target': t, 'ops': [['__getitem__', L('i')], ['__add__', L('x')], ['__neg__', None]]},
        {'target': 5, 'ops': [['__invert__', None], ['__pow__', L(2)], ['__xor__', L(3)], ['__or__', L(8)], ['__and__', L(12)], ['__sub__', L(1)]]},
        # F29: the VALUE of a T argument is passed on as it is — the very list / dict of the target, not a rebuilt copy
        {'target': t, 'ops': [['__getitem__', L('g')], ['call', {'call': [{'t': [['__getitem__', L('a')]]}]}]]},
        {'target': t, 'ops': [['__getitem__', L('g')], ['call', {'call': [{'t': [['__getitem__', L('d')]]}]}], ['__getitem__', L('x')]]},
        # keyword arguments of a recorded call: evaluated after the positional ones, in the order written
        {'target': {'k': 'dict', 'od': False, 'id': 1, 'items': [['f', {'fn': ['rec']}], ['p', 1], ['q', 2]]},
         'ops': [['__getitem__', L('f')], ['call', {'call': [{'t': [['__getitem__', L('p')]]}], 'kw': [['k', {'t': [['__getitem__', L('q')]]}]]}]]},
        {'target': {'k': 'dict', 'od': False, 'id': 1, 'items': [['f', {'fn': ['rec']}]]},
         'ops': [['__getitem__', L('f')], ['call', {'call': [{'t': [['__getitem__', L('p')]]}], 'kw': [['k', {'t': [['__getitem__', L(9)]]}]]}]]},
        {'target': {'k': 'dict', 'od': False, 'id': 1, 'items': [['f', {'fn': ['rec']}], ['p', 1]]},
         'ops': [['__getitem__', L('f')], ['call', {'call': [{'t': [['__getitem__', L('p')]]}], 'kw': [['k', {'t': [['__getitem__', L('q1')]]}], ['j', {'t': [['__getattr__', L('q2')]]}]]}]]},
        {'target': {'k': 'dict', 'od': False, 'id': 1, 'items': [['f', {'fn': ['rec']}], ['l', {'k': 'list', 'id': 2, 'items': [1]}]]},
         'ops': [['__getitem__', L('f')], ['call', {'call': [], 'kw': [['j', {'t': [['__getitem__', L('l')]]}], ['k', L({'k': 'list', 'id': 0, 'items': [5]})]]}], ['__getitem__', L(1)], ['__getitem__', L('j')]]},
        # what is an argument literal: exactly list / dict / tuple / set objects are rebuilt; an OrderedDict instance is passed as it is
        {'target': {'fn': ['id']}, 'ops': [['call', {'call': [L({'k': 'dict', 'od': True, 'id': 4001, 'items': [['q', 1]]})]}]]},
        {'target': {'fn': ['id']}, 'ops': [['call', {'call': [L({'k': 'dict', 'od': False, 'id': 0, 'items': [['q', {'k': 'dict', 'od': True, 'id': 4002, 'items': []}]]})]}]]},
        {'target': {'fn': ['id']}, 'ops': [['call', {'call': [L({'k': 'list', 'id': 0, 'items': [{'k': 'dict', 'od': True, 'id': 4003, 'items': [['z', 2]]}, 5]})]}]]},
    ]


class Gen:
    def __init__(self, rng):
        self.rng = rng

    def target(self):
        r = self.rng
        tg = TargetGen(r)
        items = []
        used = set()
        for _ in range(r.randint(2, 5)):
            k = r.choice(['a', 'b', 'c', 'i', 'j', 'f', 's', 'k0'])
            if k in used:
                continue
            used.add(k)
            kind = r.random()
            if kind < 0.3:
                v = r.choice([0, 1, 2, 3, 5, 7, -3, 10, True, False])
            elif kind < 0.45:
                v = r.choice(['', 'a', 'hello', 'xy'])
            elif kind < 0.6:
                v = {'fn': r.choice([['inc'], ['dbl'], ['len'], ['const', 4], ['raise', 'ValueError'], ['raise', 'KeyError'], ['id'], ['addargs'], ['rec'], ['rec']])}
            elif kind < 0.8:
                v = {'k': r.choice(['list', 'tuple']), 'id': tg.fresh(), 'items': [r.choice([0, 1, 2, 5, 'a', 'b']) for _ in range(r.randint(0, 4))]}
                if v['k'] == 'tuple' and not v['items']:
                    v['id'] = 0
            else:
                v = tg.value(2)
            items.append([k, v])
        kind = r.random()
        if kind < 0.7:
            return {'k': 'dict', 'od': r.random() < 0.2, 'id': tg.fresh(), 'items': items}
        if kind < 0.85:
            attrs, seen = [], set()
            for k, v in items:
                k = k if k in ATTR_NAMES else 'e'
                if k not in seen:
                    seen.add(k)
                    attrs.append([k, v])
            return {'k': 'obj', 'id': tg.fresh(), 'cls': 0, 'attrs': attrs}
        if kind < 0.95:
            return {'k': 'list', 'id': tg.fresh(), 'items': [v for _, v in items]}
        return r.choice([0, 1, 7, -2, 'hello', None, True])

    def lit_arg(self, v):
        return {'lit': v}

    def nested(self, target_obj, want):
        """a nested T expression on the original target producing a value of python type `want`, or None"""
        r = self.rng
        cands = []
        if isinstance(target_obj, dict):
            for k, v in target_obj.items():
                if type(v) in want:
                    cands.append([['__getitem__', {'lit': k}]])
                if isinstance(v, (list, tuple)):
                    for i, x in enumerate(v):
                        if type(x) in want:
                            cands.append([['__getitem__', {'lit': k}], ['__getitem__', {'lit': i}]])
        elif isinstance(target_obj, (list, tuple)):
            for i, v in enumerate(target_obj):
                if type(v) in want:
                    cands.append([['__getitem__', {'lit': i}]])
        elif hasattr(target_obj, '__dict__'):
            for k, v in target_obj.__dict__.items():
                if type(v) in want:
                    cands.append([['__getattr__', {'lit': k}]])
        if type(target_obj) in want:
            cands.append([])
        if not cands:
            return None
        ops = r.choice(cands)
        if not ops:
            return None
        return {'t': ops}

    def pick(self, cur, tobj, valid):
        """one op (dunder, arg IR) given the current python value"""
        r = self.rng
        ints = [0, 1, 2, 3, -1, 5]
        if not valid:
            return r.choice([
                ['__getitem__', {'lit': r.choice(['zz', 9, -9, None])}],
                ['__getattr__', {'lit': r.choice(['zz', 'q'])}],
                ['__add__', {'lit': r.choice(['x', None, 1])}],
                ['__floordiv__', {'lit': 0}], ['__mod__', {'lit': 0}],
                ['__neg__', None], ['__invert__', None],
                ['call', {'call': [{'lit': 1}]}],
                ['__getitem__', {'slice': [None, None, 0]}],
                ['__mul__', {'lit': 'a'}],
            ])
        if isinstance(cur, bool) or type(cur) is int:
            op = r.choice(list(BIN) + list(UN))
            if op in UN:
                return [op, None]
            if op == '__pow__':
                return [op, {'lit': r.choice([0, 1, 2, 3])}]
            arg = None
            if r.random() < 0.3:
                arg = self.nested(tobj, (int, bool))
            if arg is None:
                arg = {'lit': r.choice(ints + [7, True]) if op not in ('__floordiv__', '__mod__', '__truediv__') else r.choice([1, 2, 3, -2, 5, 0])}
            return [op, arg]
        if isinstance(cur, str):
            c = r.random()
            if c < 0.3:
                return ['__add__', self.nested(tobj, (str,)) if r.random() < 0.3 and self.nested(tobj, (str,)) else {'lit': r.choice(['', 'z', 'ab'])}]
            if c < 0.5:
                return ['__mul__', {'lit': r.choice([0, 1, 2, 3])}]
            if c < 0.8:
                return ['__getitem__', {'lit': r.randrange(-len(cur) - 1, len(cur) + 1) if cur else 0}]
            return ['__getitem__', {'slice': self.slice3()}]
        if isinstance(cur, (list, tuple)):
            c = r.random()
            if c < 0.4:
                arg = None
                if r.random() < 0.3:
                    arg = self.nested(tobj, (int,))
                return ['__getitem__', arg or {'lit': r.randrange(-len(cur) - 1, len(cur) + 1) if cur else 0}]
            if c < 0.65:
                return ['__getitem__', {'slice': self.slice3()}]
            if c < 0.8:
                other = [r.choice([1, 2, 'a']) for _ in range(r.randint(0, 2))]
                k = 'list' if isinstance(cur, list) else 'tuple'
                return ['__add__', {'lit': {'k': k, 'id': 0, 'items': other}}]
            return ['__mul__', {'lit': r.choice([0, 1, 2])}]
        if isinstance(cur, dict):
            keys = list(cur.keys())
            if keys and r.random() < 0.9:
                k = r.choice(keys)
                if isinstance(k, (str, int, bool)) or k is None:
                    return ['__getitem__', {'lit': k}]
            return ['__getitem__', {'lit': 'zz'}]
        if callable(cur) and cur is fn_of(['rec']):
            # the recording callable takes anything: 0-2 positional and 0-2 keyword arguments, nested T expressions among them,
            # some of which fail (Python's order decides which failure is seen: positional left to right, then keywords)
            def one():
                x = r.random()
                if x < 0.45:
                    return self.nested(tobj, (int, str, list, tuple, dict)) or {'lit': 3}
                if x < 0.65:
                    return {'t': [['__getitem__', {'lit': r.choice(['zz', 'yy', 99])}]]}
                return {'lit': r.choice([1, 'ab', None, {'k': 'list', 'id': 0, 'items': [1, 2]}])}
            args = [one() for _ in range(r.randint(0, 2))]
            names = r.sample(['k', 'j', 'default'], r.randint(0, 2))
            return ['call', {'call': args, 'kw': [[n_, one()] for n_ in names]}]
        if callable(cur) and not isinstance(cur, type):
            n = 1
            args = []
            for _ in range(n):
                a = None
                if r.random() < 0.5:
                    a = self.nested(tobj, (int, str, list, tuple))
                args.append(a or {'lit': r.choice([1, 2, 4, 'ab', {'k': 'list', 'id': 0, 'items': [1, 2]},
                                                   # an instance of a dict SUBCLASS is not an argument literal: it is passed as it is
                                                   {'k': 'dict', 'od': True, 'id': 4000 + r.randint(1, 9), 'items': [['q', 1]]},
                                                   {'k': 'dict', 'od': True, 'id': 4000 + r.randint(1, 9), 'items': []}])})
            return ['call', {'call': args}]
        if hasattr(cur, '__dict__') and cur.__dict__:
            return ['__getattr__', {'lit': r.choice(list(cur.__dict__))}]
        return ['__getattr__', {'lit': 'a'}]

    def slice3(self):
        r = self.rng
        c = lambda: r.choice([None, None, 0, 1, 2, -1, -2, 3])  # noqa: E731
        return [c(), c(), r.choice([None, None, 1, 2, -1, -2, 0])]

    def case(self):
        r = self.rng
        tir = self.target()
        rl = Realiser()
        tobj = rl.build(tir)
        cur = tobj
        ops = []
        n = r.randint(1, 6)
        dead = False
        for _ in range(n):
            valid = (not dead) and r.random() < 0.82
            op = self.pick(cur, tobj, valid)
            ops.append(op)
            if not dead:
                try:
                    cur = apply_direct(cur, op, tobj, rl)
                    if isinstance(cur, float):
                        dead = True
                except Exception:
                    dead = True
        return {'target': tir, 'ops': ops}


def arg_direct(arg, tobj, rl):
    if arg is None:
        return None
    if 'lit' in arg:
        return rl.build(arg['lit']) if isinstance(arg['lit'], dict) else arg['lit']
    if 't' in arg:
        cur = tobj
        for op in arg['t']:
            cur = apply_direct(cur, op, tobj, rl)
        return cur
    if 'slice' in arg:
        return slice(*arg['slice'])
    if 'call' in arg:
        pos = [arg_direct(a, tobj, rl) for a in arg['call']]
        return pos, [(k, arg_direct(a, tobj, rl)) for k, a in arg.get('kw', [])]
    raise ValueError(arg)


def apply_direct(cur, op, tobj, rl):
    d, arg = op
    a = arg_direct(arg, tobj, rl)
    if d == '__getattr__':
        return getattr(cur, a)
    if d == '__getitem__':
        return cur[a]
    if d == 'call':
        return cur(*a[0], **dict(a[1]))
    if d in BIN:
        return BIN[d](cur, a)
    return UN[d](cur)


def kwcall_scenarios():
    """recorded calls that mix positional and KEYWORD arguments holding nested T expressions: like Python, the positional arguments
    are evaluated first, left to right, then the keyword arguments in the order written; (name, make_target, T expression, plain
    Python evaluation of the same call). Decided on the implementation side (the model's call step carries positional arguments only)."""
    from glom import T

    class Src:
        def __init__(self):
            self.items = ['a', 'b', 'c', 'd']

        def take(self):
            return self.items.pop(0)

        def pair(self, *a, **kw):
            return (a, sorted(kw.items()))
    f = lambda *a, **kw: (a, sorted(kw.items()))  # noqa: E731
    return [
        ('one positional, one keyword, both consuming', Src, T.pair(T.take(), second=T.take()), lambda t: t.pair(t.take(), second=t.take())),
        ('two positional, two keywords', Src, T.pair(T.take(), T.take(), y=T.take(), x=T.take()), lambda t: t.pair(t.take(), t.take(), y=t.take(), x=t.take())),
        ('keywords only', Src, T.pair(x=T.take(), y=T.take()), lambda t: t.pair(x=t.take(), y=t.take())),
        ('positional only', Src, T.pair(T.take(), T.take()), lambda t: t.pair(t.take(), t.take())),
        ('both fail: the positional one is reported', lambda: {'f': f}, T['f'](T['p'], key=T['q']), lambda t: t['f'](t['p'], key=t['q'])),
        ('both fail, two keywords: the first keyword is reported', lambda: {'f': f, 'p': 1}, T['f'](T['p'], k1=T['q1'], k2=T['q2']), lambda t: t['f'](t['p'], k1=t['q1'], k2=t['q2'])),
        ('positional fails after a consuming one', lambda: {'f': f, 'l': [1, 2]}, T['f'](T['l'].pop(), T['zz'], k=T['l'].pop()), None),
    ]


def run_kwcall(case):
    import glom
    name, mk, spec, direct = kwcall_scenarios()[case['i']]
    problems = []
    t1, t2 = mk(), mk()
    try:
        got = ('ok', glom.glom(t1, spec))
    except glom.PathAccessError as e:
        got = ('PathAccessError', repr(e.exc))
    except Exception as e:
        got = (type(e).__name__, repr(e))
    if direct is None:
        # the failing positional argument stops the evaluation before the keyword argument is touched
        if got[0] != 'PathAccessError' or "'zz'" not in got[1] or t1['l'] != [1]:
            problems.append('%s: %r, list left %r (one pop, then KeyError zz expected)' % (name, got, t1['l']))
        return {'problems': problems}
    try:
        want = ('ok', direct(t2))
    except (KeyError, IndexError, AttributeError) as e:
        want = ('PathAccessError', repr(e))
    if got != want:
        problems.append('%s: glom gives %r, the same call written in Python %r' % (name, got, want))
    return {'problems': problems}


def generate(rng, tier):
    g = Gen(rng)
    n = 1500 if tier == 'quick' else 15000
    return [{'kind': 'kwcall', 'i': i} for i in range(len(kwcall_scenarios()))] + [g.case() for _ in range(n)]


def build_t(ops, rl):
    import glom
    t = glom.T
    for d, arg in ops:
        if d == '__getattr__':
            t = getattr(t, arg['lit'])
        elif d == '__getitem__':
            t = t[build_arg(arg, rl)]
        elif d == 'call':
            t = t(*[build_arg(a, rl) for a in arg['call']], **{k: build_arg(a, rl) for k, a in arg.get('kw', [])})
        elif d in BIN:
            t = BIN[d](t, build_arg(arg, rl))
        else:
            t = UN[d](t)
    return t


def build_arg(arg, rl):
    if 'lit' in arg:
        return rl.build(arg['lit']) if isinstance(arg['lit'], dict) else arg['lit']
    if 't' in arg:
        return build_t(arg['t'], rl)
    if 'slice' in arg:
        return slice(*arg['slice'])
    raise ValueError(arg)


def run_impl(case):
    import glom
    if case.get('kind') == 'kwcall':
        return run_kwcall(case)
    r = Realiser()
    target = r.build(case['target'])
    spec = build_t(case['ops'], r)
    try:
        res = glom.glom(target, spec)
    except Exception as e:
        return exc_outcome(e)
    return {'ok': r.encode(res)}


def direct_oracle(case, out):
    """plain Python evaluation of the same chain must agree with glom (value), and a failure at operation k of kind
    attribute/item/arithmetic must be PathAccessError with part_idx k"""
    if case.get('kind') == 'kwcall':
        return '; '.join(out['problems']) if out.get('problems') else None
    r = Realiser()
    tobj = r.build(case['target'])
    cur = tobj
    for k, op in enumerate(case['ops']):
        try:
            cur = apply_direct(cur, op, tobj, r)
        except Exception as e:
            if 'raise' not in out:
                return 'python raised %s at op %d but glom returned a value' % (type(e).__name__, k)
            # argument evaluation failures (nested T) propagate as their own error: the FIRST failing argument in Python's
            # order (positional left to right, then keywords) is the one seen
            try:
                arg_direct(op[1], tobj, r)
            except Exception as e2:
                n2 = type(e2).__name__
                if (out['raise'] == 'PathAccessError' and out.get('inner') == n2) or out['raise'] == n2:
                    return None
                return 'argument of op %d (%s) failed with %s in python; glom: %s' % (k, op[0], n2, out)
            if op[0] != 'call':
                if out['raise'] != 'PathAccessError' or out.get('part_idx') != k or out.get('inner') != type(e).__name__:
                    return 'op %d (%s) failed with %s in python; glom: %s' % (k, op[0], type(e).__name__, out)
            else:
                if out['raise'] != type(e).__name__:
                    return 'call failed with %s in python; glom: %s' % (type(e).__name__, out)
            return None
    if 'raise' in out:
        return 'python evaluated the chain but glom raised %s' % out
    try:
        enc = r.encode(cur)
    except Exception:
        return None
    if _strip(enc) != _strip(out['ok']):
        return 'python value %r differs from glom value %r' % (enc, out['ok'])
    return None


def _strip(ir):
    """forget labels of containers (rebuilt literal arguments get fresh identities in glom)"""
    if isinstance(ir, dict) and 'k' in ir:
        d = dict(ir)
        d['id'] = 0
        for f in ('items', 'attrs'):
            if f in d:
                d[f] = [_strip(x) if not isinstance(x, list) else [_strip(y) for y in x] for x in d[f]]
        return d
    return ir


def arg_coq(arg):
    if arg is None:
        return 'ANoArg'
    if 'lit' in arg:
        return '(ALit %s)' % val_coq(arg['lit'])
    if 't' in arg:
        return '(AT %s)' % ops_coq(arg['t'])
    if 'slice' in arg:
        a, b, c = arg['slice']
        return '(ASlice %s %s %s)' % (copt(a, cz), copt(b, cz), copt(c, cz))
    if 'call' in arg:
        return '(ACall %s %s)' % (clist(arg_coq(a) for a in arg['call']), clist('(%s, %s)' % (cstr(k), arg_coq(a)) for k, a in arg.get('kw', [])))
    raise ValueError(arg)


def ops_coq(ops):
    return clist('(%s, %s)' % (cstr(d), arg_coq(a)) for d, a in ops)


def coq_case(case, out):
    if case.get('kind') == 'kwcall':
        return '(mkC02 %s %s %s)' % (val_coq(0), ops_coq([]), res_coq({'ok': 0}))
    if 'harness_error' in out or 'harness_timeout' in out:
        impl = '(Unmodelled "harness")'
    else:
        try:
            impl = res_coq(out)
        except Unrepresentable:
            impl = '(Unmodelled "opaque")'
    return '(mkC02 %s %s %s)' % (val_coq(case['target']), ops_coq(case['ops']), impl)


def model_dump_term(case):
    c = coq_case(case, {'ok': None})
    return '(c02_model %s, c02_spec %s)' % (c, c)


def nontrivial(case, out):
    if case.get('kind') == 'kwcall':
        return True
    kinds = set(d for d, _ in case['ops'])
    if 'raise' in out:
        return out.get('part_idx', 0) >= 1
    return len(case['ops']) >= 3 and len(kinds) >= 2


def classify(case, out):
    if case.get('kind') == 'kwcall':
        return 'kwcall:%d' % case['i']
    if 'raise' in out:
        return 'raise:%s/%s' % (out['raise'], out.get('inner'))
    if 'ok' in out:
        return 'ok:len%d' % len(case['ops'])
    return 'harness'


def python_snippet(case):
    return ('import sys; sys.path.insert(0, "/verif/harness"); sys.path.insert(0, "/repo")\n'
            'import props.c02 as p; print(p.run_impl(%r))' % (case,))


def shrink(case, still_fails):
    if case.get('kind') == 'kwcall':
        return case
    cur = case
    changed = True
    while changed:
        changed = False
        for i in range(len(cur['ops']) - 1, 0, -1):
            c2 = dict(cur, ops=cur['ops'][:i])
            if still_fails(c2):
                cur, changed = c2, True
                break
    return cur
