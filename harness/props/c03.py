"""C03 — auto-mode restructuring is compositional in its sub-specs."""
import pyspec
from lib import cstr, clist
from pyval import val_coq, res_coq, Unrepresentable
from specgen import SpecGen

ID = 'C03'
PROPERTY_FILE = 'Properties/C03'
MODEL_FILES = ['Model/Interp', 'Corr/Interp']
GENERATED_DEPS = []
COQ_HEADER = ('From Coq Require Import String ZArith List.\nImport ListNotations.\n'
              'From Glom Require Import Base.PyVal Model.TEval Model.Interp Corr.Interp.\nLocal Open Scope string_scope.\n')
CHECK_FN = 'i_check'
UNMODELLED_FN = 'i_unmodelled'
RULE = ('spec trees of depth <= 4 over {str path, T, dict (incl. OrderedDict and T/Spec keys), list, tuple, Pipe, callable, Val, '
        'Spec, Coalesce(+default/skip/skip_exc), Call, Invoke, Ref} generated FROM the target (type-directed: most accesses succeed, '
        '12% planted misses), SKIP/STOP-producing values and callables at every position, logging probes interleaved; observed: '
        'result (identity-preserving encoding) or exception class, and the probe call log (order and count). '
        'Non-trivial: >= 3 distinct spec forms, or a SKIP/STOP that changes the result, or >= 2 probe calls.')
ASSUMPTIONS = ['callables come from a fixed catalogue with Coq twins; Inspect is excluded (I/O)',
               'wildcard path segments are C14\'s; T arithmetic is C02\'s']
SHARD = 300


def corpus():
    t = {'k': 'dict', 'od': False, 'id': 1, 'items': [['a', {'k': 'dict', 'od': False, 'id': 2, 'items': [['b', 'c']]}],
                                                      ['l', {'k': 'list', 'id': 3, 'items': [1, 2, 3, -1, 4]}]]}
    P = lambda n: ['Fn', ['probe', n]]  # noqa: E731
    return [
        {'target': t, 'spec': ['Tuple', [['Str', 'a'], ['Str', 'b']]]},
        {'target': t, 'spec': ['Dict', False, [[['Str', 'x'], ['Str', 'a.b']], [['Str', 'y'], ['Tuple', [['Str', 'l'], ['List', [['Fn', ['skip_if_odd']]]]]]]]]},
        {'target': t, 'spec': ['Tuple', [['Str', 'l'], ['List', [['Fn', ['stop_if_neg']]]]]]},
        {'target': t, 'spec': ['Coalesce', [['Tuple', [['Str', 'zz'], P(1)]], ['Tuple', [['Str', 'a'], P(2)]], ['Tuple', [['Str', 'l'], P(3)]]], None, None, None, None]},
        {'target': t, 'spec': ['Tuple', [['Fill', ['T', 'T', []]], ['Str', 'a']]]},
        {'target': t, 'spec': ['Tuple', [P(1), ['Val', {'sent': 'SKIP'}], P(2), ['Val', {'sent': 'STOP'}], P(3)]]},
        {'target': t, 'spec': ['Call', ['Fn', ['addargs']], [['Lit', 1], ['T', 'T', [['[', ['Str', 'l']], ['[', ['Lit', 1]]]]]]},
        {'target': t, 'spec': ['Dict', False, [[['T', 'T', [['[', ['Str', 'a']], ['[', ['Str', 'b']]]], ['Str', 'l.0']]]]},
        {'target': t, 'spec': ['Ref', 'r', ['Tuple', [['Str', 'a'], ['Fn', ['id']]]]]},
        {'target': t, 'spec': ['Invoke', ['Fn', ['len']], [[True, [['Str', 'l']]]]]},
        # keyword parts: a name given again later is evaluated only there; star dicts are spliced in where they stand
        {'target': t, 'spec': ['Invoke', ['Fn', ['rec']], [['S', [['Tuple', [['Fn', ['probe', 1]], ['Val', 1]]]], [['a', ['Tuple', [['Fn', ['probe', 2]], ['Val', 2]]]]]],
                                                             ['C', [['Lit', 10]], [['b', ['Lit', 'cb']]]],
                                                             ['S', [], [['a', ['Tuple', [['Fn', ['probe', 3]], ['Val', 3]]]]]]]]},
        {'target': t, 'spec': ['Invoke', ['Fn', ['rec']], [['C', [], [['a', ['Lit', 'ca']]]],
                                                             ['*', [['Val', {'k': 'list', 'id': 0, 'items': [5, 6]}]], [['', ['Val', {'k': 'dict', 'od': False, 'id': 0, 'items': [['a', 'sa'], ['b', 'sb']]}]]]],
                                                             ['S', [['T', 'T', []]], [['b', ['Val', 4]]]]]]},
        {'target': t, 'spec': ['Call', ['Fn', ['rec']], [['Lit', 1]], [['a', ['Spec', ['Tuple', [['Fn', ['probe', 1]], ['T', 'T', []]]], []]], ['b', ['Lit', 7]]]]},
        # star parts whose spec is FALSY as a Python object (the empty chain) but evaluates to a non-empty mapping / sequence
        {'target': {'k': 'dict', 'od': False, 'id': 1, 'items': [['x', 1], ['y', 2]]},
         'spec': ['Invoke', ['Fn', ['rec']], [['*', [], [['', ['Tuple', []]]]]]]},
        {'target': {'k': 'dict', 'od': False, 'id': 1, 'items': [['x', 1], ['y', 2]]},
         'spec': ['Invoke', ['Fn', ['rec']], [['C', [['Lit', 7]], [['x', ['Lit', 'cx']]]], ['*', [], [['', ['Tuple', []]]]]]]},
        {'target': {'k': 'list', 'id': 1, 'items': [4, 5]},
         'spec': ['Invoke', ['Fn', ['rec']], [['*', [['Tuple', []]], []]]]},
        {'target': {'k': 'list', 'id': 1, 'items': [{'k': 'dict', 'od': False, 'id': 2, 'items': [['a', 1]]}, {'k': 'dict', 'od': False, 'id': 3, 'items': [['b', 2]]}]},
         'spec': ['List', [['Invoke', ['Fn', ['rec']], [['*', [], [['', ['Tuple', []]]]]]]]]},
    ]


def generate(rng, tier):
    n = 1500 if tier == 'quick' else 12000
    out = []
    for _ in range(n):
        g = SpecGen(rng)
        t = g.target(rng.choice([2, 3, 3]))
        out.append({'target': t, 'spec': g.spec(t, rng.choice([1, 2, 3, 3, 4]))})
    return out


def run_impl(case):
    return pyspec.run_glom(case)


def coq_case(case, out):
    if 'harness_error' in out or 'harness_timeout' in out:
        return '(mkI VNone (SRequired SM) [] (Unmodelled "harness") [])'
    try:
        impl = res_coq(out)
        log = pyspec.log_coq(out.get('log', []))
    except Unrepresentable:
        impl, log = '(Unmodelled "opaque")', '[]'
    scope = clist('(%s, %s)' % (cstr(k), val_coq(v)) for k, v in case.get('scope', []))
    return '(mkI %s %s %s %s %s)' % (val_coq(case['target']), pyspec.spec_coq(case['spec']), scope, impl, log)


def model_dump_term(case):
    c = coq_case(case, {'ok': None, 'log': []})
    return '(fst (i_model %s), log (snd (i_model %s)))' % (c, c)


def _forms(ir, acc):
    if isinstance(ir, list) and ir and isinstance(ir[0], str):
        acc.add(ir[0])
        for x in ir[1:]:
            _forms(x, acc)
    elif isinstance(ir, list):
        for x in ir:
            _forms(x, acc)
    return acc


def nontrivial(case, out):
    forms = _forms(case['spec'], set()) - {'Str', 'Lit', 'Fn'}
    return len(forms) >= 3 or len(out.get('log', [])) >= 2


def classify(case, out):
    if 'raise' in out:
        return 'raise:%s' % out['raise']
    if 'ok' in out:
        return 'ok:%s' % case['spec'][0]
    return 'harness'


def python_snippet(case):
    return ('import sys; sys.path.insert(0, "/verif/harness"); sys.path.insert(0, "/repo")\n'
            'import pyspec; print(pyspec.run_glom(%r))' % (case,))
